package main

import (
	"fmt"
	"sort"
	"strings"

	"golang.org/x/tools/go/ssa"
)

func init() {
	register(&PropSpec{
		ID:        "C15",
		Pkgs:      []string{"./pkg/db/meta"},
		Technique: "static analysis: who-may-encode confinement of runtime-meta rows + SSA edge-dominance guards on the resolver's Applied/Stale/Conflict returns + clamp-or-guard cut analysis, store frame conditions and a false-only-behind-equality table for runtimeRouteChanged",
		Explain:   "Decides the structural premises of 'stored channel runtime metadata only moves forward': (R1) a ChannelRuntimeMeta row is encoded for writing only in seven enumerated functions, and there the written value is the resolver's result behind result∉{IgnoredStale,Conflict}, a create behind !exists, the guarded retention advance (req > stored, epochs/leader/lease equal, only the two retention fields and RouteGeneration=next(old) are changed), bumpRuntimeRoute(stored, normalize(mutate())) for migrations, or DirectoryGeneration+1 behind != MaxUint64; (R2) resolveMonotonicChannelRuntimeMeta returns Applied for an existing row only behind ChannelEpoch>=, (ChannelEpoch> or LeaderEpoch>=), (either strict arm or same Leader), an unshortened or clamped lease, a not-older explicit RouteGeneration, and after preserveRuntimeMetaState then bumpRuntimeRoute; Stale/Conflict returns hand back `existing`; the resolver, normalize, preserve and bump store only the fields they are entitled to; (R3) preserveRuntimeMetaState clamps DirectoryGeneration, RetentionThroughSeq and WriteFenceVersion (fence fields as one group) on every path, bumpRuntimeRoute returns a RouteGeneration >= the stored one and strictly greater (saturating +1) whenever runtimeRouteChanged; monotone-store discipline for the epoch/fence/generation fields in the package; (R4) runtimeRouteChanged can return false only behind equality of all 14 route fields named by the property. NOT decided: the numeric claim over arbitrary upsert sequences (the per-step premises are decided, their composition is argued not executed), raw key writes by snapshot import/restore, saturation at MaxUint64, that Pebble applies the staged batch atomically.",
		Run:       c15,
		Mutants: []Mutant{
			{Name: "resolve-channel-epoch-nonstale", File: "pkg/db/meta/table_runtime_meta.go", Old: "case candidate.ChannelEpoch < existing.ChannelEpoch:\n\t\treturn existing, MonotonicIgnoredStale", New: "case candidate.ChannelEpoch+1 < existing.ChannelEpoch:\n\t\treturn existing, MonotonicIgnoredStale", Expect: "C15/R2-resolve*"},
			{Name: "resolve-leader-epoch-dropped", File: "pkg/db/meta/table_runtime_meta.go", Old: "\tcase candidate.LeaderEpoch < existing.LeaderEpoch:\n\t\treturn existing, MonotonicIgnoredStale\n", New: "", Expect: "C15/R2-resolve*"},
			{Name: "resolve-leader-conflict-dropped", File: "pkg/db/meta/table_runtime_meta.go", Old: "\tcase candidate.Leader != existing.Leader:\n\t\treturn existing, MonotonicConflict\n", New: "", Expect: "C15/R2-resolve*"},
			{Name: "resolve-lease-clamp-dropped", File: "pkg/db/meta/table_runtime_meta.go", Old: "\tif candidate.LeaseUntilMS < existing.LeaseUntilMS {\n\t\tcandidate.LeaseUntilMS = existing.LeaseUntilMS\n\t}\n", New: "", Expect: "C15/R2-lease*"},
			{Name: "resolve-preserve-skipped-on-leader-epoch-arm", File: "pkg/db/meta/table_runtime_meta.go", Old: "\tcase candidate.LeaderEpoch > existing.LeaderEpoch:\n\t\tpreserveRuntimeMetaState(existing, &candidate)\n", New: "\tcase candidate.LeaderEpoch > existing.LeaderEpoch:\n", Expect: "C15/R2-resolve*"},
			{Name: "preserve-fence-strict", File: "pkg/db/meta/table_runtime_meta.go", Old: "if candidate.WriteFenceVersion <= existing.WriteFenceVersion {\n\t\tcandidate.WriteFenceToken = existing.WriteFenceToken\n\t\tcandidate.WriteFenceVersion = existing.WriteFenceVersion", New: "if candidate.WriteFenceVersion <= existing.WriteFenceVersion {\n\t\tcandidate.WriteFenceToken = existing.WriteFenceToken", Expect: "C15/R3-preserve*"},
			{Name: "preserve-retention-dropped", File: "pkg/db/meta/table_runtime_meta.go", Old: "if candidate.RetentionThroughSeq < existing.RetentionThroughSeq ||", New: "if candidate.RetentionThroughSeq+1 < existing.RetentionThroughSeq ||", Expect: "C15/R3-preserve*"},
			{Name: "bump-nonstrict", File: "pkg/db/meta/table_runtime_meta.go", Old: "runtimeRouteChanged(existing, candidate) && candidate.RouteGeneration <= existing.RouteGeneration {", New: "runtimeRouteChanged(existing, candidate) && candidate.RouteGeneration < existing.RouteGeneration {", Expect: "C15/R3-bump*"},
			{Name: "changed-forgets-lease", File: "pkg/db/meta/table_runtime_meta.go", Old: "\t\ta.LeaseUntilMS != b.LeaseUntilMS ||\n", New: "", Expect: "C15/R4-changed*"},
			{Name: "changed-forgets-isr", File: "pkg/db/meta/table_runtime_meta.go", Old: "\t\t!slices.Equal(a.ISR, b.ISR) ||\n", New: "", Expect: "C15/R4-changed*"},
			{Name: "upsert-writes-on-conflict", File: "pkg/db/meta/table_runtime_meta.go", Old: "\tif result == MonotonicConflict {\n\t\treturn result, dberrors.ErrConflict\n\t}\n", New: "", Expect: "C15/R1-upsert*"},
			{Name: "batch-upsert-writes-stale", File: "pkg/db/meta/batch.go", Old: "\t\tcase MonotonicIgnoredStale:\n\t\t\treturn nil\n", New: "", Expect: "C15/R1-upsert*"},
			{Name: "create-overwrites-existing", File: "pkg/db/meta/batch.go", Old: "\t\tif exists {\n\t\t\treturn nil\n\t\t}\n\t\tvalue, err := channelRuntimeMetaTable.encodeValue(key, staged)", New: "\t\t_ = exists\n\t\tvalue, err := channelRuntimeMetaTable.encodeValue(key, staged)", Expect: "C15/R1-create*"},
			{Name: "advance-retention-nonstrict-regress", File: "pkg/db/meta/compat.go", Old: "if req.RetentionThroughSeq <= existing.RetentionThroughSeq {\n\t\t\treturn nil\n\t\t}", New: "if req.RetentionThroughSeq == existing.RetentionThroughSeq {\n\t\t\treturn nil\n\t\t}", Expect: "C15/R1-advance*"},
			{Name: "advance-forgets-route-generation", File: "pkg/db/meta/table_runtime_meta.go", Old: "\tnext.RouteGeneration = nextChannelRouteGeneration(existing.RouteGeneration)\n\n\tbatch := s.db.engine.NewBatch()", New: "\n\tbatch := s.db.engine.NewBatch()", Expect: "C15/R1-advance*"},
			{Name: "advance-lease-check-dropped", File: "pkg/db/meta/table_runtime_meta.go", Old: "\t\texisting.Leader != req.ExpectedLeader ||\n\t\texisting.LeaseUntilMS != req.ExpectedLeaseUntilMS {\n\t\treturn dberrors.ErrConflict\n\t}\n\tif req.RetentionThroughSeq", New: "\t\texisting.Leader != req.ExpectedLeader {\n\t\treturn dberrors.ErrConflict\n\t}\n\tif req.RetentionThroughSeq", Expect: "C15/R1-advance*"},
			{Name: "new-raw-writer", File: "pkg/db/meta/table_runtime_meta.go", Old: "func channelRuntimeMetaPrimaryKey(channelID string, channelType int64) KeyParts {", New: "func (s *Shard) forceChannelRuntimeMeta(key []byte, meta ChannelRuntimeMeta) ([]byte, error) {\n\treturn channelRuntimeMetaTable.encodeValue(key, meta)\n}\n\nfunc channelRuntimeMetaPrimaryKey(channelID string, channelType int64) KeyParts {", Expect: "C15/R1-writers*"},
			{Name: "migration-skips-route-bump", File: "pkg/db/meta/compat.go", Old: "\t\tnextMeta = bumpRuntimeRoute(meta, nextMeta, true)\n", New: "", Expect: "C15/R1-migration*"},
			{Name: "set-fence-version-from-request", File: "pkg/db/meta/compat.go", Old: "\t\tnextMeta.WriteFenceVersion = meta.WriteFenceVersion + 1\n", New: "\t\tnextMeta.WriteFenceVersion = req.RuntimeGuard.ExpectedFenceVersion\n", Expect: "C15/R3-mono*"},
			{Name: "leader-transfer-epoch-nonstrict", File: "pkg/db/meta/compat.go", Old: "req.NextLeaderEpoch <= meta.LeaderEpoch {", New: "req.NextLeaderEpoch < meta.LeaderEpoch {", Expect: "C15/R3-mono*"},
			{Name: "abort-epoch-decrement", File: "pkg/db/meta/compat.go", Old: "\t\t\tnextMeta.Replicas = removeUint64Member(nextMeta.Replicas, task.TargetNode)\n\t\t\tnextMeta.ChannelEpoch++", New: "\t\t\tnextMeta.Replicas = removeUint64Member(nextMeta.Replicas, task.TargetNode)\n\t\t\tnextMeta.ChannelEpoch--", Expect: "C15/R3-mono*"},
			{Name: "directory-generation-wraps", File: "pkg/db/meta/table_channel.go", Old: "\t\t\t\t\tif runtimeMeta.DirectoryGeneration == ^uint64(0) {\n\t\t\t\t\t\treturn dberrors.ErrConflict\n\t\t\t\t\t}\n", New: "", Expect: "C15/R1-delete*"},
		},
	})
}

const (
	c15Pkg     = "pkg/db/meta."
	c15Row     = "pkg/db/meta.ChannelRuntimeMeta"
	c15Table   = "pkg/db/meta.channelRuntimeMetaTable"
	c15Encode  = "pkg/db/meta.Table.encodeValue(pkg/db/meta.channelRuntimeMetaTable, *"
	c15Resolve = "pkg/db/meta.resolveMonotonicChannelRuntimeMeta"
	c15Next    = "pkg/db/meta.nextChannelRouteGeneration"
)

func c15(c *Ctx) {
	// ---------------------------------------------------------------- R1: who encodes a row for writing
	writers := []string{
		c15Pkg + "Shard.UpsertChannelRuntimeMeta",
		c15Pkg + "Batch.UpsertChannelRuntimeMeta$1",
		c15Pkg + "Batch.CreateChannelRuntimeMeta$1",
		c15Pkg + "Shard.AdvanceChannelRetentionThroughSeq",
		c15Pkg + "WriteBatch.AdvanceChannelRetentionThroughSeq$1",
		c15Pkg + "WriteBatch.stageChannelMigrationTaskAndMeta$1",
		c15Pkg + "Batch.DeleteChannel$1",
	}
	c.c15ConfineRender("R1-writers", c15Encode, 7, writers...)
	c.ConfineCalls("R1-writers", c15Pkg+"encodeChannelRuntimeMetaValue", 1, c15Pkg+"init*")
	c.c15ReceiverMethods("R1-writers", c15Table, 8,
		c15Pkg+"Table.encodeValue", c15Pkg+"Table.decodeValue", c15Pkg+"Table.Get", c15Pkg+"Table.ScanPrimary", c15Pkg+"Table.Schema")

	enc := CallTo{c15Encode}
	for _, name := range writers[:2] {
		fn := c.Fn(name)
		c.CallShape("R1-upsert", fn, c15Pkg+"Table.encodeValue", c15Encode+", "+c15Resolve+"(*)#0)")
		c.CallShape("R1-upsert", fn, c15Resolve, c15Resolve+"(*#0, *#1, meta)")
		c.Guard("R1-upsert", fn, enc,
			c15Resolve+"(*)#1 != 2 || "+c15Resolve+"(*)#1 == 1",
			c15Resolve+"(*)#1 != 3 || "+c15Resolve+"(*)#1 == 1")
	}
	c.Guard("R1-upsert", c.Fn(writers[0]), CallTo{c15Resolve}, c15Pkg+"validateChannelRuntimeMeta(meta) == nil")
	c.Guard("R1-upsert", c.Fn(c15Pkg+"Batch.UpsertChannelRuntimeMeta"), CallTo{c15Pkg + "Batch.addOp"}, c15Pkg+"validateChannelRuntimeMeta(meta) == nil")

	c.Guard("R1-create", c.Fn(writers[2]), enc, "!"+c15Pkg+"batchCommitState.loadRuntimeMeta(*)#1")
	c.Guard("R1-create", c.Fn(writers[2]), CallTo{"pkg/db/internal/engine.Batch.Set"}, "!"+c15Pkg+"batchCommitState.loadRuntimeMeta(*)#1")

	for _, name := range writers[3:5] {
		c.c15Advance("R1-advance", c.Fn(name))
	}

	mig := c.Fn(writers[5])
	c.CallShape("R1-migration", mig, c15Pkg+"Table.encodeValue",
		c15Encode+", "+c15Pkg+"bumpRuntimeRoute("+c15Pkg+"batchCommitState.loadRuntimeMeta(*)#0, "+c15Pkg+"normalizeChannelRuntimeMeta(dyn:mutate(*)#1), true))")
	c.Guard("R1-migration", mig, enc, c15Pkg+"batchCommitState.loadRuntimeMeta(*)#1 == true", c15Pkg+"validateChannelRuntimeMeta("+c15Pkg+"bumpRuntimeRoute(*)) == nil")

	del := c.Fn(writers[6])
	c.Guard("R1-delete", del, enc, "*.DirectoryGeneration != 18446744073709551615", c15Pkg+"batchCommitState.loadRuntimeMeta(*)#1 == true")
	c.c15FieldStores("R1-delete", del, c15Row, []string{c15Pkg + "batchCommitState.loadRuntimeMeta(*)#0"}, map[string][]string{"DirectoryGeneration": {"(*.DirectoryGeneration + 1)"}})

	// ---------------------------------------------------------------- R2: the resolver
	res := c.Fn(c15Resolve)
	applied := Ret{1, "1"}
	c.Guard("R2-resolve", res, applied,
		"!exists || candidate.ChannelEpoch >= *.ChannelEpoch",
		"!exists || candidate.ChannelEpoch > *.ChannelEpoch || candidate.LeaderEpoch >= *.LeaderEpoch",
		"!exists || candidate.ChannelEpoch > *.ChannelEpoch || candidate.LeaderEpoch > *.LeaderEpoch || candidate.Leader == *.Leader",
		"!exists || candidate.RouteGeneration == 0 || candidate.RouteGeneration >= existing.RouteGeneration",
		"!exists || after: "+c15Pkg+"preserveRuntimeMetaState(existing, candidate)",
		"!exists || after: "+c15Pkg+"bumpRuntimeRoute(existing, candidate, *)",
	)
	c.Guard("R2-resolve", res, CallTo{c15Pkg + "bumpRuntimeRoute"}, "after: "+c15Pkg+"preserveRuntimeMetaState(existing, candidate)")
	c.Guard("R2-resolve", res, Ret{0, "candidate"}, "!exists")
	c.Guard("R2-resolve", res, Ret{1, "3"}, "candidate.Leader != *.Leader")
	c.Guard("R2-resolve", res, Ret{1, "2"},
		"candidate.RouteGeneration < existing.RouteGeneration || candidate.ChannelEpoch < *.ChannelEpoch || candidate.LeaderEpoch < *.LeaderEpoch")
	c.c15RetShapes("R2-resolve", res, "applied⇒candidate|bump(existing,candidate); stale/conflict⇒existing", func(r []string) string {
		if len(r) != 2 {
			return "unexpected arity"
		}
		switch r[1] {
		case "1":
			if r[0] == "candidate" || glob(c15Pkg+"bumpRuntimeRoute(existing, candidate, *)", r[0]) {
				return ""
			}
			return "Applied returns " + r[0]
		case "2", "3":
			if r[0] == "existing" {
				return ""
			}
			return "Stale/Conflict returns " + r[0] + " instead of the stored row"
		}
		return "result code " + r[1] + " is not a MonotonicResult constant"
	})
	// the lease of a same-epoch write is clamped up (or already >=) before Applied
	c.c15Behind("R2-lease", res, applied,
		"!exists || candidate.ChannelEpoch > *.ChannelEpoch || candidate.LeaderEpoch > *.LeaderEpoch || candidate.LeaseUntilMS >= *.LeaseUntilMS",
		false, StoreTo{"candidate.LeaseUntilMS", "*.LeaseUntilMS"})
	// frame conditions: what the resolver and its helpers may store
	c.c15FieldStores("R2-frame", res, c15Row,
		[]string{"candidate", "existing", c15Pkg + "normalizeChannelRuntimeMeta(candidate)", c15Pkg + "normalizeChannelRuntimeMeta(existing)"},
		map[string][]string{"LeaseUntilMS": {"*.LeaseUntilMS"}})
	norm := c.Fn(c15Pkg + "normalizeChannelRuntimeMeta")
	c.c15FieldStores("R2-frame", norm, c15Row, []string{"meta"}, map[string][]string{
		"Replicas": {c15Pkg + "normalizeUint64Set(meta.Replicas)"}, "ISR": {c15Pkg + "normalizeUint64Set(meta.ISR)"},
		"RouteGeneration": {c15Pkg + "maxUint64(*)"}, "DirectoryGeneration": {"1"}})
	c.Guard("R2-frame", norm, StoreTo{Addr: "meta.RouteGeneration"}, "meta.RouteGeneration == 0")
	c.Guard("R2-frame", norm, StoreTo{Addr: "meta.DirectoryGeneration"}, "meta.DirectoryGeneration == 0")
	c.c15RetShapes("R2-frame", norm, "returns meta", func(r []string) string {
		if len(r) == 1 && r[0] == "meta" {
			return ""
		}
		return "returns " + strings.Join(r, ", ")
	})

	// ---------------------------------------------------------------- R3: clamp-ups and the generation bump
	pres := c.Fn(c15Pkg + "preserveRuntimeMetaState")
	for _, f := range []string{"DirectoryGeneration", "RetentionThroughSeq", "WriteFenceVersion"} {
		c.c15Behind("R3-preserve", pres, AnyRet{}, "candidate."+f+" >= existing."+f, true, StoreTo{"candidate." + f, "existing." + f})
	}
	same := map[string][]string{}
	for _, f := range []string{"DirectoryGeneration", "RetentionThroughSeq", "RetentionUpdatedAtMS", "WriteFenceToken", "WriteFenceVersion", "WriteFenceReason", "WriteFenceUntilMS"} {
		same[f] = []string{"existing." + f}
	}
	c.c15FieldStores("R3-preserve", pres, c15Row, []string{"existing"}, same)
	c.c15StoreGroup("R3-preserve", pres, "candidate.", []string{"WriteFenceToken", "WriteFenceVersion", "WriteFenceReason", "WriteFenceUntilMS"})
	c.c15StoreGroup("R3-preserve", pres, "candidate.", []string{"RetentionThroughSeq", "RetentionUpdatedAtMS"})

	bump := c.Fn(c15Pkg + "bumpRuntimeRoute")
	nextVal := c15Next + "(existing.RouteGeneration)"
	c.c15Behind("R3-bump", bump, AnyRet{}, "candidateHadRouteGeneration || candidate.RouteGeneration >= existing.RouteGeneration", true,
		StoreTo{"candidate.RouteGeneration", "existing.RouteGeneration"}, StoreTo{"candidate.RouteGeneration", nextVal})
	c.c15Behind("R3-bump", bump, AnyRet{}, "!"+c15Pkg+"runtimeRouteChanged(existing, candidate) || candidate.RouteGeneration > existing.RouteGeneration", true,
		StoreTo{"candidate.RouteGeneration", nextVal})
	c.c15FieldStores("R3-bump", bump, c15Row, []string{"candidate", "existing"}, map[string][]string{"RouteGeneration": {"existing.RouteGeneration", nextVal}})
	c.c15RetShapes("R3-bump", bump, "returns candidate", func(r []string) string {
		if len(r) == 1 && r[0] == "candidate" {
			return ""
		}
		return "returns " + strings.Join(r, ", ")
	})
	nx := c.Fn(c15Next)
	c.Guard("R3-bump", nx, Ret{0, "current"}, "current == 18446744073709551615")
	c.c15RetShapes("R3-bump", nx, "returns current+1 or saturated current", func(r []string) string {
		if len(r) == 1 && (r[0] == "current" || r[0] == "(current + 1)") {
			return ""
		}
		return "returns " + strings.Join(r, ", ")
	})

	// monotone-store discipline for the counters, module-wide (literal initialisation excluded)
	decode := map[string]string{
		c15Pkg + "decodeRuntimeMetaColumn": "decode of a stored row (value comes from disk)",
	}
	monoOpts := map[string]MonoOpts{
		"ChannelEpoch":        {},
		"LeaderEpoch":         {AlsoGuards: []string{"req.NextLeaderEpoch > meta.LeaderEpoch"}},
		"WriteFenceVersion":   {ValueOK: []string{"(meta.WriteFenceVersion + 1)"}},
		"DirectoryGeneration": {AlsoGuards: []string{"meta.DirectoryGeneration == 0"}},
		"RouteGeneration":     {AlsoGuards: []string{"meta.RouteGeneration == 0"}, ValueOK: []string{c15Next + "(*.RouteGeneration)"}},
		"RetentionThroughSeq": {AlsoGuards: []string{"req.RetentionThroughSeq > *.RetentionThroughSeq"}},
	}
	for _, f := range []string{"ChannelEpoch", "LeaderEpoch", "WriteFenceVersion", "DirectoryGeneration", "RouteGeneration", "RetentionThroughSeq"} {
		o := monoOpts[f]
		o.Resets = decode
		o.LiteralsToo = true // rows are mostly mutated through local copies (next := existing; next.F = …)
		o.Scope = []string{"pkg/db/meta.*"}
		c.Mono("R3-mono", c15Row+"."+f, o)
	}

	// ---------------------------------------------------------------- R4: the change detector
	chg := c.Fn(c15Pkg + "runtimeRouteChanged")
	var eq []string
	for _, f := range []string{"ChannelEpoch", "LeaderEpoch", "Leader", "MinISR", "Status", "LeaseUntilMS", "RetentionThroughSeq", "RetentionUpdatedAtMS",
		"WriteFenceToken", "WriteFenceVersion", "WriteFenceReason", "WriteFenceUntilMS"} {
		eq = append(eq, "a."+f+" == b."+f)
	}
	eq = append(eq, "slices.Equal(a.Replicas, b.Replicas) == true", "slices.Equal(a.ISR, b.ISR) == true")
	c.c15FalseOnly("R4-changed", chg, 0, eq...)
	c.Cover("R4-changed", []*ssa.Function{chg}, c15Row, map[string]string{
		"ChannelID": "row key, equal by construction", "ChannelType": "row key, equal by construction",
		"RouteGeneration":     "the generation is the output of the bump, not an input",
		"Features":            "not in the property's list of route-defining fields",
		"DirectoryGeneration": "person-directory incarnation fence, not part of the route (own clamp in preserveRuntimeMetaState)",
	})

	c.Min("R1-writers", 3)
	c.Min("R1-upsert", 10)
	c.Min("R1-advance", 16)
	c.Min("R2-resolve", 11)
	c.Min("R3-preserve", 6)
	c.Min("R3-bump", 6)
	c.Min("R3-mono", 25)
	c.Min("R4-changed", 15)
}

// ---------------------------------------------------------------------------
// helpers (shared with props_c16/c17/c40 of the same author)

// c15ConfineRender: calls whose rendered form matches renderGlob occur only in allowed functions.
func (c *Ctx) c15ConfineRender(rule, renderGlob string, min int, allowed ...string) {
	eff := CallTo{renderGlob}
	n := 0
	var bad []string
	badPos := ""
	where := map[string]int{}
	for _, fn := range c.P.AllFuncs {
		for _, in := range instrsMatching(fn, eff) {
			n++
			name := c.P.Name(fn)
			where[name]++
			if !globAny(allowed, name) {
				bad = append(bad, name+" at "+c.P.InstrPos(in))
				if badPos == "" {
					badPos = c.P.InstrPos(in)
				}
			}
		}
	}
	c.CallSites += n
	construct := "callers:" + renderGlob
	switch {
	case len(bad) > 0:
		c.add("confine", rule, construct, Violated, badPos, fmt.Sprintf("call %s outside its enumerated writers: %s", renderGlob, strings.Join(bad, "; ")))
	case n < min:
		c.add("confine", rule, construct, Undecided, "", fmt.Sprintf("%d call site(s), hand-confirmed minimum %d (anchor moved?)", n, min))
	default:
		c.add("confine", rule, construct, Held, "", fmt.Sprintf("%d call site(s), all in enumerated functions: %s", n, countsString(where)))
	}
}

// c15ReceiverMethods: every call whose first argument renders exactly recv has a callee among allowed.
func (c *Ctx) c15ReceiverMethods(rule, recv string, min int, allowed ...string) {
	n := 0
	var bad []string
	badPos := ""
	for _, fn := range c.P.AllFuncs {
		for _, b := range fn.Blocks {
			for _, in := range b.Instrs {
				ci, ok := in.(ssa.CallInstruction)
				if !ok {
					continue
				}
				args := callArgs(ci.Common())
				if len(args) == 0 || Path(args[0]) != recv {
					continue
				}
				n++
				if name := calleeName(ci.Common()); !globAny(allowed, name) {
					bad = append(bad, name+" in "+c.P.Name(fn)+" at "+c.P.InstrPos(in))
					if badPos == "" {
						badPos = c.P.InstrPos(in)
					}
				}
			}
		}
	}
	construct := "methods-on:" + recv
	switch {
	case len(bad) > 0:
		c.add("confine", rule, construct, Violated, badPos, "method outside the enumerated read/encode set is invoked on "+recv+": "+strings.Join(bad, "; "))
	case n < min:
		c.add("confine", rule, construct, Undecided, "", fmt.Sprintf("%d call(s) on %s, hand-confirmed minimum %d", n, recv, min))
	default:
		c.add("confine", rule, construct, Held, "", fmt.Sprintf("%d call(s) on %s, all of %v", n, recv, allowed))
	}
}

// c15Behind: every instruction matching eff is reachable from the entry only across an edge
// establishing `guard` (disjunction, may contain after:) or past an instruction matching one of
// `cuts` (typically the clamp store). With noOverwrite, a cut store must not be followed on any
// path by another store to the same address that is not itself a cut.
func (c *Ctx) c15Behind(rule string, fn *ssa.Function, eff Effect, guard string, noOverwrite bool, cuts ...Effect) {
	if fn == nil {
		return
	}
	fname := c.P.Name(fn)
	c.FuncsAnalysed[fname] = true
	var cs []string
	for _, x := range cuts {
		cs = append(cs, x.String())
	}
	construct := fname + "#" + eff.String() + "⇐" + guard + " || past: " + strings.Join(cs, " | ")
	effs := instrsMatching(fn, eff)
	if len(effs) == 0 {
		c.add("guard", rule, construct, Undecided, c.P.Pos(fn.Pos()), "no instruction matches the effect (vacuous)")
		return
	}
	g := parseGuard(guard)
	isCut := func(in ssa.Instruction) bool {
		for _, x := range cuts {
			if x.Match(in) {
				return true
			}
		}
		return false
	}
	firstCut := func(b *ssa.BasicBlock, from int) int {
		bi := -1
		for i := from; i < len(b.Instrs); i++ {
			if isCut(b.Instrs[i]) {
				bi = i
				break
			}
		}
		if from == 0 {
			if a := barrierIndex(b, g.afters); a >= 0 && (bi < 0 || a < bi) {
				bi = a
			}
		}
		return bi
	}
	badFor := func(g guardSpec) []string {
		removed, _ := guardEdges(fn, g)
		c.EdgesRemoved += len(removed)
		limit := map[*ssa.BasicBlock]int{}
		work := []*ssa.BasicBlock{fn.Blocks[0]}
		seen := map[*ssa.BasicBlock]bool{fn.Blocks[0]: true}
		for len(work) > 0 {
			b := work[len(work)-1]
			work = work[:len(work)-1]
			if bi := firstCut(b, 0); bi >= 0 {
				limit[b] = bi + 1
				continue
			}
			limit[b] = len(b.Instrs)
			for si, s := range b.Succs {
				if !removed[edge{b, si}] && !seen[s] {
					seen[s] = true
					work = append(work, s)
				}
			}
		}
		var bad []string
		for _, e := range effs {
			if lim, ok := limit[e.Block()]; ok && indexIn(e.Block(), e) < lim {
				bad = append(bad, c.P.InstrPos(e))
			}
		}
		return bad
	}
	bad := badFor(g)
	if len(bad) > 0 {
		// `x > y` written as `if x != y { if x < y {…} … }`: every ≥/≠ weakening of the strict atoms must hold
		if vs := strictVariants(g); len(vs) > 0 {
			all := true
			for _, v := range vs {
				if len(badFor(v)) > 0 {
					all = false
					break
				}
			}
			if all {
				bad = nil
			}
		}
	}
	if len(bad) > 0 {
		c.add("guard", rule, construct, Violated, bad[0], fmt.Sprintf("%s: effect %q reachable without the guard and without passing the clamp/bump store (at %s)", fname, eff.String(), strings.Join(bad, ", ")))
		return
	}
	ncut := 0
	if noOverwrite {
		for _, b := range fn.Blocks {
			for i, in := range b.Instrs {
				st, ok := in.(*ssa.Store)
				if !ok || !isCut(in) {
					continue
				}
				ncut++
				addr := Path(st.Addr)
				// forward walk from just after the cut
				seen := map[*ssa.BasicBlock]bool{}
				var walk func(b *ssa.BasicBlock, from int) string
				walk = func(b *ssa.BasicBlock, from int) string {
					for j := from; j < len(b.Instrs); j++ {
						if s2, ok := b.Instrs[j].(*ssa.Store); ok && Path(s2.Addr) == addr && !isCut(s2) {
							return c.P.InstrPos(s2)
						}
					}
					for _, s := range b.Succs {
						if !seen[s] {
							seen[s] = true
							if p := walk(s, 0); p != "" {
								return p
							}
						}
					}
					return ""
				}
				if p := walk(b, i+1); p != "" {
					c.add("guard", rule, construct, Violated, p, fmt.Sprintf("%s: the clamp/bump store to %s is overwritten afterwards at %s", fname, addr, p))
					return
				}
			}
		}
	}
	c.add("guard", rule, construct, Held, c.P.InstrPos(effs[0]), fmt.Sprintf("%d effect site(s); guard edges removed; every remaining path passes a cut store (%d cut store(s) checked for overwrite)", len(effs), ncut))
}

// c15FieldStores: frame condition. Every store in fn to a field of struct T is to a field listed in
// `fields` with a value matching one of its globs; every whole-struct store of a T value has a value
// matching `whole` (nil = no whole-struct store of T allowed except spilled parameters).
func (c *Ctx) c15FieldStores(rule string, fn *ssa.Function, structName string, whole []string, fields map[string][]string) {
	if fn == nil {
		return
	}
	T := c.lookupType(structName)
	if T == nil {
		c.add("anchor", "anchor", structName, Undecided, "", "struct not found")
		return
	}
	fname := c.P.Name(fn)
	c.FuncsAnalysed[fname] = true
	var bad []string
	badPos := ""
	n := 0
	seenField := map[string]bool{}
	for _, b := range fn.Blocks {
		for _, in := range b.Instrs {
			st, ok := in.(*ssa.Store)
			if !ok {
				continue
			}
			if fa, ok := st.Addr.(*ssa.FieldAddr); ok && sameNamed(fa.X.Type(), T) {
				n++
				f := fieldName(fa.X.Type(), fa.Field)
				v := Path(st.Val)
				seenField[f] = true
				if vals, ok := fields[f]; !ok {
					bad = append(bad, fmt.Sprintf("store to field %s (= %s) at %s", f, v, c.P.InstrPos(in)))
				} else if !globAny(vals, v) {
					bad = append(bad, fmt.Sprintf("store %s = %s (allowed %v) at %s", f, v, vals, c.P.InstrPos(in)))
				} else {
					continue
				}
				if badPos == "" {
					badPos = c.P.InstrPos(in)
				}
				continue
			}
			if sameNamed(st.Val.Type(), T) {
				if _, isAlloc := st.Addr.(*ssa.Alloc); !isAlloc {
					continue // stores of a row into other containers (overlays) are not row mutations
				}
				n++
				a, v := Path(st.Addr), Path(st.Val)
				if a == v || globAny(whole, v) {
					continue
				}
				bad = append(bad, fmt.Sprintf("whole-row store %s = %s at %s", a, v, c.P.InstrPos(in)))
				if badPos == "" {
					badPos = c.P.InstrPos(in)
				}
			}
		}
	}
	var want []string
	for f := range fields {
		want = append(want, f)
		if !seenField[f] {
			bad = append(bad, "expected store to field "+f+" is missing")
			if badPos == "" {
				badPos = c.P.Pos(fn.Pos())
			}
		}
	}
	sort.Strings(want)
	construct := fname + "#row-stores⊆{" + strings.Join(want, ",") + "}"
	if len(bad) > 0 {
		c.add("shape", rule, construct, Violated, badPos, fname+" stores outside its frame: "+strings.Join(bad, "; "))
		return
	}
	c.add("shape", rule, construct, Held, c.P.Pos(fn.Pos()), fmt.Sprintf("%d store(s) to %s values, all inside the frame", n, structName))
}

// c15StoreGroup: stores to prefix+F for F in group occur together: every block that stores one stores all.
func (c *Ctx) c15StoreGroup(rule string, fn *ssa.Function, prefix string, group []string) {
	if fn == nil {
		return
	}
	fname := c.P.Name(fn)
	construct := fname + "#stored-together:" + strings.Join(group, ",")
	nblocks := 0
	for _, b := range fn.Blocks {
		got := map[string]bool{}
		for _, in := range b.Instrs {
			if st, ok := in.(*ssa.Store); ok {
				p := Path(st.Addr)
				for _, f := range group {
					if p == prefix+f {
						got[f] = true
					}
				}
			}
		}
		if len(got) == 0 {
			continue
		}
		nblocks++
		if len(got) != len(group) {
			var miss []string
			for _, f := range group {
				if !got[f] {
					miss = append(miss, f)
				}
			}
			c.add("shape", rule, construct, Violated, c.P.InstrPos(b.Instrs[0]), fmt.Sprintf("%s updates part of the field group without %v (the group must move together)", fname, miss))
			return
		}
	}
	if nblocks == 0 {
		c.add("shape", rule, construct, Undecided, c.P.Pos(fn.Pos()), "no store to the group (vacuous)")
		return
	}
	c.add("shape", rule, construct, Held, c.P.Pos(fn.Pos()), fmt.Sprintf("%d block(s) store the whole group together", nblocks))
}

// c15RetShapes: every return of fn satisfies pred (pred gets the rendered results, returns "" or a complaint).
func (c *Ctx) c15RetShapes(rule string, fn *ssa.Function, label string, pred func(results []string) string) {
	if fn == nil {
		return
	}
	fname := c.P.Name(fn)
	construct := fname + "#returns:" + label
	n := 0
	var bad []string
	badPos := ""
	for _, in := range instrsMatching(fn, AnyRet{}) {
		ret := in.(*ssa.Return)
		n++
		var rs []string
		for i := range ret.Results {
			rs = append(rs, Path(retOperand(ret, i)))
		}
		if why := pred(rs); why != "" {
			bad = append(bad, why+" at "+c.P.InstrPos(in))
			if badPos == "" {
				badPos = c.P.InstrPos(in)
			}
		}
	}
	switch {
	case n == 0:
		c.add("shape", rule, construct, Undecided, c.P.Pos(fn.Pos()), "no return (vacuous)")
	case len(bad) > 0:
		c.add("shape", rule, construct, Violated, badPos, fname+": "+strings.Join(bad, "; "))
	default:
		c.add("shape", rule, construct, Held, c.P.Pos(fn.Pos()), fmt.Sprintf("%d return(s), all of the required shape", n))
	}
}

// c15FalseOnly: bool result idx of fn can be false only when guard holds (mirror image of GuardTrue).
func (c *Ctx) c15FalseOnly(rule string, fn *ssa.Function, idx int, guards ...string) {
	if fn == nil {
		return
	}
	fname := c.P.Name(fn)
	c.FuncsAnalysed[fname] = true
	for _, gs := range guards {
		g := parseGuard(gs)
		removed, _ := guardEdges(fn, g)
		c.EdgesRemoved += len(removed)
		limit := reachUnguarded(fn, removed, g.afters)
		reachableEdge := func(from, to *ssa.BasicBlock) bool {
			if l, ok := limit[from]; !ok || l < len(from.Instrs) {
				return false
			}
			for si, s := range from.Succs {
				if s == to && !removed[edge{from, si}] {
					return true
				}
			}
			return false
		}
		var maybeFalse func(v ssa.Value, seen map[ssa.Value]bool) bool
		maybeFalse = func(v ssa.Value, seen map[ssa.Value]bool) bool {
			switch x := v.(type) {
			case *ssa.Const:
				return constString(x) != "true"
			case *ssa.Phi:
				if seen[x] {
					return false
				}
				seen[x] = true
				for i, e := range x.Edges {
					if reachableEdge(x.Block().Preds[i], x.Block()) && maybeFalse(e, seen) {
						return true
					}
				}
				return false
			}
			if a, ok := condAtom(v, false); ok {
				for _, sp := range g.atoms {
					if sp.Satisfies(a) {
						return false // the value being false IS the guard
					}
				}
			}
			return true
		}
		var bad []string
		nret := 0
		for _, b := range fn.Blocks {
			if l, ok := limit[b]; !ok || l < len(b.Instrs) {
				continue
			}
			ret, ok := b.Instrs[len(b.Instrs)-1].(*ssa.Return)
			if !ok || idx >= len(ret.Results) {
				continue
			}
			nret++
			if maybeFalse(retOperand(ret, idx), map[ssa.Value]bool{}) {
				bad = append(bad, c.P.InstrPos(ret))
			}
		}
		construct := fmt.Sprintf("%s#result[%d]=false⇐%s", fname, idx, gs)
		if len(bad) == 0 {
			c.add("guard", rule, construct, Held, c.P.Pos(fn.Pos()), fmt.Sprintf("result can be false only behind the guard (%d guard edge(s) removed, %d reachable return(s) left, all true or the guard itself)", len(removed), nret))
		} else {
			c.add("guard", rule, construct, Violated, bad[0], fmt.Sprintf("%s can return false without %q (a difference in that field would not be reported)", fname, gs))
		}
	}
}

// c15Advance: the guarded retention advance. The written row N is a copy of the loaded row E with
// exactly RetentionThroughSeq/RetentionUpdatedAtMS from the request and RouteGeneration = next(E's),
// and the encode happens only behind exists, request > stored and the four authority equalities.
func (c *Ctx) c15Advance(rule string, fn *ssa.Function) {
	if fn == nil {
		return
	}
	fname := c.P.Name(fn)
	calls := instrsMatching(fn, CallTo{c15Encode})
	if len(calls) != 1 {
		c.add("shape", rule, fname+"#single-encode", Undecided, c.P.Pos(fn.Pos()), fmt.Sprintf("%d runtime-meta encode calls, expected exactly 1", len(calls)))
		return
	}
	args := calls[0].(ssa.CallInstruction).Common().Args
	row := args[len(args)-1]
	var nAlloc *ssa.Alloc
	if u, ok := row.(*ssa.UnOp); ok {
		nAlloc, _ = u.X.(*ssa.Alloc)
	}
	if nAlloc == nil {
		c.add("shape", rule, fname+"#written-row", Undecided, c.P.InstrPos(calls[0]), "written row is not a local row variable: "+Path(row))
		return
	}
	// whole-row stores to N: exactly one, from a load of another local E which is stored once from the loader's #0
	var eAlloc *ssa.Alloc
	nWhole := 0
	for _, r := range *nAlloc.Referrers() {
		if st, ok := r.(*ssa.Store); ok && st.Addr == ssa.Value(nAlloc) {
			nWhole++
			if u, ok := st.Val.(*ssa.UnOp); ok {
				eAlloc, _ = u.X.(*ssa.Alloc)
			}
		}
	}
	if nWhole != 1 || eAlloc == nil {
		c.add("shape", rule, fname+"#written-row", Violated, c.P.InstrPos(calls[0]), fmt.Sprintf("written row %s is not a single copy of the loaded row (%d whole-row stores)", Path(nAlloc), nWhole))
		return
	}
	eSrc := ""
	eStores := 0
	for _, r := range *eAlloc.Referrers() {
		if st, ok := r.(*ssa.Store); ok {
			if st.Addr == ssa.Value(eAlloc) {
				eStores++
				eSrc = Path(st.Val)
			} else if fa, ok := st.Addr.(*ssa.FieldAddr); ok && fa.X == ssa.Value(eAlloc) {
				eStores += 100
			}
		}
	}
	if eStores != 1 || !(glob("*.getChannelRuntimeMetaByKey(*)#0", eSrc) || glob("*.loadRuntimeMeta(*)#0", eSrc)) {
		c.add("shape", rule, fname+"#loaded-row", Violated, c.P.InstrPos(calls[0]), fmt.Sprintf("compared row %s is not exactly the row loaded from the store (source %s, %d stores)", Path(eAlloc), eSrc, eStores))
		return
	}
	c.add("shape", rule, fname+"#written-row", Held, c.P.InstrPos(calls[0]), "written row is a single copy of the row loaded from the store")
	N, E := Path(nAlloc), Path(eAlloc)
	// field stores on N
	want := map[string]string{
		"RetentionThroughSeq":  "req.RetentionThroughSeq",
		"RetentionUpdatedAtMS": "req.RetentionUpdatedAtMS",
		"RouteGeneration":      c15Next + "(" + E + ".RouteGeneration)",
	}
	got := map[string]bool{}
	var bad []string
	for _, b := range fn.Blocks {
		for _, in := range b.Instrs {
			st, ok := in.(*ssa.Store)
			if !ok {
				continue
			}
			fa, ok := st.Addr.(*ssa.FieldAddr)
			if !ok || fa.X != ssa.Value(nAlloc) {
				continue
			}
			f := fieldName(fa.X.Type(), fa.Field)
			if w, ok := want[f]; !ok || Path(st.Val) != w {
				bad = append(bad, fmt.Sprintf("%s.%s = %s", N, f, Path(st.Val)))
			}
			got[f] = true
		}
	}
	for f := range want {
		if !got[f] {
			bad = append(bad, "missing store to "+f)
		}
	}
	sort.Strings(bad)
	if len(bad) > 0 {
		c.add("shape", rule, fname+"#advance-frame", Violated, c.P.InstrPos(calls[0]), "retention advance changes more or less than {RetentionThroughSeq, RetentionUpdatedAtMS, RouteGeneration=next(stored)}: "+strings.Join(bad, "; "))
	} else {
		c.add("shape", rule, fname+"#advance-frame", Held, c.P.InstrPos(calls[0]), "exactly the two retention fields from the request and RouteGeneration = next(stored) are changed")
	}
	// E is the rendered name of the local that holds the loaded row; it was resolved above by SSA
	// identity (written row → its single whole-row source → single store from the loader), so the
	// guards name it through the ‹stored› back-reference, never through the source-level identifier.
	c.c15GuardRef(rule, fn, CallTo{c15Encode}, map[string]string{"stored": E},
		"*RuntimeMeta*(*)#1 == true",
		"req.RetentionThroughSeq > ‹stored›.RetentionThroughSeq",
		"‹stored›.ChannelEpoch == req.ExpectedChannelEpoch",
		"‹stored›.LeaderEpoch == req.ExpectedLeaderEpoch",
		"‹stored›.Leader == req.ExpectedLeader",
		"‹stored›.LeaseUntilMS == req.ExpectedLeaseUntilMS",
	)
}

// c15GuardRef is c.Guard for guards that mention values the caller has already resolved structurally
// (SSA value identity, callee results). A guard string names such a value as ‹name›; for matching the
// placeholder is replaced by refs[name] (the value's rendering in this function), while the obligation
// key keeps the placeholder. The rule therefore neither depends on nor reports the identifier a local
// variable happens to have (renaming the local is behaviour preserving and must not fire).
func (c *Ctx) c15GuardRef(rule string, fn *ssa.Function, eff Effect, refs map[string]string, guards ...string) {
	if fn == nil {
		return
	}
	fname := c.P.Name(fn)
	c.FuncsAnalysed[fname] = true
	label := eff.String() // callers pass effects that do not mention a back-referenced value
	effs := instrsMatching(fn, eff)
	if len(effs) == 0 {
		c.add("guard", rule, fname+"#"+label, Undecided, c.P.Pos(fn.Pos()), "no instruction matches the effect (rule would be vacuous; the code moved or the effect shape changed)")
		return
	}
	for _, gs := range guards {
		real := gs
		for k, v := range refs {
			real = strings.ReplaceAll(real, "‹"+k+"›", v)
		}
		construct := fname + "#" + label + "⇐" + gs
		if strings.Contains(real, "‹") {
			c.add("guard", rule, construct, Undecided, c.P.InstrPos(effs[0]), "guard uses a back-reference that was not resolved")
			continue
		}
		g := parseGuard(real)
		removed, descr := guardEdges(fn, g)
		c.EdgesRemoved += len(removed)
		limit := reachUnguarded(fn, removed, g.afters)
		var bad []string
		for _, e := range effs {
			if lim, ok := limit[e.Block()]; ok && indexIn(e.Block(), e) < lim {
				bad = append(bad, c.P.InstrPos(e))
			}
		}
		if len(bad) == 0 {
			c.add("guard", rule, construct, Held, c.P.InstrPos(effs[0]),
				fmt.Sprintf("%d effect site(s); %d guard edge(s) removed [%s]; no unguarded path from entry (back-references: %v)", len(effs), len(removed), strings.Join(dedup(descr), "; "), refs))
			continue
		}
		why := "an entry→effect path avoids every matching guard edge"
		if len(removed) == 0 && len(g.afters) == 0 {
			why = "no branch in the function establishes the required fact"
		}
		c.add("guard", rule, construct, Violated, bad[0],
			fmt.Sprintf("effect %q in %s reachable without guard %q at %s: %s", eff.String(), fname, real, strings.Join(bad, ", "), why))
	}
}
