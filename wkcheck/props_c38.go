package main

import (
	"fmt"
	"go/token"
	"go/types"
	"sort"
	"strings"

	"golang.org/x/tools/go/ssa"
)

func init() {
	const (
		fChunk  = "pkg/backup/chunk_v1.go"
		fVerify = "pkg/backup/archive_verify.go"
		fArch   = "pkg/backup/archive_v1.go"
		fSlot   = "pkg/backup/slot_manifest_v1.go"
		fMsg    = "pkg/backup/message_chunk_manifest.go"
		fRepo   = "pkg/backup/repository_v1.go"
	)
	register(&PropSpec{
		ID:        "C38",
		Pkgs:      []string{"./pkg/backup"},
		Technique: "static analysis: SSA edge-dominance on every success return of the verifiers/decoders (digest, size, ordering and total equalities), per-iteration loop guards, SSA value-identity binding of each SHA-256 state to the stream it hashes, call-shape bounded-read rules, who-may-decode confinement",
		Explain:   "Decides the structural clause of self-verification in pkg/backup: (1) DecodeChunk succeeds only behind validateChunkDescriptor, a bounded zstd decoder, a limited copy, and the four equalities stored bytes / stored SHA-256 / logical bytes / logical SHA-256 against the descriptor, where the SHA-256 state compared with StoredSHA256 is the one tee'd from the compressed source and the one compared with LogicalSHA256 is the one fed by the decoded output (SSA identity); (2) loadStoredSlotAtKey / LoadStoredSlotReference / LoadPublishedArchiveMetadata / VerifyPublishedArchive / LoadCompleteMarker / LoadStoredMessageChunkManifest / ReadStoredObject return success only behind the listed hash-slot, size, digest, marker, id and reference equalities, every loop iteration over chunks or slot references completes only behind its checks, the digest is taken over the very bytes that are decoded, and verification always asks for chunk verification; (3) every Load* manifest decoder goes decodeStrictJSON -> validate -> re-marshal -> bytes.Equal (canonical form), decodeStrictJSON disallows unknown fields and trailing values, and nothing else in the package decodes JSON; the manifest validators accept only behind the sequence/stream/part ordering, per-chunk descriptor and totals equalities; (4) every io.ReadAll wraps io.LimitReader, every zstd.NewReader carries WithDecoderMaxMemory. NOT decided: that every possible mutation is detected (SHA-256 collision resistance and the semantics of encoding/json, zstd and the ArchiveStore are trusted), the numeric values of the limits, canonical-form properties beyond byte equality with the re-marshalled value, writers/publishers of archives.",
		Run:       c38,
		Mutants: []Mutant{
			{Name: "chunk-drop-stored-digest", File: fChunk, Old: "\t\thex.EncodeToString(storedHash.Sum(nil)) != descriptor.StoredSHA256 ||\n", New: "", Expect: "C38/R1-chunk*"},
			{Name: "chunk-drop-logical-bytes", File: fChunk, Old: "\t\tlogicalCounter.count != descriptor.LogicalBytes ||\n", New: "", Expect: "C38/R1-chunk*"},
			{Name: "chunk-swap-hashes", File: fChunk, Old: "hex.EncodeToString(logicalHash.Sum(nil)) != descriptor.LogicalSHA256", New: "hex.EncodeToString(storedHash.Sum(nil)) != descriptor.LogicalSHA256", Expect: "C38/R1-chunk*"},
			{Name: "chunk-and-instead-of-or", File: fChunk, Old: "if storedCounter.count != descriptor.StoredBytes ||", New: "if storedCounter.count != descriptor.StoredBytes &&", Expect: "C38/R1-chunk*"},
			{Name: "chunk-skip-descriptor-validation", File: fChunk, Old: "\tif err := validateChunkDescriptor(descriptor); err != nil {\n\t\treturn err\n\t}\n\tstoredHash", New: "\tstoredHash", Expect: "C38/R1-chunk*"},
			{Name: "chunk-ignore-copy-error", File: fChunk, Old: "\tif copyErr != nil {\n\t\treturn fmt.Errorf(\"%w: decode chunk: %v\", ErrObjectCorrupt, copyErr)\n\t}\n", New: "\t_ = copyErr\n", Expect: "C38/R1-chunk*"},
			{Name: "chunk-unbounded-decoder", File: fChunk, Old: "\t\tstoredCounter,\n\t\tzstd.WithDecoderMaxMemory(MaxChunkLogicalBytes*2),\n", New: "\t\tstoredCounter,\n", Expect: "C38/R4-bounded*"},
			{Name: "chunk-unlimited-copy", File: fChunk, Old: "io.Copy(logicalCounter, io.LimitReader(decoder, int64(MaxChunkLogicalBytes)+1))", New: "io.Copy(logicalCounter, decoder)", Expect: "C38/R4-bounded*"},
			{Name: "descriptor-allow-any-compression", File: fChunk, Old: "\tif descriptor.Compression != CompressionZstd ||\n\t\tdescriptor.LogicalBytes", New: "\tif descriptor.LogicalBytes", Expect: "C38/R1-chunk*"},
			{Name: "slot-drop-hashslot-check", File: fVerify, Old: "if manifest.HashSlot != hashSlot {", New: "if manifest.HashSlot != hashSlot && verifyChunks {", Expect: "C38/R2-slot*"},
			{Name: "slot-drop-stored-size", File: fVerify, Old: "if object.Bytes != chunk.Descriptor.StoredBytes {", New: "if object.Bytes == 0 {", Expect: "C38/R2-slot*"},
			{Name: "slot-ignore-decode-error", File: fVerify, Old: "if decodeErr != nil || closeErr != nil {\n\t\t\t\treturn SlotReference{}, SlotManifest{},", New: "if closeErr != nil {\n\t\t\t\treturn SlotReference{}, SlotManifest{},", Expect: "C38/R2-slot*"},
			{Name: "ref-drop-equality", File: fVerify, Old: "\tif actual != expected {\n\t\treturn SlotReference{}, SlotManifest{},\n\t\t\tfmt.Errorf(\"%w: Slot reference mismatch\", ErrObjectCorrupt)\n\t}\n", New: "", Expect: "C38/R2-ref*"},
			{Name: "verify-without-chunks", File: fVerify, Old: "ctx, store, backupID, expected, true,", New: "ctx, store, backupID, expected, false,", Expect: "C38/R2-archive*"},
			{Name: "verify-drop-order-check", File: fVerify, Old: "if actual.HashSlot != uint16(hashSlot) {", New: "if hashSlot < 0 || int(actual.HashSlot) >= DefaultHashSlotCount {", Expect: "C38/R2-archive*"},
			{Name: "metadata-ignore-corrupt-marker", File: fVerify, Old: "\tif !errors.Is(corruptErr, ErrObjectNotFound) {\n\t\treturn ArchiveManifest{}, corruptErr\n\t}\n", New: "", Expect: "C38/R2-archive*"},
			{Name: "metadata-drop-id-check", File: fVerify, Old: "\tif manifest.ID != backupID {\n\t\treturn ArchiveManifest{}, fmt.Errorf(\"%w: archive ID mismatch\", ErrObjectCorrupt)\n\t}\n", New: "", Expect: "C38/R2-archive*"},
			{Name: "marker-drop-digest", File: fArch, Old: "\tif marker.ManifestSHA256 != hex.EncodeToString(sum[:]) {\n\t\treturn CompleteMarker{}, fmt.Errorf(\"%w: complete marker manifest digest\", ErrObjectCorrupt)\n\t}\n", New: "\t_ = sum\n", Expect: "C38/R2-archive*"},
			{Name: "marker-digest-of-marker-body", File: fArch, Old: "\tsum := sha256.Sum256(manifestBody)\n\tif marker.ManifestSHA256 != hex.EncodeToString(sum[:]) {", New: "\tsum := sha256.Sum256(markerBody)\n\tif marker.ManifestSHA256 != hex.EncodeToString(sum[:]) {", Expect: "C38/R2-archive*"},
			{Name: "read-drop-size-equality", File: fVerify, Old: "if uint64(len(body)) != object.Bytes || uint64(len(body)) > maxBytes {", New: "if uint64(len(body)) > maxBytes {", Expect: "C38/R2-read*"},
			{Name: "read-unbounded", File: fVerify, Old: "io.ReadAll(io.LimitReader(reader, int64(maxBytes)+1))", New: "io.ReadAll(reader)", Expect: "C38/R4-bounded*"},
			{Name: "msgmanifest-drop-digest", File: fMsg, Old: "if hex.EncodeToString(sum[:]) != expectedSHA256 {", New: "if hex.EncodeToString(sum[:]) == \"\" {", Expect: "C38/R2-msg*"},
			{Name: "strict-allow-unknown-fields", File: fArch, Old: "\tdecoder.DisallowUnknownFields()\n", New: "", Expect: "C38/R3-strict*"},
			{Name: "strict-allow-trailing", File: fArch, Old: "if err := decoder.Decode(&struct{}{}); err != io.EOF {", New: "if err := decoder.Decode(&struct{}{}); err != io.EOF && err != nil {", Expect: "C38/R3-strict*"},
			{Name: "slotmanifest-lenient-unmarshal", File: fSlot, Old: "if err := decodeStrictJSON(body, &manifest); err != nil {", New: "if err := json.Unmarshal(body, &manifest); err != nil {", Expect: "C38/R3-strict*"},
			{Name: "slotmanifest-skip-canonical", File: fSlot, Old: "if err != nil || !bytes.Equal(canonical, body) {\n\t\treturn SlotManifest{}", New: "if err != nil && !bytes.Equal(canonical, body) {\n\t\treturn SlotManifest{}", Expect: "C38/R3-load*"},
			{Name: "repomarker-skip-validate", File: fRepo, Old: "\tif err := validateRepositoryMarker(marker); err != nil {\n\t\treturn RepositoryMarker{}, err\n\t}\n\tcanonical", New: "\tcanonical", Expect: "C38/R3-load*"},
			{Name: "slotmanifest-drop-sequence", File: fSlot, Old: "\t\tif chunk.Sequence != nextSequence[chunk.Kind] {\n\t\t\treturn fmt.Errorf(\"%w: chunk[%d] sequence\", ErrInvalidManifest, index)\n\t\t}\n", New: "", Expect: "C38/R3-valid*"},
			{Name: "slotmanifest-drop-stored-total", File: fSlot, Old: "\t\tmanifest.StoredBytes != storedBytes ||\n\t\tmanifest.Records != records ||\n\t\tmanifest.MaxMessageID != maxMessageID {\n\t\treturn fmt.Errorf(\"%w: Slot totals\"", New: "\t\tstoredBytes == 0 ||\n\t\tmanifest.Records != records ||\n\t\tmanifest.MaxMessageID != maxMessageID {\n\t\treturn fmt.Errorf(\"%w: Slot totals\"", Expect: "C38/R3-valid*"},
			{Name: "archive-allow-duplicate-slot", File: fArch, Old: "if int(slot.HashSlot) >= DefaultHashSlotCount || seen[slot.HashSlot] {", New: "if int(slot.HashSlot) >= DefaultHashSlotCount {", Expect: "C38/R3-valid*"},
		},
	})
}

// c38Const renders a package-level constant of pkg/backup the way Path renders it.
func c38Const(c *Ctx, name string) string {
	pk := c.P.Pkgs["pkg/backup"]
	if pk != nil {
		if k, ok := pk.Types.Scope().Lookup(name).(*types.Const); ok {
			return constString(ssa.NewConst(k.Val(), k.Type()))
		}
	}
	c.add("anchor", "anchor", "pkg/backup."+name, Undecided, "", "anchored constant not found")
	return "<missing " + name + ">"
}

// c38LoopIter decides: in the range loop of fn whose header tests `i < <lenGlob>`,
// an iteration that starts can reach the loop header again (next iteration or
// normal loop exit) only through an edge establishing each guard.
func c38LoopIter(c *Ctx, rule string, fn *ssa.Function, lenGlob string, guards ...string) {
	if fn == nil {
		return
	}
	fname := c.P.Name(fn)
	var header, body *ssa.BasicBlock
	n := 0
	for _, b := range fn.Blocks {
		if len(b.Instrs) == 0 {
			continue
		}
		iff, ok := b.Instrs[len(b.Instrs)-1].(*ssa.If)
		if !ok {
			continue
		}
		a, ok := condAtom(iff.Cond, true)
		if ok && a.Op == "<" && glob(lenGlob, a.R) {
			header, body = b, b.Succs[0]
			n++
		}
	}
	if n != 1 {
		c.add("guard", rule, fname+"#loop:"+lenGlob, Undecided, c.P.Pos(fn.Pos()), fmt.Sprintf("expected exactly one range loop over %s, found %d", lenGlob, n))
		return
	}
	for _, gs := range guards {
		g := parseGuard(gs)
		removed, descr := guardEdges(fn, g)
		c.EdgesRemoved += len(removed)
		seen := map[*ssa.BasicBlock]bool{body: true}
		work := []*ssa.BasicBlock{body}
		reached := false
		for len(work) > 0 && !reached {
			b := work[len(work)-1]
			work = work[:len(work)-1]
			if barrierIndex(b, g.afters) >= 0 {
				continue
			}
			for si, s := range b.Succs {
				if removed[edge{b, si}] {
					continue
				}
				if s == header {
					reached = true
					break
				}
				if !seen[s] {
					seen[s] = true
					work = append(work, s)
				}
			}
		}
		construct := fname + "#each-iteration-over:" + lenGlob + "⇐" + gs
		if reached {
			c.add("guard", rule, construct, Violated, c.P.InstrPos(body.Instrs[0]), fmt.Sprintf("an iteration of the loop over %s in %s can complete without %q", lenGlob, fname, gs))
		} else {
			c.add("guard", rule, construct, Held, c.P.InstrPos(body.Instrs[0]), fmt.Sprintf("%d guard edge(s) removed [%s]; the loop header is unreachable from the body", len(removed), strings.Join(dedup(descr), "; ")))
		}
	}
}

// c38VarargElems resolves the elements of the implicit slice passed as the
// variadic argument v (a Slice of a fresh array whose elements are stored once).
func c38VarargElems(v ssa.Value) []ssa.Value {
	sl, ok := v.(*ssa.Slice)
	if !ok {
		return nil
	}
	a, ok := sl.X.(*ssa.Alloc)
	if !ok || a.Referrers() == nil {
		return nil
	}
	var out []ssa.Value
	for _, r := range *a.Referrers() {
		ia, ok := r.(*ssa.IndexAddr)
		if !ok || ia.Referrers() == nil {
			continue
		}
		for _, rr := range *ia.Referrers() {
			if st, ok := rr.(*ssa.Store); ok && st.Addr == ssa.Value(ia) {
				out = append(out, c38Strip(st.Val))
			}
		}
	}
	return out
}

func c38Strip(v ssa.Value) ssa.Value {
	for {
		switch x := v.(type) {
		case *ssa.Convert:
			v = x.X
		case *ssa.ChangeType:
			v = x.X
		case *ssa.ChangeInterface:
			v = x.X
		case *ssa.MakeInterface:
			v = x.X
		default:
			return v
		}
	}
}

// c38HashOf: for a comparison operand hex.EncodeToString(H.Sum(nil)) return H.
func c38HashOf(v ssa.Value) ssa.Value {
	call, ok := c38Strip(v).(*ssa.Call)
	if !ok || calleeName(&call.Call) != "encoding/hex.EncodeToString" || len(call.Call.Args) != 1 {
		return nil
	}
	sum, ok := c38Strip(call.Call.Args[0]).(*ssa.Call)
	if !ok || calleeName(&sum.Call) != "hash.Hash.Sum" {
		return nil
	}
	return c38Strip(sum.Call.Value)
}

// c38HashBinding: the SHA-256 state whose hex digest is compared with
// descriptor.<field> is (stored) the second argument of io.TeeReader(src, H) or
// (logical) an element of io.MultiWriter(dst, H).
func c38HashBinding(c *Ctx, rule string, fn *ssa.Function, field string, wantTee bool) {
	if fn == nil {
		return
	}
	fname := c.P.Name(fn)
	construct := fname + "#digest-state-bound:" + field
	var hashes []ssa.Value
	pos := ""
	for _, b := range fn.Blocks {
		for _, in := range b.Instrs {
			bo, ok := in.(*ssa.BinOp)
			if !ok || (bo.Op != token.NEQ && bo.Op != token.EQL) {
				continue
			}
			var other ssa.Value
			switch {
			case glob("*."+field, Path(bo.Y)):
				other = bo.X
			case glob("*."+field, Path(bo.X)):
				other = bo.Y
			default:
				continue
			}
			pos = c.P.InstrPos(in)
			hashes = append(hashes, c38HashOf(other))
		}
	}
	if len(hashes) == 0 {
		c.add("shape", rule, construct, Undecided, c.P.Pos(fn.Pos()), "no comparison against descriptor."+field+" found")
		return
	}
	for _, h := range hashes {
		if h == nil {
			c.add("shape", rule, construct, Violated, pos, "descriptor."+field+" is not compared with hex(H.Sum(nil)) of a hash state")
			return
		}
		hc, ok := h.(*ssa.Call)
		if !ok || calleeName(&hc.Call) != "crypto/sha256.New" {
			c.add("shape", rule, construct, Violated, pos, "the compared digest state is not a crypto/sha256.New() value: "+Path(h))
			return
		}
		bound := false
		for _, b := range fn.Blocks {
			for _, in := range b.Instrs {
				call, ok := in.(*ssa.Call)
				if !ok {
					continue
				}
				switch calleeName(&call.Call) {
				case "io.TeeReader":
					if wantTee && len(call.Call.Args) == 2 && c38Strip(call.Call.Args[1]) == h && len(fn.Params) >= 2 && c38Strip(call.Call.Args[0]) == ssa.Value(fn.Params[1]) {
						bound = true
					}
				case "io.MultiWriter":
					if !wantTee && len(call.Call.Args) == 1 {
						hasH, hasDst := false, false
						for _, e := range c38VarargElems(call.Call.Args[0]) {
							if e == h {
								hasH = true
							}
							if len(fn.Params) >= 1 && e == ssa.Value(fn.Params[0]) {
								hasDst = true
							}
						}
						bound = bound || (hasH && hasDst)
					}
				}
			}
		}
		if !bound {
			want := "io.MultiWriter(dst, H) of the decoded output"
			if wantTee {
				want = "io.TeeReader(src, H) of the compressed source"
			}
			c.add("shape", rule, construct, Violated, pos, "the SHA-256 state compared with descriptor."+field+" is not the one fed by "+want)
			return
		}
	}
	c.add("shape", rule, construct, Held, pos, fmt.Sprintf("%d comparison(s); the compared SHA-256 state is the one bound to the right stream (SSA identity)", len(hashes)))
}

func c38(c *Ctx) {
	const pkg = "pkg/backup."
	zstdC := c38Const(c, "CompressionZstd")

	// ------------------------------------------------------------------ R1 chunk
	dec := c.Fn(pkg + "DecodeChunk")
	if dec != nil && len(dec.Params) == 3 {
		dst, src, d := dec.Params[0].Name(), dec.Params[1].Name(), dec.Params[2].Name()
		hexSum := "encoding/hex.EncodeToString(hash.Hash.Sum(*))"
		c.Guard("R1-chunk", dec, RetNil{},
			dst+" != nil",
			src+" != nil",
			pkg+"validateChunkDescriptor("+d+") == nil",
			"github.com/klauspost/compress/zstd.NewReader(*)#1 == nil",
			"io.Copy(*)#1 == nil",
			"*hashCountingReader.count == "+d+".StoredBytes",
			"*hashCountingWriter.count == "+d+".LogicalBytes",
			hexSum+" == "+d+".StoredSHA256",
			hexSum+" == "+d+".LogicalSHA256",
		)
		c38HashBinding(c, "R1-chunk", dec, "StoredSHA256", true)
		c38HashBinding(c, "R1-chunk", dec, "LogicalSHA256", false)
		// the counting reader (stored side) wraps the tee of src and feeds the decoder;
		// the counting writer (logical side) wraps the multi-writer and receives the copy
		c.StoreShape("R1-chunk", dec, "*hashCountingReader.src", "io.TeeReader("+src+", crypto/sha256.New())")
		c.StoreShape("R1-chunk", dec, "*hashCountingWriter.dst", "io.MultiWriter(*)")
		c.CallShape("R1-chunk", dec, "github.com/klauspost/compress/zstd.NewReader", "github.com/klauspost/compress/zstd.NewReader(alloc:hashCountingReader, *)")
		c.CallShape("R1-chunk", dec, "io.Copy", "io.Copy(alloc:hashCountingWriter, *github.com/klauspost/compress/zstd.NewReader(*)#0*)")
	} else if dec != nil {
		c.add("shape", "R1-chunk", pkg+"DecodeChunk#params", Undecided, c.P.Pos(dec.Pos()), "signature changed; rule table must be revisited")
	}
	vcd := c.Fn(pkg + "validateChunkDescriptor")
	if vcd != nil && len(vcd.Params) == 1 {
		d := vcd.Params[0].Name()
		c.Guard("R1-chunk", vcd, RetNil{},
			d+".Compression == "+zstdC,
			d+".LogicalBytes <= *",
			d+".StoredBytes != 0",
			pkg+"validateSHA256("+d+".StoredSHA256) == nil",
			pkg+"validateSHA256("+d+".LogicalSHA256) == nil",
		)
	}
	c.Guard("R1-chunk", c.Fn(pkg+"validateSHA256"), RetNil{},
		"len(value) == 64",
		"encoding/hex.DecodeString(value)#1 == nil",
	)
	c.Min("R1-chunk", 21)

	// ------------------------------------------------------------------ R2 slot
	slot := c.Fn(pkg + "loadStoredSlotAtKey")
	c.Guard("R2-slot", slot, RetNil{},
		pkg+"ReadStoredObject(*)#1 == nil",
		pkg+"LoadSlotManifest(*)#1 == nil",
		"*.HashSlot == hashSlot",
	)
	c.CallShape("R2-slot", slot, pkg+"LoadSlotManifest", pkg+"LoadSlotManifest("+pkg+"ReadStoredObject(*)#0)")
	c.CallShape("R2-slot", slot, "crypto/sha256.Sum256", "crypto/sha256.Sum256("+pkg+"ReadStoredObject(*)#0)")
	c.StoreShape("R2-slot", slot, "*SlotReference.ManifestSHA256", "encoding/hex.EncodeToString(*[:])")
	c.StoreShape("R2-slot", slot, "*SlotReference.HashSlot", "hashSlot")
	c.StoreShape("R2-slot", slot, "*SlotReference.ManifestKey", "relativeManifestKey")
	c.CallShape("R2-slot", slot, pkg+"ReadStoredObject", pkg+"ReadStoredObject(ctx, store, (((\"backups/\" + backupID) + \"/\") + relativeManifestKey), *)")
	// the chunk loop is entered whenever verification was requested …
	c.Guard("R2-slot", slot, RetNil{}, "verifyChunks == false || after: len(*.Chunks)")
	// … and each iteration completes only behind its checks
	c38LoopIter(c, "R2-slot", slot, "len(*.Chunks)",
		pkg+"ArchiveStore.Open(*)#2 == nil",
		"*.Bytes == *.Descriptor.StoredBytes",
		pkg+"DecodeChunk(*) == nil",
		"io.Closer.Close(*) == nil",
	)
	c.CallShape("R2-slot", slot, pkg+"DecodeChunk", pkg+"DecodeChunk(io.Discard, "+pkg+"ArchiveStore.Open(*)#0, *.Descriptor)")
	c.CallShape("R2-slot", slot, pkg+"ArchiveStore.Open", pkg+"ArchiveStore.Open(store, ctx, (((\"backups/\" + backupID) + \"/\") + *.Key))")
	c.Min("R2-slot", 15)

	ref := c.Fn(pkg + "LoadStoredSlotReference")
	c.Guard("R2-ref", ref, RetNil{},
		pkg+"loadStoredSlotAtKey(*)#2 == nil",
		pkg+"loadStoredSlotAtKey(*)#0 == expected",
		pkg+"validateSlotManifestKey(expected.HashSlot, expected.ManifestKey) == nil",
		pkg+"validateSHA256(expected.ManifestSHA256) == nil",
		"expected.HashSlot < *",
	)
	c.CallShape("R2-ref", ref, pkg+"loadStoredSlotAtKey", pkg+"loadStoredSlotAtKey(ctx, store, backupID, expected.HashSlot, expected.ManifestKey, verifyChunks)")
	c.Guard("R2-ref", c.Fn(pkg+"LoadStoredSlot"), CallTo{pkg + "loadStoredSlotAtKey"}, "hashSlot < *", "store != nil")
	c.Guard("R2-ref", c.Fn(pkg+"validateSlotManifestKey"), RetNil{},
		pkg+"validateRepositoryKey(key) == nil",
		"strings.HasPrefix(key, *) == true",
		"path.Base(key) == \"manifest.json\"",
	)
	c.Min("R2-ref", 11)

	// ------------------------------------------------------------------ R2 archive
	meta := c.Fn(pkg + "LoadPublishedArchiveMetadata")
	c.Guard("R2-archive", meta, RetNil{},
		"store != nil",
		"backupID != \"\"",
		pkg+"ArchiveStore.Open(*(* + \"CORRUPT\"))#2 != nil",
		"errors.Is("+pkg+"ArchiveStore.Open(*(* + \"CORRUPT\"))#2, "+pkg+"ErrObjectNotFound) == true",
		pkg+"ReadStoredObject(*(* + \"manifest.json\"), *)#1 == nil",
		pkg+"ReadStoredObject(*(* + \"COMPLETE\"), *)#1 == nil",
		pkg+"LoadCompleteMarker(*)#1 == nil",
		pkg+"LoadArchiveManifest(*)#1 == nil",
		"*.ID == backupID",
	)
	c.CallShape("R2-archive", meta, pkg+"LoadCompleteMarker", pkg+"LoadCompleteMarker("+pkg+"ReadStoredObject(*(* + \"COMPLETE\"), *)#0, "+pkg+"ReadStoredObject(*(* + \"manifest.json\"), *)#0)")
	c.CallShape("R2-archive", meta, pkg+"LoadArchiveManifest", pkg+"LoadArchiveManifest("+pkg+"ReadStoredObject(*(* + \"manifest.json\"), *)#0)")
	c.CallShape("R2-archive", meta, pkg+"ReadStoredObject", pkg+"ReadStoredObject(ctx, store, (((\"backups/\" + backupID) + \"/\") + \"*\"), *)")

	ver := c.Fn(pkg + "VerifyPublishedArchive")
	c.Guard("R2-archive", ver, RetNil{}, pkg+"LoadPublishedArchiveMetadata(ctx, store, backupID)#1 == nil", "after: len(*.Slots)")
	c.CallShape("R2-archive", ver, pkg+"LoadStoredSlotReference", pkg+"LoadStoredSlotReference(ctx, store, backupID, *.Slots[*], true)")
	c38LoopIter(c, "R2-archive", ver, "len(*.Slots)",
		pkg+"LoadStoredSlotReference(*)#2 == nil",
		"*.HashSlot == *",
	)
	c38IndexCompared(c, "R2-archive", ver)
	if ver != nil {
		// the manifest returned is the verified one
		nret := 0
		var bad []string
		for _, in := range instrsMatching(ver, RetNil{}) {
			nret++
			ret := in.(*ssa.Return)
			v := retOperand(ret, 0)
			ok := false
			if u, isLoad := v.(*ssa.UnOp); isLoad {
				if a, isAlloc := u.X.(*ssa.Alloc); isAlloc && a.Referrers() != nil {
					for _, r := range *a.Referrers() {
						if st, isSt := r.(*ssa.Store); isSt && st.Addr == ssa.Value(a) && glob(pkg+"LoadPublishedArchiveMetadata(*)#0", Path(st.Val)) {
							ok = true
						}
					}
				}
			}
			if glob(pkg+"LoadPublishedArchiveMetadata(*)#0", Path(v)) {
				ok = true
			}
			if !ok {
				bad = append(bad, Path(v)+" at "+c.P.InstrPos(in))
			}
		}
		construct := pkg + "VerifyPublishedArchive#returns-verified-manifest"
		if len(bad) > 0 || nret == 0 {
			c.add("shape", "R2-archive", construct, Violated, c.P.Pos(ver.Pos()), "success return is not the manifest loaded by LoadPublishedArchiveMetadata: "+strings.Join(bad, "; "))
		} else {
			c.add("shape", "R2-archive", construct, Held, c.P.Pos(ver.Pos()), fmt.Sprintf("%d success return(s) of the loaded manifest", nret))
		}
	}

	mk := c.Fn(pkg + "LoadCompleteMarker")
	c.Guard("R2-archive", mk, RetNil{},
		pkg+"decodeStrictJSON(markerBody, *) == nil",
		pkg+"validateCompleteMarker(*) == nil",
		"encoding/json.Marshal(*)#1 == nil",
		"bytes.Equal(encoding/json.Marshal(*)#0, markerBody) == true",
		"*.ManifestBytes == len(manifestBody)",
		"*.ManifestSHA256 == encoding/hex.EncodeToString(*[:])",
		pkg+"LoadArchiveManifest(manifestBody)#1 == nil",
	)
	c.CallShape("R2-archive", mk, "crypto/sha256.Sum256", "crypto/sha256.Sum256(manifestBody)")
	c.Guard("R2-archive", c.Fn(pkg+"validateCompleteMarker"), RetNil{},
		"marker.Format == "+c38Const(c, "CompleteMarkerFormat"),
		"marker.Version == "+c38Const(c, "CompleteMarkerVersion"),
		"marker.ManifestBytes != 0",
		pkg+"validateSHA256(marker.ManifestSHA256) == nil",
	)
	c.Min("R2-archive", 31)

	// ------------------------------------------------------------------ R2 read
	rd := c.Fn(pkg + "ReadStoredObject")
	c.Guard("R2-read", rd, RetNil{},
		pkg+"ArchiveStore.Open(store, ctx, key)#2 == nil",
		"*.Bytes != 0",
		"*.Bytes <= maxBytes",
		"io.ReadAll(*)#1 == nil",
		"io.Closer.Close(*) == nil",
		"len(io.ReadAll(*)#0) == *.Bytes",
		"len(io.ReadAll(*)#0) <= maxBytes",
	)
	c38AllReturns(c, "R2-read", rd, 0, "nil", "io.ReadAll(io.LimitReader("+pkg+"ArchiveStore.Open(store, ctx, key)#0, *))#0")
	c.Min("R2-read", 8)

	// ------------------------------------------------------------------ R2 message chunk manifest
	lm := c.Fn(pkg + "LoadStoredMessageChunkManifest")
	c.Guard("R2-msg", lm, CallTo{pkg + "LoadMessageChunkManifest"},
		pkg+"validateSHA256(expectedSHA256) == nil",
		pkg+"ValidateRepositoryKey(*) == nil",
		pkg+"ReadStoredObject(*)#1 == nil",
		"encoding/hex.EncodeToString(*[:]) == expectedSHA256",
	)
	c.CallShape("R2-msg", lm, "crypto/sha256.Sum256", "crypto/sha256.Sum256("+pkg+"ReadStoredObject(*)#0)")
	c.CallShape("R2-msg", lm, pkg+"LoadMessageChunkManifest", pkg+"LoadMessageChunkManifest("+pkg+"ReadStoredObject(*)#0)")
	c.Min("R2-msg", 6)

	// ------------------------------------------------------------------ R3 strict / canonical decoders
	strict := c.Fn(pkg + "decodeStrictJSON")
	c.Guard("R3-strict", strict, RetNil{},
		"after: encoding/json.Decoder.DisallowUnknownFields",
		"encoding/json.Decoder.Decode(*, value) == nil",
		"encoding/json.Decoder.Decode(*, alloc:struct{}) == io.EOF",
	)
	c.Guard("R3-strict", strict, CallTo{"encoding/json.Decoder.Decode(*, value)"}, "after: encoding/json.Decoder.DisallowUnknownFields")
	c.CallShape("R3-strict", strict, "encoding/json.NewDecoder", "encoding/json.NewDecoder(bytes.NewReader(body))")
	// nothing else in the package decodes JSON
	c38OnlyIn(c, "R3-strict", []string{"encoding/json.Unmarshal", "encoding/json.NewDecoder", "encoding/json.Decoder.Decode", "encoding/json.Decoder.*"}, 4, pkg+"decodeStrictJSON")

	type loader struct{ fn, validate string }
	for _, l := range []loader{
		{"LoadArchiveManifest", "validateArchiveManifest"},
		{"LoadSlotManifest", "validateSlotManifest"},
		{"LoadMessageChunkManifest", "validateMessageChunkManifest"},
		{"LoadRepositoryMarker", "validateRepositoryMarker"},
	} {
		fn := c.Fn(pkg + l.fn)
		if fn == nil || len(fn.Params) != 1 {
			continue
		}
		body := fn.Params[0].Name()
		c.Guard("R3-load", fn, RetNil{},
			pkg+"decodeStrictJSON("+body+", *) == nil",
			pkg+l.validate+"(*) == nil",
			"encoding/json.Marshal(*)#1 == nil",
			"bytes.Equal(encoding/json.Marshal(*)#0, "+body+") == true",
		)
	}
	c.Min("R3-load", 16)

	// manifest validators: ordering, per-chunk descriptor, totals
	vs := c.Fn(pkg + "validateSlotManifest")
	c.Guard("R3-valid", vs, RetNil{},
		"manifest.Format == "+c38Const(c, "SlotManifestFormat"),
		"manifest.Version == "+c38Const(c, "SlotManifestVersion"),
		"manifest.HashSlot < *",
		"len(manifest.Chunks) != 0",
		"manifest.LogicalBytes == phi(*.Descriptor.LogicalBytes*)",
		"manifest.StoredBytes == phi(*.Descriptor.StoredBytes*)",
		"manifest.Records == phi(*.Records*)",
		"manifest.MaxMessageID == phi(*.MaxMessageID*)",
	)
	c38LoopIter(c, "R3-valid", vs, "len(manifest.Chunks)",
		"*.Kind == \"metadata\" || *.Kind == \"messages\"",
		"*.Sequence == make(map)[*.Kind]",
		"*.Stream == make(map)[*.Kind] || *.Stream == (make(map)[*.Kind] + 1)",
		"*.Part == (make(map)[*.Kind] + 1)",
		"*.Key == fmt.Sprintf(*) || strings.HasSuffix(*.Key, fmt.Sprintf(*)) == true",
		"*.Key == fmt.Sprintf(*) || strings.HasPrefix(*.Key, fmt.Sprintf(*)) == true",
		pkg+"validateChunkDescriptor(*.Descriptor) == nil",
	)
	va := c.Fn(pkg + "validateArchiveManifest")
	c.Guard("R3-valid", va, RetNil{},
		"manifest.Format == "+c38Const(c, "ArchiveFormat"),
		"manifest.Version == "+c38Const(c, "ArchiveVersion"),
		pkg+"validateBackupIdentity(manifest.ID) == nil",
		"manifest.HashSlotCount == *",
		"len(manifest.Slots) == *",
		"manifest.Compression == "+zstdC,
		"manifest.Checksum == "+c38Const(c, "ChecksumSHA256"),
		"manifest.LogicalBytes == 0 || manifest.LogicalBytes == phi(*.LogicalBytes*)",
		"manifest.StoredBytes == 0 || manifest.StoredBytes == phi(*.StoredBytes*)",
		"manifest.Records == 0 || manifest.Records == phi(*.Records*)",
		"manifest.MaxMessageID == 0 || manifest.MaxMessageID == phi(*.MaxMessageID*)",
	)
	c38LoopIter(c, "R3-valid", va, "len(manifest.Slots)",
		"*.HashSlot < *",
		"*[*.HashSlot] == false",
		pkg+"validateSlotManifestKey(*.HashSlot, *.ManifestKey) == nil",
		pkg+"validateSHA256(*.ManifestSHA256) == nil",
	)
	vm := c.Fn(pkg + "validateMessageChunkManifest")
	c.Guard("R3-valid", vm, RetNil{},
		"manifest.Format == "+c38Const(c, "messageChunkManifestFormat"),
		"manifest.Version == "+c38Const(c, "messageChunkManifestVersion"),
		"manifest.HashSlot < *",
		"len(manifest.Chunks) != 0",
		"len(manifest.Chunks) <= *",
		"manifest.LogicalBytes == phi(*.Descriptor.LogicalBytes*)",
		"manifest.StoredBytes == phi(*.Descriptor.StoredBytes*)",
		"manifest.Records == phi(*.Records*)",
		"manifest.MaxMessageID == phi(*.MaxMessageID*)",
	)
	c38LoopIter(c, "R3-valid", vm, "len(manifest.Chunks)",
		"*.Kind == \"messages\"",
		"*.Sequence == (*.Sequence + *)",
		"*.Stream == *.Stream",
		"*.Part == (* + 1)",
		pkg+"validateChunkDescriptor(*.Descriptor) == nil",
		pkg+"ValidateRepositoryKey(*.Key) == nil",
	)
	c.Min("R3-valid", 45)

	// ------------------------------------------------------------------ R4 bounded reads
	nRA, nZR := 0, 0
	for _, fn := range c.P.FuncsMatching(pkg + "*") {
		hasRA, hasZR := false, false
		for _, b := range fn.Blocks {
			for _, in := range b.Instrs {
				if ci, ok := in.(ssa.CallInstruction); ok {
					switch calleeName(ci.Common()) {
					case "io.ReadAll":
						hasRA = true
					case "github.com/klauspost/compress/zstd.NewReader":
						hasZR = true
					}
				}
			}
		}
		if hasRA {
			nRA++
			c.CallShape("R4-bounded", fn, "io.ReadAll", "io.ReadAll(io.LimitReader(*))")
		}
		if hasZR {
			nZR++
			c38DecoderBounded(c, "R4-bounded", fn)
			c.CallShape("R4-bounded", fn, "io.Copy", "io.Copy(*, io.LimitReader(*github.com/klauspost/compress/zstd.NewReader(*)#0, *))")
		}
	}
	if nRA < 2 || nZR < 1 {
		c.add("vacuity", "R4-bounded", "sites", Undecided, "", fmt.Sprintf("expected ≥2 functions with io.ReadAll and ≥1 with zstd.NewReader in pkg/backup, found %d/%d", nRA, nZR))
	}
	c.Min("R4-bounded", 4)
}

// c38AllReturns: result idx of every return of fn renders to one of the globs.
func c38AllReturns(c *Ctx, rule string, fn *ssa.Function, idx int, globs ...string) {
	if fn == nil {
		return
	}
	n := 0
	var bad []string
	for _, in := range instrsMatching(fn, AnyRet{}) {
		ret := in.(*ssa.Return)
		n++
		if idx >= len(ret.Results) {
			bad = append(bad, c.P.InstrPos(in))
			continue
		}
		if s := Path(retOperand(ret, idx)); !globAny(globs, s) {
			bad = append(bad, s+" at "+c.P.InstrPos(in))
		}
	}
	construct := fmt.Sprintf("%s#every-return[%d]∈%v", c.P.Name(fn), idx, globs)
	if len(bad) > 0 || n == 0 {
		c.add("shape", rule, construct, Violated, c.P.Pos(fn.Pos()), "a return has a result outside the allowed shapes: "+strings.Join(bad, "; "))
	} else {
		c.add("shape", rule, construct, Held, c.P.Pos(fn.Pos()), fmt.Sprintf("%d return(s), all of an allowed shape", n))
	}
}

// c38IndexCompared: in VerifyPublishedArchive the HashSlot of the loaded
// reference is compared with the very index used to select manifest.Slots[i].
func c38IndexCompared(c *Ctx, rule string, fn *ssa.Function) {
	if fn == nil {
		return
	}
	construct := c.P.Name(fn) + "#hashslot-compared-with-slot-index"
	var idx ssa.Value
	for _, in := range instrsMatching(fn, CallTo{"pkg/backup.LoadStoredSlotReference"}) {
		call, ok := in.(*ssa.Call)
		if !ok || len(call.Call.Args) < 4 {
			continue
		}
		v := call.Call.Args[3]
		if u, ok := v.(*ssa.UnOp); ok {
			v = u.X
		}
		switch x := v.(type) {
		case *ssa.IndexAddr:
			idx = c38Strip(x.Index)
		case *ssa.Index:
			idx = c38Strip(x.Index)
		}
	}
	if idx == nil {
		c.add("shape", rule, construct, Undecided, c.P.Pos(fn.Pos()), "the expected reference is no longer an indexed element of manifest.Slots")
		return
	}
	for _, b := range fn.Blocks {
		for _, in := range b.Instrs {
			bo, ok := in.(*ssa.BinOp)
			if !ok || (bo.Op != token.NEQ && bo.Op != token.EQL) {
				continue
			}
			if glob("*.HashSlot", Path(bo.X)) && c38Strip(bo.Y) == idx || glob("*.HashSlot", Path(bo.Y)) && c38Strip(bo.X) == idx {
				c.add("shape", rule, construct, Held, c.P.InstrPos(in), "actual.HashSlot is compared with the loop index that selected the expected reference (SSA identity)")
				return
			}
		}
	}
	c.add("shape", rule, construct, Violated, c.P.Pos(fn.Pos()), "no comparison of the loaded reference's HashSlot with the index of manifest.Slots: slot order is not verified")
}

// c38DecoderBounded: every zstd.NewReader call in fn has a WithDecoderMaxMemory option.
func c38DecoderBounded(c *Ctx, rule string, fn *ssa.Function) {
	fname := c.P.Name(fn)
	n := 0
	var bad []string
	for _, in := range instrsMatching(fn, CallTo{"github.com/klauspost/compress/zstd.NewReader"}) {
		call, ok := in.(*ssa.Call)
		if !ok {
			continue
		}
		n++
		found := false
		if len(call.Call.Args) == 2 {
			for _, e := range c38VarargElems(call.Call.Args[1]) {
				if oc, ok := e.(*ssa.Call); ok && calleeName(&oc.Call) == "github.com/klauspost/compress/zstd.WithDecoderMaxMemory" {
					found = true
				}
			}
		}
		if !found {
			bad = append(bad, c.P.InstrPos(in))
		}
	}
	construct := fname + "#zstd.NewReader-has-WithDecoderMaxMemory"
	if len(bad) > 0 {
		c.add("shape", rule, construct, Violated, bad[0], "zstd.NewReader without WithDecoderMaxMemory (unbounded decoder allocation) at "+strings.Join(bad, ", "))
	} else {
		c.add("shape", rule, construct, Held, c.P.Pos(fn.Pos()), fmt.Sprintf("%d zstd.NewReader call(s), each with WithDecoderMaxMemory", n))
	}
}

// c38OnlyIn: inside pkg/backup the listed callees are called only from `owner`.
func c38OnlyIn(c *Ctx, rule string, callees []string, min int, owner string) {
	n := 0
	where := map[string]int{}
	var bad []string
	badPos := ""
	for _, fn := range c.P.FuncsMatching("pkg/backup.*") {
		name := c.P.Name(fn)
		for _, b := range fn.Blocks {
			for _, in := range b.Instrs {
				ci, ok := in.(ssa.CallInstruction)
				if !ok || !globAny(callees, calleeName(ci.Common())) {
					continue
				}
				n++
				where[name]++
				if rootName(name) != owner {
					bad = append(bad, calleeName(ci.Common())+" in "+name+" at "+c.P.InstrPos(in))
					if badPos == "" {
						badPos = c.P.InstrPos(in)
					}
				}
			}
		}
	}
	sort.Strings(bad)
	construct := "pkg/backup#json-decoding-only-in:" + owner
	switch {
	case len(bad) > 0:
		c.add("confine", rule, construct, Violated, badPos, "JSON is decoded outside "+owner+" (no unknown-field / trailing-value rejection): "+strings.Join(bad, "; "))
	case n < min:
		c.add("confine", rule, construct, Undecided, "", fmt.Sprintf("%d decoding call(s) found, hand-confirmed minimum %d", n, min))
	default:
		c.add("confine", rule, construct, Held, "", fmt.Sprintf("%d decoding call(s), all inside %s: %s", n, owner, countsString(where)))
	}
}
