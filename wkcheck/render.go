package main

import (
	"fmt"
	"go/constant"
	"go/token"
	"go/types"
	"strings"

	"golang.org/x/tools/go/ssa"
)

// calleeName names the target of a call: module functions by short name,
// interface methods as pkg.Iface.Method, builtins by name, dynamic calls as
// dyn:<path of the function value>.
func calleeName(c *ssa.CallCommon) string {
	if c.IsInvoke() {
		return objShortName(c.Method)
	}
	switch v := c.Value.(type) {
	case *ssa.Function:
		return funcShortName(v)
	case *ssa.Builtin:
		return v.Name()
	case *ssa.MakeClosure:
		if fn, ok := v.Fn.(*ssa.Function); ok {
			return funcShortName(fn)
		}
	}
	return "dyn:" + Path(c.Value)
}

// callArgs returns all arguments including the receiver.
func callArgs(c *ssa.CallCommon) []ssa.Value {
	if c.IsInvoke() {
		return append([]ssa.Value{c.Value}, c.Args...)
	}
	return c.Args
}

const maxRenderDepth = 7

// Path renders an SSA value as a canonical access-path / expression string.
// Loads are transparent (x.F means both the address and the loaded value),
// conversions are transparent, locals that are registers render as their
// defining expression.
func Path(v ssa.Value) string { return pathDepth(v, 0, nil) }

func pathDepth(v ssa.Value, d int, seen map[ssa.Value]bool) string {
	if v == nil {
		return "<nil>"
	}
	if d > maxRenderDepth {
		return "…"
	}
	switch v := v.(type) {
	case *ssa.Parameter:
		return v.Name()
	case *ssa.FreeVar:
		return v.Name()
	case *ssa.Global:
		return shortPkg(v.Pkg.Pkg.Path()) + "." + v.Name()
	case *ssa.Function:
		return funcShortName(v)
	case *ssa.Builtin:
		return v.Name()
	case *ssa.Const:
		return constString(v)
	case *ssa.Alloc:
		if p := spilledParam(v); p != nil {
			return pathDepth(p, d, seen)
		}
		if v.Comment != "" && v.Comment != "complit" && !strings.HasPrefix(v.Comment, "new") && !strings.HasPrefix(v.Comment, "make") {
			if renameLocals && v.Comment != "varargs" && v.Comment != "slicelit" && !isParamName(v.Parent(), v.Comment) {
				// robustness experiment: pretend every named local was renamed
				return v.Comment + "ʀ"
			}
			return v.Comment
		}
		return "alloc:" + typeBaseName(v.Type())
	case *ssa.UnOp:
		switch v.Op {
		case token.MUL:
			return pathDepth(v.X, d, seen)
		case token.NOT:
			return "!" + pathDepth(v.X, d+1, seen)
		case token.ARROW:
			return "<-" + pathDepth(v.X, d+1, seen)
		default:
			return v.Op.String() + pathDepth(v.X, d+1, seen)
		}
	case *ssa.FieldAddr:
		return pathDepth(v.X, d, seen) + "." + fieldName(v.X.Type(), v.Field)
	case *ssa.Field:
		return pathDepth(v.X, d, seen) + "." + fieldName(v.X.Type(), v.Field)
	case *ssa.IndexAddr:
		return pathDepth(v.X, d, seen) + "[" + pathDepth(v.Index, d+1, seen) + "]"
	case *ssa.Index:
		return pathDepth(v.X, d, seen) + "[" + pathDepth(v.Index, d+1, seen) + "]"
	case *ssa.Lookup:
		return pathDepth(v.X, d, seen) + "[" + pathDepth(v.Index, d+1, seen) + "]"
	case *ssa.Extract:
		return pathDepth(v.Tuple, d, seen) + fmt.Sprintf("#%d", v.Index)
	case *ssa.Call:
		return renderCall(&v.Call, d, seen)
	case *ssa.Convert:
		return pathDepth(v.X, d, seen)
	case *ssa.ChangeType:
		return pathDepth(v.X, d, seen)
	case *ssa.ChangeInterface:
		return pathDepth(v.X, d, seen)
	case *ssa.MakeInterface:
		return pathDepth(v.X, d, seen)
	case *ssa.SliceToArrayPointer:
		return pathDepth(v.X, d, seen)
	case *ssa.MultiConvert:
		return pathDepth(v.X, d, seen)
	case *ssa.BinOp:
		op := v.Op.String()
		if op == "*" {
			op = "×" // '*' is the glob wildcard in rule tables
		}
		return "(" + pathDepth(v.X, d+1, seen) + " " + op + " " + pathDepth(v.Y, d+1, seen) + ")"
	case *ssa.Phi:
		if seen == nil {
			seen = map[ssa.Value]bool{}
		}
		if seen[v] {
			return "phi↺"
		}
		seen[v] = true
		parts := make([]string, 0, len(v.Edges))
		for _, e := range v.Edges {
			parts = append(parts, pathDepth(e, d+2, seen))
		}
		delete(seen, v)
		return "phi(" + strings.Join(parts, "|") + ")"
	case *ssa.TypeAssert:
		return pathDepth(v.X, d, seen) + ".(" + typeBaseName(v.AssertedType) + ")"
	case *ssa.Slice:
		s := pathDepth(v.X, d, seen) + "["
		if v.Low != nil {
			s += pathDepth(v.Low, d+1, seen)
		}
		s += ":"
		if v.High != nil {
			s += pathDepth(v.High, d+1, seen)
		}
		return s + "]"
	case *ssa.MakeSlice:
		return "make([]" + typeBaseName(v.Type().Underlying().(*types.Slice).Elem()) + ", " + pathDepth(v.Len, d+1, seen) + ")"
	case *ssa.MakeMap:
		return "make(map)"
	case *ssa.MakeChan:
		return "make(chan)"
	case *ssa.MakeClosure:
		if fn, ok := v.Fn.(*ssa.Function); ok {
			return "closure:" + funcShortName(fn)
		}
		return "closure"
	case *ssa.Next:
		return "next(" + pathDepth(v.Iter, d+1, seen) + ")"
	case *ssa.Range:
		return "range(" + pathDepth(v.X, d+1, seen) + ")"
	case *ssa.Select:
		return "select"
	}
	return fmt.Sprintf("?%T", v)
}

func renderCall(c *ssa.CallCommon, d int, seen map[ssa.Value]bool) string {
	if d >= 3 {
		return calleeName(c) + "(…)"
	}
	args := callArgs(c)
	parts := make([]string, 0, len(args))
	for _, a := range args {
		parts = append(parts, pathDepth(a, d+1, seen))
	}
	return calleeName(c) + "(" + strings.Join(parts, ", ") + ")"
}

func constString(c *ssa.Const) string {
	if c.Value == nil {
		if isZeroableNonNil(c.Type()) {
			return "zero:" + typeBaseName(c.Type())
		}
		return "nil"
	}
	switch c.Value.Kind() {
	case constant.Bool:
		if constant.BoolVal(c.Value) {
			return "true"
		}
		return "false"
	case constant.String:
		return fmt.Sprintf("%q", constant.StringVal(c.Value))
	}
	return c.Value.ExactString()
}

func isZeroableNonNil(t types.Type) bool {
	switch t.Underlying().(type) {
	case *types.Struct, *types.Array:
		return true
	}
	return false
}

func fieldName(t types.Type, i int) string {
	if p, ok := t.Underlying().(*types.Pointer); ok {
		t = p.Elem()
	}
	if st, ok := t.Underlying().(*types.Struct); ok && i < st.NumFields() {
		return st.Field(i).Name()
	}
	return fmt.Sprintf("f%d", i)
}

// fieldVar returns the *types.Var selected by a FieldAddr/Field.
func fieldVar(t types.Type, i int) *types.Var {
	if p, ok := t.Underlying().(*types.Pointer); ok {
		t = p.Elem()
	}
	if st, ok := t.Underlying().(*types.Struct); ok && i < st.NumFields() {
		return st.Field(i)
	}
	return nil
}

// ownerTypeName gives the name of the struct type that declares the field selected by a FieldAddr/Field.
func ownerTypeName(t types.Type) string {
	if p, ok := t.Underlying().(*types.Pointer); ok {
		t = p.Elem()
	}
	return typeBaseName(t)
}

// spilledParam: an Alloc whose only store is of a Parameter/FreeVar in the
// entry block (go/ssa spills address-taken or large value parameters).
func spilledParam(a *ssa.Alloc) ssa.Value {
	refs := a.Referrers()
	if refs == nil {
		return nil
	}
	var src ssa.Value
	n := 0
	for _, r := range *refs {
		if st, ok := r.(*ssa.Store); ok && st.Addr == a {
			n++
			src = st.Val
		}
	}
	if n != 1 {
		return nil
	}
	switch src.(type) {
	case *ssa.Parameter:
		return src
	}
	return nil
}

// ---------------------------------------------------------------------------
// Atoms: comparison facts established on CFG edges.

type Atom struct {
	L, Op, R string
}

func (a Atom) String() string { return a.L + " " + a.Op + " " + a.R }

var negOp = map[string]string{"==": "!=", "!=": "==", "<": ">=", ">=": "<", ">": "<=", "<=": ">"}
var mirrorOp = map[string]string{"==": "==", "!=": "!=", "<": ">", ">": "<", "<=": ">=", ">=": "<="}

// which established operators satisfy a required operator
var impliedBy = map[string][]string{
	"==": {"=="},
	"!=": {"!=", "<", ">"},
	"<":  {"<"},
	"<=": {"<=", "<", "=="},
	">":  {">"},
	">=": {">=", ">", "=="},
}

// condAtom returns the atom established when cond evaluates to `truth`.
func condAtom(cond ssa.Value, truth bool) (Atom, bool) {
	switch c := cond.(type) {
	case *ssa.UnOp:
		if c.Op == token.NOT {
			return condAtom(c.X, !truth)
		}
	case *ssa.BinOp:
		op := c.Op.String()
		if _, ok := negOp[op]; ok {
			if !truth {
				op = negOp[op]
			}
			return Atom{Path(c.X), op, Path(c.Y)}, true
		}
	case *ssa.Phi:
		return Atom{}, false
	case *ssa.Const:
		return Atom{}, false
	}
	if b, ok := cond.Type().Underlying().(*types.Basic); !ok || b.Info()&types.IsBoolean == 0 {
		return Atom{}, false
	}
	val := "true"
	if !truth {
		val = "false"
	}
	return Atom{Path(cond), "==", val}, true
}

// AtomSpec is a required fact: globs for both operands and an operator.
type AtomSpec struct {
	L, Op, R string
	Src      string
}

// parseAtomSpec parses "L op R", "X" (== true), "!X" (== false).
func parseAtomSpec(s string) AtomSpec {
	src := s
	s = strings.TrimSpace(s)
	depth := 0
	for i := 0; i < len(s); i++ {
		switch s[i] {
		case '(', '[':
			depth++
		case ')', ']':
			depth--
		case ' ':
			if depth != 0 {
				continue
			}
			for _, op := range []string{" == ", " != ", " >= ", " <= ", " > ", " < "} {
				if strings.HasPrefix(s[i:], op) {
					return AtomSpec{strings.TrimSpace(s[:i]), strings.TrimSpace(op), strings.TrimSpace(s[i+len(op):]), src}
				}
			}
		}
	}
	if strings.HasPrefix(s, "!") {
		return AtomSpec{s[1:], "==", "false", src}
	}
	return AtomSpec{s, "==", "true", src}
}

func stripExtract(s string) string {
	if i := strings.LastIndex(s, "#"); i >= 0 && i >= len(s)-3 {
		return s[:i]
	}
	return s
}

func operandGlob(pat, s string) bool {
	return glob(pat, s) || glob(pat, stripExtract(s))
}

func opSatisfies(required, established string) bool {
	for _, o := range impliedBy[required] {
		if o == established {
			return true
		}
	}
	return false
}

// Satisfies reports whether the established atom a proves the spec.
func (sp AtomSpec) Satisfies(a Atom) bool {
	// boolean normalisation: "x == false" ≡ "x != true"
	a = normBool(a)
	req := normBool(Atom{sp.L, sp.Op, sp.R})
	if opSatisfies(req.Op, a.Op) && operandGlob(req.L, a.L) && operandGlob(req.R, a.R) {
		return true
	}
	if opSatisfies(req.Op, mirrorOp[a.Op]) && operandGlob(req.L, a.R) && operandGlob(req.R, a.L) {
		return true
	}
	return false
}

func normBool(a Atom) Atom {
	if a.Op == "!=" && a.R == "true" {
		return Atom{a.L, "==", "false"}
	}
	if a.Op == "!=" && a.R == "false" {
		return Atom{a.L, "==", "true"}
	}
	if a.Op == "!=" && a.L == "true" {
		return Atom{"false", "==", a.R}
	}
	if a.Op == "!=" && a.L == "false" {
		return Atom{"true", "==", a.R}
	}
	return a
}

// splitTop splits s on sep at bracket depth 0.
func splitTop(s, sep string) []string {
	var out []string
	depth, start := 0, 0
	for i := 0; i < len(s); i++ {
		switch s[i] {
		case '(', '[':
			depth++
		case ')', ']':
			depth--
		}
		if depth == 0 && strings.HasPrefix(s[i:], sep) {
			out = append(out, strings.TrimSpace(s[start:i]))
			start = i + len(sep)
			i += len(sep) - 1
		}
	}
	out = append(out, strings.TrimSpace(s[start:]))
	return out
}
