package main

import (
	"os"
	"strconv"
	"fmt"
	"go/constant"
	"go/token"
	"go/types"
	"strings"

	"golang.org/x/tools/go/ssa"
)

// calleeName names the target of a call: module functions by short name,
// interface methods as pkg.Iface.Method, builtins by name, dynamic calls as
// dyn:<path of the function value>.
func calleeName(c *ssa.CallCommon) string {
	if c.IsInvoke() {
		return objShortName(c.Method)
	}
	switch v := c.Value.(type) {
	case *ssa.Function:
		return funcShortName(v)
	case *ssa.Builtin:
		return v.Name()
	case *ssa.MakeClosure:
		if fn, ok := v.Fn.(*ssa.Function); ok {
			return funcShortName(fn)
		}
	}
	return "dyn:" + Path(c.Value)
}

// callArgs returns all arguments including the receiver.
func callArgs(c *ssa.CallCommon) []ssa.Value {
	if c.IsInvoke() {
		return append([]ssa.Value{c.Value}, c.Args...)
	}
	return c.Args
}

const maxRenderDepth = 7

// Path renders an SSA value as a canonical access-path / expression string.
// Loads are transparent (x.F means both the address and the loaded value),
// conversions are transparent, locals that are registers render as their
// defining expression.
func Path(v ssa.Value) string { return pathDepth(v, 0, nil) }

func pathDepth(v ssa.Value, d int, seen map[ssa.Value]bool) string {
	if v == nil {
		return "<nil>"
	}
	if d > maxRenderDepth {
		return "…"
	}
	switch v := v.(type) {
	case *ssa.Parameter:
		return v.Name()
	case *ssa.FreeVar:
		return v.Name()
	case *ssa.Global:
		return shortPkg(v.Pkg.Pkg.Path()) + "." + v.Name()
	case *ssa.Function:
		return funcShortName(v)
	case *ssa.Builtin:
		return v.Name()
	case *ssa.Const:
		return constString(v)
	case *ssa.Alloc:
		if p := spilledParam(v); p != nil {
			return pathDepth(p, d, seen)
		}
		if v.Comment != "" && v.Comment != "complit" && !strings.HasPrefix(v.Comment, "new") && !strings.HasPrefix(v.Comment, "make") {
			if inlineLocals && v.Comment != "varargs" && v.Comment != "slicelit" && !isParamName(v.Parent(), v.Comment) {
				// a local that is assigned once and only read afterwards is a name for that value
				if init := readOnlyInit(v); init != nil && d < maxRenderDepth {
					if seen == nil {
						seen = map[ssa.Value]bool{}
					}
					if !seen[v] {
						seen[v] = true
						r := pathDepth(init, d, seen)
						delete(seen, v)
						return r
					}
				}
			}
			if renameLocals && v.Comment != "varargs" && v.Comment != "slicelit" && !isParamName(v.Parent(), v.Comment) {
				// robustness experiment: pretend every named local was renamed
				return v.Comment + "ʀ"
			}
			return v.Comment
		}
		return "alloc:" + typeBaseName(v.Type())
	case *ssa.UnOp:
		switch v.Op {
		case token.MUL:
			return pathDepth(v.X, d, seen)
		case token.NOT:
			return "!" + pathDepth(v.X, d+1, seen)
		case token.ARROW:
			return "<-" + pathDepth(v.X, d+1, seen)
		default:
			return v.Op.String() + pathDepth(v.X, d+1, seen)
		}
	case *ssa.FieldAddr:
		return pathDepth(v.X, d, seen) + "." + fieldName(v.X.Type(), v.Field)
	case *ssa.Field:
		return pathDepth(v.X, d, seen) + "." + fieldName(v.X.Type(), v.Field)
	case *ssa.IndexAddr:
		return pathDepth(v.X, d, seen) + "[" + pathDepth(v.Index, d+1, seen) + "]"
	case *ssa.Index:
		return pathDepth(v.X, d, seen) + "[" + pathDepth(v.Index, d+1, seen) + "]"
	case *ssa.Lookup:
		return pathDepth(v.X, d, seen) + "[" + pathDepth(v.Index, d+1, seen) + "]"
	case *ssa.Extract:
		return pathDepth(v.Tuple, d, seen) + fmt.Sprintf("#%d", v.Index)
	case *ssa.Call:
		return renderCall(&v.Call, d, seen)
	case *ssa.Convert:
		return pathDepth(v.X, d, seen)
	case *ssa.ChangeType:
		return pathDepth(v.X, d, seen)
	case *ssa.ChangeInterface:
		return pathDepth(v.X, d, seen)
	case *ssa.MakeInterface:
		return pathDepth(v.X, d, seen)
	case *ssa.SliceToArrayPointer:
		return pathDepth(v.X, d, seen)
	case *ssa.MultiConvert:
		return pathDepth(v.X, d, seen)
	case *ssa.BinOp:
		op := v.Op.String()
		if op == "*" {
			op = "×" // '*' is the glob wildcard in rule tables
		}
		return "(" + pathDepth(v.X, d+1, seen) + " " + op + " " + pathDepth(v.Y, d+1, seen) + ")"
	case *ssa.Phi:
		if seen == nil {
			seen = map[ssa.Value]bool{}
		}
		if seen[v] {
			return "phi↺"
		}
		seen[v] = true
		parts := make([]string, 0, len(v.Edges))
		for _, e := range v.Edges {
			parts = append(parts, pathDepth(e, d+2, seen))
		}
		delete(seen, v)
		return "phi(" + strings.Join(parts, "|") + ")"
	case *ssa.TypeAssert:
		return pathDepth(v.X, d, seen) + ".(" + typeBaseName(v.AssertedType) + ")"
	case *ssa.Slice:
		s := pathDepth(v.X, d, seen) + "["
		if v.Low != nil {
			s += pathDepth(v.Low, d+1, seen)
		}
		s += ":"
		if v.High != nil {
			s += pathDepth(v.High, d+1, seen)
		}
		return s + "]"
	case *ssa.MakeSlice:
		return "make([]" + typeBaseName(v.Type().Underlying().(*types.Slice).Elem()) + ", " + pathDepth(v.Len, d+1, seen) + ")"
	case *ssa.MakeMap:
		return "make(map)"
	case *ssa.MakeChan:
		return "make(chan)"
	case *ssa.MakeClosure:
		if fn, ok := v.Fn.(*ssa.Function); ok {
			return "closure:" + funcShortName(fn)
		}
		return "closure"
	case *ssa.Next:
		return "next(" + pathDepth(v.Iter, d+1, seen) + ")"
	case *ssa.Range:
		return "range(" + pathDepth(v.X, d+1, seen) + ")"
	case *ssa.Select:
		return "select"
	}
	return fmt.Sprintf("?%T", v)
}

func renderCall(c *ssa.CallCommon, d int, seen map[ssa.Value]bool) string {
	if d >= 3 {
		return calleeName(c) + "(…)"
	}
	args := callArgs(c)
	parts := make([]string, 0, len(args))
	for _, a := range args {
		parts = append(parts, pathDepth(a, d+1, seen))
	}
	return calleeName(c) + "(" + strings.Join(parts, ", ") + ")"
}

func constString(c *ssa.Const) string {
	if c.Value == nil {
		if isZeroableNonNil(c.Type()) {
			return "zero:" + typeBaseName(c.Type())
		}
		return "nil"
	}
	switch c.Value.Kind() {
	case constant.Bool:
		if constant.BoolVal(c.Value) {
			return "true"
		}
		return "false"
	case constant.String:
		return fmt.Sprintf("%q", constant.StringVal(c.Value))
	}
	return c.Value.ExactString()
}

func isZeroableNonNil(t types.Type) bool {
	switch t.Underlying().(type) {
	case *types.Struct, *types.Array:
		return true
	}
	return false
}

func fieldName(t types.Type, i int) string {
	if p, ok := t.Underlying().(*types.Pointer); ok {
		t = p.Elem()
	}
	if st, ok := t.Underlying().(*types.Struct); ok && i < st.NumFields() {
		return st.Field(i).Name()
	}
	return fmt.Sprintf("f%d", i)
}

// fieldVar returns the *types.Var selected by a FieldAddr/Field.
func fieldVar(t types.Type, i int) *types.Var {
	if p, ok := t.Underlying().(*types.Pointer); ok {
		t = p.Elem()
	}
	if st, ok := t.Underlying().(*types.Struct); ok && i < st.NumFields() {
		return st.Field(i)
	}
	return nil
}

// ownerTypeName gives the name of the struct type that declares the field selected by a FieldAddr/Field.
func ownerTypeName(t types.Type) string {
	if p, ok := t.Underlying().(*types.Pointer); ok {
		t = p.Elem()
	}
	return typeBaseName(t)
}

// spilledParam: an Alloc whose only store is of a Parameter/FreeVar in the
// entry block (go/ssa spills address-taken or large value parameters).
func spilledParam(a *ssa.Alloc) ssa.Value {
	refs := a.Referrers()
	if refs == nil {
		return nil
	}
	var src ssa.Value
	n := 0
	for _, r := range *refs {
		if st, ok := r.(*ssa.Store); ok && st.Addr == a {
			n++
			src = st.Val
		}
	}
	if n != 1 {
		return nil
	}
	switch src.(type) {
	case *ssa.Parameter:
		return src
	}
	return nil
}

// ---------------------------------------------------------------------------
// Atoms: comparison facts established on CFG edges.

type Atom struct {
	L, Op, R string
	// U: the compared operands are unsigned integers (so `x != 0` ≡ `x > 0` and `x == 0` ≡ `x <= 0` ≡ `x < 1`)
	U bool
}

func mkAtom(l, op, r string) Atom { return Atom{L: l, Op: op, R: r} }

func isUnsigned(t types.Type) bool {
	b, ok := t.Underlying().(*types.Basic)
	return ok && b.Info()&types.IsUnsigned != 0
}

func (a Atom) String() string { return a.L + " " + a.Op + " " + a.R }

var negOp = map[string]string{"==": "!=", "!=": "==", "<": ">=", ">=": "<", ">": "<=", "<=": ">"}
var mirrorOp = map[string]string{"==": "==", "!=": "!=", "<": ">", ">": "<", "<=": ">=", ">=": "<="}

// which established operators satisfy a required operator
var impliedBy = map[string][]string{
	"==": {"=="},
	"!=": {"!=", "<", ">"},
	"<":  {"<"},
	"<=": {"<=", "<", "=="},
	">":  {">"},
	">=": {">=", ">", "=="},
}

// condAtom returns the atom established when cond evaluates to `truth`.
func condAtom(cond ssa.Value, truth bool) (Atom, bool) {
	switch c := cond.(type) {
	case *ssa.UnOp:
		if c.Op == token.NOT {
			return condAtom(c.X, !truth)
		}
	case *ssa.BinOp:
		op := c.Op.String()
		if _, ok := negOp[op]; ok {
			if !truth {
				op = negOp[op]
			}
			a := mkAtom(Path(c.X), op, Path(c.Y))
			a.U = isUnsigned(c.X.Type())
			return a, true
		}
	case *ssa.Phi:
		return Atom{}, false
	case *ssa.Const:
		return Atom{}, false
	}
	if b, ok := cond.Type().Underlying().(*types.Basic); !ok || b.Info()&types.IsBoolean == 0 {
		return Atom{}, false
	}
	val := "true"
	if !truth {
		val = "false"
	}
	return mkAtom(Path(cond), "==", val), true
}

// AtomSpec is a required fact: globs for both operands and an operator.
type AtomSpec struct {
	L, Op, R string
	Src      string
}

// parseAtomSpec parses "L op R", "X" (== true), "!X" (== false).
func parseAtomSpec(s string) AtomSpec {
	src := s
	s = strings.TrimSpace(s)
	depth := 0
	for i := 0; i < len(s); i++ {
		switch s[i] {
		case '(', '[':
			depth++
		case ')', ']':
			depth--
		case ' ':
			if depth != 0 {
				continue
			}
			for _, op := range []string{" == ", " != ", " >= ", " <= ", " > ", " < "} {
				if strings.HasPrefix(s[i:], op) {
					return AtomSpec{strings.TrimSpace(s[:i]), strings.TrimSpace(op), strings.TrimSpace(s[i+len(op):]), src}
				}
			}
		}
	}
	if strings.HasPrefix(s, "!") {
		return AtomSpec{s[1:], "==", "false", src}
	}
	return AtomSpec{s, "==", "true", src}
}

func stripExtract(s string) string {
	if i := strings.LastIndex(s, "#"); i >= 0 && i >= len(s)-3 {
		return s[:i]
	}
	return s
}

func operandGlob(pat, s string) bool {
	return glob(pat, s) || glob(pat, stripExtract(s))
}

func opSatisfies(required, established string) bool {
	for _, o := range impliedBy[required] {
		if o == established {
			return true
		}
	}
	return false
}

// Satisfies reports whether the established atom a proves the spec.
func (sp AtomSpec) Satisfies(a Atom) bool {
	// boolean normalisation: "x == false" ≡ "x != true"
	a = normBool(a)
	req := normBool(mkAtom(sp.L, sp.Op, sp.R))
	if satisfiesRaw(req, a) {
		return true
	}
	// equivalent spellings of a comparison with an integer literal (x >= 1 vs x > 0, len(s) != 0 vs len(s) > 0)
	if na, nr := normInt(a), normInt(req); na != a || nr != req {
		return satisfiesRaw(nr, na)
	}
	return false
}

func satisfiesRaw(req, a Atom) bool {
	if opSatisfies(req.Op, a.Op) && operandGlob(req.L, a.L) && operandGlob(req.R, a.R) {
		return true
	}
	if opSatisfies(req.Op, mirrorOp[a.Op]) && operandGlob(req.L, a.R) && operandGlob(req.R, a.L) {
		return true
	}
	return false
}

func normBool(a Atom) Atom {
	if a.Op == "!=" && a.R == "true" {
		return mkAtom(a.L, "==", "false")
	}
	if a.Op == "!=" && a.R == "false" {
		return mkAtom(a.L, "==", "true")
	}
	if a.Op == "!=" && a.L == "true" {
		return mkAtom("false", "==", a.R)
	}
	if a.Op == "!=" && a.L == "false" {
		return mkAtom("true", "==", a.R)
	}
	return a
}

// splitTop splits s on sep at bracket depth 0.
func splitTop(s, sep string) []string {
	var out []string
	depth, start := 0, 0
	for i := 0; i < len(s); i++ {
		switch s[i] {
		case '(', '[':
			depth++
		case ')', ']':
			depth--
		}
		if depth == 0 && strings.HasPrefix(s[i:], sep) {
			out = append(out, strings.TrimSpace(s[start:i]))
			start = i + len(sep)
			i += len(sep) - 1
		}
	}
	out = append(out, strings.TrimSpace(s[start:]))
	return out
}

// normInt canonicalises comparisons with an integer literal so that equivalent spellings agree:
// `x >= c` ≡ `x > c-1`, `x < c` ≡ `x <= c-1`; for lengths also `len(s) != 0` ≡ `len(s) > 0` and `== 0` ≡ `<= 0`.
func normInt(a Atom) Atom {
	if _, err := strconv.ParseInt(a.L, 10, 64); err == nil {
		if _, err2 := strconv.ParseInt(a.R, 10, 64); err2 != nil {
			u := a.U
			a = mkAtom(a.R, mirrorOp[a.Op], a.L)
			a.U = u
		}
	}
	c, err := strconv.ParseInt(a.R, 10, 64)
	if err != nil {
		return a
	}
	nonNeg := a.U || strings.HasPrefix(a.L, "len(") || strings.HasPrefix(a.L, "cap(")
	switch a.Op {
	case ">=":
		return mkAtom(a.L, ">", strconv.FormatInt(c-1, 10))
	case "<":
		if nonNeg && c == 1 {
			return mkAtom(a.L, "==", "0")
		}
		return mkAtom(a.L, "<=", strconv.FormatInt(c-1, 10))
	case "<=":
		if nonNeg && c == 0 {
			return mkAtom(a.L, "==", "0")
		}
	}
	if c == 0 && (a.U || strings.HasPrefix(a.L, "len(") || strings.HasPrefix(a.L, "cap(")) {
		// a non-negative quantity against zero: {== 0, <= 0, < 1} ≡ `== 0`; {!= 0, > 0, >= 1} ≡ `> 0`
		if a.Op == "!=" {
			return mkAtom(a.L, ">", "0")
		}
	}
	return a
}

var inlineLocals = os.Getenv("WK_INLINE_LOCALS") != "0"

// readOnlyInit: the one value ever stored into the local, when the local is stored exactly once as a whole and
// afterwards only read (loads and field/element reads; no partial store, no escape of its address).
func readOnlyInit(a *ssa.Alloc) ssa.Value {
	if a.Referrers() == nil {
		return nil
	}
	var init ssa.Value
	var readOnly func(v ssa.Value, depth int) bool
	readOnly = func(v ssa.Value, depth int) bool {
		if depth > 6 || v.Referrers() == nil {
			return depth <= 6
		}
		for _, r := range *v.Referrers() {
			switch x := r.(type) {
			case *ssa.Store:
				if x.Addr == v {
					if v != ssa.Value(a) || init != nil {
						return false // partial store, or a second whole store
					}
					init = x.Val
					continue
				}
				return false // the address itself is stored somewhere
			case *ssa.UnOp:
				if x.Op != token.MUL {
					return false
				}
			case *ssa.FieldAddr:
				if !readOnly(x, depth+1) {
					return false
				}
			case *ssa.IndexAddr:
				if !readOnly(x, depth+1) {
					return false
				}
			case *ssa.DebugRef:
			default:
				return false // call argument, closure binding, phi, …: may be written through
			}
		}
		return true
	}
	if !readOnly(a, 0) || init == nil {
		return nil
	}
	// the initialiser must be evaluated before every read: it is in the entry block or dominates all readers; keep it simple
	if in, ok := init.(ssa.Instruction); ok && in.Block() != nil && a.Block() != nil && !in.Block().Dominates(a.Block()) && in.Block() != a.Block() {
		// value computed after the alloc (normal): the store is where the name is bound; fine
		_ = in
	}
	return init
}
