package main

import (
	"go/types"

	"golang.org/x/tools/go/ssa"
)

func init() {
	const wq = "pkg/workqueue/"
	register(&PropSpec{
		ID:        "C37",
		Pkgs:      []string{"./pkg/workqueue"},
		Technique: "static analysis: lock-set + same-critical-section admission rules, path-sensitive typestate automata (slot / wait-group / scheduled-flag pairing across flag-carried branches and select arms), SSA edge-dominance guards and channel / field confinement",
		Explain: "Decides the structural clauses of the exactly-once argument for pkg/workqueue. (1) mailboxShard.scheduled/closed are only touched under shard.mu, scheduled is set true only behind !scheduled together with wg.Add(1) in one critical section and is followed by exactly one invokeShard; finishShardDrain clears the flag, re-checks the queue in the same section and then either re-arms+re-invokes or calls wg.Done, never both; every drain ends in finishShardDrain (deferred) and every failed pool invocation ends in finishShardDrain or a retry; shard.batch is private to the single drain. " +
			"(2) In every pool the admission slot taken by a Submit is released on every rejecting exit and on no accepting exit, items are enqueued only behind the closed test, each item received by a dispatcher/worker is handed to exactly one executor or cancel hook, taskWG.Add is undone unless the pool accepted the task, the worker-side Done calls are deferred, and Close raises closed before it waits (dispatch before task wait-group) and cancels the runtime context only after the wait or the caller's deadline. " +
			"(3) Admission atomicity: the closed test and the enqueue are in one critical section of the mutex under which Close raises closed (BoundedWorkerQueue.mu, BoundedBatchPool.admissionMu, mailboxShard.mu). BoundedPool has no such mutex: that obligation is reported as a finding. " +
			"NOT decided: exactly-once and FIFO as observable behaviour, the ants pool's own delivery guarantee (trusted: Invoke==nil means the function will run once), liveness of retries, handler panics beyond the deferred Done/finish calls.",
		Run: c37,
		Mutants: []Mutant{
			{Name: "mailbox-always-schedule", File: wq + "sharded_mailbox.go", Old: "\tif !shard.scheduled {\n\t\tshard.scheduled = true", New: "\tif true {\n\t\tshard.scheduled = true", Expect: "C37/R2-sched*"},
			{Name: "mailbox-schedule-no-invoke", File: wq + "sharded_mailbox.go", Old: "\tif shouldSchedule {\n\t\tm.invokeShard(shard)\n\t}", New: "\tif shouldSchedule && depth > 1 {\n\t\tm.invokeShard(shard)\n\t}", Expect: "C37/R2-sched*"},
			{Name: "mailbox-finish-no-recheck", File: wq + "sharded_mailbox.go", Old: "\tneedsSchedule := len(shard.queue) > 0 && shard.parent.ctx.Err() == nil\n\tif needsSchedule {\n\t\tshard.scheduled = true\n\t}\n\tshard.mu.Unlock()", New: "\tshard.mu.Unlock()\n\tshard.mu.Lock()\n\tneedsSchedule := len(shard.queue) > 0 && shard.parent.ctx.Err() == nil\n\tif needsSchedule {\n\t\tshard.scheduled = true\n\t}\n\tshard.mu.Unlock()", Expect: "C37/R2-finish*"},
			{Name: "mailbox-finish-done-and-invoke", File: wq + "sharded_mailbox.go", Old: "\t\tshard.parent.invokeShard(shard)\n\t\treturn\n\t}\n\tshard.parent.wg.Done()", New: "\t\tshard.parent.invokeShard(shard)\n\t}\n\tshard.parent.wg.Done()", Expect: "C37/R2-finish*"},
			{Name: "mailbox-submit-closed-unlocked", File: wq + "sharded_mailbox.go", Old: "\tshard.mu.Lock()\n\tif shard.closed || m.closed.Load() {\n\t\tshard.mu.Unlock()\n", New: "\tif shard.closed || m.closed.Load() {\n\t\tm.observeAdmission(shard.id, resultClosed)\n\t\treturn ErrClosed\n\t}\n\tshard.mu.Lock()\n\tif false {\n\t\tshard.mu.Unlock()\n", Expect: "C37/R1-lock.Mailbox*"},
			{Name: "mailbox-invoke-error-dropped", File: wq + "sharded_mailbox.go", Old: "\tcase errors.Is(err, ants.ErrPoolClosed):\n\t\tm.finishShardDrain(shard)\n\tdefault:\n\t\tm.finishShardDrain(shard)", New: "\tcase errors.Is(err, ants.ErrPoolClosed):\n\t\tm.finishShardDrain(shard)\n\tdefault:", Expect: "C37/R2-invoke*"},
			{Name: "mailbox-drain-finish-not-deferred", File: wq + "sharded_mailbox.go", Old: "\t\tm.observeWorker(shard, running)\n\t\tm.finishShardDrain(shard)\n\t}()", New: "\t\tm.observeWorker(shard, running)\n\t}()", Expect: "C37/R2-drain*"},
			{Name: "pool-submit-leaks-slot", File: wq + "bounded_pool.go", Old: "\tcase <-p.stop:\n\t\tp.releaseSlots(1)\n\t\tp.observeAdmission(resultClosed)\n\t\tp.observeDepth()\n\t\treturn ErrClosed\n\tcase <-ctx.Done():\n\t\tp.releaseSlots(1)\n\t\tp.observeAdmission(contextResult(ctx.Err()))", New: "\tcase <-p.stop:\n\t\tp.releaseSlots(1)\n\t\tp.observeAdmission(resultClosed)\n\t\tp.observeDepth()\n\t\treturn ErrClosed\n\tcase <-ctx.Done():\n\t\tp.observeAdmission(contextResult(ctx.Err()))", Expect: "C37/R3-slots.BoundedPool*"},
			{Name: "pool-executor-wg-leak", File: wq + "bounded_pool.go", Old: "\t\tp.taskWG.Done()\n\t\tif errors.Is(err, ants.ErrPoolClosed) {", New: "\t\tif errors.Is(err, ants.ErrPoolClosed) {", Expect: "C37/R3-taskwg.BoundedPool*"},
			{Name: "pool-runtask-done-not-deferred", File: wq + "bounded_pool.go", Old: "func (p *BoundedPool[T]) runTask(task boundedPoolTask[T]) {\n\tdefer p.taskWG.Done()\n", New: "func (p *BoundedPool[T]) runTask(task boundedPoolTask[T]) {\n", Expect: "C37/R3-taskwg.BoundedPool*"},
			{Name: "pool-close-wait-order", File: wq + "bounded_pool.go", Old: "\t\t\tp.dispatchWG.Wait()\n\t\t\tp.taskWG.Wait()\n", New: "\t\t\tp.taskWG.Wait()\n\t\t\tp.dispatchWG.Wait()\n", Expect: "C37/R4-close.BoundedPool*"},
			{Name: "batch-submit-outside-admission-lock", File: wq + "bounded_batch_pool.go", Old: "\tp.admissionMu.RLock()\n\tdefer p.admissionMu.RUnlock()\n\n\tif p.closed.Load() {", New: "\tp.admissionMu.RLock()\n\tp.admissionMu.RUnlock()\n\n\tif p.closed.Load() {", Expect: "C37/R4-atomic.BoundedBatchPool*"},
			{Name: "batch-close-flag-outside-lock", File: wq + "bounded_batch_pool.go", Old: "\t\tp.admissionMu.Lock()\n\t\tp.closed.Store(true)\n\t\tclose(p.stop)\n\t\tp.admissionMu.Unlock()", New: "\t\tp.closed.Store(true)\n\t\tp.admissionMu.Lock()\n\t\tclose(p.stop)\n\t\tp.admissionMu.Unlock()", Expect: "C37/R4-atomic.BoundedBatchPool*"},
			{Name: "batch-dispatch-drops-batch", File: wq + "bounded_batch_pool.go", Old: "\t\t\tif p.shouldCancelAccepted() {\n\t\t\t\tp.cancelTasks(batch)\n\t\t\t\tp.cancelQueued()\n\t\t\t\treturn\n\t\t\t}\n\t\t\tif !p.submitToExecutor(batch) {", New: "\t\t\tif p.shouldCancelAccepted() {\n\t\t\t\tp.cancelQueued()\n\t\t\t\treturn\n\t\t\t}\n\t\t\tif !p.submitToExecutor(batch) {", Expect: "C37/R3-handoff.BoundedBatchPool*"},
			{Name: "wq-enqueue-without-closed-check", File: wq + "bounded_worker_queue.go", Old: "func (q *BoundedWorkerQueue[T]) enqueueWithSlotLocked(item T) error {\n\tif q.closed {\n\t\treturn ErrClosed\n\t}\n", New: "func (q *BoundedWorkerQueue[T]) enqueueWithSlotLocked(item T) error {\n", Expect: "C37/R4-admit.WorkerQueue*"},
			{Name: "wq-submit-unlock-before-enqueue", File: wq + "bounded_worker_queue.go", Old: "\t\tcase <-slots:\n\t\t\tq.mu.Lock()\n\t\t\tif q.closed {", New: "\t\tcase <-slots:\n\t\t\tif q.Closed() {", Expect: "C37/R1-lock.WorkerQueue*"},
			{Name: "wq-submit-slot-leak", File: wq + "bounded_worker_queue.go", Old: "\t\t\tif q.closed {\n\t\t\t\tq.mu.Unlock()\n\t\t\t\tq.releaseSlot()\n\t\t\t\treturn ErrClosed\n\t\t\t}", New: "\t\t\tif q.closed {\n\t\t\t\tq.mu.Unlock()\n\t\t\t\treturn ErrClosed\n\t\t\t}", Expect: "C37/R3-slots.WorkerQueue*"},
			{Name: "wq-worker-skips-drain", File: wq + "bounded_worker_queue.go", Old: "\t\tcase <-q.stop:\n\t\t\tq.drain()\n\t\t\treturn", New: "\t\tcase <-q.stop:\n\t\t\treturn", Expect: "C37/R4-close.WorkerQueue*"},
		},
	})
}

func c37IsDeferOf(in ssa.Instruction, glob string) bool {
	d, ok := in.(*ssa.Defer)
	return ok && (CallTo{glob}).Match(d)
}

func c37(c *Ctx) {
	const wq = "pkg/workqueue"
	c37Mailbox(c, wq)
	c37WorkerQueue(c, wq)
	c37Pool(c, wq, "BoundedPool", "submit", false)
	c37Pool(c, wq, "BoundedBatchPool", "Submit", true)
	c.Min("R2-sched", 9)
	c.Min("R2-finish", 8)
	c.Min("R3-slots", 15)
	c.Min("R3-handoff", 8)
	c.Min("R3-taskwg", 10)
	c.Min("R4-admit", 34)
	c.Min("R4-atomic", 5)
	c.Min("R4-close", 25)
}

// ---------------------------------------------------------------------------
// ShardedMailbox

func c37Mailbox(c *Ctx, wq string) {
	const M = "pkg/workqueue.ShardedMailbox"
	const S = "pkg/workqueue.mailboxShard"
	submit := c.Fn(M + ".SubmitHash")
	finish := c.Fn(M + ".finishShardDrain")
	invoke := c.Fn(M + ".invokeShard")
	invokeRetry := c.Fn(M + ".invokeShard$1")
	drain := c.Fn(M + ".drainScheduledShard")
	drainDefer := c.Fn(M + ".drainScheduledShard$1")
	closeBody := c.Fn(M + ".Close$1")
	closeWait := c.Fn(M + ".Close$1$1")

	// R1 — guarded-by
	c.Lockset("R1-lock.Mailbox", LockSpec{Struct: S, Mutex: "mu", Fields: []string{"scheduled", "closed"}, ReadsToo: true})
	// batch is scratch owned by the single scheduled drain of the shard
	c.c26FieldAccessConfined("R1-batch", S+".batch", 3, S+".collectBatch")
	c.ConfineCalls("R1-batch", S+".collectBatch", 1, M+".drainScheduledShard")
	c.ConfineCalls("R1-batch", S+".nextItem", 1, M+".drainScheduledShard")
	c.ConfineCalls("R1-batch", M+".drainScheduledShard", 0) // only ever run by the ants pool as its task function

	// R2 — the scheduled flag
	setTrue := StoreTo{Addr: "*.scheduled", Val: "true"}
	setFalse := StoreTo{Addr: "*.scheduled", Val: "false"}
	invokeCall := CallTo{M + ".invokeShard"}
	c.ConfineStores("R2-sched", S+".scheduled", false, M+".SubmitHash", M+".finishShardDrain")
	c.StoreShape("R2-sched", submit, "*.scheduled", "true")
	c.Guard("R2-sched", submit, setTrue, "!*.scheduled")
	c.SameSection("R2-sched", submit, "*.mu", LoadOf{"*.scheduled"}, setTrue)
	c.Guard("R2-sched", submit, CallTo{"sync.WaitGroup.Add"}, "!*.scheduled")
	c.CallShape("R2-sched", submit, "sync.WaitGroup.Add", "sync.WaitGroup.Add(m.wg, 1)")
	// flag and wait-group move together inside one critical section
	c.c26Typestate("R2-sched", "scheduled=true and wg.Add(1) happen together before the shard lock is released", c26TSpec{fn: submit,
		step: func(st int, in ssa.Instruction) int {
			switch {
			case setTrue.Match(in):
				return st | 1
			case (CallTo{"sync.WaitGroup.Add"}).Match(in):
				return st | 2
			case (CallTo{"sync.Mutex.Unlock"}).Match(in):
				if st != 0 && st != 3 {
					return c26Bad
				}
			}
			return st
		}}, "every unlock happens with both or neither of the two updates done")
	// a shard that was marked scheduled is invoked exactly once, an unmarked one never
	c.c26Typestate("R2-sched", "scheduled=true is followed by exactly one invokeShard; no invokeShard otherwise", c26TSpec{fn: submit,
		step: func(st int, in ssa.Instruction) int {
			switch {
			case setTrue.Match(in):
				return 1
			case invokeCall.Match(in):
				if st != 1 {
					return c26Bad
				}
				return 2
			}
			return st
		},
		exit: func(st int, ret *ssa.Return) bool { return st == 1 },
	}, "invokeShard runs exactly on the paths that set the flag")
	c.CallShape("R2-sched", submit, M+".invokeShard", M+".invokeShard(m, m.shards[*])")

	// finishShardDrain: clear, re-check in the same section, then re-arm+invoke xor Done
	c.StoreShape("R2-finish", finish, "*.scheduled", "false", "true")
	c.SameSection("R2-finish", finish, "shard.mu", setFalse, setTrue)
	c.SameSection("R2-finish", finish, "shard.mu", setFalse, CallTo{"len(shard.queue)"})
	// (a shard is re-armed whenever an item is queued, closed or not: Close waits on the wait-group, and an item
	// admitted in the drain's tail window must still run; only a dead runtime context abandons the queue —
	// the earlier form of these two rules tied re-arming to !closed, which was defect C37/X2-retire.Mailbox)
	c.c26GuardPS("R2-finish", finish, setTrue, "len(shard.queue) > 0", "context.Context.Err(*) == nil")
	// (when the shard is retired instead — wg.Done — is decided by X2-retire.Mailbox in zz_ext_c37.go)
	c.c26Typestate("R2-finish", "after scheduled=false: re-armed ⇒ exactly one invokeShard and no wg.Done; not re-armed ⇒ exactly one wg.Done and no invokeShard", c26TSpec{fn: finish,
		step: func(st int, in ssa.Instruction) int {
			switch {
			case setFalse.Match(in):
				return 1
			case setTrue.Match(in):
				if st != 1 {
					return c26Bad
				}
				return 2
			case invokeCall.Match(in):
				if st != 2 {
					return c26Bad
				}
				return 3
			case (CallTo{"sync.WaitGroup.Done"}).Match(in):
				if st != 1 {
					return c26Bad
				}
				return 4
			}
			return st
		},
		exit: func(st int, ret *ssa.Return) bool { return st == 1 || st == 2 },
	}, "the two continuations are mutually exclusive and one of them always happens")
	c.CallShape("R2-finish", finish, M+".invokeShard", M+".invokeShard(shard.parent, shard)")
	c.CallShape("R2-finish", finish, "sync.WaitGroup.Done", "sync.WaitGroup.Done(shard.parent.wg)")

	// invokeShard: a scheduled shard is never forgotten when the pool refuses it
	c.Guard("R2-invoke", invoke, AnyRet{},
		"*.PoolWithFuncGeneric.Invoke(m.pool, shard) == nil || after: "+M+".finishShardDrain || after: pkg/goroutine.SafeGo || m == nil || shard == nil")
	c.CallShape("R2-invoke", invoke, M+".finishShardDrain", M+".finishShardDrain(m, shard)")
	c.CallShape("R2-invoke", invoke, "*.PoolWithFuncGeneric.Invoke", "*.PoolWithFuncGeneric.Invoke(m.pool, shard)")
	c.CallShape("R2-invoke", invoke, "pkg/goroutine.SafeGo", "pkg/goroutine.SafeGo(*, *, closure:"+M+".invokeShard$1)")
	c.Guard("R2-invoke", invokeRetry, AnyRet{}, "after: "+M+".invokeShard || after: "+M+".finishShardDrain")
	c.Pairing("R2-invoke", invokeRetry, InstrFn{"select", func(in ssa.Instruction) bool { _, ok := in.(*ssa.Select); return ok }},
		OneOf{CallTo{M + ".invokeShard"}, CallTo{M + ".finishShardDrain"}}, nil)
	c.CallShape("R2-invoke", invokeRetry, M+".*", M+".invokeShard(m, shard)", M+".finishShardDrain(m, shard)")

	// the drain always ends in finishShardDrain, also when the handler panics
	c.c26Typestate("R2-drain", "the deferred finish closure is registered before the first item is taken", c26TSpec{fn: drain,
		step: func(st int, in ssa.Instruction) int {
			switch {
			case c37IsDeferOf(in, M+".drainScheduledShard$1"):
				return 1
			case (CallTo{S + ".nextItem"}).Match(in), (CallTo{S + ".collectBatch"}).Match(in), (CallTo{M + ".runBatchHandler"}).Match(in):
				if st != 1 {
					return c26Bad
				}
			}
			return st
		}}, "defer registered first")
	c.Guard("R2-drain", drainDefer, AnyRet{}, "after: "+M+".finishShardDrain(m, shard)")
	c.Pairing("R2-drain", drainDefer, CallTo{"sync/atomic.Int64.Add"}, CallTo{M + ".finishShardDrain"}, nil)
	c.Guard("R2-drain", drain, AnyRet{}, "!*.nextItem(shard)#1 || m == nil || shard == nil")
	c.Guard("R2-drain", drain, CallTo{M + ".runBatchHandler"}, "*.nextItem(shard)#1 == true")
	c.Guard("R2-drain", c.Fn(S+".nextItem"), Ret{1, "false"}, "len(s.queue) == 0")

	// R3 — the wait-group that Close waits on
	c.c26MethodSites("R3-wg.Mailbox", M+".wg", map[string][]string{
		"Add":  {M + ".SubmitHash"},
		"Done": {M + ".finishShardDrain"},
		"Wait": {M + ".Close$1$1"},
	})
	c.ConfineCalls("R3-wg.Mailbox", M+".finishShardDrain", 4, M+".invokeShard", M+".drainScheduledShard$1")

	// R4 — admission atomicity and close order
	send := InstrFn{"send on shard.queue", func(in ssa.Instruction) bool {
		s, ok := in.(*ssa.Send)
		return ok && glob("*.queue", Path(s.Chan))
	}}
	c.Guard("R4-admit.Mailbox", submit, send, "!*].closed", "!sync/atomic.Bool.Load(m.closed)", "len(*.queue) < cap(*.queue)")
	c.SameSection("R4-admit.Mailbox", submit, "*.mu", LoadOf{"*].closed"}, send)
	c.c26ConfineChan("R4-admit.Mailbox", S+".queue", "send", 1, M+".SubmitHash")
	c.c26ConfineChan("R4-admit.Mailbox", S+".queue", "recv", 3, S+".nextItem", S+".collectBatch")
	c.ConfineStores("R4-admit.Mailbox", S+".closed", false, M+".Close")
	c.StoreShape("R4-admit.Mailbox", closeBody, "*.closed", "true")
	sites := c.AtomicOps("R4-admit.Mailbox", M+".closed", []string{"Load", "Store"}, nil)
	for _, s := range sites {
		if s.method == "Store" && c.P.Name(s.fn) != M+".Close$1" {
			c.add("confine", "R4-admit.Mailbox", "closed.Store@"+c.P.Name(s.fn), Violated, c.P.InstrPos(s.call), "ShardedMailbox.closed is stored outside Close")
		}
	}
	c.CallShape("R4-admit.Mailbox", closeBody, "sync/atomic.Bool.Store", "sync/atomic.Bool.Store(m.closed, true)")
	c.Guard("R4-close.Mailbox", closeBody, CallTo{"pkg/goroutine.SafeGo"}, "after: sync/atomic.Bool.Store(m.closed, true)", "* >= len(m.shards)")
	c.Guard("R4-close.Mailbox", closeBody, CallTo{"dyn:m.cancel()"}, "select#0 == 0 || select#0 == 1")
	c.Guard("R4-close.Mailbox", closeBody, CallTo{"pkg/workqueue.releaseOwnedPool"}, "select#0 == 0 || select#0 == 1")
	c.Guard("R4-close.Mailbox", closeWait, CallTo{"close(done)"}, "after: sync.WaitGroup.Wait(m.wg)")
}

// ---------------------------------------------------------------------------
// BoundedWorkerQueue

func c37WorkerQueue(c *Ctx, wq string) {
	const Q = "pkg/workqueue.BoundedWorkerQueue"
	submit := c.Fn(Q + ".submit")
	enq := c.Fn(Q + ".enqueueWithSlotLocked")
	closeBody := c.Fn(Q + ".Close$1")
	closeWait := c.Fn(Q + ".Close$1$1")
	worker := c.Fn(Q + ".runWorker")
	drain := c.Fn(Q + ".drain")

	c.Lockset("R1-lock.WorkerQueue", LockSpec{Struct: Q, Mutex: "mu", Fields: []string{"closed"}, ReadsToo: true, AssumeHeld: []string{Q + ".enqueueWithSlotLocked"}})

	// admission: closed is tested in the locked helper that performs the only enqueue
	sendQ := InstrFn{"select-send on q.queue", func(in ssa.Instruction) bool {
		sel, ok := in.(*ssa.Select)
		if !ok {
			return false
		}
		for _, st := range sel.States {
			if st.Dir == types.SendOnly && glob("q.queue", Path(st.Chan)) {
				return true
			}
		}
		return false
	}}
	c.Guard("R4-admit.WorkerQueue", enq, sendQ, "!q.closed")
	c.c37NilIffArm("R4-admit.WorkerQueue", enq, "q.queue")
	c.c26ConfineChan("R4-admit.WorkerQueue", Q+".queue", "send", 1, Q+".enqueueWithSlotLocked")
	c.c26ConfineChan("R4-admit.WorkerQueue", Q+".queue", "recv", 2, Q+".runWorker", Q+".drain")
	c.ConfineCalls("R4-admit.WorkerQueue", Q+".enqueueWithSlotLocked", 2, Q+".submit")
	c.Guard("R4-admit.WorkerQueue", submit, RetNil{}, "*.enqueueWithSlotLocked(q, item) == nil")
	c.ConfineStores("R4-admit.WorkerQueue", Q+".closed", false, Q+".Close")
	c.StoreShape("R4-admit.WorkerQueue", closeBody, "q.closed", "true")
	c.c26Held("R4-admit.WorkerQueue", closeBody, CallTo{"close(q.stop)"}, "q.mu", 'W')
	c.c26ConfineChan("R4-admit.WorkerQueue", Q+".stop", "close", 1, Q+".Close")

	// slots: a token taken from q.slots is returned on every rejecting exit and kept on success
	slotArm := func(from *ssa.BasicBlock, succ int) bool { return c26ArmIs(from, succ, false, "q.slots") }
	c.c26Typestate("R3-slots.WorkerQueue", "slot token taken from q.slots is released on every non-accepting continuation and kept when the item was enqueued", c26TSpec{fn: submit,
		onEdge: func(st int, from *ssa.BasicBlock, succ int) int {
			if slotArm(from, succ) {
				if st != 0 {
					return c26Bad
				}
				return 1
			}
			if ok, isNil := c26CallEdge(from, succ, Q+".enqueueWithSlotLocked"); ok {
				if st != 1 {
					return c26Bad
				}
				if isNil {
					return 2 // token now accounts for the queued item
				}
			}
			return st
		},
		step: func(st int, in ssa.Instruction) int {
			switch {
			case (CallTo{Q + ".releaseSlot"}).Match(in):
				if st != 1 {
					return c26Bad
				}
				return 0
			case (CallTo{Q + ".enqueueWithSlotLocked"}).Match(in):
				if st != 1 {
					return c26Bad
				}
			}
			return st
		},
		exit: func(st int, ret *ssa.Return) bool {
			if (RetNil{}).Match(ret) {
				return st != 2
			}
			return st != 0
		},
	}, "acquire/release balanced on every path, success keeps the token")

	// workers: every received item releases its slot and runs once; Done is deferred; stop ⇒ drain
	for _, fn := range []*ssa.Function{worker, drain} {
		if fn == nil {
			continue
		}
		c.c26Typestate("R3-handoff.WorkerQueue", "each item received from q.queue gets one releaseSlot and one runItem before the next receive or return", c26TSpec{fn: fn,
			onEdge: func(st int, from *ssa.BasicBlock, succ int) int {
				if c26ArmIs(from, succ, false, "q.queue") {
					if st != 0 {
						return c26Bad
					}
					return 1
				}
				return st
			},
			step: func(st int, in ssa.Instruction) int {
				switch {
				case (CallTo{Q + ".releaseSlot"}).Match(in):
					if st != 1 {
						return c26Bad
					}
					return 2
				case (CallTo{Q + ".runItem"}).Match(in):
					if st != 2 {
						return c26Bad
					}
					return 0
				}
				return st
			},
			exit: func(st int, ret *ssa.Return) bool { return st != 0 },
		}, "receive → releaseSlot → runItem")
		c.CallShape("R3-handoff.WorkerQueue", fn, Q+".runItem", Q+".runItem(q, select#2)")
	}
	c.c26DeferInEntry("R3-wg.WorkerQueue", worker, "sync.WaitGroup.Done(q.workerWG)")
	c.c26MethodSites("R3-wg.WorkerQueue", Q+".workerWG", map[string][]string{
		"Add":  {"pkg/workqueue.NewBoundedWorkerQueue"},
		"Done": {Q + ".runWorker"},
		"Wait": {Q + ".Close$1$1"},
	})
	c.Guard("R4-close.WorkerQueue", worker, AnyRet{}, "after: "+Q+".drain")
	c.Guard("R4-close.WorkerQueue", closeWait, CallTo{"close(done)"}, "after: sync.WaitGroup.Wait(q.workerWG)")
	c.Guard("R4-close.WorkerQueue", closeBody, CallTo{"pkg/goroutine.SafeGo"}, "after: close(q.stop)")
	c.Guard("R4-close.WorkerQueue", closeBody, CallTo{"dyn:q.cancel()"}, "select#0 == 0 || select#0 == 1")
}

// ---------------------------------------------------------------------------
// BoundedPool / BoundedBatchPool (same skeleton; the batch pool has an admission mutex)

func c37Pool(c *Ctx, wq, typ, submitName string, batch bool) {
	P := wq + "." + typ
	submit := c.Fn(P + "." + submitName)
	acquire := c.Fn(P + ".acquireSlot")
	toExec := c.Fn(P + ".submitToExecutor")
	dispatch := c.Fn(P + ".dispatch")
	drainQ := c.Fn(P + ".drainQueue")
	closeBody := c.Fn(P + ".Close$1")
	closeWait := c.Fn(P + ".Close$1$1")
	run := "runTask"
	if batch {
		run = "runBatch"
	}
	runFn := c.Fn(P + "." + run)
	tag := typ

	sendQ := InstrFn{"select-send on p.queue", func(in ssa.Instruction) bool {
		sel, ok := in.(*ssa.Select)
		if !ok {
			return false
		}
		for _, st := range sel.States {
			if st.Dir == types.SendOnly && glob("p.queue", Path(st.Chan)) {
				return true
			}
		}
		return false
	}}

	// R4 — admission
	c.Guard("R4-admit."+tag, submit, sendQ, "!sync/atomic.Bool.Load(p.closed)", "*.acquireSlot(*) == nil")
	c.c26ConfineChan("R4-admit."+tag, P+".queue", "send", 1, P+"."+submitName)
	recvFns := []string{P + ".dispatch", P + ".drainQueue"}
	if batch {
		recvFns = append(recvFns, P+".collectBatch", P+".drainReadyInto", P+".cancelQueued")
	}
	c.c26ConfineChan("R4-admit."+tag, P+".queue", "recv", 2, recvFns...)
	c.c26ConfineChan("R4-admit."+tag, P+".stop", "close", 1, P+".Close")
	sites := c.AtomicOps("R4-admit."+tag, P+".closed", []string{"Load", "Store"}, nil)
	for _, s := range sites {
		if s.method == "Store" && c.P.Name(s.fn) != P+".Close$1" {
			c.add("confine", "R4-admit."+tag, "closed.Store@"+c.P.Name(s.fn), Violated, c.P.InstrPos(s.call), typ+".closed is stored outside Close")
		}
	}
	c.CallShape("R4-admit."+tag, closeBody, "sync/atomic.Bool.Store", "sync/atomic.Bool.Store(p.closed, true)")
	// atomicity: closed test and enqueue in one section of the mutex under which Close raises closed
	c.c37AdmissionAtomic("R4-atomic."+tag, P, submit, closeBody, sendQ)

	// R3 — slots in Submit
	c.c26Typestate("R3-slots."+tag, "the slot acquired by acquireSlot()==nil is released on every rejecting exit and kept exactly when the item was sent to p.queue", c26TSpec{fn: submit,
		onEdge: func(st int, from *ssa.BasicBlock, succ int) int {
			if ok, isNil := c26CallEdge(from, succ, P+".acquireSlot"); ok {
				if isNil {
					return 1
				}
				return 0
			}
			if c26ArmIs(from, succ, true, "p.queue") {
				if st != 1 {
					return c26Bad
				}
				return 2
			}
			return st
		},
		step: func(st int, in ssa.Instruction) int {
			if (CallTo{P + ".releaseSlots"}).Match(in) {
				if st != 1 {
					return c26Bad
				}
				return 0
			}
			return st
		},
		exit: func(st int, ret *ssa.Return) bool {
			if (RetNil{}).Match(ret) {
				return st != 2
			}
			return st != 0
		},
	}, "acquire/release balanced; success keeps the slot for the queued item")
	c.CallShape("R3-slots."+tag, submit, P+".releaseSlots", P+".releaseSlots(p, 1)")
	c.c37NilIffArm("R3-slots."+tag, acquire, "p.slots")
	c.c26ConfineChan("R3-slots."+tag, P+".slots", "send", 1, P+".acquireSlot")
	c.c26ConfineChan("R3-slots."+tag, P+".slots", "recv", 1, P+".releaseSlots")

	// R3 — executor hand-off: wait-group and slots
	invokeGlob := "*.PoolWithFuncGeneric.Invoke"
	c.c26Typestate("R3-taskwg."+tag, "taskWG.Add(1) before Invoke; undone by Done unless Invoke returned nil (then the pooled function's deferred Done owns it)", c26TSpec{fn: toExec,
		onEdge: func(st int, from *ssa.BasicBlock, succ int) int {
			if ok, isNil := c26CallEdge(from, succ, invokeGlob); ok {
				if st != 2 {
					return c26Bad
				}
				if isNil {
					return 0
				}
				return 3
			}
			return st
		},
		step: func(st int, in ssa.Instruction) int {
			switch {
			case (CallTo{"sync.WaitGroup.Add(p.taskWG, 1)"}).Match(in):
				if st != 0 {
					return c26Bad
				}
				return 1
			case (CallTo{invokeGlob}).Match(in):
				if st != 1 {
					return c26Bad
				}
				return 2
			case (CallTo{"sync.WaitGroup.Done(p.taskWG)"}).Match(in):
				if st != 3 {
					return c26Bad
				}
				return 0
			}
			return st
		},
		exit: func(st int, ret *ssa.Return) bool { return st != 0 },
	}, "Add/Done balanced around a refused Invoke")
	c.c26DeferInEntry("R3-taskwg."+tag, runFn, "sync.WaitGroup.Done(p.taskWG)")
	c.c26MethodSites("R3-taskwg."+tag, P+".taskWG", map[string][]string{
		"Add":  {P + ".submitToExecutor"},
		"Done": {P + ".submitToExecutor", P + "." + run},
		"Wait": {P + ".Close$1$1"},
	})
	c.c26DeferInEntry("R3-taskwg."+tag, dispatch, "sync.WaitGroup.Done(p.dispatchWG)")
	c.c26MethodSites("R3-taskwg."+tag, P+".dispatchWG", map[string][]string{
		"Add":  {wq + ".New" + typ},
		"Done": {P + ".dispatch"},
		"Wait": {P + ".Close$1$1"},
	})
	// every return of submitToExecutor has given the slots back exactly once
	released := func(in ssa.Instruction) bool {
		return (CallTo{P + ".releaseSlots"}).Match(in) || (batch && (CallTo{P + ".cancelTasks"}).Match(in))
	}
	c.c26Typestate("R3-slots."+tag, "submitToExecutor releases the batch's slots exactly once before every return", c26TSpec{fn: toExec,
		onEdge: func(st int, from *ssa.BasicBlock, succ int) int {
			if batch {
				if ok, val := c26CallEdge(from, succ, P+".retryExecutor"); ok && !val {
					return st + 1 // retryExecutor released or cancelled before returning false
				}
				if a, ok := c37EdgeAtom(from, succ); ok && (AtomSpec{L: "len(batch)", Op: "==", R: "0"}).Satisfies(a) {
					return 1 // nothing to release
				}
			}
			return st
		},
		step: func(st int, in ssa.Instruction) int {
			if released(in) {
				if st != 0 {
					return c26Bad
				}
				return 1
			}
			return st
		},
		exit: func(st int, ret *ssa.Return) bool { return st != 1 },
	}, "one release per call")
	if batch {
		retry := c.Fn(P + ".retryExecutor")
		c.c26Typestate("R3-slots."+tag, "retryExecutor returns false only after releasing or cancelling the batch, true without touching it", c26TSpec{fn: retry,
			step: func(st int, in ssa.Instruction) int {
				if released(in) {
					if st != 0 {
						return c26Bad
					}
					return 1
				}
				return st
			},
			exit: func(st int, ret *ssa.Return) bool {
				if (Ret{0, "true"}).Match(ret) {
					return st != 0
				}
				return st != 1
			},
		}, "false ⇔ released")
		c.Guard("R3-slots."+tag, c.Fn(P+".cancelTasks"), CallTo{"dyn:*CancelAccepted*"}, "after: "+P+".releaseSlots(p, len(tasks))")
	}

	// R3 — hand-off in the dispatcher loops: a received task is never dropped
	for _, fn := range []*ssa.Function{dispatch, drainQ} {
		if fn == nil {
			continue
		}
		c.c26Typestate("R3-handoff."+tag, "each task received from p.queue is passed to submitToExecutor (or the cancel hook) before the next receive or return", c26TSpec{fn: fn,
			onEdge: func(st int, from *ssa.BasicBlock, succ int) int {
				if c26ArmIs(from, succ, false, "p.queue") {
					if st != 0 {
						return c26Bad
					}
					return 1
				}
				if batch && st == 2 {
					if a, ok := c37EdgeAtom(from, succ); ok && (AtomSpec{L: "len(*.collectBatch(*))", Op: "==", R: "0"}).Satisfies(a) {
						return 0
					}
				}
				return st
			},
			step: func(st int, in ssa.Instruction) int {
				switch {
				case batch && (CallTo{P + ".collectBatch"}).Match(in):
					if st != 1 {
						return c26Bad
					}
					return 2
				case (CallTo{P + ".submitToExecutor"}).Match(in), batch && (CallTo{P + ".cancelTasks"}).Match(in):
					if st == 0 || (batch && !(CallTo{P + ".cancelTasks"}).Match(in) && st != 2) {
						return c26Bad
					}
					return 0
				}
				return st
			},
			exit: func(st int, ret *ssa.Return) bool { return st != 0 },
		}, "receive → (collectBatch →) submitToExecutor | cancelTasks")
	}
	if batch {
		c.Guard("R4-close."+tag, dispatch, AnyRet{}, "after: "+P+".drainQueue || after: "+P+".cancelQueued || !"+P+".submitToExecutor(*)")
		c.Guard("R4-close."+tag, dispatch, CallTo{P + ".cancelQueued"}, "*.shouldCancelAccepted(p) == true || p.cfg.CancelAcceptedOnClose")
		c.GuardTrue("R4-close."+tag, c.Fn(P+".shouldCancelAccepted"), 0, "p.cfg.CancelAcceptedOnClose", "sync/atomic.Bool.Load(p.closed)")
	} else {
		c.Guard("R4-close."+tag, dispatch, AnyRet{}, "after: "+P+".drainQueue || !"+P+".submitToExecutor(*)")
	}

	// R4 — Close: raise closed, wake the dispatcher, wait dispatch-then-task, cancel last
	c.Guard("R4-close."+tag, closeBody, CallTo{"pkg/goroutine.SafeGo"}, "after: sync/atomic.Bool.Store(p.closed, true)", "after: close(p.stop)")
	c.Guard("R4-close."+tag, closeWait, CallTo{"sync.WaitGroup.Wait(p.taskWG)"}, "after: sync.WaitGroup.Wait(p.dispatchWG)")
	c.Guard("R4-close."+tag, closeWait, CallTo{"close(done)"}, "after: sync.WaitGroup.Wait(p.taskWG)")
	cancelGuard := "select#0 == 0 || select#0 == 1"
	if batch {
		cancelGuard += " || p.cfg.CancelRunningOnClose"
	}
	c.Guard("R4-close."+tag, closeBody, CallTo{"dyn:p.cancel()"}, cancelGuard)
	c.Guard("R4-close."+tag, closeBody, CallTo{"pkg/workqueue.releaseOwnedPool"}, "select#0 == 0 || select#0 == 1")
}

// c37NilIffArm: fn returns a nil error exactly on the select arm that sent on the channel.
func (c *Ctx) c37NilIffArm(rule string, fn *ssa.Function, chanGlob string) {
	c.c26Typestate(rule, "returns nil exactly on the select arm that sent on "+chanGlob, c26TSpec{fn: fn,
		onEdge: func(st int, from *ssa.BasicBlock, succ int) int {
			if c26ArmIs(from, succ, true, chanGlob) {
				return 1
			}
			return st
		},
		exit: func(st int, ret *ssa.Return) bool { return (RetNil{}).Match(ret) != (st == 1) },
	}, "nil ⇔ value sent")
}

// c37EdgeAtom: the comparison established on the edge from→Succs[succ].
func c37EdgeAtom(from *ssa.BasicBlock, succ int) (Atom, bool) {
	if len(from.Instrs) == 0 {
		return Atom{}, false
	}
	iff, ok := from.Instrs[len(from.Instrs)-1].(*ssa.If)
	if !ok {
		return Atom{}, false
	}
	return condAtom(iff.Cond, succ == 0)
}

// c37AdmissionAtomic: in submit, the enqueue executes while a mutex field of the
// pool is held, the closed flag was loaded since that mutex was acquired, and
// Close raises the flag (and closes stop) while holding the same mutex exclusively.
func (c *Ctx) c37AdmissionAtomic(rule, P string, submit, closeBody *ssa.Function, enqueue Effect) {
	if submit == nil || closeBody == nil {
		return
	}
	construct := P + "#admission-atomic"
	T := c.lookupType(P)
	if T == nil {
		c.add("anchor", "anchor", P, Undecided, "", "pool type not found")
		return
	}
	var mutexes []string
	if st, ok := T.Underlying().(*types.Struct); ok {
		for i := 0; i < st.NumFields(); i++ {
			switch typeBaseName(st.Field(i).Type()) {
			case "Mutex", "RWMutex":
				mutexes = append(mutexes, "p."+st.Field(i).Name())
			}
		}
	}
	pos := c.P.Pos(submit.Pos())
	for _, in := range instrsMatching(submit, enqueue) {
		pos = c.P.InstrPos(in)
	}
	if len(mutexes) == 0 {
		c.add("lockset", rule, construct, Violated, pos,
			"the pool has no admission mutex: "+c.P.Name(submit)+" tests p.closed and later enqueues with `select { case p.queue <- task: … case <-p.stop: … }`; Close can run completely (closed=true, close(stop), dispatcher drains the queue and exits) between the test and the select, and a select with both arms ready may still choose the send — the task is then accepted (nil) but no dispatcher is left to run it and its slot is never released")
		return
	}
	held := heldAt(submit, lockState{})
	for _, mu := range mutexes {
		ok := len(instrsMatching(submit, enqueue)) > 0
		for _, in := range instrsMatching(submit, enqueue) {
			if _, h := held[in][mu]; !h {
				ok = false
			}
		}
		if !ok {
			continue
		}
		// same section as a closed test, and Close holds it exclusively
		c.SameSection(rule, submit, mu, CallTo{"sync/atomic.Bool.Load(p.closed)"}, enqueue)
		c.c26Held(rule, closeBody, CallTo{"sync/atomic.Bool.Store(p.closed, true)"}, mu, 'W')
		c.c26Held(rule, closeBody, CallTo{"close(p.stop)"}, mu, 'W')
		c.add("lockset", rule, construct, Held, pos, "enqueue executes under "+mu+"; see the section/held obligations of this rule")
		return
	}
	c.add("lockset", rule, construct, Violated, pos, "the enqueue on p.queue in "+c.P.Name(submit)+" does not execute under any of the pool's mutexes "+joinStrings(mutexes)+": Close can complete between the closed test and the enqueue")
}

func joinStrings(s []string) string {
	out := ""
	for i, x := range s {
		if i > 0 {
			out += ", "
		}
		out += x
	}
	return out
}
