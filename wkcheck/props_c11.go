package main

func init() {
	register(&PropSpec{
		ID:        "C11",
		Pkgs:      []string{"./pkg/db/message", "./pkg/db/meta", "./pkg/db/internal/engine", "./pkg/cluster"},
		Technique: "static analysis: SSA edge-dominance guards (checksum / validation pass / watermark comparisons dominate every parse, stage and emit), call-shape and argument census for synchronous import commits",
		Explain:   "Decides the reject-before-apply and nothing-above-the-watermark clauses of backup/restore structurally. (R1 import) ImportBackupSnapshotReader parses only after the whole-stream CRC verified, mutates only after a complete validation pass over the same stream succeeded, and reports success only if the installed statistics equal the validated ones; the CRC verifier returns nil only behind size/seek/copy/trailer checks and Sum32 == trailer over exactly size-4 bytes; a message row is staged only behind seq != 0, seq <= checkpoint.HW, strictly increasing seq, successful header/payload decode, channel identity equality, proposal-system-entry validation and (when an identity exists) verifyBackupRowIdentity; the legacy in-memory import and the metadata snapshot import/replay/verify paths have the same checksum, magic, version and ownership guards before the first batch is created. (R2 export) a message is emitted only behind seq <= hw, a proposal / entry identity / history point only behind LastOffset / index / StartOffset <= hw, a channel is written only if Checkpoint.HW <= snapshot LEO, and the stream trailer is the CRC of exactly the bytes written. (R3 restore) InstallLocalRestorePartition touches live storage only after VerifyLocalRestorePartitionStreams succeeded, imports only after the old partition was discarded, and reports success only after every import and the runtime-meta install succeeded. (R4) every import batch commits with Commit(true) and its error is tested. NOT decided: re-export byte equality, crash-retry convergence of the paged import, that CRC-32 detects every corruption (probabilistic), the restore orchestration above pkg/cluster (acknowledgement and rollback in internal/infra/backup), equality of decoded row contents with the source rows.",
		Run:       c11,
		Mutants: []Mutant{
			{Name: "import-skips-checksum", File: "pkg/db/message/backup_stream_import.go", Old: "\tif err := verifyMessageBackupStreamChecksum(source, size); err != nil {\n\t\treturn BackupSnapshotStats{}, err\n\t}\n\tstats, err := parseMessageBackupStream(ctx, source, size, validateMessageBackupChannel)", New: "\tstats, err := parseMessageBackupStream(ctx, source, size, validateMessageBackupChannel)", Expect: "C11/R1-import/*ImportBackupSnapshotReader*"},
			{Name: "import-before-validation-pass", File: "pkg/db/message/backup_stream_import.go", Old: "\tstats, err := parseMessageBackupStream(ctx, source, size, validateMessageBackupChannel)\n\tif err != nil {\n\t\treturn BackupSnapshotStats{}, err\n\t}\n\tinstalled, err := parseMessageBackupStream(ctx, source, size, db.importMessageBackupChannelStream)\n\tif err != nil {\n\t\treturn BackupSnapshotStats{}, err\n\t}", New: "\tinstalled, err := parseMessageBackupStream(ctx, source, size, db.importMessageBackupChannelStream)\n\tif err != nil {\n\t\treturn BackupSnapshotStats{}, err\n\t}\n\tstats, err := parseMessageBackupStream(ctx, source, size, validateMessageBackupChannel)\n\tif err != nil {\n\t\treturn BackupSnapshotStats{}, err\n\t}", Expect: "C11/R1-import/*ImportBackupSnapshotReader*"},
			{Name: "checksum-mismatch-accepted", File: "pkg/db/message/backup_stream_import.go", Old: "\tif checksum.Sum32() != binary.BigEndian.Uint32(trailer[:]) {\n\t\treturn dberrors.ErrChecksumMismatch\n\t}\n\treturn nil\n}\n\nfunc parseMessageBackupStream", New: "\t_ = checksum.Sum32() != binary.BigEndian.Uint32(trailer[:])\n\treturn nil\n}\n\nfunc parseMessageBackupStream", Expect: "C11/R1-import/*verifyMessageBackupStreamChecksum*"},
			{Name: "row-above-watermark-accepted", File: "pkg/db/message/backup_stream_import.go", Old: "if err != nil || seq == 0 || seq > channel.checkpoint.HW || (previousSeq != 0 && seq <= previousSeq) {", New: "if err != nil || seq == 0 || (previousSeq != 0 && seq <= previousSeq) {", Expect: "C11/R1-import/*readMessageBackupStreamRow*"},
			{Name: "row-order-nonstrict", File: "pkg/db/message/backup_stream_import.go", Old: "(previousSeq != 0 && seq <= previousSeq) {\n\t\treturn 0, messageRow{}, nil, nil, dberrors.ErrCorruptValue", New: "(previousSeq != 0 && seq < previousSeq) {\n\t\treturn 0, messageRow{}, nil, nil, dberrors.ErrCorruptValue", Expect: "C11/R1-import/*readMessageBackupStreamRow*"},
			{Name: "stream-import-skips-identity-check", File: "pkg/db/message/backup_stream_import.go", Old: "\t\tpreviousSeq = seq\n\t\tif identity, ok := entryIdentities[seq]; ok && !verifyBackupRowIdentity(identity, row) {", New: "\t\tpreviousSeq = seq\n\t\tif identity, ok := entryIdentities[seq]; ok && identity.Index != seq {", Expect: "C11/R1-import/*importMessageBackupChannelStream*"},
			{Name: "legacy-import-skips-checksum", File: "pkg/db/message/backup_snapshot.go", Old: "\tif crc32.ChecksumIEEE(payload) != wantChecksum {\n\t\treturn BackupSnapshotStats{}, dberrors.ErrChecksumMismatch\n\t}\n", New: "\t_ = wantChecksum\n", Expect: "C11/R1-import/*MessageDB.ImportBackupSnapshot#*"},
			{Name: "meta-import-skips-checksum", File: "pkg/db/meta/snapshot_stream_import.go", Old: "\tif err := verifySeekableSnapshotChecksum(reader, size); err != nil {\n\t\treturn err\n\t}\n\tvalidate := func(key, value []byte) error {", New: "\tvalidate := func(key, value []byte) error {", Expect: "C11/R1-meta/*importHashSlotSnapshotReader*"},
			{Name: "meta-payload-crc-ignored", File: "pkg/db/meta/snapshot.go", Old: "\tif got := crc32.ChecksumIEEE(body); got != want {\n\t\treturn slotSnapshotMeta{}, nil, dberrors.ErrChecksumMismatch\n\t}\n", New: "\t_ = want\n", Expect: "C11/R1-meta/*parseSlotSnapshotPayload*"},
			{Name: "meta-restore-writer-accepts-foreign-key", File: "pkg/db/meta/restore_snapshot.go", Old: "\tif !snapshotEntryInHashSlots(key, w.hashSlots) ||\n\t\t!snapshotEntryInBackupSpans(key, w.hashSlots) {", New: "\tif !snapshotEntryInHashSlots(key, w.hashSlots) {", Expect: "C11/R1-meta/*RestoreSnapshotWriter.Put*"},
			{Name: "export-message-above-hw", File: "pkg/db/message/backup_snapshot.go", Old: "\t\tif seq > hw {\n\t\t\tbreak\n\t\t}\n\t\tif family != messageHeaderFamilyID {", New: "\t\tif family != messageHeaderFamilyID {", Expect: "C11/R2-export/*visitBackupMessages*"},
			{Name: "export-hw-above-leo", File: "pkg/db/message/backup_snapshot.go", Old: "\tif channel.Checkpoint.HW > leo {\n\t\treturn fmt.Errorf(\"%w: backup cut hw %d exceeds snapshot leo %d for %q\", dberrors.ErrCorruptState, channel.Checkpoint.HW, leo, channel.Key)\n\t}\n\tif err := writeBackupString(writer, string(channel.Key)); err != nil {", New: "\tif err := writeBackupString(writer, string(channel.Key)); err != nil {", Expect: "C11/R2-export/*writeBackupChannel*"},
			{Name: "export-entry-identity-above-hw", File: "pkg/db/message/backup_snapshot.go", Old: "\t\t\tif index <= hw {\n\t\t\t\tentries = append(entries, backupRawEntry{Key: key, Value: value})\n\t\t\t}\n\t\t\tcontinue", New: "\t\t\tentries = append(entries, backupRawEntry{Key: key, Value: value})\n\t\t\tcontinue", Expect: "C11/R2-export/*snapshotBackupSystemEntries*"},
			{Name: "validate-proposal-above-hw", File: "pkg/db/message/proposal_manifest.go", Old: "if err != nil || record.manifest.LastOffset != lastOffset || lastOffset > hw {", New: "if err != nil || record.manifest.LastOffset != lastOffset {", Expect: "C11/R2-export/*validateBackupProposalSystemEntries*"},
			{Name: "restore-install-without-verify", File: "pkg/cluster/node_restore.go", Old: "\tif _, err := n.VerifyLocalRestorePartitionStreams(\n\t\tctx, hashSlot, metadata, metadataSize, messages,\n\t); err != nil {\n\t\treturn err\n\t}\n\tboundaries, err := restoreMessageBoundaries(ctx, messages)", New: "\tboundaries, err := restoreMessageBoundaries(ctx, messages)", Expect: "C11/R3-restore/*InstallLocalRestorePartition*"},
			{Name: "restore-ignores-import-error", File: "pkg/cluster/node_restore.go", Old: "\t\tstats, err := n.defaultChannelStore.ImportBackupSnapshotReader(\n\t\t\tctx, stream.Reader, stream.Size,\n\t\t)\n\t\tif err != nil {\n\t\t\treturn err\n\t\t}", New: "\t\tstats, _ := n.defaultChannelStore.ImportBackupSnapshotReader(\n\t\t\tctx, stream.Reader, stream.Size,\n\t\t)", Expect: "C11/R3-restore/*"},
			{Name: "import-page-nosync", File: "pkg/db/message/backup_stream_import.go", Old: "if err := messageBatch.Commit(true); err != nil {", New: "if err := messageBatch.Commit(false); err != nil {", Expect: "C11/R4-commit/*importMessageBackupChannelStream*"},
		},
	})
}

func c11(c *Ctx) {
	const msg = "pkg/db/message."
	const meta = "pkg/db/meta."
	crcEq := "hash.Hash32.Sum32(*) == encoding/binary.bigEndian.Uint32(*)"

	// ---- R1-import: message stream ------------------------------------------------
	imp := c.Fn(msg + "MessageDB.ImportBackupSnapshotReader")
	const verifyOK = "*verifyMessageBackupStreamChecksum(*) == nil"
	const validatePass = "*parseMessageBackupStream(*validateMessageBackupChannel)#1 == nil"
	const importPass = "*parseMessageBackupStream(*importMessageBackupChannelStream*)#1 == nil"
	c.Guard("R1-import", imp, CallTo{msg + "parseMessageBackupStream"}, verifyOK)
	c.Guard("R1-import", imp, CallTo{msg + "parseMessageBackupStream(*importMessageBackupChannelStream*"}, verifyOK, validatePass)
	c.Guard("R1-import", imp, RetNil{}, verifyOK, validatePass, importPass,
		"*parseMessageBackupStream(*importMessageBackupChannelStream*)#0 == *parseMessageBackupStream(*validateMessageBackupChannel)#0")

	for _, v := range []string{msg + "verifyMessageBackupStreamChecksum", meta + "verifySeekableSnapshotChecksum"} {
		fn := c.Fn(v)
		rule := "R1-import"
		if v[:len(meta)] == meta {
			rule = "R1-meta"
		}
		c.Guard(rule, fn, RetNil{},
			"source != nil || reader != nil", // the stream parameter is non-nil
			"size >= *",
			"io.Seeker.Seek(*, 0, 2)#1 == nil",
			"io.Seeker.Seek(*, 0, 2)#0 == size",
			"io.Seeker.Seek(*, 0, 0)#1 == nil",
			"io.CopyN(*)#1 == nil",
			"io.ReadFull(*)#1 == nil",
			crcEq)
		c.CallShape(rule, fn, "io.CopyN", "io.CopyN(hash/crc32.NewIEEE(), *, (size - 4))")
		c.CallShape(rule, fn, "io.ReadFull", "io.ReadFull(*, *[:])")
	}

	row := c.Fn(msg + "readMessageBackupStreamRow")
	const seq = "*readMessageBackupStreamUint64(*)#0"
	c.Guard("R1-import", row, RetNil{},
		"*readMessageBackupStreamUint64(*)#1 == nil",
		seq+" != 0",
		seq+" <= channel.checkpoint.HW",
		"previousSeq == 0 || "+seq+" > previousSeq",
		"*decodeMessageHeader(*) == nil",
		"*decodeMessagePayload(*) == nil",
		"*.ChannelID == channel.id.ID",
		"*.ChannelType == channel.id.Type")
	c.CallShape("R1-import", row, msg+"decodeMessageHeader", "*(*encodeMessageRowKey(channel.key, "+seq+", *), *)")

	parse := c.Fn(msg + "parseMessageBackupStream")
	ver := c09Const(c, "pkg/db/message", "messageBackupSnapshotVersion")
	visit := CallTo{"dyn:visit"}
	c.Guard("R1-import", parse, visit,
		"* == "+msg+"messageBackupSnapshotMagic",
		"*readMessageBackupStreamUint16(*)#0 == "+ver,
		"*decodeCheckpoint(*)#1 == nil",
		"*validateBackupProposalSystemEntries(*) == nil",
		`*readMessageBackupStreamString(*)#0 != ""`)
	c.Guard("R1-import", parse, RetNil{}, "bufio.Reader.ReadByte(*)#1 == io.EOF", "* == "+msg+"messageBackupSnapshotMagic")
	c.CallShape("R1-import", parse, "io.LimitReader", "io.LimitReader(source, (size - 4))")

	stream := c.Fn(msg + "MessageDB.importMessageBackupChannelStream")
	stage := CallTo{msg + "channelEntry.stageMessageRow"}
	newBatch := CallTo{c09EngNew}
	for _, fn := range []string{"MessageDB.importMessageBackupChannelStream", "MessageDB.importBackupChannel"} {
		f := c.Fn(msg + fn)
		c.Guard("R1-import", f, newBatch,
			"*validateBackupProposalSystemEntries(*) == nil",
			"*backupEntryIdentityMap(*)#1 == nil",
			"*engine.DB.Get(*encodeCatalogKey(*))#2 == nil",
			"*engine.DB.Get(*encodeCatalogKey(*))#1 == false || *decodeCatalogValue(*)#0 == *",
			"*loadBackupImportCheckpoint(*)#2 == nil",
			"*loadBackupImportCheckpoint(*)#1 == false || *loadBackupImportCheckpoint(*)#0 == *")
		c.Guard("R1-import", f, stage, "*[*]#1 == false || *verifyBackupRowIdentity(*) == true")
	}
	c.Guard("R1-import", stream, stage, "*readMessageBackupStreamRow(*)#4 == nil")
	legacyCh := c.Fn(msg + "MessageDB.importBackupChannel")
	const lseq = "*readBackupUint64(reader)#0"
	c.Guard("R1-import", legacyCh, stage,
		"*readBackupUint64(reader)#1 == nil",
		lseq+" != 0",
		lseq+" <= checkpoint.HW",
		"* == 0 || "+lseq+" > *",
		"*decodeMessageHeader(*) == nil",
		"*decodeMessagePayload(*) == nil",
		"*.ChannelID == id.ID",
		"*.ChannelType == id.Type")
	legacy := c.Fn(msg + "MessageDB.ImportBackupSnapshot")
	c.Guard("R1-import", legacy, CallTo{msg + "MessageDB.importBackupChannel"},
		"hash/crc32.ChecksumIEEE(*) == encoding/binary.bigEndian.Uint32(*)",
		"len(data) >= 16",
		"* == "+msg+"messageBackupSnapshotMagic",
		"*readBackupUint16(*)#0 == "+ver,
		"*decodeCheckpoint(*)#1 == nil")
	c.Guard("R1-import", legacy, RetNil{}, "bytes.Reader.Len(*) == 0")
	c.CallShape("R1-import", legacy, "hash/crc32.ChecksumIEEE", "hash/crc32.ChecksumIEEE(data[:(len(*) - 4)])")
	replay := c.Fn(msg + "ReplayBackupSnapshotReader")
	c.Guard("R1-import", replay, CallTo{msg + "parseMessageBackupStream"}, verifyOK)

	// ---- R1-meta: metadata snapshot -------------------------------------------------
	const mverify = "*verifySeekableSnapshotChecksum(*) == nil"
	mimp := c.Fn(meta + "MetaDB.importHashSlotSnapshotReader")
	c.Guard("R1-meta", mimp, newBatch, mverify,
		"*equalUint16HashSlots(*visitSlotSnapshotStream(*)#0, *) == true",
		"after: "+meta+"visitSlotSnapshotStream")
	c.Guard("R1-meta", mimp, CallTo{meta + "visitSlotSnapshotStream"}, mverify)
	c.Guard("R1-meta", c.Fn(meta+"VerifyBackupHashSlotSnapshotReader"), CallTo{meta + "visitSlotSnapshotStream"}, mverify)
	c.Guard("R1-meta", c.Fn(meta+"VerifyBackupHashSlotSnapshotReader"), RetNil{}, mverify, "*visitSlotSnapshotStream(*)#2 == nil", "*equalUint16HashSlots(*) == true")
	c.Guard("R1-meta", c.Fn(meta+"ReplayBackupHashSlotSnapshot"), CallTo{meta + "visitSlotSnapshotStream"}, mverify)
	mver := c09Const(c, "pkg/db/meta", "slotSnapshotVersion")
	mvisit := c.Fn(meta + "visitSlotSnapshotStream")
	c.Guard("R1-meta", mvisit, visit, "* == "+meta+"slotSnapshotMagic", "*readSlotStreamUint16(*)#0 == "+mver)
	c.Guard("R1-meta", mvisit, RetNil{}, "bufio.Reader.ReadByte(*)#1 == io.EOF")
	c.CallShape("R1-meta", mvisit, "io.LimitReader", "io.LimitReader(source, (size - 4))")
	payload := c.Fn(meta + "parseSlotSnapshotPayload")
	c.Guard("R1-meta", payload, RetNil{},
		"len(data) >= *",
		"hash/crc32.ChecksumIEEE(*) == encoding/binary.bigEndian.Uint32(*)",
		"* == "+meta+"slotSnapshotMagic[:]",
		"encoding/binary.bigEndian.Uint16(*) == "+mver)
	c.CallShape("R1-meta", payload, "hash/crc32.ChecksumIEEE", "hash/crc32.ChecksumIEEE(data[:(len(*) - 4)])")
	mlegacy := c.Fn(meta + "MetaDB.importHashSlotSnapshot")
	c.Guard("R1-meta", mlegacy, newBatch, "*decodeSlotSnapshotPayload(*)#1 == nil", "*equalUint16HashSlots(*, snap.HashSlots) == true")
	c.Guard("R1-meta", c.Fn(meta+"decodeSlotSnapshotPayload"), RetNil{}, "*parseSlotSnapshotPayload(*)#2 == nil", "*visitParsedSlotSnapshotPayload(*) == nil")
	c.Guard("R1-meta", c.Fn(meta+"visitParsedSlotSnapshotPayload"), RetNil{}, "len(*) == 0")
	c.Guard("R1-meta", c.Fn(meta+"MetaDB.stageSlotSnapshotEntry"), CallTo{c09EngBatch + "Set"}, "*snapshotEntryInHashSlots(*) == true")
	put := c.Fn(meta + "RestoreSnapshotWriter.Put")
	c.Guard("R1-meta", put, CallTo{c09EngBatch + "Set"}, "*snapshotEntryInHashSlots(key, *) == true", "*snapshotEntryInBackupSpans(key, *) == true")

	// ---- R2-export --------------------------------------------------------------------
	vis := c.Fn(msg + "visitBackupMessages")
	c.Guard("R2-export", vis, visit, "*decodeMessageRowKey(*)#0 <= hw", "hw != 0", "*decodeMessageRowKey(*)#2 == true", "*decodeMessageRowKey(*)#1 == *")
	c.CallShape("R2-export", vis, "dyn:visit", "dyn:visit(*decodeMessageRowKey(*)#0, *)")
	for _, f := range []string{"writeBackupChannel", "inspectMessageBackupSnapshot"} {
		fn := c.Fn(msg + f)
		c.Guard("R2-export", fn, OneOf{CallTo{msg + "snapshotBackupSystemEntries"}, CallTo{msg + "visitBackupMessages"}, CallTo{msg + "countBackupMessages"}},
			"*.Checkpoint.HW <= *snapshotChannelLEO(*",
			"*snapshotChannelLEO(*)#1 == nil",
			"*messageBackupReadView.Get(*)#1 == false || *decodeCatalogValue(*)#0 == *.ID")
		c.CallShape("R2-export", fn, msg+"visitBackupMessages", "*(ctx, view, *.Key, *.Checkpoint.HW, *)")
		c.CallShape("R2-export", fn, msg+"snapshotBackupSystemEntries", "*(ctx, view, *.Key, *.Checkpoint.HW)")
	}
	c.CallShape("R2-export", c.Fn(msg+"writeBackupChannel"), msg+"countBackupMessages", "*(ctx, view, channel.Key, channel.Checkpoint.HW)")
	sys := c.Fn(msg + "snapshotBackupSystemEntries")
	c.Guard("R2-export", sys, CallTo{"append"},
		"*.StartOffset <= hw || *.LastOffset <= hw || *decodeEntryIdentityKey(*)#0 <= hw || bytes.HasPrefix(*encodeEntryIdentityPrefix(*)) == false")
	c.Guard("R2-export", sys, RetNil{}, "*validateBackupProposalSystemEntries(channelKey, hw, *) == nil", "*.Iter.Error(*) == nil")
	val := c.Fn(msg + "validateBackupProposalSystemEntries")
	c.Guard("R2-export", val, StoreTo{"*[*decodeProposalByLastKey(*)#0]", ""}, "*decodeProposalByLastKey(*)#0 <= hw", "*.LastOffset == *decodeProposalByLastKey(*)#0", "*decodeDurableProposalRecord(*)#1 == nil")
	c.Guard("R2-export", val, StoreTo{"*[*decodeProposalByCommandKey(*)#0]", ""}, "*.LastOffset <= hw", "*.CommandID == *decodeProposalByCommandKey(*)#0", "*decodeDurableProposalRecord(*)#1 == nil")
	c.Guard("R2-export", val, StoreTo{"*[*decodeEntryIdentityKey(*)#0]", ""}, "*decodeEntryIdentityKey(*)#0 <= hw", "*.Index == *decodeEntryIdentityKey(*)#0", "*decodeDurableEntryIdentity(*)#1 == nil")
	wr := c.Fn(msg + "writeMessageBackupSnapshot")
	c.CallShape("R2-export", wr, "encoding/binary.bigEndian.PutUint32", "*(*, *, hash.Hash32.Sum32(hash/crc32.NewIEEE()))")
	c.CallShape("R2-export", wr, msg+"writeBackupChannel", "*(ctx, io.MultiWriter(*), view, *)")

	// ---- R3-restore -------------------------------------------------------------------
	inst := c.Fn("pkg/cluster.Node.InstallLocalRestorePartition")
	const verified = "*VerifyLocalRestorePartitionStreams(*)#1 == nil"
	const discarded = "*DiscardLocalRestorePartition(*) == nil"
	mutators := OneOf{CallTo{"pkg/cluster.Node.DiscardLocalRestorePartition"}, CallTo{"*ImportHashSlotSnapshotReaderForRestoreWithStats"}, CallTo{"*.ImportBackupSnapshotReader"}, CallTo{"pkg/cluster.Node.installRestoreChannelRuntimeMeta"}}
	c.Guard("R3-restore", inst, mutators, verified, "*restoreMessageBoundaries(*)#1 == nil")
	c.Guard("R3-restore", inst, OneOf{CallTo{"*ImportHashSlotSnapshotReaderForRestoreWithStats"}, CallTo{"*.ImportBackupSnapshotReader"}}, discarded)
	c.Guard("R3-restore", inst, CallTo{"*.ImportBackupSnapshotReader"}, "*ImportHashSlotSnapshotReaderForRestoreWithStats(*)#1 == nil", "io.Seeker.Seek(*.Reader, 0, 0)#1 == nil")
	c.Guard("R3-restore", inst, RetNil{}, verified, discarded,
		"*ImportHashSlotSnapshotReaderForRestoreWithStats(*)#1 == nil",
		"*installRestoreChannelRuntimeMeta(*) == nil")
	c09AfterEdge(c, "R3-restore", inst, "*.ImportBackupSnapshotReader(*)#1 != nil", OneOf{RetNil{}, CallTo{"pkg/cluster.Node.installRestoreChannelRuntimeMeta"}}, nil)
	c.ErrUsed("R3-restore", []*ssaFunction{inst}, []string{"*.ImportBackupSnapshotReader", "*ImportHashSlotSnapshotReaderForRestoreWithStats", "pkg/cluster.Node.*"}, nil)
	ver2 := c.Fn("pkg/cluster.Node.VerifyLocalRestorePartitionStreams")
	c.Guard("R3-restore", ver2, RetNil{}, "*VerifyBackupHashSlotSnapshotReader(*)#1 == nil")
	c09AfterEdge(c, "R3-restore", ver2, "*ReplayBackupSnapshotReader(*)#1 != nil", RetNil{}, nil)

	// ---- R4-commit: every import batch is synchronous and its error is tested ------------
	for _, f := range []string{msg + "MessageDB.importMessageBackupChannelStream", msg + "MessageDB.importBackupChannel", meta + "MetaDB.importHashSlotSnapshotReader",
		meta + "MetaDB.importHashSlotSnapshotReader$2", meta + "MetaDB.importHashSlotSnapshot", meta + "RestoreSnapshotWriter.flush"} {
		fn := c.Fn(f)
		c.CallShape("R4-commit", fn, c09EngCommit, c09EngCommit+"(*, true)")
		c.ErrUsed("R4-commit", []*ssaFunction{fn}, []string{c09EngBatch + "*"}, []string{"*.Close"})
	}
	c.Guard("R4-commit", stream, RetNil{}, c09EngCommit+"(*) == nil")
	c.Guard("R4-commit", legacyCh, RetNil{}, c09EngCommit+"(*) == nil")
	c.Guard("R4-commit", mlegacy, RetNil{}, c09EngCommit+"(*) == nil")

	c.Min("R1-import", 50)
	c.Min("R1-meta", 25)
	c.Min("R2-export", 20)
	c.Min("R3-restore", 10)
	c.Min("R4-commit", 12)
}
