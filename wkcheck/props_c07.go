package main

import (
	"fmt"
	"go/types"
	"sort"
	"strings"

	"golang.org/x/tools/go/ssa"
)

const c07Pkg = "pkg/db/message"

func init() {
	const appendGo = "pkg/db/message/append.go"
	const truncGo = "pkg/db/message/truncate.go"
	register(&PropSpec{
		ID:        "C07",
		Pkgs:      []string{"./pkg/db/message", "./pkg/db/internal/commit"},
		Technique: "static analysis: sibling agreement of staged vs deleted key families (frozen encoder table + SSA edge-dominance on the implied guards), commit-before-publish edge dominance for every write of the cached log end, lock-set (guarded-by appendMu/checkpointMu through embedded holders), re-verification guards on index lookups, depends-only slice of the assigned sequence",
		Explain: "Decides the structural clauses that make the message store a sequential log: (R1) every key family stageMessageRow writes (header, global id, client-msg-no, idempotency, sender-seq; identified by helper and key encoder through a frozen table) is deleted by stageDeleteMessage with the same key fields, each stage is guarded by conditions that imply the delete's conditions, every stage/delete error is returned, and every truncation/trim/replace path deletes rows through stageDeleteMessage; (R2) channelEntry.leo/loaded are written only in enumerated functions and only after the batch Commit (or the recovery scan) succeeded, with the committed frontier as value; recoverLEO returns the maximum header sequence of the exhausted, error-free scan joined with the retention floor; (R3) the idempotency filter state, every frontier write and every ...Locked helper call happen with appendMu held, checkpoint read-modify-write with checkpointMu held, and checkpointMu is never taken before appendMu; (R4) GetByMessageID, lookupIdempotencyByKey, listByClientMsgNo and lookupMessageIDSeq report a hit only behind re-verification of the row against the looked-up key; (R5) in walkAppendRowsLocked the assigned sequence depends only on the loaded LEO / the checked opts.BaseSeq and the loop index, the same index selects the record, and the published LastSeq is the last assigned sequence. " +
			"NOT decided: equality with a reference log over histories, byte-identical field round-trips of the row codec, that the byte encoders of the stage side (appendKeyCache.write*) and of the delete side (encode*Key) agree, lock hand-over to the asynchronous commit owner (enumerated exception), pebble atomicity.",
		Run: c07,
		Mutants: []Mutant{
			{Name: "delete-forgets-sender-seq-index", File: truncGo,
				Old:    "\tif msg.FromUID != \"\" {\n\t\tif err := batch.Delete(encodeMessageSenderSeqIndexKey(l.key, msg.FromUID, msg.MessageSeq)); err != nil {\n\t\t\treturn err\n\t\t}\n\t}\n",
				New:    "",
				Expect: "C07/R1-families/*"},
			{Name: "delete-idempotency-guard-wrong", File: truncGo,
				Old: "if msg.FromUID != \"\" && msg.ClientMsgNo != \"\" {\n\t\tif err := batch.Delete(encodeMessageIdempotencyIndexKey", New: "if msg.FromUID == \"\" && msg.ClientMsgNo != \"\" {\n\t\tif err := batch.Delete(encodeMessageIdempotencyIndexKey",
				Expect: "C07/R1-families/*stageDeleteMessage*"},
			{Name: "stage-client-index-for-every-row", File: appendGo,
				Old: "if row.ClientMsgNo != \"\" && row.FromUID == \"\" {", New: "if row.ClientMsgNo != \"\" {",
				Expect: "C07/R1-families/*stageClientMsgNoIndexRow*"},
			{Name: "delete-error-dropped", File: truncGo,
				Old:    "\t\tif err := batch.Delete(encodeGlobalMessageIDIndexKey(msg.MessageID)); err != nil {\n\t\t\treturn err\n\t\t}",
				New:    "\t\t_ = batch.Delete(encodeGlobalMessageIDIndexKey(msg.MessageID))",
				Expect: "C07/R1-families/*"},
			{Name: "sender-index-key-uses-message-id", File: appendGo,
				Old: "cache.writeSenderSeqIndexKey(key, row.FromUID, row.MessageSeq)", New: "cache.writeSenderSeqIndexKey(key, row.FromUID, row.MessageID)",
				Expect: "C07/R1-families/*"},
			{Name: "append-publishes-before-commit", File: appendGo,
				Old:    "\tif err := batch.Commit(true); err != nil {\n\t\treturn AppendResult{}, err\n\t}\n\tl.publishAppendLocked(result)\n\treturn result, nil",
				New:    "\tl.publishAppendLocked(result)\n\tif err := batch.Commit(true); err != nil {\n\t\treturn AppendResult{}, err\n\t}\n\treturn result, nil",
				Expect: "C07/R2-frontier/*"},
			{Name: "truncate-commit-error-ignored", File: truncGo,
				Old:    "\tif err := batch.Commit(true); err != nil {\n\t\treturn err\n\t}\n\tl.leo.Store(fromSeq - 1)",
				New:    "\t_ = batch.Commit(true)\n\tl.leo.Store(fromSeq - 1)",
				Expect: "C07/R2-frontier/*TruncateFrom*"},
			{Name: "truncate-publishes-wrong-frontier", File: truncGo,
				Old: "l.leo.Store(fromSeq - 1)", New: "l.leo.Store(fromSeq)",
				Expect: "C07/R2-frontier/*TruncateFrom*"},
			{Name: "recover-leo-ignores-retention-floor", File: "pkg/db/message/channel_log.go",
				Old: "} else if ok && state.RetainedMaxSeq > leo {\n\t\tleo = state.RetainedMaxSeq\n\t}", New: "} else if ok && state.RetainedMaxSeq > leo {\n\t\t_ = state\n\t}",
				Expect: "C07/R2-recover/*"},
			{Name: "recover-leo-min-instead-of-max", File: "pkg/db/message/channel_log.go",
				Old: "if seq > leo {\n\t\t\tleo = seq\n\t\t}", New: "if seq < leo || leo == 0 {\n\t\t\tleo = seq\n\t\t}",
				Expect: "C07/R2-recover/*"},
			{Name: "truncate-without-append-lock", File: truncGo,
				Old: "\tl.appendMu.Lock()\n\tdefer l.appendMu.Unlock()\n\n\tleo, err := l.loadLEOLocked(ctx)\n\tif err != nil {\n\t\treturn err\n\t}\n\tif fromSeq > leo {", New: "\tleo, err := l.loadLEOLocked(ctx)\n\tif err != nil {\n\t\treturn err\n\t}\n\tif fromSeq > leo {",
				Expect: "C07/R3-locks/*"},
			{Name: "read-reverse-unlocks-early", File: "pkg/db/message/read.go",
				Old: "\t\tl.appendMu.Lock()\n\t\tleo, err := l.loadLEOLocked(ctx)\n\t\tl.appendMu.Unlock()", New: "\t\tl.appendMu.Lock()\n\t\tl.appendMu.Unlock()\n\t\tleo, err := l.loadLEOLocked(ctx)",
				Expect: "C07/R3-locks/*"},
			{Name: "checkpoint-store-without-lock", File: "pkg/db/message/checkpoint.go",
				Old: "\tl.checkpointMu.Lock()\n\tdefer l.checkpointMu.Unlock()\n\tif err := l.validateCheckpointMonotonicLocked", New: "\tif err := l.validateCheckpointMonotonicLocked",
				Expect: "C07/R3-locks/*checkpointMu*"},
			{Name: "message-id-lookup-skips-reverification", File: "pkg/db/message/indexes.go",
				Old: "if !ok || row.MessageID != messageID {", New: "if !ok {",
				Expect: "C07/R4-lookups/*GetByMessageID*"},
			{Name: "idempotency-lookup-ignores-sender", File: "pkg/db/message/idempotency.go",
				Old: " || row.FromUID != key.FromUID || row.ClientMsgNo != key.ClientMsgNo {", New: " || row.ClientMsgNo != key.ClientMsgNo {",
				Expect: "C07/R4-lookups/*lookupIdempotencyByKey*"},
			{Name: "message-id-lookup-other-channel", File: "pkg/db/message/indexes.go",
				Old: "if err != nil || !ok || channelKey != l.key {\n\t\treturn 0, ok && channelKey == l.key, err", New: "if err != nil || !ok {\n\t\treturn 0, ok && channelKey == l.key, err",
				Expect: "C07/R4-lookups/*lookupMessageIDSeq*"},
			{Name: "base-seq-not-checked-against-leo", File: appendGo,
				Old: "if opts.BaseSeq != 0 && opts.BaseSeq != expectedBaseSeq {", New: "if opts.BaseSeq != 0 && opts.BaseSeq < expectedBaseSeq {",
				Expect: "C07/R5-seq/*"},
			{Name: "sequence-skips", File: appendGo,
				Old: "seq := baseSeq + uint64(i)", New: "seq := baseSeq + uint64(i)*2",
				Expect: "C07/R5-seq/*"},
			{Name: "last-seq-off-by-one", File: appendGo,
				Old: "\t\tlastSeq = seq\n", New: "\t\tlastSeq = seq + 1\n",
				Expect: "C07/R5-seq/*"},
		},
	})
}

func c07Const(c *Ctx, name string) string {
	pk := c.P.Pkgs[c07Pkg]
	if pk != nil {
		if k, ok := pk.Types.Scope().Lookup(name).(*types.Const); ok {
			return k.Val().ExactString()
		}
	}
	c.add("anchor", "anchor", c07Pkg+"."+name, Undecided, "", "anchored constant not found")
	return "<missing:" + name + ">"
}

// c07Family: one index family = (stage helper, key encoder used by the helper, key encoder used by the delete).
type c07Family struct {
	name       string
	stage      string   // helper called by stageMessageRow
	stageEnc   string   // callee that produces the key inside the helper (or its closure)
	stageShape string   // required shape of that call
	delEnc     string   // callee whose result is passed to Batch.Delete in stageDeleteMessage
	delShape   string   // required shape of that call
	stageConds []string // facts that must hold where the helper is called (they imply the delete's condition)
	delSkip    string   // disjunction under which the delete may be skipped ("" = never)
	stageSkip  string   // disjunction under which the stage may be skipped ("" = never)
}

func c07(c *Ctx) {
	p := c07Pkg + "."
	hdr := c07Const(c, "messageHeaderFamilyID")

	// ---------------------------------------------------------------- R1 families
	fams := []c07Family{
		{"header", p + "channelEntry.stageMessageHeaderRow", p + "appendKeyCache.writeMessageRowKey", "*(cache, key, row.MessageSeq, " + hdr + ")",
			p + "encodeMessageRowKey", "*(l.channelEntry.key, msg.MessageSeq, " + hdr + ")", nil, "", ""},
		{"global-id", p + "channelEntry.stageGlobalMessageIDIndexRow", p + "encodeGlobalMessageIDIndexKey", "*(row.MessageID)",
			p + "encodeGlobalMessageIDIndexKey", "*(msg.MessageID)", nil, "msg.MessageID == 0", ""},
		{"client-msg-no", p + "channelEntry.stageClientMsgNoIndexRow", p + "appendKeyCache.writeClientMsgNoIndexKey", "*(cache, key, row.ClientMsgNo, row.MessageSeq)",
			p + "encodeMessageClientMsgNoIndexKey", "*(l.channelEntry.key, msg.ClientMsgNo, msg.MessageSeq)",
			[]string{`row.ClientMsgNo != ""`, `row.FromUID == ""`}, `msg.ClientMsgNo == "" || msg.FromUID != ""`, `row.ClientMsgNo == "" || row.FromUID != ""`},
		{"idempotency", p + "channelEntry.stageIdempotencyIndexRow", p + "appendKeyCache.writeIdempotencyIndexKey", "*(cache, key, row.FromUID, row.ClientMsgNo)",
			p + "encodeMessageIdempotencyIndexKey", "*(l.channelEntry.key, msg.FromUID, msg.ClientMsgNo)",
			[]string{`row.FromUID != ""`, `row.ClientMsgNo != ""`}, `msg.FromUID == "" || msg.ClientMsgNo == ""`, `row.FromUID == "" || row.ClientMsgNo == ""`},
		{"sender-seq", p + "channelEntry.stageSenderSeqIndexRow", p + "appendKeyCache.writeSenderSeqIndexKey", "*(cache, key, row.FromUID, row.MessageSeq)",
			p + "encodeMessageSenderSeqIndexKey", "*(l.channelEntry.key, msg.FromUID, msg.MessageSeq)",
			[]string{`row.FromUID != ""`}, `msg.FromUID == ""`, `row.FromUID == "" || (row.FramerFlags & 4) != 0`},
	}
	stage := c.Fn(p + "channelEntry.stageMessageRow")
	del := c.Fn(p + "ChannelLog.stageDeleteMessage")
	c07Families(c, "R1-families", stage, del, fams)
	for _, f := range fams {
		helper := c.Fn(f.stage)
		// the helper writes exactly this family's key
		var bodies []*ssa.Function
		if helper != nil {
			bodies = WithClosures(helper)
		}
		c07CallShapeIn(c, "R1-families", f.stage, bodies, f.stageEnc, f.stageShape)
		c.CallShape("R1-families", del, f.delEnc, f.delShape)
		// stage ⇒ delete: where the helper is called, the delete's condition holds
		if len(f.stageConds) > 0 {
			c.Guard("R1-families", stage, CallTo{f.stage}, f.stageConds...)
		}
		// a successful stageMessageRow staged the family (unless its skip condition holds), and the error was returned
		g := f.stage + "(*) == nil"
		if f.stageSkip != "" {
			g = f.stageSkip + " || " + g
		}
		c.Guard("R1-families", stage, RetNil{}, g)
		// a successful stageDeleteMessage deleted the family (unless its skip condition holds)
		dg := "*engine.Batch.Delete(batch, " + f.delEnc + "(*)) == nil"
		if f.delSkip != "" {
			dg = f.delSkip + " || " + dg
		}
		c.Guard("R1-families", del, RetNil{}, dg)
	}
	c.ErrUsed("R1-families", []*ssa.Function{del}, []string{"*engine.Batch.Delete"}, nil)
	c.ErrUsed("R1-families", []*ssa.Function{stage}, []string{p + "channelEntry.stage*Row"}, nil)
	// the Message handed to the delete carries every key field of the row
	c.LiteralComplete("R1-families", c.Fn(p+"messageFromRow"), p+"Message", []string{"MessageSeq", "MessageID", "ClientMsgNo", "FromUID"}, nil)
	mfr := c.Fn(p + "messageFromRow")
	for _, fld := range []string{"MessageSeq", "MessageID", "ClientMsgNo", "FromUID"} {
		c.StoreShape("R1-families", mfr, "*Message."+fld, "row."+fld)
	}
	// rows are removed only through stageDeleteMessage (or by dropping the whole partition)
	c.ConfineCalls("R1-families", p+"ChannelLog.stageDeleteMessage", 5,
		p+"ChannelLog.TruncateFrom", p+"ChannelLog.trimPrefixThroughLimit", p+"ChannelStore.truncateLocked",
		p+"ChannelStore.DiscardForRestore", p+"ChannelStore.ReplaceRecoverySuffix", p+"ChannelStore.*etention*", p+"ChannelStore.*rim*")
	c07NoRawRowDelete(c, "R1-families", del)
	// truncation deletes every row it read before it moves the frontier
	for _, t := range []struct{ fn, src string }{
		{"ChannelLog.TruncateFrom", "*.readForward(*)#1 == nil"},
		{"ChannelStore.truncateLocked", "*.readRows(*)#1 == nil"},
		{"ChannelLog.trimPrefixThroughLimit", "*.readRows(*)#1 == nil"},
	} {
		fn := c.Fn(p + t.fn)
		c.Guard("R1-families", fn, CallTo{"*engine.Batch.Commit"}, t.src, "* >= len(*)")
		c.c07IterGuard("R1-families", fn, "*.stageDeleteMessage(*) == nil")
	}
	c.CallShape("R1-families", c.Fn(p+"ChannelLog.TruncateFrom"), "*.readForward", "*(l, ctx, phi(fromSeq|1), 0, zero:ReadOptions)", "*(l, ctx, fromSeq, 0, zero:ReadOptions)", "*(l, ctx, phi(1|fromSeq), 0, zero:ReadOptions)")
	c.CallShape("R1-families", c.Fn(p+"ChannelStore.truncateLocked"), "*.readRows", "*(s.log, ctx, (to + 1), 0, zero:ReadOptions)")

	// ---------------------------------------------------------------- R2 frontier
	c07Frontier(c, "R2-frontier")
	// recovery scan
	rec := c.Fn(p + "ChannelLog.recoverLEO")
	c.Guard("R2-recover", rec, RetNil{}, "*.DB.NewIter(*)#1 == nil", "*.Iter.Error(*) == nil", "*.loadRetentionState(*)#2 == nil")
	c07LoopExhausted(c, "R2-recover", rec, RetNil{})
	c07RunningMax(c, "R2-recover", rec, []string{p + "decodeMessageRowKey(*)#0", "*.RetainedMaxSeq"})
	c.Guard("R2-recover", rec, InstrFn{"use of decoded seq as candidate", c07PhiUseOf(p + "decodeMessageRowKey(*)#0")},
		"*decodeMessageRowKey(*)#2 == true", "*decodeMessageRowKey(*)#1 == "+hdr)
	c.CallShape("R2-recover", rec, "*encodeMessageRowPrefix", "*(l.channelEntry.key)")
	c.CallShape("R2-recover", rec, "*.DB.NewIter", "*(l.channelEntry.db.engine, alloc:Span, zero:IterOptions)")
	c.StoreShape("R2-recover", rec, "alloc:Span.Start", "*.Start")
	c.StoreShape("R2-recover", rec, "alloc:Span.End", "*.End")
	ll := c.Fn(p + "ChannelLog.loadLEOLocked")
	c.Guard("R2-recover", ll, RetNil{}, "sync/atomic.Bool.Load(*.loaded) == true || *.recoverLEO(*)#1 == nil")
	c.Guard("R2-recover", ll, Ret{0, "sync/atomic.Uint64.Load(*.leo)"}, "sync/atomic.Bool.Load(*.loaded) == true")

	// ---------------------------------------------------------------- R3 locks
	c07Locks(c, "R3-locks")

	// ---------------------------------------------------------------- R4 lookups
	gm := c.Fn(p + "ChannelLog.GetByMessageID")
	c.Guard("R4-lookups", gm, Ret{1, "true"}, "*.lookupMessageIDSeq(*)#2 == nil", "*.lookupMessageIDSeq(*)#1 == true",
		"*.getRowBySeq(*)#2 == nil", "*.getRowBySeq(*)#1 == true", "*.MessageID == messageID")
	c.CallShape("R4-lookups", gm, "*.getRowBySeq", "*(l, ctx, "+p+"ChannelLog.lookupMessageIDSeq(l, ctx, messageID)#0)")
	lm := c.Fn(p + "ChannelLog.lookupMessageIDSeq")
	c.Guard("R4-lookups", lm, Ret{1, "true"}, "*.lookupGlobalMessageIDByKey(*)#3 == nil", "*.lookupGlobalMessageIDByKey(*)#2 == true", "*.lookupGlobalMessageIDByKey(*)#0 == l.channelEntry.key")
	c.GuardTrue("R4-lookups", lm, 1, "*.lookupGlobalMessageIDByKey(*)#0 == l.channelEntry.key")
	c.CallShape("R4-lookups", lm, "*.lookupGlobalMessageIDByKey", "*(l, ctx, "+p+"encodeGlobalMessageIDIndexKey(messageID))")
	li := c.Fn(p + "ChannelLog.lookupIdempotencyByKey")
	c.Guard("R4-lookups", li, Ret{1, "true"}, "*.DB.Get(*)#2 == nil", "*.DB.Get(*)#1 == true", "*decodeIdempotencyIndexValue(*)#1 == nil",
		"*.getRowBySeq(*)#2 == nil", "*.getRowBySeq(*)#1 == true",
		"*.MessageID == *.MessageID", "*.PayloadHash == *.PayloadHash", "*.FromUID == key.FromUID", "*.ClientMsgNo == key.ClientMsgNo")
	c.CallShape("R4-lookups", li, "*.getRowBySeq", "*(l, ctx, *.MessageSeq)")
	lc := c.Fn(p + "ChannelLog.listByClientMsgNo")
	c.Guard("R4-lookups", lc, CallTo{p + "messageFromRow"}, "*.getRowBySeq(*)#2 == nil", "*.getRowBySeq(*)#1 == true", "*.ClientMsgNo == clientMsgNo")
	gr := c.Fn(p + "ChannelLog.getRowBySeq")
	c.Guard("R4-lookups", gr, Ret{1, "true"}, "*.DB.Get(*)#2 == nil", "*.DB.Get(*)#1 == true", "*decodeMessageHeader(*) == nil", "*validateMaterializedMessageRow(*) == nil")
	c.CallShape("R4-lookups", gr, "*encodeMessageRowKey", "*(l.channelEntry.key, seq, "+hdr+")")
	c.StoreShape("R4-lookups", gr, "*.MessageSeq", "seq")
	gs := c.Fn(p + "ChannelLog.GetLastSenderMessageSeq")
	c.Guard("R4-lookups", gs, Ret{1, "true"}, "*.Iter.Last(*) == true", "*decodeMessageSenderSeqIndexSeq(*)#1 == true")
	c.CallShape("R4-lookups", gs, "*decodeMessageSenderSeqIndexSeq", "*(l.channelEntry.key, fromUID, *.Iter.Key(*))")

	// ---------------------------------------------------------------- R5 sequence assignment
	c07Seq(c, "R5-seq", c.Fn(p+"ChannelLog.walkAppendRowsLocked"))

	c.Min("R1-families", 45)
	c.Min("R2-frontier", 12)
	c.Min("R2-recover", 12)
	c.Min("R3-locks", 5)
	c.Min("R4-lookups", 30)
	c.Min("R5-seq", 5)
}

// ---------------------------------------------------------------------------
// R1 helpers

// c07Families: every stage helper called by stageMessageRow is in the frozen
// table, nothing is written to the batch outside those helpers, and the family
// of every staged helper has its delete encoder passed to Batch.Delete in stageDeleteMessage.
func c07Families(c *Ctx, rule string, stage, del *ssa.Function, fams []c07Family) {
	if stage == nil || del == nil {
		return
	}
	byStage := map[string]c07Family{}
	byDel := map[string]c07Family{}
	for _, f := range fams {
		byStage[f.stage] = f
		byDel[f.delEnc] = f
	}
	staged := map[string]bool{}
	var unknown []string
	for _, b := range stage.Blocks {
		for _, in := range b.Instrs {
			ci, ok := in.(ssa.CallInstruction)
			if !ok {
				continue
			}
			name := calleeName(ci.Common())
			if f, ok := byStage[name]; ok {
				staged[f.name] = true
				continue
			}
			// any other call that receives the batch (or writes to it) is an unknown family
			for _, a := range callArgs(ci.Common()) {
				if typeBaseName(a.Type()) == "Batch" {
					unknown = append(unknown, name+" at "+c.P.InstrPos(in))
				}
			}
		}
	}
	deleted := map[string]bool{}
	var unknownDel []string
	for _, in := range instrsMatching(del, CallTo{"*engine.Batch.Delete*"}) {
		args := in.(ssa.CallInstruction).Common().Args
		if len(args) < 2 {
			continue
		}
		enc := ""
		if call, ok := args[1].(*ssa.Call); ok {
			enc = calleeName(&call.Call)
		}
		if f, ok := byDel[enc]; ok {
			deleted[f.name] = true
		} else {
			unknownDel = append(unknownDel, Path(args[1])+" at "+c.P.InstrPos(in))
		}
	}
	construct := c.P.Name(stage) + "⊆" + c.P.Name(del) + "#key-families"
	pos := c.P.Pos(stage.Pos())
	var missing []string
	for _, f := range fams {
		if staged[f.name] && !deleted[f.name] {
			missing = append(missing, f.name)
		}
	}
	switch {
	case len(unknown) > 0:
		c.add("sibling", rule, construct, Violated, pos, "stageMessageRow writes to the batch through a helper that has no entry in the family table (a new index family needs a delete sibling and a table line): "+strings.Join(unknown, "; "))
	case len(missing) > 0:
		c.add("sibling", rule, construct, Violated, c.P.Pos(del.Pos()), fmt.Sprintf("family(ies) %v are staged on append but never deleted by stageDeleteMessage: truncation/trim would leave dangling index rows", missing))
	case len(staged) == 0:
		c.add("sibling", rule, construct, Undecided, pos, "no family staged (vacuous)")
	default:
		det := fmt.Sprintf("staged %v; deleted %v", keysOfC07(staged), keysOfC07(deleted))
		if len(unknownDel) > 0 {
			det += "; extra deletes (harmless): " + strings.Join(unknownDel, "; ")
		}
		c.add("sibling", rule, construct, Held, pos, det)
	}
}

func keysOfC07(m map[string]bool) []string {
	var ks []string
	for k := range m {
		ks = append(ks, k)
	}
	sort.Strings(ks)
	return ks
}

// c07CallShapeIn: like CallShape over a set of function bodies (helper + its closures): exactly ≥1 call, all of the shape.
func c07CallShapeIn(c *Ctx, rule, owner string, fns []*ssa.Function, calleeGlob string, shapes ...string) {
	if len(fns) == 0 {
		return
	}
	n := 0
	var bad []string
	for _, fn := range fns {
		for _, b := range fn.Blocks {
			for _, in := range b.Instrs {
				ci, ok := in.(ssa.CallInstruction)
				if !ok || !glob(calleeGlob, calleeName(ci.Common())) {
					continue
				}
				n++
				s := renderCall(ci.Common(), 0, nil)
				if !globAny(shapes, s) {
					bad = append(bad, s+" at "+c.P.InstrPos(in))
				}
			}
		}
	}
	construct := owner + "(+closures)#callshape:" + calleeGlob
	switch {
	case n == 0:
		c.add("shape", rule, construct, Undecided, c.P.Pos(fns[0].Pos()), "the helper no longer calls its family's key encoder "+calleeGlob+" (family table out of date)")
	case len(bad) > 0:
		c.add("shape", rule, construct, Violated, c.P.Pos(fns[0].Pos()), fmt.Sprintf("key encoder call does not have the shape %v: %s", shapes, strings.Join(bad, "; ")))
	default:
		c.add("shape", rule, construct, Held, c.P.Pos(fns[0].Pos()), fmt.Sprintf("%d call(s), shape %v", n, shapes))
	}
}

// c07NoRawRowDelete: Batch.Delete of a message-row key / index key happens only inside stageDeleteMessage
// (and the latest-index maintenance for the global id).
func c07NoRawRowDelete(c *Ctx, rule string, del *ssa.Function) {
	encs := []string{"*encodeMessageRowKey", "*encodeMessageClientMsgNoIndexKey", "*encodeMessageIdempotencyIndexKey", "*encodeMessageSenderSeqIndexKey", "*encodeGlobalMessageIDIndexKey"}
	allowed := map[string]string{
		c07Pkg + ".ChannelLog.stageDeleteMessage": "the one delete sibling",
		c07Pkg + ".*atest*":                       "latest-index migration removes stale global-id entries",
	}
	n := 0
	var bad []string
	for _, cs := range c.callSites("*engine.Batch.Delete") {
		args := cs.in.Common().Args
		if len(args) < 2 {
			continue
		}
		call, ok := args[1].(*ssa.Call)
		if !ok || !globAny(encs, calleeName(&call.Call)) {
			continue
		}
		n++
		name := c.P.Name(cs.fn)
		ok2 := false
		for g := range allowed {
			if glob(g, name) || glob(g, rootName(name)) {
				ok2 = true
			}
		}
		if !ok2 {
			bad = append(bad, name+" at "+c.P.InstrPos(cs.in))
		}
	}
	construct := "raw-row-deletes-only-in:" + c.P.Name(del)
	switch {
	case len(bad) > 0:
		c.add("confine", rule, construct, Violated, "", "a message row / index key is deleted outside stageDeleteMessage (siblings can drift apart): "+strings.Join(bad, "; "))
	case n == 0:
		c.add("confine", rule, construct, Undecided, "", "no row-key delete found (vacuous)")
	default:
		c.add("confine", rule, construct, Held, "", fmt.Sprintf("%d Batch.Delete call(s) on row/index keys, all in the enumerated owners", n))
	}
}

// c07IterGuard: see c08IterGuard (one full loop iteration only through a guard edge / after-call).
func (c *Ctx) c07IterGuard(rule string, fn *ssa.Function, guards ...string) {
	if fn == nil {
		return
	}
	fname := c.P.Name(fn)
	type loop struct{ head, body *ssa.BasicBlock }
	var loops []loop
	seenHead := map[*ssa.BasicBlock]bool{}
	for _, b := range fn.Blocks {
		for _, h := range b.Succs {
			if !h.Dominates(b) || seenHead[h] {
				continue
			}
			seenHead[h] = true
			for _, s := range h.Succs {
				if s != h && s.Dominates(b) {
					loops = append(loops, loop{h, s})
				}
			}
		}
	}
	// only loops whose body contains one of the guard's calls are relevant
	for _, gs := range guards {
		g := parseGuard(gs)
		removed, descr := guardEdges(fn, g)
		c.EdgesRemoved += len(removed)
		var bad []string
		relevant := 0
		for _, lp := range loops {
			has := false
			for e := range removed {
				if lp.body.Dominates(e.from) {
					has = true
				}
			}
			if !has {
				continue
			}
			relevant++
			seen := map[*ssa.BasicBlock]bool{lp.body: true}
			work := []*ssa.BasicBlock{lp.body}
			for len(work) > 0 {
				b := work[len(work)-1]
				work = work[:len(work)-1]
				if barrierIndex(b, g.afters) >= 0 {
					continue
				}
				for si, s := range b.Succs {
					if removed[edge{b, si}] {
						continue
					}
					if s == lp.head {
						bad = append(bad, c.P.InstrPos(b.Instrs[len(b.Instrs)-1]))
						continue
					}
					if !seen[s] && lp.body.Dominates(s) {
						seen[s] = true
						work = append(work, s)
					}
				}
			}
		}
		construct := fname + "#iteration⇐" + gs
		switch {
		case relevant == 0:
			c.add("guard", rule, construct, Violated, c.P.Pos(fn.Pos()), "no loop in "+fname+" establishes "+gs+" (the per-row step is gone)")
		case len(bad) > 0:
			c.add("guard", rule, construct, Violated, bad[0], fmt.Sprintf("in %s a loop iteration can complete without %q (back-edges at %s)", fname, gs, strings.Join(dedup(bad), ", ")))
		default:
			c.add("guard", rule, construct, Held, c.P.Pos(fn.Pos()), fmt.Sprintf("%d loop(s); %d guard edge(s) [%s]; no iteration completes without the guard", relevant, len(removed), strings.Join(dedup(descr), "; ")))
		}
	}
}

// ---------------------------------------------------------------------------
// R2 helpers

type c07Site struct {
	fn    *ssa.Function
	call  ssa.CallInstruction
	field string // leo | loaded
	fresh bool
}

// c07FrontierSites: every atomic Store on channelEntry.leo / channelEntry.loaded in the loaded packages.
func c07FrontierSites(c *Ctx) []c07Site {
	var out []c07Site
	for _, fn := range c.P.AllFuncs {
		for _, b := range fn.Blocks {
			for _, in := range b.Instrs {
				ci, ok := in.(ssa.CallInstruction)
				if !ok {
					continue
				}
				name := calleeName(ci.Common())
				if name != "sync/atomic.Uint64.Store" && name != "sync/atomic.Bool.Store" && name != "sync/atomic.Uint64.Add" && name != "sync/atomic.Uint64.Swap" && name != "sync/atomic.Uint64.CompareAndSwap" && name != "sync/atomic.Bool.Swap" && name != "sync/atomic.Bool.CompareAndSwap" {
					continue
				}
				args := ci.Common().Args
				if len(args) == 0 {
					continue
				}
				fa, ok := args[0].(*ssa.FieldAddr)
				if !ok || ownerTypeName(fa.X.Type()) != "channelEntry" {
					continue
				}
				f := fieldName(fa.X.Type(), fa.Field)
				if f != "leo" && f != "loaded" {
					continue
				}
				out = append(out, c07Site{fn, ci, f, isFreshAlloc(fa.X)})
			}
		}
	}
	return out
}

func c07Frontier(c *Ctx, rule string) {
	p := c07Pkg + "."
	commitOK := "*engine.Batch.Commit(*) == nil"
	// function → (guards on the write, allowed leo value shapes, reason when exception)
	type policy struct {
		guards []string
		leoVal []string
		except string
	}
	table := map[string]policy{
		p + "ChannelLog.TruncateFrom":             {[]string{commitOK, "* <= *.loadLEOLocked(*)#0"}, []string{"(phi(fromSeq|1) - 1)", "(phi(1|fromSeq) - 1)", "(fromSeq - 1)"}, ""},
		p + "ChannelLog.trimPrefixThroughLimit":   {[]string{commitOK}, []string{p + "maxUint64(" + p + "ChannelLog.loadLEOLocked(l, ctx)#0, *.RetainedMaxSeq)"}, ""},
		p + "ChannelStore.truncateLocked":         {[]string{commitOK, "to < *.loadLEOLocked(*)#0"}, []string{"to"}, ""},
		p + "ChannelStore.ReplaceRecoverySuffix":  {[]string{commitOK}, []string{p + "ChannelStore.prepareRecoveryReplacementLocked(s, ctx, req)#1"}, ""},
		p + "ChannelStore.DiscardForRestore":      {[]string{commitOK}, []string{"0"}, ""},
		p + "ChannelLog.loadLEOLocked":            {[]string{"*.recoverLEO(*)#1 == nil", "sync/atomic.Bool.Load(*.loaded) == false"}, []string{p + "ChannelLog.recoverLEO(l, ctx)#0"}, ""},
		p + "ChannelLog.publishAppendLocked":      {[]string{"result.Count != 0"}, []string{"result.LastSeq"}, ""},
		p + "channelEntry.publishCommittedRows":   {[]string{"len(rows) > 0"}, []string{"nextLEO"}, ""},
		p + "channelRegistry.acquire":             {nil, []string{"*.takeWarmLocked(*)#0.leo"}, "initialises a fresh, not yet published entry from the retained warm state of the same (key,id)"},
		p + "ChannelStore.AdoptRetentionBoundary": {[]string{commitOK}, []string{"*.RetainedMaxSeq"}, ""},
	}
	sites := c07FrontierSites(c)
	if len(sites) < 20 {
		c.add("confine", rule, "frontier-writes", Undecided, "", fmt.Sprintf("%d atomic write(s) of channelEntry.leo/loaded found, hand-confirmed minimum 20", len(sites)))
	}
	byFn := map[*ssa.Function][]c07Site{}
	var order []*ssa.Function
	for _, s := range sites {
		if byFn[s.fn] == nil {
			order = append(order, s.fn)
		}
		byFn[s.fn] = append(byFn[s.fn], s)
	}
	for _, fn := range order {
		name := c.P.Name(fn)
		var pol *policy
		if pl, ok := table[name]; ok {
			pol = &pl
		}
		ss := byFn[fn]
		if pol == nil {
			c.add("confine", rule, "frontier-write@"+name, Violated, c.P.InstrPos(ss[0].call), "channelEntry.leo/loaded is written in a function that is not an enumerated frontier publisher (the cached log end could disagree with the durable rows)")
			continue
		}
		set := map[ssa.Instruction]bool{}
		var badKind, badVal []string
		for _, s := range ss {
			set[s.call] = true
			cn := calleeName(s.call.Common())
			if !strings.HasSuffix(cn, ".Store") {
				badKind = append(badKind, cn+" at "+c.P.InstrPos(s.call))
			}
			if s.field == "leo" && len(s.call.Common().Args) > 1 {
				v := Path(s.call.Common().Args[1])
				if !globAny(pol.leoVal, v) {
					badVal = append(badVal, v+" at "+c.P.InstrPos(s.call))
				}
			}
			if pol.except != "" && !s.fresh {
				badKind = append(badKind, "write to a shared (not freshly allocated) entry at "+c.P.InstrPos(s.call))
			}
		}
		if len(badKind) > 0 {
			c.add("shape", rule, "frontier-write-kind@"+name, Violated, c.P.InstrPos(ss[0].call), strings.Join(badKind, "; "))
		}
		if len(badVal) > 0 {
			c.add("shape", rule, "frontier-value@"+name, Violated, c.P.InstrPos(ss[0].call), fmt.Sprintf("leo is set to a value outside %v: %s", pol.leoVal, strings.Join(badVal, "; ")))
		} else {
			c.add("shape", rule, "frontier-value@"+name, Held, c.P.InstrPos(ss[0].call), fmt.Sprintf("%d write(s); leo values of shape %v", len(ss), pol.leoVal))
		}
		if pol.except != "" {
			c.add("guard", rule, "frontier-write@"+name, Exception, c.P.InstrPos(ss[0].call), pol.except)
			continue
		}
		c.Guard(rule, fn, InstrFn{"write channelEntry.leo/loaded", func(in ssa.Instruction) bool { return set[in] }}, pol.guards...)
	}
	// publishers: helper bodies are reached only after the commit
	c.ConfineCalls(rule, p+"ChannelLog.publishAppendLocked", 2, p+"ChannelLog.Append", p+"ChannelLog.ApplyFetch")
	for _, n := range []string{"ChannelLog.Append", "ChannelLog.ApplyFetch"} {
		fn := c.Fn(p + n)
		c.Guard(rule, fn, CallTo{p + "ChannelLog.publishAppendLocked"}, commitOK)
		c.Guard(rule, fn, RetNot{0, []string{"zero:AppendResult"}}, commitOK)
	}
	c.CallShape(rule, c.Fn(p+"ChannelLog.Append"), p+"ChannelLog.publishAppendLocked", "*(l, "+p+"ChannelLog.prepareAndStageAppendLocked(*)#0)", "*(l, *)")
	c.CallShape(rule, c.Fn(p+"ChannelLog.ApplyFetch"), p+"ChannelLog.publishAppendLocked", "*(l, "+p+"ChannelLog.prepareAppendRowsLocked(*)#1)", "*(l, *)")
	// commit owner: Publish closure is the only caller, and Publish runs only after the physical commit
	c.ConfineCalls(rule, p+"channelEntry.publishCommittedRows", 1, p+"commitPreparedRowsBatchResult")
	cpr := c.Fn(p + "commitPreparedRowsBatchResult")
	c.Guard(rule, cpr, CallTo{"dyn:*.Publish"}, commitOK)
	c.Guard(rule, c.Fn("pkg/db/internal/commit.Coordinator.commit"), CallTo{"dyn:*.Publish"}, "dyn:*commitFunc(*) == nil")
	c07NoOtherPublishCalls(c, rule)
}

// c07NoOtherPublishCalls: Request.Publish (a func field) is invoked only by the coordinator's commit and the synchronous fallback.
func c07NoOtherPublishCalls(c *Ctx, rule string) {
	allowed := []string{"pkg/db/internal/commit.Coordinator.commit", c07Pkg + ".commitPreparedRowsBatchResult"}
	n := 0
	var bad []string
	for _, cs := range c.callSites("dyn:*.Publish") {
		name := c.P.Name(cs.fn)
		if !strings.HasPrefix(name, c07Pkg+".") && !strings.HasPrefix(name, "pkg/db/internal/commit.") {
			continue // other packages' callbacks that happen to be called Publish
		}
		n++
		if !c.allowedOwner(cs.fn, allowed) { // owners are closed under private helpers only they call
			bad = append(bad, name+" at "+c.P.InstrPos(cs.in))
		}
	}
	construct := "callers:Request.Publish"
	switch {
	case len(bad) > 0:
		c.add("confine", rule, construct, Violated, "", "Publish callback invoked outside the commit owners: "+strings.Join(bad, "; "))
	case n < 2:
		c.add("confine", rule, construct, Undecided, "", fmt.Sprintf("%d Publish call site(s), expected 2", n))
	default:
		c.add("confine", rule, construct, Held, "", fmt.Sprintf("%d call site(s), all in %v", n, allowed))
	}
}

// c07LoopExhausted: eff is reachable only through the false edge of a loop condition that is the φ of Iter.First/Iter.Next.
func c07LoopExhausted(c *Ctx, rule string, fn *ssa.Function, eff Effect) {
	if fn == nil {
		return
	}
	construct := c.P.Name(fn) + "#" + eff.String() + "⇐iterator exhausted"
	removed := map[edge]bool{}
	for _, b := range fn.Blocks {
		if len(b.Instrs) == 0 {
			continue
		}
		iff, ok := b.Instrs[len(b.Instrs)-1].(*ssa.If)
		if !ok {
			continue
		}
		phi, ok := iff.Cond.(*ssa.Phi)
		if !ok || len(phi.Edges) < 2 {
			continue
		}
		all := true
		for _, e := range phi.Edges {
			call, ok := e.(*ssa.Call)
			if !ok {
				all = false
				break
			}
			name := calleeName(&call.Call)
			if !(glob("*engine.Iter.First", name) || glob("*engine.Iter.Next", name)) {
				all = false
				break
			}
		}
		if all {
			removed[edge{b, 1}] = true
		}
	}
	effs := instrsMatching(fn, eff)
	if len(effs) == 0 {
		c.add("guard", rule, construct, Undecided, c.P.Pos(fn.Pos()), "no instruction matches the effect (vacuous)")
		return
	}
	limit := reachUnguarded(fn, removed, nil)
	var bad []string
	for _, e := range effs {
		if lim, ok := limit[e.Block()]; ok && indexIn(e.Block(), e) < lim {
			bad = append(bad, c.P.InstrPos(e))
		}
	}
	if len(bad) > 0 {
		c.add("guard", rule, construct, Violated, bad[0], fmt.Sprintf("%s reachable without the First/Next scan having run to exhaustion (%d exhaustion edge(s) found)", eff.String(), len(removed)))
		return
	}
	c.add("guard", rule, construct, Held, c.P.InstrPos(effs[0]), fmt.Sprintf("%d site(s), each only behind the Iter.First/Iter.Next == false edge", len(effs)))
}

// c07PhiLeaves walks φ-trees and returns (leaf value, predecessor block that delivers it).
type c07Leaf struct {
	v    ssa.Value
	from *ssa.BasicBlock
}

func c07PhiLeaves(v ssa.Value, at *ssa.BasicBlock, seen map[*ssa.Phi]bool, out *[]c07Leaf) {
	if phi, ok := v.(*ssa.Phi); ok {
		if seen[phi] {
			return
		}
		seen[phi] = true
		for i, e := range phi.Edges {
			c07PhiLeaves(e, phi.Block().Preds[i], seen, out)
		}
		return
	}
	*out = append(*out, c07Leaf{v, at})
}

// c07RunningMax: the value returned on success is a running maximum: a φ-tree whose leaves are 0 or
// candidates `cand` that are delivered only from blocks behind `cand > <current>`; every required
// candidate glob must be present.
func c07RunningMax(c *Ctx, rule string, fn *ssa.Function, required []string) {
	if fn == nil {
		return
	}
	construct := c.P.Name(fn) + "#result-is-running-max" + fmt.Sprint(required)
	var bad []string
	have := map[string]bool{}
	nret := 0
	for _, in := range instrsMatching(fn, RetNil{}) {
		ret := in.(*ssa.Return)
		nret++
		var leaves []c07Leaf
		c07PhiLeaves(retOperand(ret, 0), ret.Block(), map[*ssa.Phi]bool{}, &leaves)
		for _, lf := range leaves {
			if k, ok := lf.v.(*ssa.Const); ok && constString(k) == "0" {
				continue
			}
			ps := Path(lf.v)
			matched := false
			for _, r := range required {
				if operandGlob(r, ps) {
					have[r] = true
					matched = true
				}
			}
			if !matched {
				bad = append(bad, "unexpected candidate "+ps)
				continue
			}
			g := guardSpec{atoms: []AtomSpec{{L: ps, Op: ">", R: "*"}}}
			removed, _ := guardEdges(fn, g)
			limit := reachUnguarded(fn, removed, nil)
			if _, reach := limit[lf.from]; reach {
				bad = append(bad, fmt.Sprintf("candidate %s replaces the running value without the test %s > current", ps, ps))
			}
		}
	}
	for _, r := range required {
		if !have[r] {
			bad = append(bad, "candidate "+r+" never reaches the result")
		}
	}
	if nret == 0 {
		bad = append(bad, "no success return")
	}
	if len(bad) > 0 {
		c.add("mono", rule, construct, Violated, c.P.Pos(fn.Pos()), strings.Join(dedup(bad), "; "))
		return
	}
	c.add("mono", rule, construct, Held, c.P.Pos(fn.Pos()), fmt.Sprintf("%d success return(s); every candidate enters only behind candidate > current", nret))
}

// c07PhiUseOf: instruction predicate — a φ that has the value (glob) as an incoming edge… we approximate the
// "use as candidate" by the jump/if that ends the block delivering the value to a φ.
func c07PhiUseOf(valGlob string) func(in ssa.Instruction) bool {
	return func(in ssa.Instruction) bool {
		b := in.Block()
		if b == nil || len(b.Instrs) == 0 || b.Instrs[len(b.Instrs)-1] != in {
			return false
		}
		for _, s := range b.Succs {
			idx := -1
			for i, p := range s.Preds {
				if p == b {
					idx = i
				}
			}
			if idx < 0 {
				continue
			}
			for _, si := range s.Instrs {
				phi, ok := si.(*ssa.Phi)
				if !ok {
					break
				}
				if idx < len(phi.Edges) {
					if _, isPhi := phi.Edges[idx].(*ssa.Phi); !isPhi && operandGlob(valGlob, Path(phi.Edges[idx])) {
						return true
					}
				}
			}
		}
		return false
	}
}

// ---------------------------------------------------------------------------
// R3 locks (holder-aware lock-set: the guarded struct is reached through l.channelEntry / s.log.channelEntry)

// c07HolderKey: the path of the channelEntry reachable from a value of type *channelEntry, *ChannelLog or *ChannelStore.
func c07HolderKey(v ssa.Value) (string, bool) {
	switch typeBaseName(v.Type()) {
	case "channelEntry":
		return Path(v), true
	case "ChannelLog":
		return Path(v) + ".channelEntry", true
	case "ChannelStore":
		return Path(v) + ".log.channelEntry", true
	}
	return "", false
}

func c07Locks(c *Ctx, rule string) {
	p := c07Pkg + "."
	type muSpec struct {
		mutex  string
		fields map[string]bool // guarded fields of channelEntry (any access)
		// helpers analysed with the lock assumed held; every call site must hold it
		assume []string
		// exempt functions with reasons
		exempt map[string]string
		// frontier writes need this mutex
		frontier bool
	}
	specs := []muSpec{
		{
			mutex:  "appendMu",
			fields: map[string]bool{"idempotencyMembership": true, "idempotencyMembershipLoaded": true},
			assume: []string{
				p + "*.*Locked", p + "*Locked",
				p + "ChannelLog.validateAppendRow", p + "ChannelLog.ensureIdempotencyMembershipLoaded",
				p + "ChannelStore.validateRowsForAppend", p + "ChannelStore.validateRowsForAppendSeen",
				p + "ChannelStore.validateRecoveryRows",
			},
			exempt: map[string]string{
				p + "channelRegistry.retainWarmLocked":  "entry has zero references (no lease or pin can run an append) and is being detached under registry.mu",
				p + "channelRegistry.acquire":           "fresh entry, not yet published",
				p + "storeAppendBatchOwner":             "locks the appendMu of a dynamically computed, key-sorted set of entries in a loop before preparing (set-valued lock state is outside a must-lockset; NOT decided)",
				p + "storeApplyFetchBatchOwner":         "same: dynamic set of entries locked through lockCommitEntriesWithoutHoldAndWait / sorted loop; acquisition-before-use decided by the after:-guard below",
				p + "channelEntry.publishCommittedRows": "runs on the commit owner while the submitting goroutine's appendMu ownership is parked in commitOwnership (hand-over, released by finalize)",
			},
			frontier: true,
		},
	}
	for _, sp := range specs {
		accesses, funcs := 0, 0
		var viols []string
		for _, fn := range c.P.AllFuncs {
			name := c.P.Name(fn)
			if !strings.HasPrefix(name, p) {
				continue
			}
			exempted := false
			for g := range sp.exempt {
				if glob(g, name) || glob(g, rootName(name)) {
					exempted = true
				}
			}
			if exempted {
				continue
			}
			type need struct {
				in   ssa.Instruction
				key  string
				what string
			}
			var needs []need
			for _, b := range fn.Blocks {
				for _, in := range b.Instrs {
					switch x := in.(type) {
					case *ssa.FieldAddr:
						if ownerTypeName(x.X.Type()) == "channelEntry" && sp.fields[fieldName(x.X.Type(), x.Field)] && !isFreshAlloc(x.X) {
							needs = append(needs, need{in, Path(x.X), "access to channelEntry." + fieldName(x.X.Type(), x.Field)})
						}
					case ssa.CallInstruction:
						com := x.Common()
						cn := calleeName(com)
						if sp.frontier && (cn == "sync/atomic.Uint64.Store" || cn == "sync/atomic.Bool.Store") && len(com.Args) > 0 {
							if fa, ok := com.Args[0].(*ssa.FieldAddr); ok && ownerTypeName(fa.X.Type()) == "channelEntry" && !isFreshAlloc(fa.X) {
								if f := fieldName(fa.X.Type(), fa.Field); f == "leo" || f == "loaded" {
									needs = append(needs, need{in, Path(fa.X), "write of channelEntry." + f})
								}
							}
						}
						if _, isDefer := in.(*ssa.Defer); !isDefer && globAny(sp.assume, cn) && !strings.HasPrefix(cn, "dyn:") {
							if callee, ok := com.Value.(*ssa.Function); ok && c07NeedsLock(callee, sp.mutex) {
								for _, a := range callArgs(com) {
									if k, ok := c07HolderKey(a); ok {
										needs = append(needs, need{in, k, "call of " + cn + " (caller must hold " + sp.mutex + ")"})
										break
									}
								}
							}
						}
					}
				}
			}
			if len(needs) == 0 {
				continue
			}
			funcs++
			c.FuncsAnalysed[name] = true
			entry := lockState{}
			if (globAny(sp.assume, name) || globAny(sp.assume, rootName(name))) && c07NeedsLock(fn, sp.mutex) {
				for _, prm := range fn.Params {
					if k, ok := c07HolderKey(prm); ok {
						entry[k+"."+sp.mutex] = 'W'
					}
				}
				for _, fv := range fn.FreeVars {
					if k, ok := c07HolderKey(fv); ok {
						entry[k+"."+sp.mutex] = 'W'
					}
				}
			}
			held := c07HeldAt(fn, entry)
			for _, nd := range needs {
				accesses++
				if _, ok := held[nd.in][nd.key+"."+sp.mutex]; !ok {
					viols = append(viols, fmt.Sprintf("%s in %s without %s.%s (held: %s) at %s", nd.what, name, nd.key, sp.mutex, lsString(held[nd.in]), c.P.InstrPos(nd.in)))
				}
			}
		}
		construct := "guardedby:channelEntry." + sp.mutex + "{filter state, leo/loaded writes, …Locked helpers}"
		switch {
		case len(viols) > 0:
			c.add("lockset", rule, construct, Violated, "", strings.Join(viols, "; "))
		case accesses < 40:
			c.add("lockset", rule, construct, Undecided, "", fmt.Sprintf("only %d access(es)/helper call(s) found, hand-confirmed minimum 40", accesses))
		default:
			var ex []string
			for k, v := range sp.exempt {
				ex = append(ex, k+": "+v)
			}
			sort.Strings(ex)
			c.add("lockset", rule, construct, Held, "", fmt.Sprintf("%d access(es)/helper call(s) in %d function(s), all with %s held; exempt: %s", accesses, funcs, sp.mutex, strings.Join(ex, " | ")))
		}
	}
	// storeApplyFetchBatchOwner (exempt from the must-lockset): no ...Locked helper before the entries were locked
	helper := OneOf{CallTo{p + "*.prepare*Locked"}, CallTo{p + "ChannelLog.loadLEOLocked"}}
	c.Guard(rule, c.Fn(p+"storeApplyFetchBatchOwner"), helper, p+"lockCommitEntriesWithoutHoldAndWait(*) == nil")
	c07CheckpointLocks(c, rule)
}

// c07NeedsLock: name-based helper classification: …Locked helpers that concern the append frontier.
// Helpers named …Locked that are about *other* mutexes (registry.mu, checkpointMu) are excluded by receiver/name.
func c07NeedsLock(callee *ssa.Function, mutex string) bool {
	name := funcShortName(callee)
	// a "...Locked" function that takes the mutex itself (truncateLocked) is not a caller-holds helper
	for _, b := range callee.Blocks {
		for _, in := range b.Instrs {
			if call, ok := in.(*ssa.Call); ok {
				if path, op := c07LockOp(&call.Call); op == "Lock" && strings.HasSuffix(path, "."+mutex) {
					return false
				}
			}
		}
	}
	if strings.Contains(name, "channelRegistry.") || strings.Contains(name, "Coordinator.") {
		return false
	}
	isCheckpoint := strings.Contains(name, "heckpoint") && !strings.Contains(name, "prepare")
	if mutex == "appendMu" {
		return !isCheckpoint
	}
	return isCheckpoint
}

// c07CheckpointLocks: checkpoint read-modify-write helpers run with checkpointMu held, and
// checkpointMu is never acquired while appendMu is not yet held but will be (order append → checkpoint).
func c07CheckpointLocks(c *Ctx, rule string) {
	p := c07Pkg + "."
	helpers := []string{p + "ChannelLog.storeCheckpointLocked", p + "ChannelLog.validateCheckpointMonotonicLocked", p + "ChannelLog.installSnapshotLocked"}
	exempt := map[string]string{
		p + "ChannelLog.ApplyFetch":                         "checkpointMu is taken under the same condition (req.Checkpoint != nil) as the helper call; decided by the correlated-condition guard below instead of the must-lockset",
		p + "ChannelStore.prepareApplyFetchedRecordsLocked": "caller (applyFetched… / batch apply) took checkpointMu and records it in checkpointLocked; verified by the call-site rule on its callers",
	}
	n := 0
	var viols []string
	for _, fn := range c.P.AllFuncs {
		name := c.P.Name(fn)
		if !strings.HasPrefix(name, p) {
			continue
		}
		var calls []ssa.CallInstruction
		for _, b := range fn.Blocks {
			for _, in := range b.Instrs {
				if ci, ok := in.(ssa.CallInstruction); ok {
					if _, isDefer := in.(*ssa.Defer); !isDefer && globAny(helpers, calleeName(ci.Common())) {
						calls = append(calls, ci)
					}
				}
			}
		}
		if len(calls) == 0 {
			continue
		}
		if _, ok := exempt[name]; ok {
			n += len(calls)
			continue
		}
		entry := lockState{}
		if globAny(helpers, name) {
			for _, prm := range fn.Params {
				if k, ok := c07HolderKey(prm); ok {
					entry[k+".checkpointMu"] = 'W'
				}
			}
		}
		held := c07HeldAt(fn, entry)
		for _, ci := range calls {
			n++
			for _, a := range callArgs(ci.Common()) {
				if k, ok := c07HolderKey(a); ok {
					if _, h := held[ci][k+".checkpointMu"]; !h {
						viols = append(viols, fmt.Sprintf("%s calls %s without %s.checkpointMu (held: %s) at %s", name, calleeName(ci.Common()), k, lsString(held[ci]), c.P.InstrPos(ci)))
					}
					break
				}
			}
		}
	}
	c.Guard(rule, c.Fn(p+"ChannelLog.ApplyFetch"), OneOf{CallTo{p + "ChannelLog.validateCheckpointMonotonicLocked"}, CallTo{"*engine.Batch.Set(*encodeCheckpointKey(*"}},
		"req.Checkpoint == nil || after: sync.Mutex.Lock(l.channelEntry.checkpointMu)")
	construct := "guardedby:channelEntry.checkpointMu{checkpoint read-modify-write helpers}"
	switch {
	case len(viols) > 0:
		c.add("lockset", rule, construct, Violated, "", strings.Join(viols, "; "))
	case n < 4:
		c.add("lockset", rule, construct, Undecided, "", fmt.Sprintf("%d helper call(s) found, minimum 4", n))
	default:
		c.add("lockset", rule, construct, Held, "", fmt.Sprintf("%d call(s) of checkpoint RMW helpers, all with checkpointMu held (or enumerated hand-over)", n))
	}
	// lock order: appendMu.Lock never happens while checkpointMu of the same entry is held
	var ord []string
	m := 0
	for _, fn := range c.P.AllFuncs {
		if !strings.HasPrefix(c.P.Name(fn), p) {
			continue
		}
		var locks []*ssa.Call
		for _, b := range fn.Blocks {
			for _, in := range b.Instrs {
				if call, ok := in.(*ssa.Call); ok {
					if path, op := c07LockOp(&call.Call); op == "Lock" && strings.HasSuffix(path, ".appendMu") {
						locks = append(locks, call)
					}
				}
			}
		}
		if len(locks) == 0 {
			continue
		}
		held := c07HeldAt(fn, lockState{})
		for _, call := range locks {
			m++
			path, _ := c07LockOp(&call.Call)
			ck := strings.TrimSuffix(path, ".appendMu") + ".checkpointMu"
			if _, h := held[call][ck]; h {
				ord = append(ord, fmt.Sprintf("%s takes %s while holding %s at %s", c.P.Name(fn), path, ck, c.P.InstrPos(call)))
			}
		}
	}
	construct = "lock-order:appendMu→checkpointMu"
	switch {
	case len(ord) > 0:
		c.add("lockset", rule, construct, Violated, "", strings.Join(ord, "; "))
	case m == 0:
		c.add("lockset", rule, construct, Undecided, "", "no appendMu.Lock found (vacuous)")
	default:
		c.add("lockset", rule, construct, Held, "", fmt.Sprintf("%d appendMu.Lock site(s), none while checkpointMu of the same entry is held", m))
	}
}

// ---------------------------------------------------------------------------
// R5 sequence assignment

func c07Seq(c *Ctx, rule string, walk *ssa.Function) {
	if walk == nil {
		return
	}
	p := c07Pkg + "."
	fname := c.P.Name(walk)
	// rows are produced only if BaseSeq is unset or equals leo+1
	c.Guard(rule, walk, CallTo{p + "ChannelLog.recordToRow"}, "*.loadLEOLocked(*)#1 == nil",
		"opts.BaseSeq == 0 || opts.BaseSeq == ("+p+"ChannelLog.loadLEOLocked(l, ctx)#0 + 1)")
	c.Guard(rule, walk, RetNil{}, "*.loadLEOLocked(*)#1 == nil",
		"opts.BaseSeq == 0 || opts.BaseSeq == ("+p+"ChannelLog.loadLEOLocked(l, ctx)#0 + 1)")
	calls := instrsMatching(walk, CallTo{p + "ChannelLog.recordToRow"})
	construct := fname + "#seq=base+index"
	if len(calls) != 1 {
		c.add("slice", rule, construct, Undecided, c.P.Pos(walk.Pos()), fmt.Sprintf("expected one recordToRow call, found %d", len(calls)))
		return
	}
	call := calls[0].(ssa.CallInstruction).Common()
	seq := stripConv(call.Args[1])
	rec := call.Args[2]
	var bad []string
	// seq = base + conv(idx)
	add, ok := seq.(*ssa.BinOp)
	if !ok || add.Op.String() != "+" {
		bad = append(bad, "sequence is not base + index: "+Path(seq))
	}
	var base, idx ssa.Value
	if ok {
		base, idx = stripConv(add.X), stripConv(add.Y)
		// base: φ of (leo+1) and opts.BaseSeq, or just leo+1
		var leaves []c07Leaf
		c07PhiLeaves(base, nil, map[*ssa.Phi]bool{}, &leaves)
		for _, lf := range leaves {
			ps := Path(lf.v)
			if ps != "("+p+"ChannelLog.loadLEOLocked(l, ctx)#0 + 1)" && ps != "opts.BaseSeq" {
				bad = append(bad, "base sequence depends on "+ps)
			}
		}
		// idx must be the loop index that also selects the record
		ld, isLoad := rec.(*ssa.UnOp)
		var recIdx ssa.Value
		if isLoad {
			if ia, ok := ld.X.(*ssa.IndexAddr); ok && Path(ia.X) == "records" {
				recIdx = stripConv(ia.Index)
			}
		}
		if recIdx == nil {
			bad = append(bad, "record argument is not records[index]: "+Path(rec))
		} else if recIdx != idx {
			bad = append(bad, fmt.Sprintf("sequence offset %s is not the index %s that selects the record", Path(idx), Path(recIdx)))
		}
		// idx is a unit-step induction variable starting at 0: (φ(-1|φ+1) + 1) or φ(0|φ+1)
		if !c07UnitInduction(idx) {
			bad = append(bad, "sequence offset is not a unit-step loop index: "+Path(idx))
		}
	}
	if len(bad) > 0 {
		c.add("slice", rule, construct, Violated, c.P.InstrPos(calls[0]), strings.Join(bad, "; "))
	} else {
		c.add("slice", rule, construct, Held, c.P.InstrPos(calls[0]), "seq = φ(leo+1 | opts.BaseSeq) + i, record = records[i], i a unit-step index from 0")
	}
	// published LastSeq: φ(base-1 | seq), BaseSeq: base, Count: len(records)
	construct = fname + "#result(BaseSeq,LastSeq,Count)"
	var rbad []string
	found := 0
	for _, in := range instrsMatching(walk, StoreTo{Addr: "*AppendResult.*"}) {
		st := in.(*ssa.Store)
		fa, ok := st.Addr.(*ssa.FieldAddr)
		if !ok {
			continue
		}
		switch fieldName(fa.X.Type(), fa.Field) {
		case "BaseSeq":
			found++
			if stripConv(st.Val) != base {
				rbad = append(rbad, "BaseSeq is not the base the sequences were assigned from: "+Path(st.Val))
			}
		case "LastSeq":
			found++
			var leaves []c07Leaf
			c07PhiLeaves(st.Val, nil, map[*ssa.Phi]bool{}, &leaves)
			sawSeq := false
			for _, lf := range leaves {
				v := stripConv(lf.v)
				if v == seq {
					sawSeq = true
					continue
				}
				if sub, ok := v.(*ssa.BinOp); ok && sub.Op.String() == "-" && stripConv(sub.X) == base && Path(sub.Y) == "1" {
					continue
				}
				rbad = append(rbad, "LastSeq may be "+Path(v)+" (neither the last assigned sequence nor base-1)")
			}
			if !sawSeq {
				rbad = append(rbad, "LastSeq never takes the assigned sequence")
			}
		case "Count":
			found++
			if Path(st.Val) != "len(records)" {
				rbad = append(rbad, "Count is not len(records): "+Path(st.Val))
			}
		}
	}
	switch {
	case found < 3:
		c.add("slice", rule, construct, Undecided, c.P.Pos(walk.Pos()), fmt.Sprintf("expected stores to BaseSeq, LastSeq and Count of the result, found %d", found))
	case len(rbad) > 0:
		c.add("slice", rule, construct, Violated, c.P.Pos(walk.Pos()), strings.Join(dedup(rbad), "; "))
	default:
		c.add("slice", rule, construct, Held, c.P.Pos(walk.Pos()), "BaseSeq = base, LastSeq = φ(base-1 | last assigned seq), Count = len(records)")
	}
	// the row handed on is the validated one
	c.CallShape(rule, walk, "dyn:onRow", "dyn:onRow("+p+"normalizeMessageRow("+p+"ChannelLog.recordToRow(*)), l.channelEntry.appendKeyCache)")
	c.StoreShape(rule, c.Fn(p+"ChannelLog.recordToRow"), "*messageRow.MessageSeq", "seq")
}

// c07UnitInduction: v is (φ(-1|φ+1…)+1) or φ(0|φ+1…).
func c07UnitInduction(v ssa.Value) bool {
	v = stripConv(v)
	start := "0"
	if add, ok := v.(*ssa.BinOp); ok && add.Op.String() == "+" && Path(add.Y) == "1" {
		v = stripConv(add.X)
		start = "-1"
	}
	phi, ok := v.(*ssa.Phi)
	if !ok {
		return false
	}
	sawStart := false
	for _, e := range phi.Edges {
		e = stripConv(e)
		if k, ok := e.(*ssa.Const); ok {
			if constString(k) != start {
				return false
			}
			sawStart = true
			continue
		}
		inc, ok := e.(*ssa.BinOp)
		if !ok || inc.Op.String() != "+" || stripConv(inc.X) != ssa.Value(phi) || Path(inc.Y) != "1" {
			return false
		}
	}
	return sawStart
}

// c07LockOp is lockOp made safe for package-level functions of package sync
// (sync.NewCond, sync.OnceFunc … have no receiver; the shared lockOp dereferences Recv() unconditionally).
func c07LockOp(cc *ssa.CallCommon) (string, string) {
	if cc.IsInvoke() {
		return "", ""
	}
	fn, ok := cc.Value.(*ssa.Function)
	if !ok || fn.Signature.Recv() == nil {
		return "", ""
	}
	return lockOp(cc)
}

// c07HeldAt: must-held lock set before every instruction (same dataflow as the shared heldAt, with the safe lockOp).
func c07HeldAt(fn *ssa.Function, entry lockState) map[ssa.Instruction]lockState {
	if len(fn.Blocks) == 0 {
		return nil
	}
	in := map[*ssa.BasicBlock]lockState{}
	out := map[*ssa.BasicBlock]lockState{}
	apply := func(st lockState, ins ssa.Instruction) {
		if call, ok := ins.(*ssa.Call); ok {
			if p, op := c07LockOp(&call.Call); op != "" {
				applyLockOp(st, p, op)
			}
		}
	}
	changed := true
	for iter := 0; changed && iter < 100; iter++ {
		changed = false
		for _, b := range fn.Blocks {
			var st lockState
			if b == fn.Blocks[0] {
				st = entry.clone()
			} else {
				first := true
				for _, p := range b.Preds {
					o, ok := out[p]
					if !ok {
						continue
					}
					if first {
						st = o.clone()
						first = false
					} else {
						st = meet(st, o)
					}
				}
				if first {
					continue
				}
			}
			in[b] = st.clone()
			for _, ins := range b.Instrs {
				apply(st, ins)
			}
			if old, ok := out[b]; !ok || !equalLS(old, st) {
				out[b] = st
				changed = true
			}
		}
	}
	res := map[ssa.Instruction]lockState{}
	for _, b := range fn.Blocks {
		st, ok := in[b]
		if !ok {
			continue
		}
		st = st.clone()
		for _, ins := range b.Instrs {
			res[ins] = st.clone()
			apply(st, ins)
		}
	}
	return res
}
