package main

import (
	"fmt"
	"go/token"
	"go/types"
	"sort"
	"strings"

	"golang.org/x/tools/go/ssa"
)

func init() {
	const wr = "internal/runtime/channelappend/writer.go"
	const fu = "internal/runtime/channelappend/future.go"
	const ap = "internal/runtime/channelappend/append.go"
	const st = "internal/runtime/channelappend/state.go"
	const pr = "internal/runtime/channelappend/prepare.go"
	const id = "internal/infra/cluster/idempotency.go"
	register(&PropSpec{
		ID:        "C29",
		Pkgs:      []string{"./internal/runtime/channelappend", "./internal/infra/cluster"},
		Technique: "static analysis: lockset (guarded-by), atomic-operation confinement for the single-activation flag, edge-dominance guards (first-completion, token/payload match, in-order drain), SSA value-identity checks for item/result alignment, who-may-write/call confinement",
		Explain:   "Decides the structural clauses behind aligned, ordered, idempotent send results: (R1) channelWriter.{state,inbox,commitRetryQueued,commitRetryTurn} are only touched with w.mu held; (R2) single activation: `scheduled` is mutated only by CompareAndSwap(false,true) in tryActivate and Store(false) in deactivateLocked, every scheduling of a writer (and every use of advance as a goroutine body) is behind a won tryActivate, and after deactivating an advance loop touches the writer again only after re-winning tryActivate; (R3) Future.results[i] is written only by completeItem, under f.mu, behind 0 <= i < len(results) and `not yet completed`, together with marking it completed and one decrement of remain; every completeItem call passes the index and the result of one and the same item, coalesced completions are expanded back onto their own original item, and append results are paired with the request item of the same position; (R4) an item is coalesced onto an earlier owner only behind sameLogicalSend (sender, client message number and payload bytes all equal), the idempotency query is complete and carries the FNV hash of the command payload, ChannelIdempotencyStore.LookupSend builds a hit only from a found entry whose payload hash matches, recovered items reuse the looked-up result of their own command and are never marked committed; (R5) append batches get consecutive sequence numbers under the lock and completions are drained strictly in that order (one step per drained event). NOT decided: sequence order and duplicate handling across concurrent histories, that the appender assigns increasing message sequences, storage-side rejection of a reused key with a different payload, hash collisions, behaviour under stop/backpressure.",
		Run:       c29,
		Mutants: []Mutant{
			{Name: "inbox-unlocked", File: wr, Old: "\tw.mu.Lock()\n\tw.inbox = append(w.inbox, batch)\n\tw.mu.Unlock()\n", New: "\tw.inbox = append(w.inbox, batch)\n", Expect: "C29/R1-lock*"},
			{Name: "activate-by-store", File: wr, Old: "return w.scheduled.CompareAndSwap(false, true)", New: "w.scheduled.Store(true)\n\treturn true", Expect: "C29/R2-single*"},
			{Name: "reschedule-without-cas", File: wr, Old: "\tif w.tryActivate() {\n\t\tw.ports.schedule(w)\n\t}\n}", New: "\tw.tryActivate()\n\tw.ports.schedule(w)\n}", Expect: "C29/R2-single*"},
			{Name: "advance-continues-after-deactivate", File: wr, Old: "\t\t\tif more && w.tryActivate() {\n\t\t\t\tcontinue // work arrived during the deactivate window; keep going\n\t\t\t}\n\t\t\treturn\n\t\t}\n\t\tw.mu.Unlock()\n\n\t\tw.runAppend(&appendEff)\n\t}", New: "\t\t\tif more {\n\t\t\t\tcontinue\n\t\t\t}\n\t\t\treturn\n\t\t}\n\t\tw.mu.Unlock()\n\n\t\tw.runAppend(&appendEff)\n\t}", Expect: "C29/R2-single*"},
			{Name: "submit-always-schedules", File: "internal/runtime/channelappend/group.go", Old: "\tif writer.enqueue(submittedBatch{target: target, items: copiedItems, future: future}) {\n\t\tg.schedule(writer)\n\t}", New: "\twriter.enqueue(submittedBatch{target: target, items: copiedItems, future: future})\n\tg.schedule(writer)", Expect: "C29/R2-single*"},
			{Name: "complete-item-overwrites", File: fu, Old: "if index < len(f.results) && f.itemState[index]&futureItemCompleted == 0 {", New: "if index < len(f.results) {", Expect: "C29/R3-future*"},
			{Name: "complete-item-no-mark", File: fu, Old: "\t\tf.results[index] = result\n\t\tf.itemState[index] |= futureItemCompleted\n", New: "\t\tf.results[index] = result\n", Expect: "C29/R3-future*"},
			{Name: "dispatch-wrong-index", File: wr, Old: "\tcompletion.item.future.completeItem(completion.item.Index, completion.result)\n}", New: "\tcompletion.item.future.completeItem(0, completion.result)\n}", Expect: "C29/R3-future*"},
			{Name: "expand-misaligned", File: ap, Old: "\t\tcompletion.item = b.original[index]\n", New: "\t\tcompletion.item = b.original[owner]\n", Expect: "C29/R3-future*"},
			{Name: "result-shifted", File: ap, Old: "\t\tappended := res.Items[i]\n", New: "\t\tappended := res.Items[len(res.Items)-1-i]\n", Expect: "C29/R3-future*"},
			{Name: "coalesce-on-key-only", File: ap, Old: "if exists && sameLogicalSend(batch.items[owner].Command, cmd) {", New: "if exists {", Expect: "C29/R4-idem*"},
			{Name: "same-send-ignores-payload", File: ap, Old: "\t\tleft.ClientMsgNo == right.ClientMsgNo &&\n\t\tbytes.Equal(left.Payload, right.Payload)", New: "\t\tleft.ClientMsgNo == right.ClientMsgNo &&\n\t\tbytes.Equal(left.Payload[:0], right.Payload[:0])", Expect: "C29/R4-idem*"},
			{Name: "query-without-hash", File: pr, Old: "\t\tPayloadHash: idempotencyPayloadHash(cmd.Payload),\n\t})", New: "\t})", Expect: "C29/R4-idem*"},
			{Name: "lookup-ignores-hash", File: id, Old: "if query.PayloadHash != 0 && hit.PayloadHash != query.PayloadHash {", New: "if query.PayloadHash == 0 && hit.PayloadHash != query.PayloadHash {", Expect: "C29/R4-idem*"},
			{Name: "recovery-on-lookup-miss", File: ap, Old: "\t\tcase ok:\n\t\t\trecovery.RecoveredItems++\n\t\t\tout = append(out, appendItemCompletion{", New: "\t\tcase ok || result.MessageID != 0:\n\t\t\trecovery.RecoveredItems++\n\t\t\tout = append(out, appendItemCompletion{", Expect: "C29/R4-idem*"},
			{Name: "drain-out-of-order", File: st, Old: "if s.hasReadyAppendCompletion && s.readyAppendCompletion.seq == s.nextAppendDrainSeq {", New: "if s.hasReadyAppendCompletion {", Expect: "C29/R5-order*"},
			{Name: "drain-skips-seq", File: st, Old: "\t\ts.hasReadyAppendCompletion = false\n\t\ts.nextAppendDrainSeq++\n", New: "\t\ts.hasReadyAppendCompletion = false\n\t\ts.nextAppendDrainSeq += 2\n", Expect: "C29/R5-order*"},
			{Name: "append-seq-reused", File: st, Old: "\tseq := s.nextAppendSeq\n\ts.nextAppendSeq++\n", New: "\tseq := s.nextAppendSeq\n", Expect: "C29/R5-order*"},
			{Name: "ready-slot-any-seq", File: st, Old: "if event.seq == s.nextAppendDrainSeq && !s.hasReadyAppendCompletion {", New: "if !s.hasReadyAppendCompletion {", Expect: "C29/R5-order*"},
		},
	})
}

const c29A = "internal/runtime/channelappend."

func c29(c *Ctx) {
	// ---- R1: writer state under w.mu -------------------------------------
	c.Lockset("R1-lock", LockSpec{
		Struct: c29A + "channelWriter", Mutex: "mu",
		Fields:     []string{"state", "inbox", "commitRetryQueued", "commitRetryTurn"},
		ReadsToo:   true,
		AssumeHeld: []string{c29A + "channelWriter.*Locked"},
		Exempt:     []string{c29A + "newChannelWriter"}, // constructor
	})

	// ---- R2: single activation ----------------------------------------------
	const (
		tryAct  = c29A + "channelWriter.tryActivate"
		deact   = c29A + "channelWriter.deactivateLocked"
		advance = c29A + "channelWriter.advance"
		advAO   = c29A + "channelWriter.advanceAppendOnly"
		sched   = "dyn:w.ports.schedule"
		won     = tryAct + "(w) == true"
	)
	sites := c.AtomicOps("R2-single", c29A+"channelWriter.scheduled", []string{"Load", "CompareAndSwap"},
		map[string]string{deact: "the one scheduled→idle transition, performed under w.mu by the goroutine that owns the writer"})
	for _, s := range sites {
		if s.method == "CompareAndSwap" && c.P.Name(s.fn) != tryAct {
			c.add("mono", "R2-single", "cas-site:"+c.P.Name(s.fn), Violated, c.P.InstrPos(s.call), "scheduled.CompareAndSwap outside tryActivate")
		}
	}
	c.CallShape("R2-single", c.Fn(tryAct), "sync/atomic.Bool.CompareAndSwap", "sync/atomic.Bool.CompareAndSwap(w.scheduled, false, true)")
	c.CallShape("R2-single", c.Fn(deact), "sync/atomic.Bool.Store", "sync/atomic.Bool.Store(w.scheduled, false)")
	c29RetShape(c, "R2-single", c.Fn(tryAct), 0, "sync/atomic.Bool.CompareAndSwap(w.scheduled, false, true)")
	c29RetShape(c, "R2-single", c.Fn(c29A+"channelWriter.enqueue"), 0, tryAct+"(w)")
	c.Guard("R2-single", c.Fn(c29A+"channelWriter.rescheduleIfNeeded"), CallTo{sched}, won)
	c.Guard("R2-single", c.Fn(c29A+"channelWriter.retryPostCommit"), OneOf{CallTo{sched}, CallTo{"pkg/goroutine.SafeGo"}}, won)
	submit := c.Fn(c29A + "Group.SubmitLocal")
	c.Guard("R2-single", submit, CallTo{c29A + "Group.schedule"}, c29A+"channelWriter.enqueue(*) == true")
	if wv, ok := c29UniqueArg(c, "R2-single", submit, c29A+"channelWriter.enqueue", 0); ok {
		c.CallShape("R2-single", submit, c29A+"Group.schedule", c29A+"Group.schedule(g, "+wv+")")
	}
	c.ConfineCalls("R2-single", sched, 2, c29A+"channelWriter.rescheduleIfNeeded", c29A+"channelWriter.retryPostCommit")
	c.ConfineCalls("R2-single", c29A+"Group.schedule", 1, c29A+"Group.SubmitLocal")
	c.ConfineCalls("R2-single", c29A+"writerAdvanceScheduler.schedule", 1, c29A+"Group.schedule")
	c.ConfineCalls("R2-single", advance, 2, c29A+"writerAdvanceScheduler.run")
	c.ConfineCalls("R2-single", advAO, 1, advance)
	c.ConfineCalls("R2-single", deact, 3, advance, advAO, c29A+"channelWriter.deactivate")
	c29MethodValueUses(c, "R2-single", "advance", c29A+"channelWriter.retryPostCommit")
	touch := InstrFn{"writer use", c29WriterUse}
	for _, fn := range []*ssa.Function{c.Fn(advance), c.Fn(advAO)} {
		c29AfterOnlyVia(c, "R2-single", fn, CallTo{deact}, touch, won)
	}

	// ---- R3: aligned results ---------------------------------------------------
	c.Lockset("R3-future", LockSpec{
		Struct: c29A + "Future", Mutex: "mu",
		Fields:   []string{"results", "itemState", "remain", "closed", "onDone"},
		ReadsToo: true,
		Exempt:   []string{c29A + "newFuture"}, // constructor (incl. its once.Do body): not shared yet
	})
	c.ConfineStores("R3-future", c29A+"Future.results", false, c29A+"Future.complete", c29A+"newFuture")
	c.ConfineCalls("R3-future", c29A+"Future.complete", 0, c29A+"none")
	c29ElemStoresOnlyIn(c, "R3-future", c29A+"Future.results", c29A+"Future.completeItem")
	ci := c.Fn(c29A + "Future.completeItem")
	done := c29Const(c, "internal/runtime/channelappend", "futureItemCompleted")
	c.Guard("R3-future", ci, StoreTo{Addr: "f.results[*]"},
		"index < len(f.results)", "index >= 0", "(f.itemState[index] & "+done+") == 0", "f != nil", "after: sync.Mutex.Lock(f.mu)")
	c.StoreShape("R3-future", ci, "f.results[*]", "result")
	c.StoreShape("R3-future", ci, "f.results[index]", "result")
	c.StoreShape("R3-future", ci, "f.itemState[index]", "(f.itemState[index] | "+done+")")
	c.StoreShape("R3-future", ci, "f.remain", "(f.remain - 1)")
	c29SameBlock(c, "R3-future", ci, StoreTo{Addr: "f.results[index]"}, StoreTo{Addr: "f.itemState[index]"}, StoreTo{Addr: "f.remain"})
	c29CompleteItemAligned(c, "R3-future")
	c29ExpandAligned(c, "R3-future", c.Fn(c29A+"idempotentAppendBatch.expandCompletions"))
	c29ResultsPairedByPosition(c, "R3-future", c.Fn(c29A+"appendResultCompletions"))
	c.ConfineStores("R3-future", c29A+"preparedSend.Index", false, c29A+"prepareSendResult.setItemMetadata")
	c.ConfineStores("R3-future", c29A+"preparedSend.future", true, c29A+"channelWriter.admitPreparedLocked")
	c.StoreShape("R3-future", c.Fn(c29A+"channelWriter.admitPreparedLocked"), "*.future", "batch.future")

	// ---- R4: coalescing and idempotency recovery ----------------------------------
	nb := c.Fn(c29A + "newIdempotentAppendBatch")
	c29CoalesceOnlyBehindSameSend(c, "R4-idem", nb)
	c.StoreShape("R4-idem", nb, "alloc:idempotencyKey.fromUID", "*.FromUID")
	c.StoreShape("R4-idem", nb, "alloc:idempotencyKey.clientMsgNo", "*.ClientMsgNo")
	c.StoreShape("R4-idem", nb, "alloc:idempotencyKey.payloadHash", c29A+"idempotencyPayloadHash(*.Payload)")
	same := c.Fn(c29A + "sameLogicalSend")
	c.GuardTrue("R4-idem", same, 0, "left.FromUID == right.FromUID", "left.ClientMsgNo == right.ClientMsgNo", "bytes.Equal(left.Payload, right.Payload) == true")
	lk := c.Fn(c29A + "lookupIdempotentSend")
	for f, v := range map[string]string{"FromUID": "cmd.FromUID", "ClientMsgNo": "cmd.ClientMsgNo", "ChannelID": "cmd.ChannelID", "ChannelType": "cmd.ChannelType", "PayloadHash": c29A + "idempotencyPayloadHash(cmd.Payload)"} {
		c.StoreShape("R4-idem", lk, "*IdempotencyQuery."+f, v)
	}
	c29HashReadsOnlyPayload(c, "R4-idem", c.Fn(c29A+"idempotencyPayloadHash"))
	ls := c.Fn("internal/infra/cluster.ChannelIdempotencyStore.LookupSend")
	const node = "internal/infra/cluster.ChannelIdempotencyNode.LookupChannelIdempotency(*)"
	c.Guard("R4-idem", ls, RetNot{Idx: 0, Globs: []string{"zero:SendResult"}},
		"query.PayloadHash == 0 || *.PayloadHash == query.PayloadHash", node+"#1 == true", node+"#2 == nil")
	c.CallShape("R4-idem", ls, "internal/infra/cluster.ChannelIdempotencyNode.LookupChannelIdempotency",
		"internal/infra/cluster.ChannelIdempotencyNode.LookupChannelIdempotency(s.node, ctx, *, query.FromUID, query.ClientMsgNo)")
	c.StoreShape("R4-idem", ls, "*ChannelID.ID", "query.ChannelID")
	c.StoreShape("R4-idem", ls, "*ChannelID.Type", "query.ChannelType")
	c.StoreShape("R4-idem", ls, "*SendResult.MessageID", "*.Message.MessageID")
	c.StoreShape("R4-idem", ls, "*SendResult.MessageSeq", "*.Message.MessageSeq")
	c29HitFieldsFromLookup(c, "R4-idem", ls)
	for _, n := range []string{"appendBatchErrorCompletionsOrRecoveries", "appendBatchErrorCompletionsOrRecoveriesAndRetry"} {
		fn := c.Fn(c29A + n)
		const lu = c29A + "lookupIdempotentSend(*)"
		c.Guard("R4-idem", fn, StoreTo{Addr: "*SendBatchItemResult.Result", Val: lu + "#0"}, lu+"#1 == true", lu+"#2 == nil")
		c29RecoveredForOwnItem(c, "R4-idem", fn)
		c29NoStore(c, "R4-idem", fn, "*.committed", "true")
	}

	// ---- R5: consecutive append sequences, in-order drain -------------------------------
	c.Mono("R5-order", c29A+"channelState.nextAppendSeq", MonoOpts{})
	c.Mono("R5-order", c29A+"channelState.nextAppendDrainSeq", MonoOpts{})
	c.ConfineStores("R5-order", c29A+"channelState.nextAppendSeq", false, c29A+"channelState.nextAppendBatch")
	c.ConfineStores("R5-order", c29A+"channelState.nextAppendDrainSeq", false, c29A+"channelState.popNextAppendCompletion")
	popC := c.Fn(c29A + "channelState.popNextAppendCompletion")
	c29CountAtReturns(c, "R5-order", popC, StoreTo{Addr: "s.nextAppendDrainSeq"}, map[string]string{"true": "1", "false": "0"}, 1)
	c.StoreShape("R5-order", popC, "s.nextAppendDrainSeq", "(s.nextAppendDrainSeq + 1)")
	c.Guard("R5-order", popC, Ret{Idx: 1, Glob: "true"},
		"s.readyAppendCompletion.seq == s.nextAppendDrainSeq || s.completedAppends[s.nextAppendDrainSeq]#1 == true",
		"s.hasReadyAppendCompletion == true || s.completedAppends[s.nextAppendDrainSeq]#1 == true")
	c29RetShape(c, "R5-order", popC, 0, "zero:appendCompletedEvent", "s.readyAppendCompletion", "s.completedAppends[s.nextAppendDrainSeq]#0")
	c29ReturnReadBeforeStore(c, "R5-order", popC, 0, "s.nextAppendDrainSeq")
	c29ReturnReadBeforeStore(c, "R5-order", popC, 0, "s.readyAppendCompletion")
	rec := c.Fn(c29A + "channelState.recordAppendCompletion")
	c.Guard("R5-order", rec, StoreTo{Addr: "s.readyAppendCompletion"}, "event.seq == s.nextAppendDrainSeq", "s.hasReadyAppendCompletion == false")
	c.StoreShape("R5-order", rec, "s.readyAppendCompletion", "event")
	c.StoreShape("R5-order", rec, "s.completedAppends[event.seq]", "event")
	c.StoreShape("R5-order", rec, "s.completedAppends[*]", "event")
	nab := c.Fn(c29A + "channelState.nextAppendBatch")
	c29ReturnReadBeforeStore(c, "R5-order", nab, 0, "s.nextAppendSeq")
	c29ReturnReadBeforeStore(c, "R5-order", nab, 1, "s.pendingItems")
	c29RetShape(c, "R5-order", nab, 0, "0", "s.nextAppendSeq")
	c29RetShape(c, "R5-order", nab, 1, "nil", "s.pendingItems")
	c.StoreShape("R5-order", nab, "s.nextAppendSeq", "(s.nextAppendSeq + 1)")
	c29CountAtReturns(c, "R5-order", nab, StoreTo{Addr: "s.nextAppendSeq"}, map[string]string{"true": "1", "false": "0"}, 2)
	nal := c.Fn(c29A + "channelWriter.nextAppendLocked")
	c.StoreShape("R5-order", nal, "out.seq", c29A+"channelState.nextAppendBatch(w.state)#0")
	c.StoreShape("R5-order", nal, "out.items", c29A+"channelState.nextAppendBatch(w.state)#1")
	c.StoreShape("R5-order", c.Fn(c29A+"appendEffect.run"), "*appendCompletedEvent.seq", "e.seq")
	c.StoreShape("R5-order", c.Fn(c29A+"channelState.enqueuePrepared"), "s.pendingItems", "append(s.pendingItems, items)")
	aac := c.Fn(c29A + "channelWriter.applyAppendCompletion")
	c.SameSection("R5-order", aac, "w.mu", CallTo{c29A + "channelState.recordAppendCompletion"}, CallTo{c29A + "channelState.popNextAppendCompletion"})
}

// ---------------------------------------------------------------------------
// helpers (C29-private)

func c29Result(c *Ctx, engine, rule, construct string, fn *ssa.Function, n int, bad []string, okDetail string) {
	pos := ""
	if fn != nil {
		pos = c.P.Pos(fn.Pos())
	}
	sort.Strings(bad)
	switch {
	case len(bad) > 0:
		c.add(engine, rule, construct, Violated, pos, strings.Join(bad, "; "))
	case n == 0:
		c.add(engine, rule, construct, Undecided, pos, "nothing matched (vacuous; the code moved or changed shape)")
	default:
		c.add(engine, rule, construct, Held, pos, okDetail)
	}
}

func c29Const(c *Ctx, pkg, name string) string {
	if pk := c.P.Pkgs[pkg]; pk != nil {
		if k, ok := pk.Types.Scope().Lookup(name).(*types.Const); ok {
			return k.Val().ExactString()
		}
	}
	c.add("anchor", "anchor", pkg+"."+name, Undecided, "", "anchored constant not found")
	return "?"
}

// c29Origin looks through a local that is assigned exactly once.
func c29Origin(v ssa.Value) ssa.Value {
	for i := 0; i < 4; i++ {
		u, ok := stripConv(v).(*ssa.UnOp)
		if !ok || u.Op != token.MUL {
			return stripConv(v)
		}
		a, ok := u.X.(*ssa.Alloc)
		if !ok || a.Referrers() == nil {
			return u
		}
		var src ssa.Value
		n := 0
		for _, r := range *a.Referrers() {
			if st, ok := r.(*ssa.Store); ok && st.Addr == a {
				n++
				src = st.Val
			}
		}
		if n != 1 {
			return u
		}
		v = src
	}
	return stripConv(v)
}

func c29Calls(fn *ssa.Function, callee string) []ssa.CallInstruction {
	var out []ssa.CallInstruction
	if fn == nil {
		return nil
	}
	for _, b := range fn.Blocks {
		for _, in := range b.Instrs {
			if ci, ok := in.(ssa.CallInstruction); ok && glob(callee, calleeName(ci.Common())) {
				out = append(out, ci)
			}
		}
	}
	return out
}

func c29UniqueArg(c *Ctx, rule string, fn *ssa.Function, callee string, idx int) (string, bool) {
	out := ""
	for _, ci := range c29Calls(fn, callee) {
		args := callArgs(ci.Common())
		if idx < len(args) {
			p := Path(args[idx])
			if out != "" && out != p {
				return "", false
			}
			out = p
		}
	}
	if out == "" && fn != nil {
		c.add("shape", rule, fmt.Sprintf("%s#arg%d:%s", c.P.Name(fn), idx, callee), Undecided, c.P.Pos(fn.Pos()), "no call of "+callee+" found (vacuous)")
	}
	return out, out != ""
}

func c29RetShape(c *Ctx, rule string, fn *ssa.Function, idx int, globs ...string) {
	if fn == nil {
		return
	}
	n := 0
	var bad []string
	for _, in := range instrsMatching(fn, AnyRet{}) {
		ret := in.(*ssa.Return)
		if idx >= len(ret.Results) {
			continue
		}
		n++
		if s := Path(retOperand(ret, idx)); !globAny(globs, s) {
			bad = append(bad, "returns "+s+" at "+c.P.InstrPos(in))
		}
	}
	c29Result(c, "shape", rule, fmt.Sprintf("%s#retshape[%d]", c.P.Name(fn), idx), fn, n, bad, fmt.Sprintf("%d return(s), result %d always one of %v", n, idx, globs))
}

// c29MethodValueUses: channelWriter.<method> is used as a function value (goroutine body) only in allowed functions.
func c29MethodValueUses(c *Ctx, rule, method string, allowed ...string) {
	n := 0
	var bad []string
	for _, fn := range c.P.AllFuncs {
		for _, b := range fn.Blocks {
			for _, in := range b.Instrs {
				mc, ok := in.(*ssa.MakeClosure)
				if !ok {
					continue
				}
				f, ok := mc.Fn.(*ssa.Function)
				if !ok || f.Synthetic == "" || !strings.HasPrefix(f.Name(), method+"$bound") {
					continue
				}
				if len(mc.Bindings) == 0 || typeBaseName(mc.Bindings[0].Type()) != "channelWriter" {
					continue
				}
				n++
				if name := c.P.Name(fn); !globAny(allowed, name) && !globAny(allowed, rootName(name)) {
					bad = append(bad, "w."+method+" taken as a function value in "+name+" at "+c.P.InstrPos(in))
				}
			}
		}
	}
	c29Result(c, "confine", rule, "method-value:channelWriter."+method, nil, n, bad, fmt.Sprintf("%d use(s) of w.%s as a function value, all inside %v", n, method, allowed))
}

// c29WriterUse: the instruction calls a channelWriter method other than tryActivate or
// accesses a guarded field of the writer.
func c29WriterUse(in ssa.Instruction) bool {
	switch x := in.(type) {
	case ssa.CallInstruction:
		name := calleeName(x.Common())
		return strings.HasPrefix(name, c29A+"channelWriter.") && name != c29A+"channelWriter.tryActivate"
	case *ssa.FieldAddr:
		if typeBaseName(x.X.Type()) == "channelWriter" {
			switch fieldName(x.X.Type(), x.Field) {
			case "state", "inbox", "commitRetryQueued", "commitRetryTurn":
				return true
			}
		}
	}
	return false
}

// c29AfterOnlyVia: starting right after any instruction matching m, an instruction matching
// eff can be reached only across an edge establishing guard.
func c29AfterOnlyVia(c *Ctx, rule string, fn *ssa.Function, m, eff Effect, guard string) {
	if fn == nil {
		return
	}
	removed, _ := guardEdges(fn, parseGuard(guard))
	var bad []string
	ms := instrsMatching(fn, m)
	for _, start := range ms {
		seen := map[*ssa.BasicBlock]bool{}
		var walk func(b *ssa.BasicBlock, from int)
		walk = func(b *ssa.BasicBlock, from int) {
			for i := from; i < len(b.Instrs); i++ {
				if eff.Match(b.Instrs[i]) {
					bad = append(bad, fmt.Sprintf("%q at %s is reachable after %q without %q", eff.String(), c.P.InstrPos(b.Instrs[i]), m.String(), guard))
					return
				}
			}
			for si, s := range b.Succs {
				if removed[edge{b, si}] || seen[s] {
					continue
				}
				seen[s] = true
				walk(s, 0)
			}
		}
		walk(start.Block(), indexIn(start.Block(), start)+1)
	}
	c29Result(c, "guard", rule, c.P.Name(fn)+"#after("+m.String()+")→"+eff.String()+"⇐"+guard, fn, len(ms), dedup(bad),
		fmt.Sprintf("%d site(s): after %q the writer is touched again only behind %q", len(ms), m.String(), guard))
}

// c29ElemStoresOnlyIn: elements of the slice in struct field `field` are stored only in allowed functions.
func c29ElemStoresOnlyIn(c *Ctx, rule, field string, allowed ...string) {
	fv := c.Field(field)
	if fv == nil {
		return
	}
	n := 0
	var bad []string
	for _, fn := range c.P.AllFuncs {
		for _, b := range fn.Blocks {
			for _, in := range b.Instrs {
				st, ok := in.(*ssa.Store)
				if !ok {
					continue
				}
				ia, ok := st.Addr.(*ssa.IndexAddr)
				if !ok {
					continue
				}
				u, ok := ia.X.(*ssa.UnOp)
				if !ok {
					continue
				}
				fa, ok := u.X.(*ssa.FieldAddr)
				if !ok || fieldVar(fa.X.Type(), fa.Field) != fv {
					continue
				}
				n++
				if name := c.P.Name(fn); !globAny(allowed, name) {
					bad = append(bad, "element of "+field+" written in "+name+" at "+c.P.InstrPos(in))
				}
			}
		}
	}
	c29Result(c, "confine", rule, "element-stores:"+field, nil, n, bad, fmt.Sprintf("%d element store(s), all inside %v", n, allowed))
}

// c29SameBlock: the (single) instructions matching each effect all sit in one basic block.
func c29SameBlock(c *Ctx, rule string, fn *ssa.Function, effs ...Effect) {
	if fn == nil {
		return
	}
	var bad, names []string
	var blk *ssa.BasicBlock
	for _, e := range effs {
		names = append(names, e.String())
		ins := instrsMatching(fn, e)
		if len(ins) != 1 {
			bad = append(bad, fmt.Sprintf("%d sites of %q, expected one", len(ins), e.String()))
			continue
		}
		if blk == nil {
			blk = ins[0].Block()
		} else if blk != ins[0].Block() {
			bad = append(bad, e.String()+" is not in the same straight-line step as "+names[0])
		}
	}
	c29Result(c, "order", rule, c.P.Name(fn)+"#one-step:"+strings.Join(names, "+"), fn, len(effs), bad, "all performed in one basic block (same critical section, same condition)")
}

// c29CompleteItemAligned: every call of Future.completeItem passes the future, the index and the
// result of one and the same item.
func c29CompleteItemAligned(c *Ctx, rule string) {
	n := 0
	var bad []string
	for _, fn := range c.P.AllFuncs {
		for _, ci := range c29Calls(fn, c29A+"Future.completeItem") {
			n++
			a := ci.Common().Args
			f, ix, res := Path(a[0]), Path(a[1]), Path(a[2])
			name := c.P.Name(fn)
			switch {
			case strings.HasSuffix(f, ".item.future"):
				p := strings.TrimSuffix(f, ".item.future")
				if ix != p+".item.Index" || res != p+".result" {
					bad = append(bad, fmt.Sprintf("%s completes %s with index %s and result %s (not of the same completion) at %s", name, f, ix, res, c.P.InstrPos(ci)))
				}
			case strings.HasSuffix(f, ".future"):
				p := strings.TrimSuffix(f, ".future")
				if ix != p+".Index" {
					bad = append(bad, fmt.Sprintf("%s completes %s with index %s (not the item's own) at %s", name, f, ix, c.P.InstrPos(ci)))
				}
			case name == c29A+"Future.completeItems" && f == "f":
				// f.completeItem(i, results[i]) over the range of results
				if c29IndexOf(a[2], "results") != stripConv(a[1]) {
					bad = append(bad, "completeItems does not pass results[i] with its own index i")
				}
			default:
				bad = append(bad, fmt.Sprintf("%s calls completeItem(%s, %s, %s): unrecognised pairing at %s", name, f, ix, res, c.P.InstrPos(ci)))
			}
		}
	}
	if n < 4 && len(bad) == 0 {
		bad = append(bad, fmt.Sprintf("only %d completeItem call sites found, hand-confirmed 4", n))
	}
	c29Result(c, "shape", rule, "completeItem-call-alignment", nil, n, bad, fmt.Sprintf("%d call site(s): future, index and result always belong to one item", n))
}

// c29IndexOf: v is (a single-assignment copy of) base[i]; returns i (nil otherwise).
func c29IndexOf(v ssa.Value, base string) ssa.Value {
	o := c29Origin(v)
	switch x := o.(type) {
	case *ssa.UnOp:
		if ia, ok := x.X.(*ssa.IndexAddr); ok && Path(ia.X) == base {
			return stripConv(ia.Index)
		}
	case *ssa.Index:
		if Path(x.X) == base {
			return stripConv(x.Index)
		}
	}
	return nil
}

// c29ExpandAligned: expandCompletions writes out[i] = unique[ownerByItem[i]] with item = original[i].
func c29ExpandAligned(c *Ctx, rule string, fn *ssa.Function) {
	if fn == nil {
		return
	}
	var bad []string
	n := 0
	for _, b := range fn.Blocks {
		for _, in := range b.Instrs {
			st, ok := in.(*ssa.Store)
			if !ok {
				continue
			}
			ia, ok := st.Addr.(*ssa.IndexAddr)
			if !ok || typeBaseName(st.Val.Type()) != "appendItemCompletion" {
				continue
			}
			if _, isMake := ia.X.(*ssa.MakeSlice); !isMake {
				continue
			}
			n++
			i := stripConv(ia.Index)
			// value = load of local `completion`
			u, ok := st.Val.(*ssa.UnOp)
			var a *ssa.Alloc
			if ok {
				a, _ = u.X.(*ssa.Alloc)
			}
			if a == nil {
				bad = append(bad, "out[i] is not assigned from the per-item completion local")
				continue
			}
			okSrc, okItem := false, false
			for _, r := range *a.Referrers() {
				switch x := r.(type) {
				case *ssa.Store:
					if x.Addr == ssa.Value(a) {
						// unique[ownerByItem[i]]
						if lu, ok := x.Val.(*ssa.UnOp); ok {
							if ua, ok := lu.X.(*ssa.IndexAddr); ok && Path(ua.X) == "unique" && c29IndexOf(ua.Index, "b.ownerByItem") == i {
								okSrc = true
							}
						}
					}
				case *ssa.FieldAddr:
					if fieldName(x.X.Type(), x.Field) == "item" {
						for _, rr := range *x.Referrers() {
							if s2, ok := rr.(*ssa.Store); ok && c29IndexOf(s2.Val, "b.original") == i {
								okItem = true
							}
						}
					}
				}
			}
			if !okSrc {
				bad = append(bad, "out[i] is not unique[ownerByItem[i]]")
			}
			if !okItem {
				bad = append(bad, "out[i].item is not original[i]")
			}
		}
	}
	c.StoreShape(rule, fn, "*.committed", "false")
	c29Result(c, "shape", rule, c.P.Name(fn)+"#expansion-aligned", fn, n, bad, "out[i] = unique[ownerByItem[i]] re-labelled with original[i]")
}

// c29ResultsPairedByPosition: appendResultCompletions pairs items[i] with res.Items[i].
func c29ResultsPairedByPosition(c *Ctx, rule string, fn *ssa.Function) {
	if fn == nil {
		return
	}
	var bad []string
	n := 0
	var itemIdx []ssa.Value
	var resIdx []ssa.Value
	for _, b := range fn.Blocks {
		for _, in := range b.Instrs {
			st, ok := in.(*ssa.Store)
			if !ok {
				continue
			}
			if fa, ok := st.Addr.(*ssa.FieldAddr); ok && ownerTypeName(fa.X.Type()) == "appendItemCompletion" && fieldName(fa.X.Type(), fa.Field) == "item" {
				n++
				i := c29IndexOf(st.Val, "items")
				if i == nil {
					bad = append(bad, "completion.item is "+Path(st.Val)+", not items[i]")
				}
				itemIdx = append(itemIdx, i)
			}
			if a, ok := st.Addr.(*ssa.Alloc); ok && typeBaseName(a.Type()) == "AppendBatchItemResult" {
				j := c29IndexOf(st.Val, "res.Items")
				if j == nil {
					bad = append(bad, "the per-item append result is "+Path(st.Val)+", not res.Items[i]")
				}
				resIdx = append(resIdx, j)
			}
		}
	}
	for _, i := range itemIdx {
		for _, j := range resIdx {
			if i != nil && j != nil && i != j {
				bad = append(bad, "items[i] is paired with res.Items[j] for a different index value")
			}
		}
	}
	if len(resIdx) == 0 {
		bad = append(bad, "no read of res.Items[i] found")
	}
	c.StoreShape(rule, fn, "*SendResult.MessageID", "*.MessageID")
	c.StoreShape(rule, fn, "*SendResult.MessageSeq", "*.MessageSeq")
	c.Guard(rule, fn, StoreTo{Addr: "*.committed", Val: "true"}, "*.Err == nil", "* < len(res.Items)")
	c29Result(c, "shape", rule, c.P.Name(fn)+"#paired-by-position", fn, n, dedup(bad), fmt.Sprintf("%d completion(s): item and append result share one index value", n))
}

// c29CoalesceOnlyBehindSameSend: an item is mapped to an owner taken from the `seen` table only
// behind sameLogicalSend(owner's command, this command) == true and a table hit.
func c29CoalesceOnlyBehindSameSend(c *Ctx, rule string, fn *ssa.Function) {
	if fn == nil {
		return
	}
	eff := InstrFn{"ownerByItem[i] = owner from the seen table", func(in ssa.Instruction) bool {
		st, ok := in.(*ssa.Store)
		if !ok || !glob("*.ownerByItem[*]", Path(st.Addr)) {
			return false
		}
		ex, ok := c29Origin(st.Val).(*ssa.Extract)
		if !ok {
			return false
		}
		_, isLookup := ex.Tuple.(*ssa.Lookup)
		return isLookup && ex.Index == 0
	}}
	c.Guard(rule, fn, eff, c29A+"sameLogicalSend(*) == true", "*[*]#1 == true")
	// the command compared is the owner's and the current item's
	var bad []string
	n := 0
	for _, ci := range c29Calls(fn, c29A+"sameLogicalSend") {
		n++
		a := ci.Common().Args
		l, r := Path(a[0]), Path(a[1])
		if !glob("*.items[*[*]#0].Command", l) {
			bad = append(bad, "left operand "+l+" is not the command of the owner found in the table")
		}
		cur := c29Origin(a[1])
		if u, ok := cur.(*ssa.UnOp); !ok || !strings.HasSuffix(Path(u.X), ".Command") {
			bad = append(bad, "right operand "+r+" is not the current item's command")
		}
	}
	c29Result(c, "shape", rule, c.P.Name(fn)+"#sameLogicalSend-operands", fn, n, bad, "sameLogicalSend(owner.Command, current.Command)")
	// every other ownerByItem store is self-ownership (index or fresh slot)
	c.StoreShape(rule, fn, "*.ownerByItem[*]", "len(*.items)", "*[*]#0", "phi(0|(phi↺ + 1))")
}

// c29HashReadsOnlyPayload: the payload hash function reads nothing but its argument.
func c29HashReadsOnlyPayload(c *Ctx, rule string, fn *ssa.Function) {
	if fn == nil {
		return
	}
	var bad []string
	n := 0
	for _, b := range fn.Blocks {
		for _, in := range b.Instrs {
			n++
			switch x := in.(type) {
			case *ssa.FieldAddr, *ssa.Field:
				bad = append(bad, "reads a struct field at "+c.P.InstrPos(in))
			case ssa.CallInstruction:
				if _, ok := x.Common().Value.(*ssa.Builtin); !ok {
					bad = append(bad, "calls "+calleeName(x.Common()))
				}
			case *ssa.UnOp:
				if _, ok := x.X.(*ssa.Global); ok {
					bad = append(bad, "reads global "+Path(x.X))
				}
			}
		}
	}
	used := false
	for _, p := range fn.Params {
		if p.Referrers() != nil && len(*p.Referrers()) > 0 {
			used = true
		}
	}
	if !used {
		bad = append(bad, "ignores its payload argument")
	}
	c29Result(c, "cover", rule, c.P.Name(fn)+"#pure-function-of-payload", fn, n, bad, "no field, global or call: the hash is a function of the payload bytes only")
}

// c29HitFieldsFromLookup: the SendResult returned by LookupSend is built from the entry returned by
// the node lookup of this very call.
func c29HitFieldsFromLookup(c *Ctx, rule string, fn *ssa.Function) {
	if fn == nil {
		return
	}
	var bad []string
	n := 0
	for _, in := range instrsMatching(fn, OneOf{StoreTo{Addr: "*SendResult.MessageID"}, StoreTo{Addr: "*SendResult.MessageSeq"}}) {
		n++
		v := in.(*ssa.Store).Val
		// walk down to the root alloc of the field chain
		root := stripConv(v)
		for {
			switch x := root.(type) {
			case *ssa.UnOp:
				root = x.X
				continue
			case *ssa.FieldAddr:
				root = x.X
				continue
			case *ssa.Field:
				root = x.X
				continue
			}
			break
		}
		ok := false
		if a, isAlloc := root.(*ssa.Alloc); isAlloc {
			for _, r := range *a.Referrers() {
				if st, isStore := r.(*ssa.Store); isStore && st.Addr == ssa.Value(a) {
					if ex, isEx := st.Val.(*ssa.Extract); isEx && ex.Index == 0 {
						if call, isCall := ex.Tuple.(*ssa.Call); isCall && strings.HasSuffix(calleeName(&call.Call), ".LookupChannelIdempotency") {
							ok = true
						}
					}
				}
			}
		} else if ex, isEx := root.(*ssa.Extract); isEx && ex.Index == 0 {
			if call, isCall := ex.Tuple.(*ssa.Call); isCall && strings.HasSuffix(calleeName(&call.Call), ".LookupChannelIdempotency") {
				ok = true
			}
		}
		if !ok {
			bad = append(bad, Path(v)+" does not come from the LookupChannelIdempotency result")
		}
	}
	c29Result(c, "shape", rule, c.P.Name(fn)+"#result-from-lookup-hit", fn, n, bad, "MessageID/MessageSeq are fields of the entry returned by the node lookup")
}

// c29RecoveredForOwnItem: a recovered completion carries the lookup result of the command of the
// very item it is attached to.
func c29RecoveredForOwnItem(c *Ctx, rule string, fn *ssa.Function) {
	if fn == nil {
		return
	}
	var bad []string
	n := 0
	for _, ci := range c29Calls(fn, c29A+"lookupIdempotentSend") {
		n++
		cmd := Path(ci.Common().Args[1])
		item := strings.TrimSuffix(cmd, ".Command")
		if item == cmd {
			bad = append(bad, "lookup is keyed by "+cmd+", not by an item's command")
			continue
		}
		// every completion literal built on the hit path uses that item
		call, _ := ci.(*ssa.Call)
		for _, in := range instrsMatching(fn, StoreTo{Addr: "*SendBatchItemResult.Result"}) {
			st := in.(*ssa.Store)
			ex, ok := st.Val.(*ssa.Extract)
			if !ok || ex.Tuple != ssa.Value(call) {
				continue
			}
			found := false
			for _, x := range st.Block().Instrs {
				if s2, ok := x.(*ssa.Store); ok && glob("*appendItemCompletion.item", Path(s2.Addr)) {
					found = true
					if Path(s2.Val) != item {
						bad = append(bad, "the recovered result of "+item+" is attached to "+Path(s2.Val))
					}
				}
			}
			if !found {
				bad = append(bad, "recovered completion does not name its item in the same step")
			}
		}
	}
	c29Result(c, "shape", rule, c.P.Name(fn)+"#recovered-result-for-own-item", fn, n, bad, "lookup keyed by item.Command; its result is attached to that item")
}

// c29NoStore: fn contains no store of val to an address matching addr.
func c29NoStore(c *Ctx, rule string, fn *ssa.Function, addr, val string) {
	if fn == nil {
		return
	}
	var bad []string
	for _, in := range instrsMatching(fn, StoreTo{Addr: addr, Val: val}) {
		bad = append(bad, "stores "+val+" to "+addr+" at "+c.P.InstrPos(in))
	}
	c29Result(c, "confine", rule, c.P.Name(fn)+"#never:"+addr+"="+val, fn, 1, bad, "no such store: recovered sends are not marked committed (no second post-commit)")
}

// c29CountAtReturns: number of executions of eff on any path to a return selected by the
// rendering of result retIdx is within the allowed set ("0", "1", "0|1").
func c29CountAtReturns(c *Ctx, rule string, fn *ssa.Function, eff Effect, want map[string]string, retIdx int) {
	if fn == nil {
		return
	}
	in := map[*ssa.BasicBlock]uint8{fn.Blocks[0]: 1}
	step := func(st uint8, ins ssa.Instruction) uint8 {
		if !eff.Match(ins) {
			return st
		}
		var o uint8
		if st&1 != 0 {
			o |= 2
		}
		if st&6 != 0 {
			o |= 4
		}
		return o
	}
	for iter := 0; iter < 64; iter++ {
		changed := false
		for _, b := range fn.Blocks {
			st, ok := in[b]
			if !ok || b == fn.Recover {
				continue
			}
			for _, ins := range b.Instrs {
				st = step(st, ins)
			}
			for _, s := range b.Succs {
				if in[s]|st != in[s] {
					in[s] |= st
					changed = true
				}
			}
		}
		if !changed {
			break
		}
	}
	n := 0
	var bad []string
	for _, b := range fn.Blocks {
		st, ok := in[b]
		if !ok || b == fn.Recover {
			continue
		}
		for _, ins := range b.Instrs {
			st = step(st, ins)
			ret, ok := ins.(*ssa.Return)
			if !ok || retIdx >= len(ret.Results) {
				continue
			}
			allowed, ok := want[Path(retOperand(ret, retIdx))]
			if !ok {
				continue
			}
			n++
			for k, label := range []string{"0", "1", "2"} {
				if st&(1<<uint(k)) != 0 && !strings.Contains("|"+allowed+"|", "|"+label+"|") {
					bad = append(bad, fmt.Sprintf("return at %s reachable with %s execution(s) of %q (allowed %s)", c.P.InstrPos(ret), label, eff.String(), allowed))
				}
			}
		}
	}
	c29Result(c, "order", rule, c.P.Name(fn)+"#count("+eff.String()+")", fn, n, bad, fmt.Sprintf("%d return(s); executions of %q per path within %v", n, eff.String(), want))
}

// c29ReturnReadBeforeStore: the value returned as result idx is read (loaded / looked up) before any
// store to an address matching storeAddr can have happened.
func c29ReturnReadBeforeStore(c *Ctx, rule string, fn *ssa.Function, idx int, storeAddr string) {
	if fn == nil {
		return
	}
	n := 0
	var bad []string
	for _, in := range instrsMatching(fn, AnyRet{}) {
		ret := in.(*ssa.Return)
		if idx >= len(ret.Results) {
			continue
		}
		v := c29Origin(ret.Results[idx])
		if _, isConst := v.(*ssa.Const); isConst {
			continue
		}
		def, ok := v.(ssa.Instruction)
		if !ok {
			continue
		}
		n++
		if ex, ok := v.(*ssa.Extract); ok {
			if d, ok := ex.Tuple.(ssa.Instruction); ok {
				def = d
			}
		}
		for _, b := range fn.Blocks {
			for i, x := range b.Instrs {
				st, ok := x.(*ssa.Store)
				if !ok || !glob(storeAddr, Path(st.Addr)) {
					continue
				}
				if b == def.Block() && i < indexIn(b, def) {
					bad = append(bad, fmt.Sprintf("result %d (%s) is read after the store to %s at %s", idx, Path(v), storeAddr, c.P.InstrPos(x)))
				} else if b != def.Block() && c29Reaches(b, def.Block()) && !c29Reaches(def.Block(), b) {
					bad = append(bad, fmt.Sprintf("result %d (%s) is read after the store to %s at %s", idx, Path(v), storeAddr, c.P.InstrPos(x)))
				}
			}
		}
	}
	c29Result(c, "order", rule, fmt.Sprintf("%s#result[%d]-read-before-store:%s", c.P.Name(fn), idx, storeAddr), fn, n, dedup(bad), "the returned value is the one read before the step/clear")
}

func c29Reaches(from, to *ssa.BasicBlock) bool {
	seen := map[*ssa.BasicBlock]bool{from: true}
	work := []*ssa.BasicBlock{from}
	for len(work) > 0 {
		b := work[len(work)-1]
		work = work[:len(work)-1]
		for _, s := range b.Succs {
			if s == to {
				return true
			}
			if !seen[s] {
				seen[s] = true
				work = append(work, s)
			}
		}
	}
	return false
}
