package main

import (
	"fmt"
	"sort"
	"strings"

	"golang.org/x/tools/go/callgraph"
	"golang.org/x/tools/go/callgraph/cha"
	"golang.org/x/tools/go/callgraph/vta"
	"golang.org/x/tools/go/ssa"
	"golang.org/x/tools/go/ssa/ssautil"
)

func (p *Program) CallGraph() *callgraph.Graph {
	if p.cg == nil {
		p.cg = vta.CallGraph(ssautil.AllFunctions(p.SSA), cha.CallGraph(p.SSA))
	}
	return p.cg
}

// Reach computes the module functions (with bodies) reachable from roots in the VTA call
// graph, with a parent map for reporting call chains. stopAt: functions (globs) not entered.
func (c *Ctx) Reach(roots []*ssa.Function, stopAt []string) (map[*ssa.Function]*ssa.Function, []*ssa.Function) {
	cg := c.P.CallGraph()
	parent := map[*ssa.Function]*ssa.Function{}
	var order []*ssa.Function
	var work []*ssa.Function
	for _, r := range roots {
		if r == nil {
			continue
		}
		if _, ok := parent[r]; !ok {
			parent[r] = nil
			work = append(work, r)
		}
	}
	for len(work) > 0 {
		fn := work[0]
		work = work[1:]
		order = append(order, fn)
		var next []*ssa.Function
		if n := cg.Nodes[fn]; n != nil {
			for _, e := range n.Out {
				next = append(next, e.Callee.Func)
			}
		}
		// closures created by fn run (at most) as part of it
		next = append(next, fn.AnonFuncs...)
		sort.Slice(next, func(i, j int) bool { return funcShortName(next[i]) < funcShortName(next[j]) })
		for _, g := range next {
			if g == nil || len(g.Blocks) == 0 {
				continue
			}
			if g.Pkg == nil && g.Parent() == nil && g.Origin() == nil {
				continue
			}
			if !inModule(g) {
				continue
			}
			name := funcShortName(g)
			if globAny(stopAt, name) {
				continue
			}
			if _, ok := parent[g]; ok {
				continue
			}
			parent[g] = fn
			work = append(work, g)
		}
	}
	return parent, order
}

func inModule(fn *ssa.Function) bool {
	for fn.Parent() != nil {
		fn = fn.Parent()
	}
	if o := fn.Origin(); o != nil {
		fn = o
	}
	if fn.Pkg != nil {
		return strings.HasPrefix(fn.Pkg.Pkg.Path(), modulePath)
	}
	if fn.Object() != nil && fn.Object().Pkg() != nil {
		return strings.HasPrefix(fn.Object().Pkg().Path(), modulePath)
	}
	return false
}

func chain(parent map[*ssa.Function]*ssa.Function, fn *ssa.Function) string {
	var parts []string
	for f := fn; f != nil; f = parent[f] {
		parts = append(parts, funcShortName(f))
		if len(parts) > 12 {
			parts = append(parts, "…")
			break
		}
	}
	for i, j := 0, len(parts)-1; i < j; i, j = i+1, j-1 {
		parts[i], parts[j] = parts[j], parts[i]
	}
	return strings.Join(parts, " → ")
}

var nondetCallees = []string{
	"time.Now", "time.Since", "time.Until", "time.After", "time.Tick", "time.NewTimer", "time.NewTicker", "time.AfterFunc", "time.Sleep",
	"math/rand.*", "math/rand/v2.*", "crypto/rand.*",
	"os.Getenv", "os.Hostname", "os.Getpid", "os.Environ", "os.LookupEnv",
	"runtime.NumGoroutine", "runtime.GOMAXPROCS", "runtime.NumCPU",
	"hash/maphash.*", "net.*",
}

// Deterministic: in the call-graph closure of roots no nondeterminism source is
// called (allow: "function|callee" → reason, for metrics-only uses that are then
// checked to be confined by AllUsesFlowTo), no goroutine is started and no
// multi-way select is executed.
func (c *Ctx) Deterministic(rule string, roots []*ssa.Function, stopAt []string, allow map[string]string) {
	parent, order := c.Reach(roots, stopAt)
	var rootNames []string
	for _, r := range roots {
		if r != nil {
			rootNames = append(rootNames, c.P.Name(r))
		}
	}
	construct := "determ:" + strings.Join(rootNames, "+")
	if len(order) == 0 {
		c.add("determ", rule, construct, Undecided, "", "no root resolved")
		return
	}
	calls := 0
	type v struct{ pos, msg string }
	var viols []v
	usedAllow := map[string]bool{}
	for _, fn := range order {
		name := funcShortName(fn)
		c.FuncsAnalysed[name] = true
		for _, b := range fn.Blocks {
			for _, in := range b.Instrs {
				switch x := in.(type) {
				case *ssa.Go:
					key := name + "|go"
					if _, ok := allow[key]; ok {
						usedAllow[key] = true
						continue
					}
					viols = append(viols, v{c.P.InstrPos(in), fmt.Sprintf("goroutine started in %s [%s]", name, chain(parent, fn))})
				case *ssa.Select:
					if len(x.States) > 1 {
						key := name + "|select"
						if _, ok := allow[key]; ok {
							usedAllow[key] = true
							continue
						}
						viols = append(viols, v{c.P.InstrPos(in), fmt.Sprintf("multi-way select in %s [%s]", name, chain(parent, fn))})
					}
				case ssa.CallInstruction:
					calls++
					cn := calleeName(x.Common())
					if globAny(nondetCallees, cn) {
						key := name + "|" + cn
						if _, ok := allow[key]; ok {
							usedAllow[key] = true
							continue
						}
						viols = append(viols, v{c.P.InstrPos(in), fmt.Sprintf("%s calls %s [%s]", name, cn, chain(parent, fn))})
					}
				}
			}
		}
	}
	c.CallSites += calls
	if len(viols) > 0 {
		var msgs []string
		for _, x := range viols {
			msgs = append(msgs, x.msg+" at "+x.pos)
		}
		c.add("determ", rule, construct, Violated, viols[0].pos, "nondeterminism source reachable from a replicated apply path: "+strings.Join(msgs, "; "))
		return
	}
	c.add("determ", rule, construct, Held, "", fmt.Sprintf("%d module function(s) reachable from %v (VTA call graph), %d call site(s) scanned, none is a clock/random/env/goroutine/select source (allowed metrics-only sites: %d)", len(order), rootNames, calls, len(usedAllow)))
}

// AllUsesFlowTo: in fn, the result of every call matching srcCallee flows (through
// conversions, arithmetic, time.Since/Sub and phi) only into calls matching one of sinks.
func (c *Ctx) AllUsesFlowTo(rule string, fn *ssa.Function, srcCallee string, sinks []string, through []string) {
	if fn == nil {
		return
	}
	fname := c.P.Name(fn)
	construct := fname + "#confined-taint:" + srcCallee
	n := 0
	var bad []string
	for _, f := range WithClosures(fn) {
		for _, b := range f.Blocks {
			for _, in := range b.Instrs {
				call, ok := in.(*ssa.Call)
				if !ok || !glob(srcCallee, calleeName(&call.Call)) {
					continue
				}
				n++
				seen := map[ssa.Value]bool{}
				var visit func(v ssa.Value)
				visit = func(v ssa.Value) {
					if seen[v] {
						return
					}
					seen[v] = true
					refs := v.Referrers()
					if refs == nil {
						return
					}
					for _, r := range *refs {
						switch x := r.(type) {
						case *ssa.DebugRef:
						case ssa.CallInstruction:
							cn := calleeName(x.Common())
							if globAny(sinks, cn) {
								continue
							}
							if globAny(through, cn) {
								if val, ok := r.(ssa.Value); ok {
									visit(val)
								}
								continue
							}
							bad = append(bad, fmt.Sprintf("flows into %s at %s", cn, c.P.InstrPos(r)))
						case *ssa.Store:
							if a, ok := x.Addr.(*ssa.Alloc); ok {
								visit(a) // local variable: follow loads
								continue
							}
							bad = append(bad, fmt.Sprintf("stored to %s at %s", Path(x.Addr), c.P.InstrPos(r)))
						case *ssa.Return:
							bad = append(bad, "returned at "+c.P.InstrPos(r))
						case *ssa.MakeClosure:
							// captured by a closure: follow the free variable inside
							if cf, ok := x.Fn.(*ssa.Function); ok {
								for i, bv := range x.Bindings {
									if bv == v && i < len(cf.FreeVars) {
										visit(cf.FreeVars[i])
									}
								}
							}
						case ssa.Value:
							visit(x)
						case *ssa.If:
							bad = append(bad, "branches on it at "+c.P.InstrPos(r))
						default:
							bad = append(bad, fmt.Sprintf("used by %T at %s", r, c.P.InstrPos(r)))
						}
					}
				}
				visit(call)
			}
		}
	}
	switch {
	case n == 0:
		c.add("determ", rule, construct, Undecided, c.P.Pos(fn.Pos()), "no call to "+srcCallee+" (the allow-list entry is stale)")
	case len(bad) > 0:
		c.add("determ", rule, construct, Violated, c.P.Pos(fn.Pos()), fmt.Sprintf("value of %s escapes the observer sinks: %s", srcCallee, strings.Join(dedup(bad), "; ")))
	default:
		c.add("determ", rule, construct, Held, c.P.Pos(fn.Pos()), fmt.Sprintf("%d call(s) to %s; every use flows only into %v", n, srcCallee, sinks))
	}
}
