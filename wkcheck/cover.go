package main

import (
	"fmt"
	"go/constant"
	"go/types"
	"sort"
	"strings"

	"golang.org/x/tools/go/ssa"
)

// fieldsUsed collects the names of fields of struct type T selected (read) in fns.
func fieldsUsed(fns []*ssa.Function, T types.Type, readsOnly bool) map[string]int {
	used := map[string]int{}
	for _, fn := range fns {
		for _, b := range fn.Blocks {
			for _, in := range b.Instrs {
				switch x := in.(type) {
				case *ssa.FieldAddr:
					if sameNamed(x.X.Type(), T) {
						if readsOnly && !hasLoadUse(x) {
							continue
						}
						if !readsOnly || hasRealReferrers(x) {
							used[fieldName(x.X.Type(), x.Field)]++
						}
					}
				case *ssa.Field:
					if sameNamed(x.X.Type(), T) && hasRealReferrers(x) {
						used[fieldName(x.X.Type(), x.Field)]++
					}
				}
			}
		}
	}
	return used
}

func hasLoadUse(fa *ssa.FieldAddr) bool {
	refs := fa.Referrers()
	if refs == nil {
		return false
	}
	for _, r := range *refs {
		switch x := r.(type) {
		case *ssa.UnOp:
			if hasRealReferrers(x) {
				return true
			}
		case *ssa.FieldAddr, *ssa.IndexAddr:
			return true
		case *ssa.Call, *ssa.Slice:
			return true
		case *ssa.Store:
			if x.Addr != ssa.Value(fa) {
				return true
			}
		}
	}
	return false
}

func structFields(T types.Type) []string {
	st, ok := T.Underlying().(*types.Struct)
	if !ok {
		return nil
	}
	var out []string
	for i := 0; i < st.NumFields(); i++ {
		out = append(out, st.Field(i).Name())
	}
	return out
}

// Cover: every field of struct T (minus exempt, each with a reason) is read in
// one of fns — a new field that the function forgets is reported by name.
func (c *Ctx) Cover(rule string, fns []*ssa.Function, structName string, exempt map[string]string) {
	T := c.lookupType(structName)
	if T == nil {
		c.add("anchor", "anchor", structName, Undecided, "", "struct not found")
		return
	}
	if len(fns) == 0 {
		return
	}
	used := fieldsUsed(fns, T, true)
	var names []string
	for _, fn := range fns {
		if fn != nil {
			names = append(names, c.P.Name(fn))
		}
	}
	var missing, covered []string
	for _, f := range structFields(T) {
		if _, ok := exempt[f]; ok {
			continue
		}
		if used[f] == 0 {
			missing = append(missing, f)
		} else {
			covered = append(covered, f)
		}
	}
	construct := "cover:" + structName + "@" + strings.Join(names, "+")
	pos := ""
	if fns[0] != nil {
		pos = c.P.Pos(fns[0].Pos())
	}
	if len(missing) > 0 {
		c.add("cover", rule, construct, Violated, pos, fmt.Sprintf("field(s) %v of %s are not read by %v (every non-exempt field must take part)", missing, structName, names))
		return
	}
	var ex []string
	for k, v := range exempt {
		ex = append(ex, k+": "+v)
	}
	sort.Strings(ex)
	c.add("cover", rule, construct, Held, pos, fmt.Sprintf("all %d non-exempt fields read: %v; exempt: %v", len(covered), covered, ex))
}

// LiteralComplete: every composite literal of struct T built in fn sets all `fields`
// (or all fields of T when fields is empty).
func (c *Ctx) LiteralComplete(rule string, fn *ssa.Function, structName string, fields []string, exempt map[string]string) {
	if fn == nil {
		return
	}
	T := c.lookupType(structName)
	if T == nil {
		// the type may live in a dependency
		c.add("anchor", "anchor", structName, Undecided, "", "struct not found in loaded packages")
		return
	}
	if len(fields) == 0 {
		for _, f := range structFields(T) {
			if _, ok := exempt[f]; !ok {
				fields = append(fields, f)
			}
		}
	}
	fname := c.P.Name(fn)
	lits := map[*ssa.Alloc]map[string]bool{}
	for _, b := range fn.Blocks {
		for _, in := range b.Instrs {
			st, ok := in.(*ssa.Store)
			if !ok {
				continue
			}
			fa, ok := st.Addr.(*ssa.FieldAddr)
			if !ok {
				continue
			}
			a, ok := fa.X.(*ssa.Alloc)
			if !ok || !sameNamed(a.Type(), T) || spilledParam(a) != nil {
				continue
			}
			if lits[a] == nil {
				lits[a] = map[string]bool{}
			}
			lits[a][fieldName(fa.X.Type(), fa.Field)] = true
		}
	}
	construct := fname + "#literal:" + structName
	if len(lits) == 0 {
		c.add("cover", rule, construct, Undecided, c.P.Pos(fn.Pos()), "no composite literal of "+structName+" in "+fname+" (vacuous)")
		return
	}
	var bad []string
	for a, set := range lits {
		var miss []string
		for _, f := range fields {
			if !set[f] {
				miss = append(miss, f)
			}
		}
		if len(miss) > 0 {
			bad = append(bad, fmt.Sprintf("literal at %s omits %v", c.P.Pos(a.Pos()), miss))
		}
	}
	if len(bad) > 0 {
		sort.Strings(bad)
		c.add("cover", rule, construct, Violated, c.P.Pos(fn.Pos()), strings.Join(bad, "; "))
		return
	}
	c.add("cover", rule, construct, Held, c.P.Pos(fn.Pos()), fmt.Sprintf("%d literal(s) of %s, each sets %v", len(lits), structName, fields))
}

// ---------------------------------------------------------------------------
// exhaust

// constsOfType lists the constants declared in package pkg whose type is the named type typeName
// (or, when typeName is empty, whose name has the given prefix).
func (c *Ctx) constsOfType(pkg, typeName, prefix string) map[string]constant.Value {
	pk := c.P.Pkgs[pkg]
	out := map[string]constant.Value{}
	if pk == nil {
		return out
	}
	sc := pk.Types.Scope()
	for _, n := range sc.Names() {
		k, ok := sc.Lookup(n).(*types.Const)
		if !ok {
			continue
		}
		if typeName != "" {
			if typeBaseName(k.Type()) != typeName {
				continue
			}
			if nt, ok := k.Type().(*types.Named); !ok || nt.Obj().Pkg() != pk.Types {
				continue
			}
		}
		if prefix != "" && !strings.HasPrefix(n, prefix) {
			continue
		}
		out[n] = k.Val()
	}
	return out
}

// constsReferenced collects constant values of the given type compared or used as
// map keys / switch cases in fns (any Const operand of that named type).
func constsReferenced(fns []*ssa.Function, typeName string) map[string]bool {
	vals := map[string]bool{}
	for _, fn := range fns {
		for _, b := range fn.Blocks {
			for _, in := range b.Instrs {
				for _, op := range in.Operands(nil) {
					if op == nil || *op == nil {
						continue
					}
					if k, ok := (*op).(*ssa.Const); ok && k.Value != nil && typeBaseName(k.Type()) == typeName {
						vals[k.Value.ExactString()] = true
					}
				}
			}
		}
	}
	return vals
}

// Exhaustive: every constant of (pkg, typeName / prefix) appears in fns as a compared/keyed constant,
// except exempt names (with reasons).
func (c *Ctx) Exhaustive(rule string, fns []*ssa.Function, pkg, typeName, prefix string, exempt map[string]string) {
	consts := c.constsOfType(pkg, typeName, prefix)
	var names []string
	for _, fn := range fns {
		if fn != nil {
			names = append(names, c.P.Name(fn))
		}
	}
	construct := fmt.Sprintf("exhaust:%s.%s%s@%s", pkg, typeName, prefix, strings.Join(names, "+"))
	if len(consts) == 0 || len(names) == 0 {
		c.add("exhaust", rule, construct, Undecided, "", "no constants or no functions resolved (vacuous)")
		return
	}
	tn := typeName
	if tn == "" {
		// infer type name from any constant
		for n := range consts {
			if k, ok := c.P.Pkgs[pkg].Types.Scope().Lookup(n).(*types.Const); ok {
				tn = typeBaseName(k.Type())
			}
			break
		}
	}
	refs := constsReferenced(fns, tn)
	var missing []string
	for n, v := range consts {
		if _, ok := exempt[n]; ok {
			continue
		}
		if !refs[v.ExactString()] {
			missing = append(missing, n)
		}
	}
	sort.Strings(missing)
	if len(missing) > 0 {
		c.add("exhaust", rule, construct, Violated, c.P.Pos(fns[0].Pos()), fmt.Sprintf("constant(s) %v of %s.%s have no case/key in %v", missing, pkg, tn, names))
		return
	}
	c.add("exhaust", rule, construct, Held, c.P.Pos(fns[0].Pos()), fmt.Sprintf("%d constants, all handled (exempt: %d)", len(consts), len(exempt)))
}
