package main

import (
	"fmt"
	"strings"

	"golang.org/x/tools/go/ssa"
)

// NOTE: uses the helpers c15ReceiverMethods, c15FieldStores, c15RetShapes and c15GuardRef defined in props_c15.go.

func init() {
	register(&PropSpec{
		ID:        "C16",
		Pkgs:      []string{"./pkg/db/meta"},
		Technique: "static analysis: monotone-store classification of every cursor store (guarded raise / enumerated reset) + SSA edge-dominance guards on the three resolvers and the tombstone/exists gates + who-may-encode confinement and written-row shape",
		Explain:   "Decides the structural clause behind 'per-user cursors never move backwards': (R1) every store to UserChannelMembership.{ReadSeq,DeletedToSeq,ActivatedAt,UpdatedAt} and UserCMDChannelMembership.{AckSeq,UpdatedAt} in pkg/db/meta is dominated by `new > old` on the same row, except the enumerated resets: Hide clears ActivatedAt to 0, and resolveEnsuredUserChannelMembership replaces ReadSeq/DeletedToSeq only behind incoming.SourceVersion > existing.SourceVersion with existing.SourceVersion != 0 (a strictly newer source generation = new membership incarnation; this reading of the property is an assumption); (R2) the resolvers return the caller's row wholesale only for an absent row or a tombstoned row being re-created (and, for ordinary memberships, only with a strictly newer source version), modify the stored row only behind a not-older source version, and store only the fields they own (resolveUserChannelMembership never touches the cursors); the mutate helpers run the closure only on an existing, non-tombstoned row and stage exactly the mutated copy of the loaded row; (R3) membership rows are encoded only by the enumerated upsert/ensure/mutate paths, whose written value is the resolver result, and the generic Table write methods are never used on the two tables. NOT decided: directory pagination (exactly-once, ordering) - iterator behaviour; that callers in pkg/slot/fsm pass the intended arguments; behaviour across DeleteUserChannelMembership (row removal starts a new incarnation).",
		Run:       c16,
		Mutants: []Mutant{
			{Name: "shard-advance-readseq-unguarded", File: "pkg/db/meta/table_user_channel_membership.go", Old: "\t\tif readSeq > row.ReadSeq {\n\t\t\trow.ReadSeq = readSeq\n\t\t\tif updatedAt > row.UpdatedAt {\n\t\t\t\trow.UpdatedAt = updatedAt\n\t\t\t}\n\t\t}", New: "\t\tif readSeq != row.ReadSeq {\n\t\t\trow.ReadSeq = readSeq\n\t\t\tif updatedAt > row.UpdatedAt {\n\t\t\t\trow.UpdatedAt = updatedAt\n\t\t\t}\n\t\t}", Nth: 1, Expect: "C16/R1-mono*ReadSeq*"},
			{Name: "batch-hide-deletedto-unguarded", File: "pkg/db/meta/table_user_channel_membership.go", Old: "\t\tif deletedToSeq > row.DeletedToSeq {\n\t\t\trow.DeletedToSeq = deletedToSeq\n\t\t\tchanged = true\n\t\t}", New: "\t\tif deletedToSeq != row.DeletedToSeq {\n\t\t\trow.DeletedToSeq = deletedToSeq\n\t\t\tchanged = true\n\t\t}", Nth: 2, Expect: "C16/R1-mono*DeletedToSeq*"},
			{Name: "batch-activate-nonmonotone", File: "pkg/db/meta/table_user_channel_membership.go", Old: "\t\tif activatedAt > row.ActivatedAt {\n\t\t\trow.ActivatedAt = activatedAt", New: "\t\tif activatedAt != row.ActivatedAt {\n\t\t\trow.ActivatedAt = activatedAt", Nth: 2, Expect: "C16/R1-mono*ActivatedAt*"},
			{Name: "cmd-ack-unguarded", File: "pkg/db/meta/table_user_cmd_channel_membership.go", Old: "\t\tif membership.AckSeq > row.AckSeq {\n\t\t\trow.AckSeq = membership.AckSeq", New: "\t\tif membership.AckSeq != row.AckSeq {\n\t\t\trow.AckSeq = membership.AckSeq", Expect: "C16/R1-mono*AckSeq*"},
			{Name: "cmd-resolve-ack-overwrite", File: "pkg/db/meta/table_user_cmd_channel_membership.go", Old: "\tif next.AckSeq > existing.AckSeq {\n\t\texisting.AckSeq = next.AckSeq\n\t}", New: "\texisting.AckSeq = next.AckSeq", Expect: "C16/R1-mono*AckSeq*"},
			{Name: "ensure-unfenced-row-regresses", File: "pkg/db/meta/table_user_channel_membership.go", Old: "\t\tif incoming.ReadSeq > existing.ReadSeq {\n\t\t\texisting.ReadSeq = incoming.ReadSeq\n\t\t}", New: "\t\texisting.ReadSeq = incoming.ReadSeq", Expect: "C16/R1-mono*ReadSeq*"},
			{Name: "ensure-same-version-resets", File: "pkg/db/meta/table_user_channel_membership.go", Old: "\tif incoming.SourceVersion <= existing.SourceVersion {\n\t\treturn existing\n\t}", New: "\tif incoming.SourceVersion < existing.SourceVersion {\n\t\treturn existing\n\t}", Expect: "C16/R2-ensure*"},
			{Name: "resolve-accepts-older-source", File: "pkg/db/meta/table_user_channel_membership.go", Old: "\tif next.SourceVersion < existing.SourceVersion {\n\t\treturn existing\n\t}\n", New: "", Expect: "C16/R2-resolve*"},
			{Name: "resolve-replaces-live-row", File: "pkg/db/meta/table_user_channel_membership.go", Old: "\tif existing.Tombstone {\n\t\treturn next\n\t}\n\texisting.SourceVersion = next.SourceVersion", New: "\tif existing.Tombstone || next.ReadSeq > 0 {\n\t\treturn next\n\t}\n\texisting.SourceVersion = next.SourceVersion", Expect: "C16/R2-resolve*"},
			{Name: "resolve-copies-cursor", File: "pkg/db/meta/table_user_channel_membership.go", Old: "\texisting.SourceVersion = next.SourceVersion\n\tif next.UpdatedAt > existing.UpdatedAt {\n\t\texisting.UpdatedAt = next.UpdatedAt\n\t}\n\treturn existing\n}", New: "\texisting.SourceVersion = next.SourceVersion\n\texisting.ReadSeq = next.ReadSeq\n\tif next.UpdatedAt > existing.UpdatedAt {\n\t\texisting.UpdatedAt = next.UpdatedAt\n\t}\n\treturn existing\n}", Expect: "C16/R*"},
			{Name: "cmd-resolve-rebinds-live-row", File: "pkg/db/meta/table_user_cmd_channel_membership.go", Old: "if !exists || existing.Tombstone && !next.Tombstone {", New: "if !exists || !next.Tombstone {", Expect: "C16/R2-cmd*"},
			{Name: "mutate-runs-on-tombstone", File: "pkg/db/meta/table_user_channel_membership.go", Old: "\t\tif existing.Tombstone {\n\t\t\treturn nil\n\t\t}\n", New: "", Expect: "C16/R2-mutate*"},
			{Name: "cmd-mutate-runs-on-tombstone", File: "pkg/db/meta/table_user_cmd_channel_membership.go", Old: "\tif existing.Tombstone {\n\t\treturn nil\n\t}\n\tnext := existing\n\tmutate(&next)", New: "\tnext := existing\n\tmutate(&next)", Expect: "C16/R2-mutate*"},
			{Name: "upsert-bypasses-resolver", File: "pkg/db/meta/table_user_channel_membership.go", Old: "\t\tnext := resolveUserChannelMembership(existing, exists, membership)\n\t\tif existing == next && exists {", New: "\t\tnext := membership\n\t\tif existing == next && exists {", Expect: "C16/R3-*"},
			{Name: "generic-upsert-used", File: "pkg/db/meta/table_user_cmd_channel_membership.go", Old: "func userCMDChannelMembershipPrimaryKey(", New: "func (s *Shard) putUserCMDChannelMembership(ctx context.Context, m UserCMDChannelMembership) error {\n\treturn userCMDChannelMembershipTable.Upsert(ctx, s, m)\n}\n\nfunc userCMDChannelMembershipPrimaryKey(", Expect: "C16/R3-writers*"},
		},
	})
}

const (
	c16UCM = "pkg/db/meta.UserChannelMembership"
	c16CMD = "pkg/db/meta.UserCMDChannelMembership"
)

func c16(c *Ctx) {
	p := "pkg/db/meta."
	scope := []string{"pkg/db/meta.*"}

	// ---------------------------------------------------------------- R1: every cursor store is a guarded raise or an enumerated reset
	hideReset := map[string]string{
		p + "Shard.HideUserChannelMembership$1": "Hide clears directory activation to 0 by design (the property allows ActivatedAt up, or reset to 0 by Hide)",
		p + "Batch.HideUserChannelMembership$1": "Hide clears directory activation to 0 by design (the property allows ActivatedAt up, or reset to 0 by Hide)",
	}
	// a strictly newer source generation of an already fenced row is a delete/recreate boundary (code comment at the site)
	generation := []string{"existing.SourceVersion != 0"}
	c.Mono("R1-mono", c16UCM+".ReadSeq", MonoOpts{Scope: scope, AlsoGuards: generation})
	c.Mono("R1-mono", c16UCM+".DeletedToSeq", MonoOpts{Scope: scope, AlsoGuards: generation})
	c.Mono("R1-mono", c16UCM+".ActivatedAt", MonoOpts{Scope: scope, Resets: hideReset})
	c.Mono("R1-mono", c16UCM+".UpdatedAt", MonoOpts{Scope: scope})
	c.Mono("R1-mono", c16CMD+".AckSeq", MonoOpts{Scope: scope})
	c.Mono("R1-mono", c16CMD+".UpdatedAt", MonoOpts{Scope: scope})
	c.Mono("R1-mono", c16CMD+".TombstoneAt", MonoOpts{Scope: scope})
	for name := range hideReset {
		c.StoreShape("R1-hide", c.Fn(name), "row.ActivatedAt", "0")
	}
	c.Min("R1-mono", 32)

	// ---------------------------------------------------------------- R2: resolvers
	ens := c.Fn(p + "resolveEnsuredUserChannelMembership")
	c.Guard("R2-ensure", ens, Ret{0, "incoming"}, "!exists")
	c.Guard("R2-ensure", ens, StoreTo{Addr: "existing.*"}, "exists", "incoming.SourceVersion > existing.SourceVersion")
	c.c15RetShapes("R2-ensure", ens, "incoming|existing", func(r []string) string {
		if len(r) == 1 && (r[0] == "incoming" || r[0] == "existing") {
			return ""
		}
		return fmt.Sprint("returns ", r)
	})
	c.c15FieldStores("R2-ensure", ens, c16UCM, []string{"existing", "incoming"}, map[string][]string{
		"JoinSeq": {"incoming.JoinSeq"}, "ReadSeq": {"incoming.ReadSeq"}, "DeletedToSeq": {"incoming.DeletedToSeq"},
		"SourceVersion": {"incoming.SourceVersion"}, "UpdatedAt": {"incoming.UpdatedAt"}})

	res := c.Fn(p + "resolveUserChannelMembership")
	c.Guard("R2-resolve", res, Ret{0, "next"},
		"!exists || *.Tombstone",
		"!exists || next.SourceVersion > existing.SourceVersion || next.SourceVersion != existing.SourceVersion",
		"!exists || next.SourceVersion >= existing.SourceVersion",
		"!exists || !next.Tombstone")
	c.Guard("R2-resolve", res, StoreTo{Addr: "existing.*"}, "exists", "next.SourceVersion >= existing.SourceVersion")
	c.Guard("R2-resolve", res, StoreTo{Addr: "existing.SourceVersion"}, "next.SourceVersion != existing.SourceVersion", "next.SourceVersion >= existing.SourceVersion")
	c.c15RetShapes("R2-resolve", res, "next|existing", func(r []string) string {
		if len(r) == 1 && (r[0] == "next" || r[0] == "existing") {
			return ""
		}
		return fmt.Sprint("returns ", r)
	})
	// the ordinary-membership resolver owns only tombstone/source-version/updated-at; cursors are never copied from the caller
	c.c15FieldStores("R2-resolve", res, c16UCM, []string{"existing", "next"}, map[string][]string{
		"Tombstone": {"true", "false"}, "TombstoneAt": {"0", "next.TombstoneAt"},
		"SourceVersion": {"next.SourceVersion"}, "UpdatedAt": {"next.UpdatedAt"}})

	cmd := c.Fn(p + "resolveUserCMDChannelMembership")
	c.Guard("R2-cmd", cmd, Ret{0, "next"}, "!exists || *.Tombstone", "!exists || !next.Tombstone")
	c.Guard("R2-cmd", cmd, StoreTo{Addr: "existing.*"}, "exists", "!existing.Tombstone")
	c.c15RetShapes("R2-cmd", cmd, "next|existing", func(r []string) string {
		if len(r) == 1 && (r[0] == "next" || r[0] == "existing") {
			return ""
		}
		return fmt.Sprint("returns ", r)
	})
	c.c15FieldStores("R2-cmd", cmd, c16CMD, []string{"existing", "next"}, map[string][]string{
		"AckSeq": {"next.AckSeq"}, "UpdatedAt": {"next.UpdatedAt"}})

	// mutate helpers: closure only on an existing live row; exactly the mutated copy is staged
	c.c16Mutate("R2-mutate", c.Fn(p+"Shard.mutateUserChannelMembership"), p+"stageUserChannelMembership(*, %E, true, %N)")
	c.c16Mutate("R2-mutate", c.Fn(p+"Batch.mutateUserChannelMembership$1"), p+"stageUserChannelMembership(*, %E, true, %N)")
	c.c16Mutate("R2-mutate", c.Fn(p+"Shard.mutateUserCMDChannelMembership"), p+"encodeUserCMDChannelMembershipValue(%N)")
	c.c16Mutate("R2-mutate", c.Fn(p+"Batch.mutateUserCMDChannelMembership$1"), p+"encodeUserCMDChannelMembershipValue(%N)")
	c.ConfineCalls("R2-mutate", p+"Shard.mutateUserChannelMembership", 3,
		p+"Shard.SetUserChannelMembershipActivatedAt", p+"Shard.AdvanceUserChannelMembershipReadSeq", p+"Shard.HideUserChannelMembership")
	c.ConfineCalls("R2-mutate", p+"Batch.mutateUserChannelMembership", 3,
		p+"Batch.AdvanceUserChannelMembershipReadSeq", p+"Batch.ActivateUserChannelMembership", p+"Batch.HideUserChannelMembership")
	c.ConfineCalls("R2-mutate", p+"Shard.mutateUserCMDChannelMembership", 2,
		p+"Shard.AdvanceUserCMDChannelMembershipAckSeq", p+"Shard.TombstoneUserCMDChannelMembership")
	c.ConfineCalls("R2-mutate", p+"Batch.mutateUserCMDChannelMembership", 2,
		p+"Batch.AdvanceUserCMDChannelMembershipAckSeq", p+"Batch.TombstoneUserCMDChannelMembership")

	// ---------------------------------------------------------------- R3: who writes rows, and what
	c.c15ReceiverMethods("R3-writers", p+"userChannelMembershipTable", 12,
		p+"Table.Get", p+"Table.getByPrimaryKey", p+"Table.primaryRowKey", p+"Table.Delete", p+"Table.StageDelete", p+"Table.ScanIndex",
		p+"Table.loadBatchRow", p+"Table.stageDeleteIndexEntries", p+"Table.stagePutIndexEntries", p+"Table.Schema")
	c.c15ReceiverMethods("R3-writers", p+"userCMDChannelMembershipTable", 8,
		p+"Table.Get", p+"Table.getByPrimaryKey", p+"Table.primaryRowKey", p+"Table.loadBatchRow", p+"Table.scanPrimaryPrefixStrict", p+"Table.Schema")
	c.ConfineCalls("R3-writers", p+"stageUserChannelMembership", 6,
		p+"Shard.UpsertUserChannelMembership", p+"Shard.EnsureUserChannelMembership", p+"Shard.mutateUserChannelMembership",
		p+"Batch.UpsertUserChannelMembership$1", p+"Batch.EnsureUserChannelMembership$1", p+"Batch.mutateUserChannelMembership$1")
	c.ConfineCalls("R3-writers", p+"encodeUserChannelMembershipValue", 5,
		p+"stageUserChannelMembership", p+"Batch.UpsertUserChannelMembership$1", p+"Batch.EnsureUserChannelMembership$1", p+"Batch.mutateUserChannelMembership$1", p+"init*")
	c.ConfineCalls("R3-writers", p+"encodeUserCMDChannelMembershipValue", 5,
		p+"Shard.UpsertUserCMDChannelMembership", p+"Shard.mutateUserCMDChannelMembership", p+"Batch.UpsertUserCMDChannelMembership$1", p+"Batch.mutateUserCMDChannelMembership$1", p+"init*")

	stage := c.Fn(p + "stageUserChannelMembership")
	c.CallShape("R3-shape", stage, p+"encodeUserChannelMembershipValue", p+"encodeUserChannelMembershipValue(membership)")
	c.CallShape("R3-shape", stage, "pkg/db/internal/engine.Batch.Set", "pkg/db/internal/engine.Batch.Set(batch, primaryKey, "+p+"encodeUserChannelMembershipValue(membership))")
	for _, w := range []struct{ fn, resolver string }{
		{p + "Shard.UpsertUserChannelMembership", p + "resolveUserChannelMembership"},
		{p + "Batch.UpsertUserChannelMembership$1", p + "resolveUserChannelMembership"},
		{p + "Shard.EnsureUserChannelMembership", p + "resolveEnsuredUserChannelMembership"},
		{p + "Batch.EnsureUserChannelMembership$1", p + "resolveEnsuredUserChannelMembership"},
	} {
		fn := c.Fn(w.fn)
		c.CallShape("R3-shape", fn, p+"stageUserChannelMembership", p+"stageUserChannelMembership(*, *#0, *#1, "+w.resolver+"(*#0, *#1, membership))")
		c.CallShape("R3-shape", fn, p+"resolve*UserChannelMembership", w.resolver+"(*(pkg/db/meta.userChannelMembershipTable, *#0, *(pkg/db/meta.userChannelMembershipTable, *#1, membership)")
	}
	for _, name := range []string{p + "Shard.UpsertUserCMDChannelMembership", p + "Batch.UpsertUserCMDChannelMembership$1"} {
		fn := c.Fn(name)
		c.CallShape("R3-shape", fn, p+"encodeUserCMDChannelMembershipValue", p+"encodeUserCMDChannelMembershipValue("+p+"resolveUserCMDChannelMembership(*#0, *#1, membership))")
		c.CallShape("R3-shape", fn, p+"resolveUserCMDChannelMembership", p+"resolveUserCMDChannelMembership(*(pkg/db/meta.userCMDChannelMembershipTable, *#0, *(pkg/db/meta.userCMDChannelMembershipTable, *#1, membership)")
		c.CallShape("R3-shape", fn, "pkg/db/internal/engine.Batch.Set", "pkg/db/internal/engine.Batch.Set(*, "+p+"encodeUserCMDChannelMembershipValue("+p+"resolveUserCMDChannelMembership(*)))")
	}
	c.Min("R3-shape", 16)
	c.Min("R2-mutate", 16)
}

// c16Mutate: in a mutate helper, the closure `mutate(&N)` is invoked on a single copy N of the row E
// loaded from the store, only behind exists and !E.Tombstone; neither N nor E is otherwise stored to;
// and the write call has the shape writeShape (with %E/%N substituted by the locals' rendered names).
func (c *Ctx) c16Mutate(rule string, fn *ssa.Function, writeShape string) {
	if fn == nil {
		return
	}
	fname := c.P.Name(fn)
	calls := instrsMatching(fn, CallTo{"dyn:mutate(*"})
	if len(calls) != 1 {
		c.add("shape", rule, fname+"#single-mutate", Undecided, c.P.Pos(fn.Pos()), fmt.Sprintf("%d calls of the mutate closure, expected exactly 1", len(calls)))
		return
	}
	args := calls[0].(ssa.CallInstruction).Common().Args
	var nAlloc, eAlloc *ssa.Alloc
	if len(args) == 1 {
		nAlloc, _ = args[0].(*ssa.Alloc)
	}
	if nAlloc == nil {
		c.add("shape", rule, fname+"#mutated-row", Undecided, c.P.InstrPos(calls[0]), "mutate is not applied to the address of a local row")
		return
	}
	nStores := 0
	var src ssa.Value
	for _, r := range *nAlloc.Referrers() {
		switch st := r.(type) {
		case *ssa.Store:
			if st.Addr == ssa.Value(nAlloc) {
				nStores++
				src = st.Val
			}
		case *ssa.FieldAddr:
			for _, rr := range *st.Referrers() {
				if s2, ok := rr.(*ssa.Store); ok && s2.Addr == ssa.Value(st) {
					nStores += 100
				}
			}
		}
	}
	if nStores != 1 || src == nil {
		c.add("shape", rule, fname+"#mutated-row", Violated, c.P.InstrPos(calls[0]), fmt.Sprintf("the mutated row %s is not exactly one copy of the loaded row (%d stores)", Path(nAlloc), nStores))
		return
	}
	// the source is either an address-taken local holding the loaded row, or the loader's #0 result itself
	E, eSrc, eStores := Path(src), Path(src), 1
	if u, ok := src.(*ssa.UnOp); ok {
		if eAlloc, _ = u.X.(*ssa.Alloc); eAlloc != nil {
			eStores, eSrc = 0, ""
			for _, r := range *eAlloc.Referrers() {
				switch st := r.(type) {
				case *ssa.Store:
					if st.Addr == ssa.Value(eAlloc) {
						eStores++
						eSrc = Path(st.Val)
					}
				case *ssa.FieldAddr:
					for _, rr := range *st.Referrers() {
						if s2, ok := rr.(*ssa.Store); ok && s2.Addr == ssa.Value(st) {
							eStores += 100
						}
					}
				}
			}
		}
	}
	if eStores != 1 || !(glob("pkg/db/meta.Table.getByPrimaryKey(*)#0", eSrc) || glob("pkg/db/meta.Table.loadBatchRow(*)#0", eSrc)) {
		c.add("shape", rule, fname+"#loaded-row", Violated, c.P.InstrPos(calls[0]), fmt.Sprintf("the row copied for mutation (%s) is not exactly the row loaded from the store (source %s, %d stores)", E, eSrc, eStores))
		return
	}
	c.add("shape", rule, fname+"#mutated-row", Held, c.P.InstrPos(calls[0]), "mutate runs on a single private copy of the row loaded from the store")
	N := Path(nAlloc)
	mut := CallTo{"dyn:mutate(*"}
	// E and N were resolved above by SSA identity; guards name them through back-references (c15GuardRef),
	// not through the identifiers the locals happen to have.
	refs := map[string]string{"loaded": E, "copy": N}
	c.c15GuardRef(rule, fn, mut, refs, "pkg/db/meta.Table.*(*)#1 == true", "!‹loaded›.Tombstone")
	shape := strings.ReplaceAll(strings.ReplaceAll(writeShape, "%E", E), "%N", N)
	callee := shape
	for i := 0; i < len(shape); i++ {
		if shape[i] == '(' {
			callee = shape[:i]
			break
		}
	}
	c.CallShape(rule, fn, callee, shape)
	c.c15GuardRef(rule, fn, CallTo{callee}, refs, "after: dyn:mutate(‹copy›)")
}
