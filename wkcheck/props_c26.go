package main

import (
	"fmt"
	"go/constant"
	"go/token"
	"go/types"
	"sort"
	"strings"

	"golang.org/x/tools/go/ssa"
)

func init() {
	register(&PropSpec{
		ID:        "C26",
		Pkgs:      []string{"./pkg/transport/..."},
		Technique: "static analysis: fixed-offset codec sibling agreement (SSA slot extraction) + SSA edge-dominance guards + lock-set / same-critical-section + who-may-call / who-may-store confinement",
		Explain: "Decides the structural clauses behind node-transport framing and RPC correlation. (1) wire.EncodeHeader and wire.DecodeHeader agree slot by slot on (offset, width, Header field or checked constant), the slots tile the 24-byte header exactly, and every Header field has a slot. " +
			"(2) DecodeHeader returns success only behind the length, magic, version, flags, reserved, Kind.Valid, Priority.Validate and bodyExceedsMax checks; ReadFrame obtains the body buffer (slab-pool getter or make) only after DecodeHeader and bodyLenToInt succeeded, sizes it from the validated BodyLen, and releases it on the read-error exit. " +
			"(3) pendingShard.entries is only touched under shard.mu and PendingTable.closed/closeErr under closeMu; Store tests closed and inserts in one closeMu section; Complete sends only when the id was present, only on the channel looked up under the lock, and only after deleting that id in the same critical section; FailAll marks the table closed and swaps every shard map under the locks. " +
			"(4) Request ids are produced only by conn.nextRequestID.Add(1) (one Add per Call, the same value is stored in the frame, the pending table and every Delete), the RequestID is copied unchanged through toFrame/readLoop/server replies, and responses are completed with the id from the received header. " +
			"NOT decided: behaviour of concurrent calls under timeouts/resets (dynamic), that encoding/binary primitives are mutual inverses (trusted), buffered-channel delivery in trySend, request-id wrap-around after 2^64 calls, transport-level reordering.",
		Run: c26,
		Mutants: []Mutant{
			{Name: "decode-drop-magic", File: "pkg/transport/wire/frame.go", Old: "magic != Magic {", New: "magic != Magic && false {", Expect: "C26/R1-wire*"},
			{Name: "decode-requestid-offset", File: "pkg/transport/wire/frame.go", Old: "RequestID: binary.BigEndian.Uint64(encoded[headerRequestIDOffset:]),", New: "RequestID: binary.BigEndian.Uint64(encoded[headerRequestIDOffset+1:]),", Expect: "C26/R1-wire*"},
			{Name: "encode-requestid-width", File: "pkg/transport/wire/frame.go", Old: "binary.BigEndian.PutUint64(encoded[headerRequestIDOffset:], header.RequestID)", New: "binary.BigEndian.PutUint32(encoded[headerRequestIDOffset:], uint32(header.RequestID))", Expect: "C26/R1-wire*"},
			{Name: "decode-drop-reserved", File: "pkg/transport/wire/frame.go", Old: "reserved != 0 {", New: "reserved > 1 {", Expect: "C26/R1-wire*"},
			{Name: "decode-drop-kind-valid", File: "pkg/transport/wire/frame.go", Old: "if !header.Kind.Valid() {\n\t\treturn Header{}, fmt.Errorf(\"%w: kind %d\", core.ErrInvalidFrame, header.Kind)\n\t}\n\tif err := header.Priority.Validate(); err != nil {\n\t\treturn Header{}, err\n\t}\n\tif bodyExceedsMax", New: "if err := header.Priority.Validate(); err != nil {\n\t\treturn Header{}, err\n\t}\n\tif bodyExceedsMax", Expect: "C26/R2-decode*"},
			{Name: "decode-ignore-bodymax", File: "pkg/transport/wire/frame.go", Old: "if bodyExceedsMax(header.BodyLen, maxBodyBytes) {\n\t\treturn Header{}, fmt.Errorf(\"%w: body %d > max %d\", core.ErrMsgTooLarge, header.BodyLen, maxBodyBytes)\n\t}\n\treturn header, nil", New: "_ = maxBodyBytes\n\treturn header, nil", Expect: "C26/R2-decode*"},
			{Name: "bodymax-negative-accepts", File: "pkg/transport/wire/frame.go", Old: "if maxBodyBytes < 0 {\n\t\treturn true\n\t}", New: "if maxBodyBytes < 0 {\n\t\treturn false\n\t}", Expect: "C26/R2-bodymax*"},
			{Name: "kind-valid-weakened", File: "pkg/transport/internal/core/types.go", Old: "return k >= FrameKindData && k <= FrameKindControl", New: "return k <= FrameKindControl", Expect: "C26/R2-valid*"},
			{Name: "readframe-alloc-before-validate", File: "pkg/transport/wire/reader.go", Old: "\theader, err := DecodeHeader(encoded[:], maxBodyBytes)\n\tif err != nil {\n\t\treturn Frame{}, err\n\t}\n", New: "\theader, err := DecodeHeader(encoded[:], maxBodyBytes)\n\tscratch := buffer.DefaultSlabPool.Get(int(header.BodyLen))\n\tscratch.Release()\n\tif err != nil {\n\t\treturn Frame{}, err\n\t}\n", Expect: "C26/R2-readframe*"},
			{Name: "readframe-leak-on-error", File: "pkg/transport/wire/reader.go", Old: "\t\t\tbody.Release()\n\t\t\treturn Frame{}, err", New: "\t\t\treturn Frame{}, err", Expect: "C26/R2-readframe*"},
			{Name: "store-after-closemu", File: "pkg/transport/internal/rpc/pending.go", Old: "\tshard := p.shardFor(id)\n\tshard.mu.Lock()\n\tshard.entries[id] = ch\n\tshard.mu.Unlock()\n\tp.closeMu.RUnlock()\n", New: "\tp.closeMu.RUnlock()\n\tshard := p.shardFor(id)\n\tshard.mu.Lock()\n\tshard.entries[id] = ch\n\tshard.mu.Unlock()\n", Expect: "C26/R3-admit*"},
			{Name: "complete-without-delete", File: "pkg/transport/internal/rpc/pending.go", Old: "\tif ok {\n\t\tdelete(shard.entries, id)\n\t}\n\tshard.mu.Unlock()\n\n\tif !ok {", New: "\tshard.mu.Unlock()\n\n\tif !ok {", Expect: "C26/R4-complete*"},
			{Name: "complete-lookup-unlocked", File: "pkg/transport/internal/rpc/pending.go", Old: "\tshard.mu.Lock()\n\tch, ok := shard.entries[id]\n\tif ok {", New: "\tch, ok := shard.entries[id]\n\tshard.mu.Lock()\n\tif ok {", Expect: "C26/R3-lock*"},
			{Name: "failall-no-swap", File: "pkg/transport/internal/rpc/pending.go", Old: "\t\tentries := shard.entries\n\t\tshard.entries = make(map[uint64]chan Response)\n\t\tshard.mu.Unlock()", New: "\t\tentries := shard.entries\n\t\tshard.mu.Unlock()", Expect: "C26/R4-failall*"},
			{Name: "call-second-id", File: "pkg/transport/internal/conn/conn.go", Old: "\tc.pending.Store(requestID, respCh)", New: "\tc.pending.Store(c.nextRequestID.Add(1), respCh)", Expect: "C26/R5-ids*"},
			{Name: "response-wrong-id", File: "pkg/transport/server.go", Old: "\t\tRequestID: inbound.RequestID,\n\t\tPayload:   conn.EncodeRPCResponse(status, []byte(err.Error())),", New: "\t\tRequestID: uint64(inbound.ServiceID),\n\t\tPayload:   conn.EncodeRPCResponse(status, []byte(err.Error())),", Expect: "C26/R5-carry*"},
		},
	})
}

// ---------------------------------------------------------------------------
// shared helpers (also used by props_c28/c37/c41)

// c26Reach is reachUnguarded with an arbitrary barrier predicate: it returns,
// for every block reachable from the entry without crossing a removed edge or
// executing a barrier instruction, the number of leading instructions that are
// reachable that way.
func c26Reach(fn *ssa.Function, removed map[edge]bool, barrier func(ssa.Instruction) bool) map[*ssa.BasicBlock]int {
	// infeasible paths through merged or repeated conditions are pruned when the function has any
	if lim := reachUnguardedBarrier(fn, removed, func(b *ssa.BasicBlock) int {
		if barrier != nil {
			for i, in := range b.Instrs {
				if barrier(in) {
					return i
				}
			}
		}
		return -1
	}); lim != nil {
		return lim
	}
	limit := map[*ssa.BasicBlock]int{}
	if len(fn.Blocks) == 0 {
		return limit
	}
	work := []*ssa.BasicBlock{fn.Blocks[0]}
	seen := map[*ssa.BasicBlock]bool{fn.Blocks[0]: true}
	for len(work) > 0 {
		b := work[len(work)-1]
		work = work[:len(work)-1]
		bi := -1
		if barrier != nil {
			for i, in := range b.Instrs {
				if barrier(in) {
					bi = i
					break
				}
			}
		}
		if bi >= 0 {
			limit[b] = bi + 1
			continue
		}
		limit[b] = len(b.Instrs)
		for si, s := range b.Succs {
			if removed[edge{b, si}] || seen[s] {
				continue
			}
			seen[s] = true
			work = append(work, s)
		}
	}
	return limit
}

// c26MustPass decides: every instruction of fn matching eff is reachable from
// the entry only across a removed edge or after a barrier instruction.
func (c *Ctx) c26MustPass(engine, rule string, fn *ssa.Function, eff Effect, removed map[edge]bool, barrier func(ssa.Instruction) bool, what string) {
	if fn == nil {
		return
	}
	fname := c.P.Name(fn)
	construct := fname + "#" + eff.String() + "⇐" + what
	effs := instrsMatching(fn, eff)
	if len(effs) == 0 {
		c.add(engine, rule, construct, Undecided, c.P.Pos(fn.Pos()), "no instruction matches the effect (vacuous)")
		return
	}
	limit := c26Reach(fn, removed, barrier)
	var bad []string
	for _, e := range effs {
		if lim, ok := limit[e.Block()]; ok && indexIn(e.Block(), e) < lim {
			bad = append(bad, c.P.InstrPos(e))
		}
	}
	if len(bad) > 0 {
		c.add(engine, rule, construct, Violated, bad[0], fmt.Sprintf("%q in %s is reachable without %s (at %s)", eff.String(), fname, what, strings.Join(bad, ", ")))
		return
	}
	c.add(engine, rule, construct, Held, c.P.InstrPos(effs[0]), fmt.Sprintf("%d site(s), each reachable only through %s (%d edge(s) removed)", len(effs), what, len(removed)))
}

// c26EdgesOn returns the out-edges of every If in fn whose condition is the
// SSA value v (looking through !) that are taken when v == truth.
func c26EdgesOn(fn *ssa.Function, v ssa.Value, truth bool) map[edge]bool {
	out := map[edge]bool{}
	for _, b := range fn.Blocks {
		if len(b.Instrs) == 0 {
			continue
		}
		iff, ok := b.Instrs[len(b.Instrs)-1].(*ssa.If)
		if !ok {
			continue
		}
		cond, t := iff.Cond, truth
		for {
			if u, ok := cond.(*ssa.UnOp); ok && u.Op == token.NOT {
				cond, t = u.X, !t
				continue
			}
			break
		}
		if cond != v {
			continue
		}
		if t {
			out[edge{b, 0}] = true
		} else {
			out[edge{b, 1}] = true
		}
	}
	return out
}

// c26Const renders a package-level constant the way Path renders it.
func (c *Ctx) c26Const(pkg, name string) string {
	pk := c.P.Pkgs[pkg]
	if pk != nil {
		if k, ok := pk.Types.Scope().Lookup(name).(*types.Const); ok {
			return k.Val().ExactString()
		}
	}
	c.add("anchor", "anchor", pkg+"."+name, Undecided, "", "anchored constant not found")
	return "<missing:" + name + ">"
}

// c26EnumRange returns the smallest and largest constant of the named type declared in pkg.
func (c *Ctx) c26EnumRange(pkg, typeName string) (string, string) {
	consts := c.constsOfType(pkg, typeName, "")
	if len(consts) == 0 {
		c.add("anchor", "anchor", pkg+"."+typeName, Undecided, "", "no constants of the enum type found")
		return "<missing>", "<missing>"
	}
	var lo, hi constant.Value
	for _, v := range consts {
		if lo == nil || constant.Compare(v, token.LSS, lo) {
			lo = v
		}
		if hi == nil || constant.Compare(v, token.GTR, hi) {
			hi = v
		}
	}
	return lo.ExactString(), hi.ExactString()
}

// c26FieldStoreShapes: every store to the field (composite literals included)
// is inside a function listed in the table and stores a value of the listed shape.
func (c *Ctx) c26FieldStoreShapes(rule, field string, min int, table map[string][]string) {
	fv := c.Field(field)
	if fv == nil {
		return
	}
	sites := c.fieldStores(fv)
	construct := "storeshapes:" + field
	var bad []string
	badPos := ""
	where := map[string]int{}
	for _, s := range sites {
		name := c.P.Name(s.fn)
		where[name]++
		var shapes []string
		found := false
		for g, sh := range table {
			if glob(g, name) || glob(g, rootName(name)) {
				shapes, found = append(shapes, sh...), true
			}
		}
		v := Path(s.val)
		if !found || !globAny(shapes, v) {
			why := "value " + v + " is not of the shape " + fmt.Sprint(shapes)
			if !found {
				why = "function is not a listed producer (value " + v + ")"
			}
			bad = append(bad, fmt.Sprintf("%s at %s: %s", name, c.P.InstrPos(s.in), why))
			if badPos == "" {
				badPos = c.P.InstrPos(s.in)
			}
		}
	}
	c.CallSites += len(sites)
	switch {
	case len(bad) > 0:
		c.add("confine", rule, construct, Violated, badPos, "field "+field+" gets a value from an unexpected source: "+strings.Join(bad, "; "))
	case len(sites) < min:
		c.add("confine", rule, construct, Undecided, "", fmt.Sprintf("%d store site(s), hand-confirmed minimum %d", len(sites), min))
	default:
		c.add("confine", rule, construct, Held, "", fmt.Sprintf("%d store site(s), each in a listed producer with the listed value shape: %s", len(sites), countsString(where)))
	}
}

// ---------------------------------------------------------------------------
// R1: fixed-offset header codec agreement

type c26Slot struct {
	off, width int
	role       string       // "field:Name" | "const:<value>" | "?<reason>"
	cmp        []*ssa.BinOp // decode side: comparisons of the slot value with its constant
	pos        string
}

func c26ConstInt(v ssa.Value) (int, bool) {
	if v == nil {
		return 0, true
	}
	k, ok := v.(*ssa.Const)
	if !ok || k.Value == nil || k.Value.Kind() != constant.Int {
		return 0, false
	}
	n, ok := constant.Int64Val(k.Value)
	return int(n), ok
}

func c26BinaryWidth(name, prefix string) int {
	if !strings.HasPrefix(name, "encoding/binary.bigEndian."+prefix) {
		return 0
	}
	switch strings.TrimPrefix(name, "encoding/binary.bigEndian."+prefix) {
	case "16":
		return 2
	case "32":
		return 4
	case "64":
		return 8
	}
	return 0
}

func c26HeaderFieldOf(v ssa.Value, T types.Type) (string, bool) {
	v = stripConv(v)
	switch x := v.(type) {
	case *ssa.UnOp:
		if fa, ok := x.X.(*ssa.FieldAddr); ok && x.Op == token.MUL && sameNamed(fa.X.Type(), T) {
			return fieldName(fa.X.Type(), fa.Field), true
		}
	case *ssa.Field:
		if sameNamed(x.X.Type(), T) {
			return fieldName(x.X.Type(), x.Field), true
		}
	}
	return "", false
}

// c26EncodeSlots extracts (offset,width,role) from the encoder.
func (c *Ctx) c26EncodeSlots(fn *ssa.Function, T types.Type) (slots []c26Slot, size int, problems []string) {
	size = -1
	role := func(v ssa.Value) string {
		v = stripConv(v)
		if k, ok := v.(*ssa.Const); ok && k.Value != nil {
			return "const:" + k.Value.ExactString()
		}
		if f, ok := c26HeaderFieldOf(v, T); ok {
			return "field:" + f
		}
		return "?" + Path(v)
	}
	arrLen := func(v ssa.Value) {
		t := v.Type()
		if p, ok := t.Underlying().(*types.Pointer); ok {
			t = p.Elem()
		}
		if a, ok := t.Underlying().(*types.Array); ok {
			size = int(a.Len())
		}
	}
	for _, b := range fn.Blocks {
		for _, in := range b.Instrs {
			switch x := in.(type) {
			case *ssa.Call:
				w := c26BinaryWidth(calleeName(&x.Call), "PutUint")
				if w == 0 {
					continue
				}
				sl, ok := x.Call.Args[1].(*ssa.Slice)
				if !ok {
					problems = append(problems, "PutUint destination is not a constant slice at "+c.P.InstrPos(in))
					continue
				}
				off, ok := c26ConstInt(sl.Low)
				if !ok {
					problems = append(problems, "PutUint offset is not constant at "+c.P.InstrPos(in))
					continue
				}
				arrLen(sl.X)
				slots = append(slots, c26Slot{off: off, width: w, role: role(x.Call.Args[2]), pos: c.P.InstrPos(in)})
			case *ssa.Store:
				ia, ok := x.Addr.(*ssa.IndexAddr)
				if !ok {
					continue
				}
				off, ok := c26ConstInt(ia.Index)
				if !ok {
					problems = append(problems, "indexed store with a non-constant offset at "+c.P.InstrPos(in))
					continue
				}
				arrLen(ia.X)
				slots = append(slots, c26Slot{off: off, width: 1, role: role(x.Val), pos: c.P.InstrPos(in)})
			}
		}
	}
	return
}

// c26DecodeSlots extracts (offset,width,role) from the decoder: every read of
// the input at a constant offset, classified by where its value flows.
func (c *Ctx) c26DecodeSlots(fn *ssa.Function, T types.Type) (slots []c26Slot, problems []string) {
	classify := func(v ssa.Value, s *c26Slot) {
		var roles []string
		var walk func(v ssa.Value, depth int)
		walk = func(v ssa.Value, depth int) {
			refs := v.Referrers()
			if refs == nil || depth > 4 {
				return
			}
			for _, r := range *refs {
				switch y := r.(type) {
				case *ssa.Convert:
					walk(y, depth+1)
				case *ssa.ChangeType:
					walk(y, depth+1)
				case *ssa.Store:
					if fa, ok := y.Addr.(*ssa.FieldAddr); ok && y.Val == v && sameNamed(fa.X.Type(), T) {
						roles = append(roles, "field:"+fieldName(fa.X.Type(), fa.Field))
					}
				case *ssa.BinOp:
					if y.Op != token.EQL && y.Op != token.NEQ {
						if _, ok := y.X.(*ssa.Const); ok || func() bool { _, ok := y.Y.(*ssa.Const); return ok }() {
							roles = append(roles, "?compared with "+y.Op.String()+" instead of ==/!=")
						}
						continue
					}
					other := y.Y
					if y.Y == v {
						other = y.X
					}
					if k, ok := stripConv(other).(*ssa.Const); ok && k.Value != nil {
						roles = append(roles, "const:"+k.Value.ExactString())
						s.cmp = append(s.cmp, y)
					}
				}
			}
		}
		walk(v, 0)
		roles = dedupAll(roles)
		switch len(roles) {
		case 0:
			s.role = "?unused"
		case 1:
			s.role = roles[0]
		default:
			s.role = "?ambiguous " + strings.Join(roles, ",")
		}
	}
	for _, b := range fn.Blocks {
		for _, in := range b.Instrs {
			switch x := in.(type) {
			case *ssa.Call:
				w := c26BinaryWidth(calleeName(&x.Call), "Uint")
				if w == 0 {
					continue
				}
				sl, ok := x.Call.Args[1].(*ssa.Slice)
				if !ok {
					problems = append(problems, "Uint source is not a constant slice at "+c.P.InstrPos(in))
					continue
				}
				off, ok := c26ConstInt(sl.Low)
				if !ok {
					problems = append(problems, "Uint offset is not constant at "+c.P.InstrPos(in))
					continue
				}
				s := c26Slot{off: off, width: w, pos: c.P.InstrPos(in)}
				classify(x, &s)
				slots = append(slots, s)
			case *ssa.UnOp:
				ia, ok := x.X.(*ssa.IndexAddr)
				if !ok || x.Op != token.MUL {
					continue
				}
				if _, isParam := ia.X.(*ssa.Parameter); !isParam {
					continue
				}
				off, ok := c26ConstInt(ia.Index)
				if !ok {
					problems = append(problems, "indexed read with a non-constant offset at "+c.P.InstrPos(in))
					continue
				}
				s := c26Slot{off: off, width: 1, pos: c.P.InstrPos(in)}
				classify(x, &s)
				slots = append(slots, s)
			}
		}
	}
	return
}

func dedupAll(in []string) []string {
	seen := map[string]bool{}
	var out []string
	for _, s := range in {
		if !seen[s] {
			seen[s] = true
			out = append(out, s)
		}
	}
	sort.Strings(out)
	return out
}

func (c *Ctx) c26Wire(rule string, enc, dec *ssa.Function, structName string) {
	if enc == nil || dec == nil {
		return
	}
	T := c.lookupType(structName)
	if T == nil {
		c.add("anchor", "anchor", structName, Undecided, "", "struct not found")
		return
	}
	es, size, eprob := c.c26EncodeSlots(enc, T)
	ds, dprob := c.c26DecodeSlots(dec, T)
	for _, p := range append(eprob, dprob...) {
		c.add("wire", rule, "unreadable:"+p, Undecided, "", "the fixed-offset extractor cannot read this codec statement any more: "+p)
	}
	sort.Slice(es, func(i, j int) bool { return es[i].off < es[j].off })
	// merge decode reads of the same slot
	dmap := map[[2]int]*c26Slot{}
	for i := range ds {
		k := [2]int{ds[i].off, ds[i].width}
		if old, ok := dmap[k]; ok {
			if old.role != ds[i].role && !strings.HasPrefix(ds[i].role, "?unused") {
				if strings.HasPrefix(old.role, "?unused") {
					old.role = ds[i].role
				} else {
					old.role = "?ambiguous " + old.role + "," + ds[i].role
				}
			}
			old.cmp = append(old.cmp, ds[i].cmp...)
			continue
		}
		dmap[k] = &ds[i]
	}
	// tiling
	next := 0
	tiling := ""
	for _, s := range es {
		if s.off != next {
			tiling = fmt.Sprintf("encoder slot at offset %d follows a slot ending at %d (gap or overlap)", s.off, next)
			break
		}
		next = s.off + s.width
	}
	if tiling == "" && next != size {
		tiling = fmt.Sprintf("encoder slots end at %d, header array has %d bytes", next, size)
	}
	if tiling != "" {
		c.add("wire", rule, "tiling:"+c.P.Name(enc), Violated, c.P.Pos(enc.Pos()), tiling)
	} else {
		c.add("wire", rule, "tiling:"+c.P.Name(enc), Held, c.P.Pos(enc.Pos()), fmt.Sprintf("%d encoder slots tile [0,%d) without gap or overlap", len(es), size))
	}
	// slot agreement
	seenFields := map[string]bool{}
	matched := map[[2]int]bool{}
	retNil := instrsMatching(dec, RetNil{})
	for _, s := range es {
		construct := fmt.Sprintf("slot:%s", strings.TrimPrefix(s.role, "field:"))
		if strings.HasPrefix(s.role, "const:") {
			construct = fmt.Sprintf("slot:const@%d", s.off)
		}
		if strings.HasPrefix(s.role, "?") {
			c.add("wire", rule, construct, Undecided, s.pos, fmt.Sprintf("encoder writes %d byte(s) at offset %d from a value that is neither a Header field nor a constant: %s", s.width, s.off, s.role))
			continue
		}
		if strings.HasPrefix(s.role, "field:") {
			seenFields[strings.TrimPrefix(s.role, "field:")] = true
		}
		d := dmap[[2]int{s.off, s.width}]
		if d == nil {
			c.add("wire", rule, construct, Violated, s.pos, fmt.Sprintf("encoder writes %s as %d byte(s) at offset %d but the decoder has no read of that offset and width", s.role, s.width, s.off))
			continue
		}
		matched[[2]int{s.off, s.width}] = true
		if d.role != s.role {
			c.add("wire", rule, construct, Violated, d.pos, fmt.Sprintf("offset %d width %d: encoder writes %s, decoder uses it as %s", s.off, s.width, s.role, d.role))
			continue
		}
		if strings.HasPrefix(s.role, "const:") {
			// the decoder must reject any other value: success returns only across an equality edge
			removed := map[edge]bool{}
			for _, cmp := range d.cmp {
				for e := range c26EdgesOn(dec, cmp, cmp.Op == token.EQL) {
					removed[e] = true
				}
			}
			limit := c26Reach(dec, removed, nil)
			bad := ""
			for _, r := range retNil {
				if lim, ok := limit[r.Block()]; ok && indexIn(r.Block(), r) < lim {
					bad = c.P.InstrPos(r)
				}
			}
			if bad != "" || len(retNil) == 0 {
				c.add("wire", rule, construct, Violated, d.pos, fmt.Sprintf("offset %d width %d is written as constant %s but the decoder can return success (%s) without having compared it equal", s.off, s.width, s.role, bad))
				continue
			}
		}
		c.add("wire", rule, construct, Held, s.pos, fmt.Sprintf("offset %d width %d role %s agrees in encoder and decoder", s.off, s.width, s.role))
	}
	for k, d := range dmap {
		if !matched[k] {
			c.add("wire", rule, fmt.Sprintf("decoder-only@%d", k[0]), Violated, d.pos, fmt.Sprintf("decoder reads %d byte(s) at offset %d (%s) that the encoder never writes with that offset and width", k[1], k[0], d.role))
		}
	}
	var missing []string
	for _, f := range structFields(T) {
		if !seenFields[f] {
			missing = append(missing, f)
		}
	}
	if len(missing) > 0 {
		c.add("wire", rule, "fields:"+structName, Violated, c.P.Pos(enc.Pos()), fmt.Sprintf("Header field(s) %v are not encoded", missing))
	} else {
		c.add("wire", rule, "fields:"+structName, Held, c.P.Pos(enc.Pos()), "every Header field has an encoder slot")
	}
}

// ---------------------------------------------------------------------------

func c26(c *Ctx) {
	const wire = "pkg/transport/wire"
	const core = "pkg/transport/internal/core"
	const rpc = "pkg/transport/internal/rpc"
	const conn = "pkg/transport/internal/conn"

	enc := c.Fn(wire + ".EncodeHeader")
	dec := c.Fn(wire + ".DecodeHeader")

	// R1 — encoder/decoder sibling agreement on the fixed-offset header
	c.c26Wire("R1-wire", enc, dec, wire+".Header")
	c.Min("R1-wire", 11) // tiling + 9 slots + field coverage
	app := c.Fn(wire + ".AppendFrame")
	c.StoreShape("R1-bodylen", app, "*.BodyLen", "len(*OwnedBuffer.Bytes(frame.Body))")
	c.Guard("R1-bodylen", app, CallTo{wire + ".EncodeHeader"}, "*.validateOutboundHeader(*, maxBodyBytes) == nil", "len(*OwnedBuffer.Bytes(frame.Body)) <= 4294967295")

	// R2 — DecodeHeader succeeds only behind every validation
	hs := c.c26Const(wire, "HeaderSize")
	c.Guard("R2-decode", dec, RetNil{},
		"len(encoded) >= "+hs,
		"*.FrameKind.Valid(*.Kind) == true",
		"*.Priority.Validate(*.Priority) == nil",
		"!*.bodyExceedsMax(*.BodyLen, maxBodyBytes)",
	)
	c.Guard("R2-decode", dec, OneOf{CallTo{"encoding/binary.bigEndian.Uint*"}, InstrFn{"encoded[k]", func(in ssa.Instruction) bool {
		u, ok := in.(*ssa.UnOp)
		if !ok || u.Op != token.MUL {
			return false
		}
		ia, ok := u.X.(*ssa.IndexAddr)
		if !ok {
			return false
		}
		_, isParam := ia.X.(*ssa.Parameter)
		return isParam
	}}}, "len(encoded) >= "+hs)
	// the outbound side applies the same three semantic checks
	c.Guard("R2-decode", c.Fn(wire+".validateOutboundHeader"), RetNil{},
		"*.FrameKind.Valid(*.Kind) == true",
		"*.Priority.Validate(*.Priority) == nil",
		"!*.bodyExceedsMax(*.BodyLen, maxBodyBytes)",
	)

	// bodyExceedsMax: false only for 0 <= max and bodyLen <= max
	bem := c.Fn(wire + ".bodyExceedsMax")
	c.Guard("R2-bodymax", bem, RetNot{0, []string{"true"}}, "maxBodyBytes >= 0")
	c.GuardOpt("R2-bodymax", bem, RetNot{0, []string{"true", "(bodyLen > maxBodyBytes)", "(maxBodyBytes < bodyLen)"}}, GuardOpts{AllowZero: true}, "bodyLen <= maxBodyBytes")
	c.Guard("R2-bodymax", c.Fn(wire+".bodyLenToInt"), RetNil{}, "bodyLen <= *")

	// Kind / Priority validity predicates
	klo, khi := c.c26EnumRange(core, "FrameKind")
	plo, phi := c.c26EnumRange(core, "Priority")
	c.GuardTrue("R2-valid", c.Fn(core+".FrameKind.Valid"), 0, "k >= "+klo, "k <= "+khi)
	c.GuardTrue("R2-valid", c.Fn(core+".Priority.Valid"), 0, "p >= "+plo, "p <= "+phi)
	c.Guard("R2-valid", c.Fn(core+".Priority.Validate"), RetNil{}, "*.Priority.Valid(p) == true")

	// ReadFrame: allocation only after validation, released on the error exit
	rf := c.Fn(wire + ".ReadFrame")
	alloc := OneOf{CallTo{"pkg/transport/internal/buffer.*"}, InstrFn{"make([]T, n)", func(in ssa.Instruction) bool {
		_, ok := in.(*ssa.MakeSlice)
		return ok
	}}}
	c.Guard("R2-readframe", rf, alloc,
		"io.ReadFull(*)#1 == nil",
		"*.DecodeHeader(*, maxBodyBytes)#1 == nil",
		"*.bodyLenToInt(*.BodyLen)#1 == nil",
	)
	c.CallShape("R2-readframe", rf, "pkg/transport/internal/buffer.*", "*.SlabPool.Get(*, "+wire+".bodyLenToInt(*.BodyLen)#0)")
	c.Guard("R2-readframe", rf, RetNil{}, "io.ReadFull(*OwnedBuffer.Bytes(*))#1 == nil || *OwnedBuffer.Len(*) <= 0")
	c.Pairing("R2-readframe", rf, CallTo{"*.SlabPool.Get"}, CallTo{"*.OwnedBuffer.Release"}, RetNil{})
	c.ConfineCalls("R2-readframe", wire+".DecodeHeader", 1, wire+".ReadFrame")

	// R3 — lock discipline of the pending table
	c.Lockset("R3-lock", LockSpec{Struct: rpc + ".pendingShard", Mutex: "mu", Fields: []string{"entries"}, ReadsToo: true,
		Exempt: []string{rpc + ".NewPendingTable"}}) // constructor: table not yet shared
	c.Lockset("R3-lock", LockSpec{Struct: rpc + ".PendingTable", Mutex: "closeMu", Fields: []string{"closed", "closeErr"}, ReadsToo: true})
	store := c.Fn(rpc + ".PendingTable.Store")
	insert := StoreTo{Addr: "*.entries[id]", Val: "ch"}
	c.SameSection("R3-admit", store, "p.closeMu", LoadOf{"p.closed"}, insert)
	c.Guard("R3-admit", store, insert, "!p.closed")
	c.ConfineStores("R3-admit", rpc+".PendingTable.closed", false, rpc+".PendingTable.FailAll")
	c.StoreShape("R3-admit", c.Fn(rpc+".PendingTable.FailAll"), "p.closed", "true")

	// R4 — Complete / FailAll
	comp := c.Fn(rpc + ".PendingTable.Complete")
	if comp != nil {
		// find the comma-ok lookup of entries[id]
		var lookup *ssa.Lookup
		n := 0
		for _, b := range comp.Blocks {
			for _, in := range b.Instrs {
				if l, ok := in.(*ssa.Lookup); ok && l.CommaOk && glob("*.entries[id]", Path(l)) {
					lookup = l
					n++
				}
			}
		}
		if n != 1 {
			c.add("shape", "R4-complete", c.P.Name(comp)+"#lookup", Undecided, c.P.Pos(comp.Pos()), fmt.Sprintf("expected exactly one comma-ok lookup of entries[id], found %d", n))
		} else {
			var okVal ssa.Value
			for _, r := range *lookup.Referrers() {
				if ex, isEx := r.(*ssa.Extract); isEx && ex.Index == 1 {
					okVal = ex
				}
			}
			send := CallTo{rpc + ".trySend"}
			isDelete := func(in ssa.Instruction) bool {
				return CallTo{"delete(*.entries, id)"}.Match(in)
			}
			if okVal == nil {
				c.add("shape", "R4-complete", c.P.Name(comp)+"#lookup", Undecided, c.P.InstrPos(lookup), "the ok result of the lookup is never used")
			} else {
				// on executions where ok is true (all branches on that same SSA value take
				// the true side) every path to the send passes the delete
				c.c26MustPass("guard", "R4-complete", comp, send, c26EdgesOn(comp, okVal, false), isDelete, "delete(entries, id) on the ok==true executions")
				// … and no send at all when ok is false
				c.c26MustPass("guard", "R4-complete", comp, send, c26EdgesOn(comp, okVal, true), nil, "the ok==true edge of the lookup")
				c.c26MustPass("guard", "R4-complete", comp, Ret{0, "true"}, c26EdgesOn(comp, okVal, true), nil, "the ok==true edge of the lookup")
			}
			c.SameSection("R4-complete", comp, "*.mu", InstrFn{"lookup entries[id]", func(in ssa.Instruction) bool { return in == ssa.Instruction(lookup) }}, CallTo{"delete(*.entries, id)"})
		}
		c.CallShape("R4-complete", comp, rpc+".trySend", rpc+".trySend(*.entries[id]#0, resp)")
		c.CallShape("R4-complete", comp, "delete", "delete(*.entries, id)")
	}
	c.CallShape("R4-complete", c.Fn(rpc+".PendingTable.Delete"), "delete", "delete(*.entries, id)")
	c.c26RetShape("R4-complete", c.Fn(rpc+".PendingTable.shardFor"), 0, "p.shards[(id & p.mask)]")
	fail := c.Fn(rpc + ".PendingTable.FailAll")
	c.StoreShape("R4-failall", fail, "*.entries", "make(map)")
	c.c26Held("R4-failall", fail, StoreTo{Addr: "*.entries", Val: "make(map)"}, "p.closeMu", 'W')
	c.c26FailAllClosed("R4-failall", fail)
	c.CallShape("R4-failall", fail, rpc+".trySend", rpc+".trySend(next(range(*.entries))#2, *)")
	c.ConfineStores("R4-failall", rpc+".pendingShard.entries", false, rpc+".PendingTable.FailAll", rpc+".NewPendingTable")
	c.ConfineCalls("R4-callers", rpc+".trySend", 3, rpc+".PendingTable.Store", rpc+".PendingTable.Complete", rpc+".PendingTable.FailAll")
	c.ConfineCalls("R4-callers", rpc+".PendingTable.Complete", 3, conn+".Conn.handleRPCResponse")
	c.ConfineCalls("R4-callers", rpc+".PendingTable.Store", 1, conn+".Conn.Call")
	c.CallShape("R4-callers", c.Fn(conn+".Conn.handleRPCResponse"), rpc+".PendingTable.Complete", rpc+".PendingTable.Complete(c.pending, frame.Header.RequestID, *)")

	// R5 — request ids
	call := c.Fn(conn + ".Conn.Call")
	sites := c.AtomicOps("R5-ids", conn+".Conn.nextRequestID", []string{"Add"}, nil)
	if call != nil {
		n := 0
		for _, s := range sites {
			if s.fn == call && s.method == "Add" {
				n++
			}
		}
		construct := c.P.Name(call) + "#one-id-per-call"
		if n == 1 && len(sites) == 1 {
			c.add("shape", "R5-ids", construct, Held, c.P.Pos(call.Pos()), "exactly one nextRequestID.Add in Conn.Call and none elsewhere: equal renderings below denote one SSA value")
		} else {
			c.add("shape", "R5-ids", construct, Violated, c.P.Pos(call.Pos()), fmt.Sprintf("expected exactly one nextRequestID.Add, inside Conn.Call; found %d in Call and %d in total (a second id would decouple the frame id from the pending-table key)", n, len(sites)))
		}
		id := "sync/atomic.Uint64.Add(c.nextRequestID, 1)"
		c.CallShape("R5-ids", call, "sync/atomic.Uint64.Add", id)
		c.CallShape("R5-ids", call, rpc+".PendingTable.Store", rpc+".PendingTable.Store(c.pending, "+id+", *)")
		c.CallShape("R5-ids", call, rpc+".PendingTable.Delete", rpc+".PendingTable.Delete(c.pending, "+id+")")
		c.StoreShape("R5-ids", call, "outbound.RequestID", id)
		c.Guard("R5-ids", call, CallTo{conn + ".Conn.Send"}, "after: "+rpc+".PendingTable.Store")
		c.CallShape("R5-ids", call, conn+".Conn.Send", conn+".Conn.Send(c, ctx, outbound)")
		c.c26ResponseChannel("R5-ids", call, rpc+".PendingTable.Store")
	}
	c.c26FieldStoreShapes("R5-carry", conn+".Outbound.RequestID", 3, map[string][]string{
		conn + ".Conn.Call":      {"sync/atomic.Uint64.Add(c.nextRequestID, 1)"},
		"pkg/transport.Server.*": {"inbound.RequestID"},
	})
	c.c26FieldStoreShapes("R5-carry", conn+".Inbound.RequestID", 1, map[string][]string{
		conn + ".Conn.readLoop": {"*.Header.RequestID"},
	})
	c.StoreShape("R5-carry", c.Fn(conn+".Outbound.toFrame"), "*Header.RequestID", "o.RequestID")
	c.CallShape("R5-carry", c.Fn(conn+".Conn.writeOutboundBatch"), rpc+".PendingTable.Delete", rpc+".PendingTable.Delete(c.pending, *.RequestID)")
}

// c26FailAllClosed: every path of FailAll to the first shard swap either found
// closed already true or stored true (store barrier).
func (c *Ctx) c26FailAllClosed(rule string, fn *ssa.Function) {
	if fn == nil {
		return
	}
	g := parseGuard("p.closed == true")
	removed, _ := guardEdges(fn, g)
	c.c26MustPass("guard", rule, fn, StoreTo{Addr: "*.entries", Val: "make(map)"}, removed, func(in ssa.Instruction) bool {
		return StoreTo{Addr: "p.closed", Val: "true"}.Match(in)
	}, "p.closed already true or set true first")
}

// c26RetShape: every return of fn renders result idx as one of shapes.
func (c *Ctx) c26RetShape(rule string, fn *ssa.Function, idx int, shapes ...string) {
	if fn == nil {
		return
	}
	fname := c.P.Name(fn)
	construct := fmt.Sprintf("%s#retshape[%d]", fname, idx)
	all := instrsMatching(fn, AnyRet{})
	bad := instrsMatching(fn, RetNot{idx, shapes})
	switch {
	case len(all) == 0:
		c.add("shape", rule, construct, Undecided, c.P.Pos(fn.Pos()), "no return (vacuous)")
	case len(bad) > 0:
		c.add("shape", rule, construct, Violated, c.P.InstrPos(bad[0]), fmt.Sprintf("%s returns %s, expected one of %v", fname, Path(retOperand(bad[0].(*ssa.Return), idx)), shapes))
	default:
		c.add("shape", rule, construct, Held, c.P.Pos(fn.Pos()), fmt.Sprintf("%d return(s), all of shape %v", len(all), shapes))
	}
}

// c26Held: every instruction of fn matching eff executes with the mutex path
// matching muGlob held (mode 'W' = exclusively, 'R' = at least shared).
func (c *Ctx) c26Held(rule string, fn *ssa.Function, eff Effect, muGlob string, mode byte) {
	if fn == nil {
		return
	}
	fname := c.P.Name(fn)
	construct := fmt.Sprintf("%s#held(%s,%c):%s", fname, muGlob, mode, eff.String())
	effs := instrsMatching(fn, eff)
	if len(effs) == 0 {
		c.add("lockset", rule, construct, Undecided, c.P.Pos(fn.Pos()), "no instruction matches "+eff.String()+" (vacuous)")
		return
	}
	held := heldAt(fn, lockState{})
	var bad []string
	for _, e := range effs {
		ok := false
		for k, m := range held[e] {
			if glob(muGlob, k) && (mode == 'R' || m == 'W') {
				ok = true
			}
		}
		if !ok {
			bad = append(bad, fmt.Sprintf("%s (held: %s)", c.P.InstrPos(e), lsString(held[e])))
		}
	}
	if len(bad) > 0 {
		c.add("lockset", rule, construct, Violated, c.P.InstrPos(effs[0]), fmt.Sprintf("in %s %q executes without %s held in mode %c: %s", fname, eff.String(), muGlob, mode, strings.Join(bad, ", ")))
		return
	}
	c.add("lockset", rule, construct, Held, c.P.InstrPos(effs[0]), fmt.Sprintf("%d site(s), all with %s held in mode %c", len(effs), muGlob, mode))
}

// c26ResponseChannel: the channel registered with the pending table is a fresh
// buffered channel made in this call, and every receive in the function's
// selects is either on that same SSA value or on a Done() channel.
func (c *Ctx) c26ResponseChannel(rule string, fn *ssa.Function, storeCallee string) {
	construct := c.P.Name(fn) + "#response-channel"
	var ch ssa.Value
	n := 0
	for _, in := range instrsMatching(fn, CallTo{storeCallee}) {
		args := in.(ssa.CallInstruction).Common().Args
		ch = args[len(args)-1]
		n++
	}
	mk, ok := ch.(*ssa.MakeChan)
	if n != 1 || !ok {
		c.add("shape", rule, construct, Violated, c.P.Pos(fn.Pos()), "the channel passed to PendingTable.Store is not a channel made by this call (it could be shared with another call)")
		return
	}
	if size, ok := c26ConstInt(mk.Size); !ok || size < 1 {
		c.add("shape", rule, construct, Violated, c.P.InstrPos(mk), "the response channel is not created with a constant capacity >= 1 (trySend would drop the response)")
		return
	}
	recvs := 0
	for _, b := range fn.Blocks {
		for _, in := range b.Instrs {
			var chans []ssa.Value
			switch x := in.(type) {
			case *ssa.Select:
				for _, st := range x.States {
					chans = append(chans, st.Chan)
				}
			case *ssa.UnOp:
				if x.Op == token.ARROW {
					chans = append(chans, x.X)
				}
			}
			for _, v := range chans {
				if v == ssa.Value(mk) {
					recvs++
					continue
				}
				if call, ok := v.(*ssa.Call); ok && strings.HasSuffix(calleeName(&call.Call), ".Done") {
					continue
				}
				c.add("shape", rule, construct, Violated, c.P.InstrPos(in), "Conn.Call receives from "+Path(v)+", which is neither its own response channel nor a Done() channel")
				return
			}
		}
	}
	if recvs == 0 {
		c.add("shape", rule, construct, Violated, c.P.Pos(fn.Pos()), "Conn.Call never receives from the channel it registered")
		return
	}
	c.add("shape", rule, construct, Held, c.P.InstrPos(mk), fmt.Sprintf("fresh buffered channel registered once and received from at %d select arm(s); no other data channel is read", recvs))
}

// ---------------------------------------------------------------------------
// Path-sensitive typestate exploration (shared by C28/C37/C41).
//
// The shared guard engine is path-insensitive: a flag computed on one branch
// and tested later (`shouldSchedule`, `ok`, `needsSchedule`) looks like two
// independent branches. c26Explore walks (block, known-branch-facts, state)
// triples instead: the truth of every SSA boolean that a branch has tested is
// remembered until its defining block is re-entered, phis of boolean constants
// are evaluated along the incoming edge and phis of non-constant values are
// remembered as aliases, so a later test of the phi establishes the aliased
// comparison. A small user automaton (`step`, `onEdge`, `exit`) runs along.

const (
	c26Stop = -1000 // stop exploring this path (barrier reached)
	c26Bad  = -1    // violation at this instruction / edge
)

type c26TSpec struct {
	fn     *ssa.Function
	guard  *guardSpec                                       // edges that establish one of its atoms are not followed
	init   int                                              // automaton start state
	step   func(st int, in ssa.Instruction) int             // per instruction; c26Bad / c26Stop / new state
	onEdge func(st int, from *ssa.BasicBlock, succ int) int // per CFG edge taken (after pruning); may be nil
	exit   func(st int, ret *ssa.Return) bool               // true = violation at this return; may be nil
}

type c26TResult struct {
	bad      []ssa.Instruction
	states   int
	overflow bool
}

type c26Env struct {
	known map[ssa.Value]bool
	alias map[ssa.Value]ssa.Value
}

func (e c26Env) clone() c26Env {
	n := c26Env{map[ssa.Value]bool{}, map[ssa.Value]ssa.Value{}}
	for k, v := range e.known {
		n.known[k] = v
	}
	for k, v := range e.alias {
		n.alias[k] = v
	}
	return n
}

func (e c26Env) key() string {
	var parts []string
	for k, v := range e.known {
		parts = append(parts, fmt.Sprintf("%s=%v", k.Name(), v))
	}
	for k, v := range e.alias {
		parts = append(parts, fmt.Sprintf("%s~%s", k.Name(), v.Name()))
	}
	sort.Strings(parts)
	return strings.Join(parts, ",")
}

// c26StripNot returns the value under any number of boolean negations and whether the count is odd.
func c26StripNot(v ssa.Value) (ssa.Value, bool) {
	neg := false
	for {
		u, ok := v.(*ssa.UnOp)
		if !ok || u.Op != token.NOT {
			return v, neg
		}
		v, neg = u.X, !neg
	}
}

func c26IsBool(v ssa.Value) bool {
	b, ok := v.Type().Underlying().(*types.Basic)
	return ok && b.Info()&types.IsBoolean != 0
}

func c26DefinedIn(v ssa.Value, b *ssa.BasicBlock) bool {
	in, ok := v.(ssa.Instruction)
	return ok && in.Block() == b
}

// c26PredIndex: index in s.Preds of the edge that is the succIdx-th successor of b.
func c26PredIndex(b *ssa.BasicBlock, succIdx int) int {
	s := b.Succs[succIdx]
	occ := 0
	for i := 0; i < succIdx; i++ {
		if b.Succs[i] == s {
			occ++
		}
	}
	for i, p := range s.Preds {
		if p == b {
			if occ == 0 {
				return i
			}
			occ--
		}
	}
	return -1
}

func c26Explore(sp c26TSpec) c26TResult {
	var res c26TResult
	fn := sp.fn
	if fn == nil || len(fn.Blocks) == 0 {
		return res
	}
	type item struct {
		b   *ssa.BasicBlock
		env c26Env
		st  int
	}
	seen := map[string]bool{}
	badSeen := map[ssa.Instruction]bool{}
	markBad := func(in ssa.Instruction) {
		if !badSeen[in] {
			badSeen[in] = true
			res.bad = append(res.bad, in)
		}
	}
	var work []item
	push := func(b *ssa.BasicBlock, env c26Env, st int) {
		k := fmt.Sprintf("%d|%d|%s", b.Index, st, env.key())
		if seen[k] {
			return
		}
		seen[k] = true
		res.states++
		work = append(work, item{b, env, st})
	}
	push(fn.Blocks[0], c26Env{map[ssa.Value]bool{}, map[ssa.Value]ssa.Value{}}, sp.init)
	// enter computes the environment after taking edge b→succ.
	enter := func(b *ssa.BasicBlock, succIdx int, env c26Env) c26Env {
		s := b.Succs[succIdx]
		pi := c26PredIndex(b, succIdx)
		n := env.clone()
		type upd struct {
			phi   *ssa.Phi
			known *bool
			alias ssa.Value
		}
		var upds []upd
		for _, in := range s.Instrs {
			phi, ok := in.(*ssa.Phi)
			if !ok {
				break
			}
			if !c26IsBool(phi) || pi < 0 {
				continue
			}
			e := phi.Edges[pi]
			base, neg := c26StripNot(e)
			if k, ok := base.(*ssa.Const); ok && k.Value != nil && k.Value.Kind() == constant.Bool {
				v := constant.BoolVal(k.Value) != neg
				upds = append(upds, upd{phi: phi, known: &v})
			} else if kv, ok := env.known[base]; ok {
				v := kv != neg
				upds = append(upds, upd{phi: phi, known: &v})
			} else {
				upds = append(upds, upd{phi: phi, alias: e})
			}
		}
		for k := range n.known {
			if c26DefinedIn(k, s) {
				delete(n.known, k)
			}
		}
		for k, a := range n.alias {
			ab, _ := c26StripNot(a)
			if c26DefinedIn(k, s) || c26DefinedIn(ab, s) {
				delete(n.alias, k)
			}
		}
		for _, u := range upds {
			delete(n.known, u.phi)
			delete(n.alias, u.phi)
			if u.known != nil {
				n.known[u.phi] = *u.known
			} else if u.alias != nil {
				n.alias[u.phi] = u.alias
			}
		}
		return n
	}
	matches := func(a Atom) bool {
		if sp.guard == nil {
			return false
		}
		for _, spc := range sp.guard.atoms {
			if spc.Satisfies(a) {
				return true
			}
		}
		return false
	}
	for len(work) > 0 {
		if res.states > 60000 {
			res.overflow = true
			return res
		}
		it := work[len(work)-1]
		work = work[:len(work)-1]
		st := it.st
		stopped := false
		for _, in := range it.b.Instrs {
			if sp.step != nil {
				ns := sp.step(st, in)
				if ns == c26Bad {
					markBad(in)
					stopped = true
					break
				}
				if ns == c26Stop {
					stopped = true
					break
				}
				st = ns
			}
			if ret, ok := in.(*ssa.Return); ok && sp.exit != nil && sp.exit(st, ret) {
				markBad(in)
			}
		}
		if stopped || len(it.b.Instrs) == 0 {
			continue
		}
		last := it.b.Instrs[len(it.b.Instrs)-1]
		follow := func(succIdx int, env c26Env) {
			ns := st
			if sp.onEdge != nil {
				ns = sp.onEdge(st, it.b, succIdx)
				if ns == c26Bad {
					markBad(last)
					return
				}
				if ns == c26Stop {
					return
				}
			}
			push(it.b.Succs[succIdx], enter(it.b, succIdx, env), ns)
		}
		iff, isIf := last.(*ssa.If)
		if !isIf {
			for si := range it.b.Succs {
				follow(si, it.env)
			}
			continue
		}
		base, neg := c26StripNot(iff.Cond)
		if kv, ok := it.env.known[base]; ok {
			if kv != neg {
				follow(0, it.env)
			} else {
				follow(1, it.env)
			}
			continue
		}
		for si, truth := range []bool{true, false} {
			baseTruth := truth != neg
			pruned := false
			if a, ok := condAtom(iff.Cond, truth); ok && matches(a) {
				pruned = true
			}
			env := it.env.clone()
			env.known[base] = baseTruth
			if al, ok := it.env.alias[base]; ok {
				if a, ok := condAtom(al, baseTruth); ok && matches(a) {
					pruned = true
				}
				ab, aneg := c26StripNot(al)
				env.known[ab] = baseTruth != aneg
			}
			if pruned {
				continue
			}
			follow(si, env)
		}
	}
	return res
}

// c26SelectArm: if the edge from→Succs[succ] is the "case k was chosen" edge of a
// select statement, return the select and k.
func c26SelectArm(from *ssa.BasicBlock, succ int) (*ssa.Select, int, bool) {
	if succ != 0 || len(from.Instrs) == 0 {
		return nil, 0, false
	}
	iff, ok := from.Instrs[len(from.Instrs)-1].(*ssa.If)
	if !ok {
		return nil, 0, false
	}
	bin, ok := iff.Cond.(*ssa.BinOp)
	if !ok || bin.Op != token.EQL {
		return nil, 0, false
	}
	ex, ok := bin.X.(*ssa.Extract)
	if !ok || ex.Index != 0 {
		return nil, 0, false
	}
	sel, ok := ex.Tuple.(*ssa.Select)
	if !ok {
		return nil, 0, false
	}
	k, ok := c26ConstInt(bin.Y)
	if !ok || k < 0 || k >= len(sel.States) {
		return nil, 0, false
	}
	return sel, k, true
}

// c26ArmIs: the edge is the chosen-arm edge of a select whose arm has the
// given direction and a channel whose path matches chanGlob.
func c26ArmIs(from *ssa.BasicBlock, succ int, send bool, chanGlob string) bool {
	sel, k, ok := c26SelectArm(from, succ)
	if !ok {
		return false
	}
	st := sel.States[k]
	if (st.Dir == types.SendOnly) != send {
		return false
	}
	return glob(chanGlob, Path(st.Chan))
}

// c26CallEdge: the edge is the `call == nil` (errNil) / `call != nil` edge, or for a
// bool call the true/false edge, of an If that tests the result of a call to calleeGlob.
// It returns (matched, outcome) where outcome is true for "== nil" / "true".
func c26CallEdge(from *ssa.BasicBlock, succ int, calleeGlob string) (bool, bool) {
	if len(from.Instrs) == 0 {
		return false, false
	}
	iff, ok := from.Instrs[len(from.Instrs)-1].(*ssa.If)
	if !ok {
		return false, false
	}
	truth := succ == 0
	base, neg := c26StripNot(iff.Cond)
	if neg {
		truth = !truth
	}
	isCall := func(v ssa.Value) bool {
		if ex, ok := v.(*ssa.Extract); ok {
			v = ex.Tuple
		}
		call, ok := v.(*ssa.Call)
		return ok && glob(calleeGlob, calleeName(&call.Call))
	}
	if bin, ok := base.(*ssa.BinOp); ok && (bin.Op == token.EQL || bin.Op == token.NEQ) {
		var other ssa.Value
		switch {
		case isCall(bin.X):
			other = bin.Y
		case isCall(bin.Y):
			other = bin.X
		default:
			return false, false
		}
		k, ok := other.(*ssa.Const)
		if !ok {
			return false, false
		}
		eq := truth == (bin.Op == token.EQL)
		if k.Value == nil { // nil
			return true, eq
		}
		if k.Value.Kind() == constant.Bool {
			return true, eq == constant.BoolVal(k.Value)
		}
		return false, false
	}
	if isCall(base) && c26IsBool(base) {
		return true, truth
	}
	return false, false
}

// c26Typestate runs an automaton and records one obligation.
func (c *Ctx) c26Typestate(rule, what string, sp c26TSpec, heldDetail string) {
	if sp.fn == nil {
		return
	}
	fname := c.P.Name(sp.fn)
	construct := fname + "#typestate:" + what
	res := c26Explore(sp)
	switch {
	case res.overflow:
		c.add("order", rule, construct, Undecided, c.P.Pos(sp.fn.Pos()), "path-sensitive exploration exceeded its state budget")
	case len(res.bad) > 0:
		var at []string
		for _, in := range res.bad {
			at = append(at, c.P.InstrPos(in))
		}
		sort.Strings(at)
		c.add("order", rule, construct, Violated, at[0], fmt.Sprintf("in %s a feasible path breaks the protocol %q at %s", fname, what, strings.Join(dedupAll(at), ", ")))
	default:
		c.add("order", rule, construct, Held, c.P.Pos(sp.fn.Pos()), fmt.Sprintf("%s (%d path states explored)", heldDetail, res.states))
	}
}

// c26GuardPS is Guard with the path-sensitive walker: every instruction matching
// eff is reachable only across an edge that establishes the guard (also through
// a phi-carried flag) or after one of its "after:" calls.
func (c *Ctx) c26GuardPS(rule string, fn *ssa.Function, eff Effect, guards ...string) {
	if fn == nil {
		return
	}
	fname := c.P.Name(fn)
	if len(instrsMatching(fn, eff)) == 0 {
		c.add("guard", rule, fname+"#"+eff.String(), Undecided, c.P.Pos(fn.Pos()), "no instruction matches the effect (vacuous)")
		return
	}
	for _, gs := range guards {
		g := parseGuard(gs)
		res := c26Explore(c26TSpec{fn: fn, guard: &g, step: func(st int, in ssa.Instruction) int {
			if eff.Match(in) {
				return c26Bad
			}
			if len(g.afters) > 0 {
				if ci, ok := in.(ssa.CallInstruction); ok {
					if _, isDefer := in.(*ssa.Defer); !isDefer {
						s := renderCall(ci.Common(), 0, nil)
						name := calleeName(ci.Common())
						for _, a := range g.afters {
							if glob(a, s) || (!strings.Contains(a, "(") && glob(a, name)) {
								return c26Stop
							}
						}
					}
				}
			}
			return st
		}})
		construct := fname + "#" + eff.String() + "⇐ps:" + gs
		switch {
		case res.overflow:
			c.add("guard", rule, construct, Undecided, c.P.Pos(fn.Pos()), "path-sensitive exploration exceeded its state budget")
		case len(res.bad) > 0:
			c.add("guard", rule, construct, Violated, c.P.InstrPos(res.bad[0]), fmt.Sprintf("effect %q in %s is reachable on a feasible path that never establishes %q", eff.String(), fname, gs))
		default:
			c.add("guard", rule, construct, Held, c.P.Pos(fn.Pos()), fmt.Sprintf("no feasible path reaches the effect without the guard (%d path states)", res.states))
		}
	}
}

// c26ChanOp describes one channel operation on a struct field.
type c26ChanOp struct {
	fn   *ssa.Function
	in   ssa.Instruction
	kind string // send | recv | close | len | cap
}

// c26ChanOps lists every send / receive / close on the channel stored in the
// given struct field (directly, through a select, or through a local copy).
func (c *Ctx) c26ChanOps(field string) []c26ChanOp {
	if c.Field(field) == nil {
		return nil
	}
	isField := func(v ssa.Value) bool {
		u, ok := v.(*ssa.UnOp)
		if !ok || u.Op != token.MUL {
			return false
		}
		fa, ok := u.X.(*ssa.FieldAddr)
		return ok && c26IsField(fa, field)
	}
	var out []c26ChanOp
	for _, fn := range c.P.AllFuncs {
		for _, b := range fn.Blocks {
			for _, in := range b.Instrs {
				switch x := in.(type) {
				case *ssa.Send:
					if isField(x.Chan) {
						out = append(out, c26ChanOp{fn, in, "send"})
					}
				case *ssa.UnOp:
					if x.Op == token.ARROW && isField(x.X) {
						out = append(out, c26ChanOp{fn, in, "recv"})
					}
				case *ssa.Select:
					for _, st := range x.States {
						if isField(st.Chan) {
							k := "recv"
							if st.Dir == types.SendOnly {
								k = "send"
							}
							out = append(out, c26ChanOp{fn, in, k})
						}
					}
				case *ssa.Call:
					if bi, ok := x.Call.Value.(*ssa.Builtin); ok && bi.Name() == "close" && len(x.Call.Args) == 1 && isField(x.Call.Args[0]) {
						out = append(out, c26ChanOp{fn, in, "close"})
					}
				}
			}
		}
	}
	return out
}

// c26ConfineChan: sends / receives / closes on the channel field happen only in the listed functions.
func (c *Ctx) c26ConfineChan(rule, field, kind string, min int, allowed ...string) {
	ops := c.c26ChanOps(field)
	construct := kind + ":" + field
	n := 0
	var bad []string
	where := map[string]int{}
	for _, op := range ops {
		if op.kind != kind {
			continue
		}
		n++
		name := c.P.Name(op.fn)
		where[name]++
		if !globAny(allowed, name) && !globAny(allowed, rootName(name)) {
			bad = append(bad, name+" at "+c.P.InstrPos(op.in))
		}
	}
	switch {
	case len(bad) > 0:
		c.add("confine", rule, construct, Violated, "", fmt.Sprintf("%s on %s outside %v: %s", kind, field, allowed, strings.Join(bad, "; ")))
	case n < min:
		c.add("confine", rule, construct, Undecided, "", fmt.Sprintf("%d %s site(s) found, hand-confirmed minimum %d", n, kind, min))
	default:
		c.add("confine", rule, construct, Held, "", fmt.Sprintf("%d %s site(s), all inside %v: %s", n, kind, allowed, countsString(where)))
	}
}

// c26MethodSites: calls of methods on the given struct field (receiver = &x.F), by method name.
func (c *Ctx) c26MethodSites(rule, field string, table map[string][]string) {
	sites := c.atomicSites(field)
	construct := "methods:" + field
	if len(sites) == 0 {
		c.add("confine", rule, construct, Undecided, "", "no method call on the field found (vacuous)")
		return
	}
	var bad []string
	counts := map[string]int{}
	for _, s := range sites {
		name := c.P.Name(s.fn)
		counts[s.method+"@"+name]++
		allowed, ok := table[s.method]
		if !ok || (!globAny(allowed, name) && !globAny(allowed, rootName(name))) {
			bad = append(bad, fmt.Sprintf("%s in %s at %s", s.method, name, c.P.InstrPos(s.call)))
		}
	}
	for m := range table {
		found := false
		for _, s := range sites {
			if s.method == m {
				found = true
			}
		}
		if !found {
			bad = append(bad, "no call of "+m+" at all")
		}
	}
	if len(bad) > 0 {
		sort.Strings(bad)
		c.add("confine", rule, construct, Violated, "", fmt.Sprintf("method calls on %s outside the table %v: %s", field, table, strings.Join(bad, "; ")))
		return
	}
	c.add("confine", rule, construct, Held, "", fmt.Sprintf("%d call(s), each method only in its listed functions: %s", len(sites), countsString(counts)))
}

// c26DeferInEntry: fn registers `defer callee(...)` (rendered call matches glob) in its entry block
// before any other call, so it runs on every exit including panics.
func (c *Ctx) c26DeferInEntry(rule string, fn *ssa.Function, callGlob string) {
	if fn == nil {
		return
	}
	fname := c.P.Name(fn)
	construct := fname + "#defer-first:" + callGlob
	for _, in := range fn.Blocks[0].Instrs {
		switch x := in.(type) {
		case *ssa.Defer:
			if (CallTo{callGlob}).Match(x) {
				c.add("order", rule, construct, Held, c.P.InstrPos(in), "deferred in the entry block before any other call: runs on every exit, including panics")
				return
			}
		case *ssa.Call, *ssa.Go:
			c.add("order", rule, construct, Violated, c.P.InstrPos(in), fmt.Sprintf("%s makes a call before (or without) registering defer %s", fname, callGlob))
			return
		}
	}
	c.add("order", rule, construct, Violated, c.P.Pos(fn.Pos()), fmt.Sprintf("%s does not register defer %s in its entry block", fname, callGlob))
}

// c26IsField: fa selects the field named by "pkg/path.T.F". The comparison is by
// (origin type, field name) so that it also works inside generic method bodies,
// where fields whose type mentions the type parameter are substituted copies.
func c26IsField(fa *ssa.FieldAddr, field string) bool {
	t := fa.X.Type()
	if p, ok := t.Underlying().(*types.Pointer); ok {
		t = p.Elem()
	}
	n, ok := t.(*types.Named)
	if !ok {
		return false
	}
	obj := n.Origin().Obj()
	if obj.Pkg() == nil {
		return false
	}
	return shortPkg(obj.Pkg().Path())+"."+obj.Name()+"."+fieldName(fa.X.Type(), fa.Field) == field
}

// c26FieldAccessConfined: every access (read or write) of the field is inside the listed functions.
func (c *Ctx) c26FieldAccessConfined(rule, field string, min int, allowed ...string) {
	if c.Field(field) == nil {
		return
	}
	n := 0
	var bad []string
	where := map[string]int{}
	for _, fn := range c.P.AllFuncs {
		for _, b := range fn.Blocks {
			for _, in := range b.Instrs {
				fa, ok := in.(*ssa.FieldAddr)
				if !ok || !c26IsField(fa, field) || isFreshAlloc(fa.X) {
					continue
				}
				n++
				name := c.P.Name(fn)
				where[name]++
				if !globAny(allowed, name) && !globAny(allowed, rootName(name)) {
					bad = append(bad, name+" at "+c.P.InstrPos(in))
				}
			}
		}
	}
	construct := "accesses:" + field
	switch {
	case len(bad) > 0:
		c.add("confine", rule, construct, Violated, "", fmt.Sprintf("field %s is accessed outside its owner functions %v: %s", field, allowed, strings.Join(bad, "; ")))
	case n < min:
		c.add("confine", rule, construct, Undecided, "", fmt.Sprintf("%d access(es) found, hand-confirmed minimum %d", n, min))
	default:
		c.add("confine", rule, construct, Held, "", fmt.Sprintf("%d access(es), all inside %v: %s", n, allowed, countsString(where)))
	}
}
