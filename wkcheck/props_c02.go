package main

import (
	"fmt"
	"go/types"
	"strings"

	"golang.org/x/tools/go/ssa"
)

const c02Msg = "pkg/db/message"
const c02Rep = "pkg/channel/replication"

func init() {
	const compatGo = "pkg/db/message/compat.go"
	const manifestGo = "pkg/db/message/proposal_manifest.go"
	const replaceGo = "pkg/db/message/recovery_replace.go"
	const adapterGo = "pkg/channel/replication/store_adapter.go"
	register(&PropSpec{
		ID:        "C02",
		Pkgs:      []string{"./pkg/db/message", "./pkg/channel/replication"},
		Technique: "static analysis: SSA edge-dominance guards addressed by field effect (every producer of a new durable proposal / an already-durable verdict / a persisted committed watermark), extended to boolean φ-conditions; monotone-store classification of Checkpoint.HW; per-iteration guards on validation loops; who-may-write confinement",
		Explain: "Decides the structural clauses behind replica-log agreement: (R1) every site in pkg/db/message that puts a proposal into preparedCommitRows.proposals (a NEW durable proposal) lies behind a predecessor proof (validateDurableProposalPredecessor == nil, or the three manifest.Previous{Index,Term,Digest} == previous.{Index,LeaderTerm,Digest} comparisons of the in-batch/recovery chain), behind an absence proof (server-allocated extension exactly at LEO, or validateDurableEntrySet(entries, commandPresent=false) == nil, or the per-entry 'present => corrupt' reads), behind entries[last].Digest == manifest.Digest and at base == LEO; every alreadyDurable = true lies behind the paired by-command/by-last sameDurableProposal tests and entry identity equality; a gap is reported as needFrom = LEO+1 only behind expectedBase > LEO; the predecessor/entry-set/pair validators themselves return success only behind all their comparisons. " +
			"(R2) loadDurableFrontierLocked and ReplaceRecoverySuffix: a frontier is returned only behind HW <= LEO and the manifest/tail identity equalities; the replacement is staged only behind current == req.Expected, Committed(old) <= KeepThrough <= LEO, req.Committed >= Committed(old), req.Committed <= final offset, and after the old suffix was staged for deletion. (R3) every store to Checkpoint.HW is a guarded raise, an enumerated decode/constructor, or the fenced replacement; the HW persisted with a proposal never exceeds the proposal's LEO and the checkpoint validators refuse regressions and HW > LEO. (R4) storeAdapter.Fetch returns proposals only for state == request.Expected and recoveryProposalsFromPage returns them only behind the per-entry index/identity checks, the predecessor link to request.Previous and sealed == manifest. (R5) validProbeEntryChain / validEntryIdentity / validateExactState compare every predecessor and tail field. (R6) Durable/NeedFrom outcomes cross the adapter and the exchange server only with LastOffset == manifest.LastOffset resp. 0 < NeedFrom <= LastOffset on a Conflict, and follower repair advances only after a durable reply. " +
			"NOT decided: equality of logs across replicas after arbitrary histories (needs the dynamic model), collision resistance / value correctness of the digests and of SealProposalManifest, the arithmetic step from (LEO <= base or LEO >= next) and LEO < next to LEO == base is stated as two separate edge facts, lock discipline (C07), behaviour of the in-memory store.",
		Run: c02,
		Mutants: []Mutant{
			{Name: "exact-append-skips-predecessor-proof", File: compatGo,
				Old:    "\tif err := s.validateDurableProposalPredecessor(manifest); err != nil {\n\t\treturn preparedCommitRows{}, toChannelError(err)\n\t}\n",
				New:    "",
				Expect: "C02/R1-new-proposal/*prepareExactAppendRecordsLocked*"},
			{Name: "fresh-arm-for-every-mode", File: compatGo,
				Old: "sequencedFresh := mode == AppendServerAllocatedMessageID && expectedBaseOffset == base", New: "sequencedFresh := expectedBaseOffset == base",
				Expect: "C02/R1-new-proposal/*prepareExactAppendRecordsLocked*"},
			{Name: "fresh-arm-anywhere-in-log", File: compatGo,
				Old: "sequencedFresh := mode == AppendServerAllocatedMessageID && expectedBaseOffset == base", New: "sequencedFresh := mode == AppendServerAllocatedMessageID && expectedBaseOffset <= base",
				Expect: "C02/R1-new-proposal/*prepareExactAppendRecordsLocked*"},
			{Name: "digest-check-dropped", File: compatGo,
				Old:    "\tif entries[len(entries)-1].Digest != manifest.Digest {\n\t\treturn preparedCommitRows{}, channel.ErrCorruptState\n\t}\n",
				New:    "",
				Expect: "C02/R1-new-proposal/*prepareExactAppendRecordsLocked*Digest*"},
			{Name: "replay-accepts-one-index-only", File: compatGo,
				Old: "if !commandPresent || !lastPresent || !sameDurableProposal(byCommand, proposal) || !sameDurableProposal(byLast, proposal) {\n\t\t\t\treturn", New: "if !commandPresent || !lastPresent || !sameDurableProposal(byCommand, proposal) || byLast.manifest.LastOffset != proposal.manifest.LastOffset {\n\t\t\t\treturn",
				Expect: "C02/R1-already-durable/*prepareExactAppendRecordsLocked*"},
			{Name: "overlap-accepted-as-new", File: compatGo,
				Old: "if base < expectedBaseOffset || (base > expectedBaseOffset && base < nextLEO) {", New: "if base < expectedBaseOffset {",
				Expect: "C02/R1-new-proposal/*prepareExactAppendRecordsLocked*"},
			{Name: "gap-reported-from-wrong-offset", File: compatGo,
				Old: "return preparedCommitRows{}, &exactAppendGapError{needFrom: base + 1}", New: "return preparedCommitRows{}, &exactAppendGapError{needFrom: expectedBaseOffset + 1}",
				Expect: "C02/R1-gap/*"},
			{Name: "adjacent-ignores-previous-digest", File: compatGo,
				Old: "manifest.PreviousTerm != previous.LeaderTerm || manifest.PreviousDigest != previous.Digest {\n\t\treturn preparedCommitRows{}, channel.ErrCorruptState", New: "manifest.PreviousTerm != previous.LeaderTerm {\n\t\treturn preparedCommitRows{}, channel.ErrCorruptState",
				Expect: "C02/R1-new-proposal/*prepareAdjacentExactAppendLocked*"},
			{Name: "adjacent-skips-durable-entry-probe", File: compatGo,
				Old: "if _, present, err := loadDurableEntryIdentityFrom(s.log.db.engine, s.log.key, entry.Index); err != nil || present {", New: "if _, present, err := loadDurableEntryIdentityFrom(s.log.db.engine, s.log.key, entry.Index); err != nil && present {",
				Expect: "C02/R1-new-proposal/*prepareAdjacentExactAppendLocked*"},
			{Name: "predecessor-ignores-term", File: manifestGo,
				Old: "previous.manifest.LeaderTerm != manifest.PreviousTerm || previous.manifest.Digest != manifest.PreviousDigest {", New: "previous.manifest.Digest != manifest.PreviousDigest {",
				Expect: "C02/R1-validators/*validateDurableProposalPredecessor*"},
			{Name: "entry-set-accepts-changed-identity", File: manifestGo,
				Old: "if !present || persisted != expected {", New: "if !present || persisted.Index != expected.Index {",
				Expect: "C02/R1-validators/*validateDurableEntrySet*"},
			{Name: "frontier-accepts-hw-above-leo", File: replaceGo,
				Old: "\tif checkpoint.HW > leo {\n\t\treturn DurableFrontier{}, Checkpoint{}, dberrors.ErrCorruptState\n\t}\n", New: "",
				Expect: "C02/R2-frontier/*loadDurableFrontierLocked*"},
			{Name: "replace-not-fenced-by-expected-frontier", File: replaceGo,
				Old: "if current != req.Expected || req.KeepThrough > current.LEO ||", New: "if req.KeepThrough > current.LEO ||",
				Expect: "C02/R2-replace/*"},
			{Name: "replace-cuts-below-committed", File: replaceGo,
				Old: "req.KeepThrough > current.LEO || req.KeepThrough < current.Committed ||", New: "req.KeepThrough > current.LEO ||",
				Expect: "C02/R2-replace/*"},
			{Name: "replace-lowers-committed", File: replaceGo,
				Old: "req.KeepThrough < current.Committed ||\n\t\treq.Committed < current.Committed {", New: "req.KeepThrough < current.Committed {",
				Expect: "C02/R*"},
			{Name: "recovery-chain-ignores-previous-term", File: replaceGo,
				Old: "if manifest.PreviousIndex != previous.Index || manifest.PreviousTerm != previous.LeaderTerm ||\n\t\t\tmanifest.PreviousDigest != previous.Digest {", New: "if manifest.PreviousIndex != previous.Index ||\n\t\t\tmanifest.PreviousDigest != previous.Digest {",
				Expect: "C02/R1-new-proposal/*prepareRecoveryReplacementLocked*"},
			{Name: "exact-checkpoint-lowers-hw", File: compatGo,
				Old: "\tif committed > checkpoint.HW {\n\t\tcheckpoint.HW = committed\n\t\tprepared.checkpoint = &checkpoint\n\t}", New: "\tif committed != checkpoint.HW {\n\t\tcheckpoint.HW = committed\n\t\tprepared.checkpoint = &checkpoint\n\t}",
				Expect: "C02/R3-hw/*"},
			{Name: "exact-checkpoint-above-proposal-leo", File: compatGo,
				Old: "if prepared == nil || committed > proposalLEO {", New: "if prepared == nil {",
				Expect: "C02/R3-hw/*prepareExactCheckpointLocked*"},
			{Name: "monotonic-check-allows-regression", File: "pkg/db/message/checkpoint.go",
				Old: "if checkpoint.HW < current.HW {", New: "if checkpoint.HW < current.HW && checkpoint.Epoch == current.Epoch {",
				Expect: "C02/R3-hw/*validateCheckpointMonotonicLocked*"},
			{Name: "fetch-serves-unfenced-state", File: adapterGo,
				Old: "\t\tif state != request.Expected {\n\t\t\tresults[index].Err = ch.ErrStaleMeta\n\t\t\tcontinue\n\t\t}\n", New: "",
				Expect: "C02/R4-fetch/*"},
			{Name: "page-first-entry-not-linked", File: adapterGo,
				Old: "if first.PreviousIndex != request.Previous.Index || first.PreviousTerm != request.Previous.LeaderTerm ||\n\t\tfirst.PreviousDigest != request.Previous.Digest {", New: "if first.PreviousIndex != request.Previous.Index || first.PreviousTerm != request.Previous.LeaderTerm {",
				Expect: "C02/R4-fetch/*recoveryProposalsFromPage*"},
			{Name: "page-manifest-not-resealed", File: adapterGo,
				Old: "if !ok || sealed != manifest || len(derived) != len(records)", New: "if !ok || sealed.LastOffset != manifest.LastOffset || len(derived) != len(records)",
				Expect: "C02/R4-fetch/*recoveryProposalsFromPage*"},
			{Name: "probe-chain-ignores-digest", File: adapterGo,
				Old: "if probed && (identity.PreviousIndex != previous.Index || identity.PreviousTerm != previous.LeaderTerm ||\n\t\t\tidentity.PreviousDigest != previous.Digest) {", New: "if probed && (identity.PreviousIndex != previous.Index || identity.PreviousTerm != previous.LeaderTerm) {",
				Expect: "C02/R5-chain/*validProbeEntryChain*"},
			{Name: "durable-result-with-other-offset", File: adapterGo,
				Old: "valid = valid && result.Err == nil && result.LastOffset == mutation.Manifest.LastOffset && result.NeedFrom == 0", New: "valid = valid && result.Err == nil && result.NeedFrom == 0",
				Expect: "C02/R6-outcomes/*normalizeMutationResult*"},
			{Name: "need-from-beyond-proposal", File: "pkg/channel/replication/exchange_server.go",
				Old: "if result.NeedFrom > 0 && result.NeedFrom <= mutation.Manifest.LastOffset {", New: "if result.NeedFrom > 0 {",
				Expect: "C02/R6-outcomes/*mapMutationResult*"},
			{Name: "repair-continues-after-non-durable-reply", File: "pkg/channel/replication/runtime.go",
				Old: "\t\t\t\tif !result.Status.Durable() {\n\t\t\t\t\treturn false\n\t\t\t\t}\n", New: "\t\t\t\t_ = result\n",
				Expect: "C02/R6-outcomes/*repairFromFrontier*"},
		},
	})
}

func c02Const(c *Ctx, pkg, name string) string {
	pk := c.P.Pkgs[pkg]
	if pk != nil {
		if k, ok := pk.Types.Scope().Lookup(name).(*types.Const); ok {
			return k.Val().ExactString()
		}
	}
	for _, sp := range c.P.SSA.AllPackages() {
		if sp.Pkg != nil && shortPkg(sp.Pkg.Path()) == pkg {
			if k, ok := sp.Pkg.Scope().Lookup(name).(*types.Const); ok {
				return k.Val().ExactString()
			}
		}
	}
	c.add("anchor", "anchor", pkg+"."+name, Undecided, "", "anchored constant not found")
	return "<missing:" + name + ">"
}

// ---------------------------------------------------------------------------
// guard engine extended to boolean φ-conditions

// c02PhiAlts: facts established on the `truth` edge of an If whose condition is a boolean φ (go/ssa's
// encoding of `x := a && b`, `valid = valid && c`, flags assigned in branches). The result is a list of
// alternatives, one per incoming φ-edge that can carry `truth`; each alternative is a conjunction of atoms:
//   - the φ itself ("phi(…) == true/false", rendered with Path);
//   - the incoming value X: atom(X == truth), or recursively the alternatives of an inner φ;
//   - the fact of the CFG edge that enters the φ's block from that predecessor, and the facts of the
//     unique-predecessor chain above it (the `a` of `a && b`; a chain step over another φ-condition with a
//     single alternative contributes all its atoms).
//
// Constant incoming values equal to !truth cannot be the reason and produce no alternative.
func c02PhiAlts(phi *ssa.Phi, truth bool, depth int) [][]Atom {
	val := "true"
	if !truth {
		val = "false"
	}
	self := mkAtom(Path(phi), "==", val)
	if depth > 6 {
		return [][]Atom{{self}}
	}
	var alts [][]Atom
	for i, e := range phi.Edges {
		if k, ok := e.(*ssa.Const); ok {
			if constString(k) == val {
				alts = append(alts, []Atom{self}) // constant of the same truth: nothing more is known on this alternative
			}
			continue
		}
		pred := phi.Block().Preds[i]
		chain := c02ChainAtoms(pred, phi.Block(), depth)
		if inner, ok := e.(*ssa.Phi); ok {
			for _, ia := range c02PhiAlts(inner, truth, depth+1) {
				alt := append([]Atom{self}, ia...)
				alts = append(alts, append(alt, chain...))
			}
			continue
		}
		alt := []Atom{self}
		if a, ok := condAtom(e, truth); ok {
			alt = append(alt, a)
		}
		alts = append(alts, append(alt, chain...))
	}
	return alts
}

// c02EdgeAtoms: facts established by taking the CFG edge from → to.
func c02EdgeAtoms(from, to *ssa.BasicBlock, depth int) []Atom {
	if len(from.Instrs) == 0 {
		return nil
	}
	iff, ok := from.Instrs[len(from.Instrs)-1].(*ssa.If)
	if !ok || (from.Succs[0] == to && from.Succs[1] == to) {
		return nil
	}
	truth := from.Succs[0] == to
	if phi, ok := iff.Cond.(*ssa.Phi); ok {
		if alts := c02PhiAlts(phi, truth, depth+1); len(alts) == 1 {
			return alts[0]
		}
		return nil
	}
	if a, ok := condAtom(iff.Cond, truth); ok {
		return []Atom{a}
	}
	return nil
}

// c02ChainAtoms: facts of the edge pred→blk and of the unique-predecessor chain above pred.
func c02ChainAtoms(pred, blk *ssa.BasicBlock, depth int) []Atom {
	atoms := c02EdgeAtoms(pred, blk, depth)
	b := pred
	for steps := 0; steps < 12 && len(b.Preds) == 1; steps++ {
		p := b.Preds[0]
		atoms = append(atoms, c02EdgeAtoms(p, b, depth)...)
		b = p
	}
	return atoms
}

func c02GuardEdges(fn *ssa.Function, g guardSpec) (map[edge]bool, []string) {
	edges, descr := guardEdges(fn, g)
	for _, b := range fn.Blocks {
		if len(b.Instrs) == 0 {
			continue
		}
		iff, ok := b.Instrs[len(b.Instrs)-1].(*ssa.If)
		if !ok {
			continue
		}
		phi, ok := iff.Cond.(*ssa.Phi)
		if !ok {
			continue
		}
		for si, truth := range []bool{true, false} {
			alts := c02PhiAlts(phi, truth, 0)
			if len(alts) == 0 {
				continue
			}
			all := true
			var why []string
			for _, alt := range alts {
				found := ""
				for _, a := range alt {
					for _, sp := range g.atoms {
						if found == "" && sp.Satisfies(a) {
							found = a.String()
						}
					}
				}
				if found == "" {
					all = false
					break
				}
				why = append(why, found)
			}
			if all {
				edges[edge{b, si}] = true
				descr = append(descr, "φ{"+strings.Join(dedup(why), " | ")+"}")
			}
		}
	}
	return edges, descr
}

// c02Guard is Ctx.Guard with the φ-aware edge finder.
func (c *Ctx) c02Guard(rule string, fn *ssa.Function, eff Effect, guards ...string) {
	if fn == nil {
		return
	}
	fname := c.P.Name(fn)
	c.FuncsAnalysed[fname] = true
	effs := instrsMatching(fn, eff)
	if len(effs) == 0 {
		c.add("guard", rule, fname+"#"+eff.String(), Undecided, c.P.Pos(fn.Pos()), "no instruction matches the effect (rule would be vacuous; the code moved or the effect shape changed)")
		return
	}
	for _, gs := range guards {
		g := parseGuard(gs)
		removed, descr := c02GuardEdges(fn, g)
		c.EdgesRemoved += len(removed)
		limit := reachUnguarded(fn, removed, g.afters)
		var bad []string
		for _, e := range effs {
			if lim, ok := limit[e.Block()]; ok && indexIn(e.Block(), e) < lim {
				bad = append(bad, c.P.InstrPos(e))
			}
		}
		construct := fname + "#" + eff.String() + "⇐" + gs
		if len(bad) == 0 {
			c.add("guard", rule, construct, Held, c.P.InstrPos(effs[0]), fmt.Sprintf("%d effect site(s); %d guard edge(s) removed [%s]; no unguarded path from entry", len(effs), len(removed), strings.Join(dedup(descr), "; ")))
		} else {
			why := "an entry→effect path avoids every matching guard edge"
			if len(removed) == 0 && len(g.afters) == 0 {
				why = "no branch in the function establishes the required fact"
			}
			c.add("guard", rule, construct, Violated, bad[0], fmt.Sprintf("effect %q in %s reachable without guard %q at %s: %s", eff.String(), fname, gs, strings.Join(bad, ", "), why))
		}
	}
}

// c02IterGuard: one full loop iteration only through a guard edge (φ-aware).
func (c *Ctx) c02IterGuard(rule string, fn *ssa.Function, guards ...string) {
	if fn == nil {
		return
	}
	fname := c.P.Name(fn)
	type loop struct{ head, body *ssa.BasicBlock }
	var loops []loop
	seenHead := map[*ssa.BasicBlock]bool{}
	for _, b := range fn.Blocks {
		for _, h := range b.Succs {
			if !h.Dominates(b) || seenHead[h] {
				continue
			}
			seenHead[h] = true
			for _, s := range h.Succs {
				if s != h && s.Dominates(b) {
					loops = append(loops, loop{h, s})
				}
			}
		}
	}
	for _, gs := range guards {
		g := parseGuard(gs)
		removed, descr := c02GuardEdges(fn, g)
		c.EdgesRemoved += len(removed)
		var bad []string
		relevant := 0
		var rel []loop
		for _, lp := range loops {
			for e := range removed {
				if lp.body.Dominates(e.from) {
					rel = append(rel, lp)
					break
				}
			}
		}
		for _, lp := range rel {
			// only the innermost loop around the check: an outer iteration may legitimately run the inner loop zero times
			inner := true
			for _, o := range rel {
				if o != lp && lp.body.Dominates(o.body) {
					inner = false
				}
			}
			if !inner {
				continue
			}
			relevant++
			seen := map[*ssa.BasicBlock]bool{lp.body: true}
			work := []*ssa.BasicBlock{lp.body}
			for len(work) > 0 {
				b := work[len(work)-1]
				work = work[:len(work)-1]
				if barrierIndex(b, g.afters) >= 0 {
					continue
				}
				for si, s := range b.Succs {
					if removed[edge{b, si}] {
						continue
					}
					if s == lp.head {
						bad = append(bad, c.P.InstrPos(b.Instrs[len(b.Instrs)-1]))
						continue
					}
					if !seen[s] && lp.body.Dominates(s) {
						seen[s] = true
						work = append(work, s)
					}
				}
			}
		}
		construct := fname + "#iteration⇐" + gs
		switch {
		case relevant == 0:
			c.add("guard", rule, construct, Violated, c.P.Pos(fn.Pos()), "no loop in "+fname+" establishes "+gs+" (the per-element check is gone)")
		case len(bad) > 0:
			c.add("guard", rule, construct, Violated, bad[0], fmt.Sprintf("in %s a loop iteration can complete without %q (back-edges at %s)", fname, gs, strings.Join(dedup(bad), ", ")))
		default:
			c.add("guard", rule, construct, Held, c.P.Pos(fn.Pos()), fmt.Sprintf("%d loop(s); %d guard edge(s) [%s]; no iteration completes without the guard", relevant, len(removed), strings.Join(dedup(descr), "; ")))
		}
	}
}

// c02FieldStores: effect matching stores to field `q` (pkg/path.T.F); nonNil drops stores of nil,
// val (optional glob) restricts the stored value.
func c02FieldStores(c *Ctx, q string, val string) (Effect, map[*ssa.Function]int) {
	fv := c.Field(q)
	per := map[*ssa.Function]int{}
	if fv == nil {
		return InstrFn{"store " + q, func(ssa.Instruction) bool { return false }}, per
	}
	match := func(in ssa.Instruction) bool {
		st, ok := in.(*ssa.Store)
		if !ok {
			return false
		}
		fa, ok := st.Addr.(*ssa.FieldAddr)
		if !ok || fieldVar(fa.X.Type(), fa.Field) != fv {
			return false
		}
		if k, ok := st.Val.(*ssa.Const); ok && k.Value == nil {
			return false
		}
		return val == "" || glob(val, Path(st.Val))
	}
	for _, fn := range c.P.AllFuncs {
		for _, b := range fn.Blocks {
			for _, in := range b.Instrs {
				if match(in) {
					per[fn]++
				}
			}
		}
	}
	name := "store " + q
	if val != "" {
		name += " = " + val
	}
	return InstrFn{name, match}, per
}

// c02Sites: the producers of an effect must be exactly the enumerated functions.
func c02Sites(c *Ctx, rule, what string, per map[*ssa.Function]int, want map[string]string) {
	var extra, missing []string
	got := map[string]bool{}
	for fn, n := range per {
		if n == 0 {
			continue
		}
		name := c.P.Name(fn)
		got[name] = true
		if _, ok := want[name]; !ok {
			extra = append(extra, name+" at "+c.P.Pos(fn.Pos()))
		}
	}
	for name := range want {
		if !got[name] {
			missing = append(missing, name)
		}
	}
	construct := "producers:" + what
	switch {
	case len(extra) > 0:
		c.add("confine", rule, construct, Violated, "", "a function outside the rule table produces "+what+" (it must get its own predecessor/absence proof obligations): "+strings.Join(extra, "; "))
	case len(missing) > 0:
		c.add("confine", rule, construct, Undecided, "", "enumerated producer(s) no longer produce "+what+": "+strings.Join(missing, ", "))
	default:
		c.add("confine", rule, construct, Held, "", fmt.Sprintf("%d producer function(s), all enumerated", len(got)))
	}
}

func c02(c *Ctx) {
	m := c02Msg + "."
	r := c02Rep + "."
	srvAlloc := c02Const(c, c02Msg, "AppendServerAllocatedMessageID")

	// =============================================================== R1 new durable proposals
	newProp, perP := c02FieldStores(c, m+"preparedCommitRows.proposals", "")
	c02Sites(c, "R1-new-proposal", "preparedCommitRows.proposals", perP, map[string]string{
		m + "ChannelStore.prepareExactAppendRecordsLocked":  "exact append at the durable frontier",
		m + "ChannelStore.prepareAdjacentExactAppendLocked": "exact append adjacent to a proposal staged in the same batch",
		m + "ChannelStore.prepareRecoveryReplacementLocked": "recovery replacement chain",
		m + "mergePreparedCommitRows":                       "concatenates already prepared items of one batch",
	})
	leo := "*.loadLEOLocked(*)#0"
	exact := c.Fn(m + "ChannelStore.prepareExactAppendRecordsLocked")
	lastDigest := "*deriveDurableProposalEntries(*)#0[*].Digest == *.Digest"
	cmdFlagA := "phi(false|*.loadDurableProposal(*encodeProposalByCommandKey(*))#1)"
	cmdFlagB := "phi(*.loadDurableProposal(*encodeProposalByCommandKey(*))#1|false)"
	c.c02Guard("R1-new-proposal", exact, newProp,
		"*validateDurableProposalManifest(manifest, expectedBaseOffset, len(records)) == nil",
		"*deriveDurableProposalEntries(manifest, records, *)#1 == true",
		lastDigest,
		// predecessor proof
		"*.validateDurableProposalPredecessor(s, manifest) == nil",
		// absence proof: (server-allocated ids AND extension exactly at LEO) OR the durable entry set is absent
		"mode == "+srvAlloc+" || *.validateDurableEntrySet(*) == nil",
		"expectedBaseOffset == "+leo+" || *.validateDurableEntrySet(*) == nil",
		"*.loadDurableProposal(*encodeProposalByLastKey(*))#1 == false || *.loadDurableProposal(*encodeProposalByCommandKey(*))#1 == true || phi(false|(expectedBaseOffset == *)) == true || expectedBaseOffset == "+leo,
		cmdFlagA+" == false || "+cmdFlagB+" == false",
		// position: no gap, no overlap with durable offsets
		"expectedBaseOffset <= "+leo,
		leo+" <= expectedBaseOffset || "+leo+" >= (expectedBaseOffset + len(records))",
		leo+" < (expectedBaseOffset + len(records))",
		"len(records) != 0",
		"*.prepareExactCheckpointLocked(*) == nil",
	)
	c.CallShape("R1-new-proposal", exact, "*.validateDurableEntrySet", "*(s, "+m+"deriveDurableProposalEntries(manifest, records, *)#0, "+m+"ChannelStore.loadDurableProposal(s, "+m+"encodeProposalByCommandKey(*manifest.CommandID))#1)")
	c.StoreShape("R1-new-proposal", exact, "*.entries", m+"deriveDurableProposalEntries(manifest, records, *)#0")
	c.StoreShape("R1-new-proposal", exact, "*durableProposalRecord.manifest", "manifest")
	c.StoreShape("R1-new-proposal", exact, "*.nextLEO", "(expectedBaseOffset + len(records))")
	c.StoreShape("R1-new-proposal", exact, "*.baseOffset", "expectedBaseOffset")

	adj := c.Fn(m + "ChannelStore.prepareAdjacentExactAppendLocked")
	c.c02Guard("R1-new-proposal", adj, newProp,
		"*validateDurableProposalManifest(*, item.ExpectedBaseOffset, len(item.Records)) == nil",
		"*deriveDurableProposalEntries(*)#1 == true",
		lastDigest,
		// predecessor proof against the proposal staged just before in the same batch
		"previous.Index == item.ExpectedBaseOffset",
		"*.PreviousIndex == previous.Index",
		"*.PreviousTerm == previous.LeaderTerm",
		"*.PreviousDigest == previous.Digest",
		// absence proof: not staged in this batch, not durable
		"stagedCommands[*.CommandID]#1 == false",
		"stagedLast[*.LastOffset]#1 == false",
		"*.loadDurableProposal(*encodeProposalByCommandKey(*))#2 == nil",
		"*.loadDurableProposal(*encodeProposalByCommandKey(*))#1 == false",
		"*.loadDurableProposal(*encodeProposalByLastKey(*))#2 == nil",
		"*.loadDurableProposal(*encodeProposalByLastKey(*))#1 == false",
		"* >= len(*deriveDurableProposalEntries(*)#0)",
	)
	c.c02IterGuard("R1-new-proposal", adj,
		"stagedEntries[*.Index]#1 == false || after: "+m+"ChannelStore.prepareExactCheckpointLocked",
		"*loadDurableEntryIdentityFrom(*)#2 == nil || after: "+m+"ChannelStore.prepareExactCheckpointLocked",
		"*loadDurableEntryIdentityFrom(*)#1 == false || after: "+m+"ChannelStore.prepareExactCheckpointLocked",
	)
	c.c02Guard("R1-new-proposal", adj, RetNil{}, "*.prepareExactCheckpointLocked(*) == nil")
	c.StoreShape("R1-new-proposal", adj, "*preparedCommitRows.entries", m+"deriveDurableProposalEntries(*)#0")
	c.StoreShape("R1-new-proposal", adj, "*preparedCommitRows.baseOffset", "item.ExpectedBaseOffset")

	rec := c.Fn(m + "ChannelStore.prepareRecoveryReplacementLocked")
	c.c02Guard("R1-new-proposal", rec, newProp,
		"*validateDurableProposalManifest(*, phi(req.KeepThrough|*.LastOffset), len(*.Records)) == nil",
		"*deriveDurableProposalEntries(*)#1 == true",
		lastDigest,
		"len(*deriveDurableProposalEntries(*)#0) != 0",
		"*.PreviousIndex == *.Index",
		"*.PreviousTerm == *.LeaderTerm",
		"*.PreviousDigest == *.Digest",
		"make(map)[*.CommandID]#1 == false",
		"make(map)[*.LastOffset]#1 == false",
		"*.validateRecoveryProposalKeyReuse(s, *, req.KeepThrough) == nil",
		"req.KeepThrough <= 0 || *loadDurableEntryIdentityFrom(*, req.KeepThrough)#1 == true",
		"req.KeepThrough <= 0 || *loadDurableEntryIdentityFrom(*, req.KeepThrough)#2 == nil",
	)
	c.c02IterGuard("R1-new-proposal", rec, "*.PreviousDigest == *.Digest", "*.validateRecoveryProposalKeyReuse(*) == nil", lastDigest)
	kr := c.Fn(m + "ChannelStore.validateRecoveryProposalKeyReuse")
	c.c02Guard("R1-new-proposal", kr, RetNil{},
		"*.loadDurableProposal(*encodeProposalByCommandKey(*))#2 == nil", "*.loadDurableProposal(*encodeProposalByLastKey(*))#2 == nil",
		"*.loadDurableProposal(*encodeProposalByCommandKey(*))#1 == false || *.manifest.LastOffset > keepThrough",
		"*.loadDurableProposal(*encodeProposalByLastKey(*))#1 == false || *.manifest.LastOffset > keepThrough")

	// --------------------------------------------------------------- already durable
	already, perA := c02FieldStores(c, m+"preparedCommitRows.alreadyDurable", "true")
	c02Sites(c, "R1-already-durable", "preparedCommitRows.alreadyDurable = true", perA, map[string]string{
		m + "ChannelStore.prepareExactAppendRecordsLocked": "exact replay of a durable proposal",
		m + "ChannelStore.prepareStagedExactReplayLocked":  "exact replay of a proposal staged in the same batch",
	})
	// the server-allocated fresh arm, whether written as a flag (φ) or inlined into the if
	fresh := "phi(false|(expectedBaseOffset == *)) == true || expectedBaseOffset == " + leo
	cmdAbsent := "*.loadDurableProposal(*encodeProposalByCommandKey(*))#1 == false"
	c.c02Guard("R1-already-durable", exact, already,
		cmdFlagA+" == true || "+cmdFlagB+" == true",
		"*.loadDurableProposal(*encodeProposalByCommandKey(*))#1 == true",
		"*sameDurableProposal(*encodeProposalByCommandKey(*)#0, *) == true || "+cmdAbsent+" || "+fresh,
		"*sameDurableProposal(*encodeProposalByLastKey(*)#0, *) == true || "+cmdAbsent+" || "+fresh,
		"*.loadDurableProposal(*encodeProposalByLastKey(*))#1 == true || "+cmdAbsent+" || "+fresh,
		"*.validateDurableEntrySet(*) == nil || "+fresh,
		leo+" >= (expectedBaseOffset + len(records))",
		lastDigest,
		"*.prepareExactCheckpointLocked(*) == nil",
	)
	staged := c.Fn(m + "ChannelStore.prepareStagedExactReplayLocked")
	c.c02Guard("R1-already-durable", staged, RetNil{},
		"*validateDurableProposalManifest(*) == nil",
		"*deriveDurableProposalEntries(*)#1 == true",
		lastDigest,
		"stagedCommands[*.CommandID]#1 == true",
		"stagedLast[*.LastOffset]#1 == true",
		"*sameDurableProposal(stagedCommands[*]#0, *) == true",
		"*sameDurableProposal(stagedLast[*]#0, *) == true",
		"* >= len(*deriveDurableProposalEntries(*)#0)",
		"*.prepareExactCheckpointLocked(*) == nil",
	)
	c.c02IterGuard("R1-already-durable", staged, "stagedEntries[*.Index]#1 == true", "stagedEntries[*.Index]#0 == *")
	c.GuardTrue("R1-already-durable", c.Fn(m+"sameDurableProposal"), 0, "left == right")

	// --------------------------------------------------------------- gap
	gap := StoreTo{Addr: "*exactAppendGapError.needFrom"}
	c.c02Guard("R1-gap", exact, gap, "expectedBaseOffset > "+leo)
	c.StoreShape("R1-gap", exact, "*exactAppendGapError.needFrom", "("+m+"ChannelLog.loadLEOLocked(s.log, ctx)#0 + 1)")
	owner := c.Fn(m + "storeAppendBatchOwner")
	c.c02Guard("R1-gap", owner, gap, "*.ExpectedBaseOffset > *")
	c.ConfineStores("R1-gap", m+"exactAppendGapError.needFrom", true, m+"ChannelStore.prepareExactAppendRecordsLocked", m+"storeAppendBatchOwner")
	c.c02Guard("R1-gap", owner, StoreTo{Addr: "*.NeedFrom"}, "errors.As(*) == true")
	c.c02Guard("R1-gap", owner, CallTo{m + "ChannelStore.prepareAdjacentExactAppendLocked"}, "*.ExpectedBaseOffset <= *", "*.ExpectedBaseOffset > *.loadLEOLocked(*)#0")
	c.c02Guard("R1-gap", owner, CallTo{m + "ChannelStore.prepare*Exact*"}, "*.ExactBaseOffset == true")

	// --------------------------------------------------------------- validators
	pred := c.Fn(m + "ChannelStore.validateDurableProposalPredecessor")
	base0 := "manifest.BaseOffset == 0 || "
	pair := "*loadDurableProposalPairByLast(*, manifest.BaseOffset)"
	tail := "*loadDurableEntryIdentityFrom(*, manifest.BaseOffset)"
	c.c02Guard("R1-validators", pred, RetNil{},
		base0+pair+"#2 == nil", base0+pair+"#1 == true",
		base0+"*.manifest.LastOffset == manifest.BaseOffset",
		base0+"*.manifest.LeaderTerm == manifest.PreviousTerm",
		base0+"*.manifest.Digest == manifest.PreviousDigest",
		base0+tail+"#2 == nil", base0+tail+"#1 == true",
		base0+"*.Index == *.manifest.LastOffset",
		base0+"*.ChannelEpoch == *.manifest.ChannelEpoch",
		base0+"*.LeaderTerm == *.manifest.LeaderTerm",
		base0+"*.FenceVersion == *.manifest.FenceVersion",
		base0+"*.CommandID == *.manifest.CommandID",
		base0+"*.Digest == *.manifest.Digest",
	)
	es := c.Fn(m + "ChannelStore.validateDurableEntrySet")
	c.c02Guard("R1-validators", es, RetNil{}, "* >= len(entries)")
	ident := "*loadDurableEntryIdentityFrom(*, *.Index)"
	c.c02IterGuard("R1-validators", es,
		ident+"#2 == nil",
		"mustExist == true || "+ident+"#1 == false",
		"mustExist == false || "+ident+"#1 == true",
		"mustExist == false || "+ident+"#0 == *",
	)
	pl := c.Fn(m + "loadDurableProposalPairByLast")
	c.c02Guard("R1-validators", pl, Ret{1, "true"},
		"*loadDurableProposalFrom(*encodeProposalByLastKey(*))#2 == nil", "*loadDurableProposalFrom(*encodeProposalByLastKey(*))#1 == true",
		"*loadDurableProposalFrom(*encodeProposalByCommandKey(*))#2 == nil", "*loadDurableProposalFrom(*encodeProposalByCommandKey(*))#1 == true",
		"*loadDurableProposalFrom(*encodeProposalByCommandKey(*))#0 == *")
	c.CallShape("R1-validators", pl, "*encodeProposalByCommandKey", "*(channelKey, *.manifest.CommandID)")

	// =============================================================== R2 frontier / replacement fence
	fr := c.Fn(m + "ChannelStore.loadDurableFrontierLocked")
	l0 := leo + " == 0 || "
	fpair := "*loadDurableProposalPairByLast(*)"
	ftail := "*loadDurableEntryIdentityFrom(*)"
	c.c02Guard("R2-frontier", fr, RetNil{},
		"*.loadLEOLocked(*)#1 == nil", "*.loadCheckpoint(*)#2 == nil",
		"*.HW <= "+leo,
		l0+fpair+"#2 == nil", l0+fpair+"#1 == true", l0+ftail+"#2 == nil", l0+ftail+"#1 == true",
		l0+"*.manifest.LastOffset == "+leo,
		l0+"*.manifest.Digest == *.Digest",
		l0+"*.manifest.ChannelEpoch == *.ChannelEpoch",
		l0+"*.manifest.LeaderTerm == *.LeaderTerm",
		l0+"*.manifest.FenceVersion == *.FenceVersion",
		l0+"*.manifest.CommandID == *.CommandID",
	)
	c.StoreShape("R2-frontier", fr, "*DurableFrontier.LEO", m+"ChannelLog.loadLEOLocked(s.log, ctx)#0")
	c.StoreShape("R2-frontier", fr, "*DurableFrontier.Committed", "*.HW")
	c.CallShape("R2-frontier", fr, "*loadDurableProposalPairByLast", "*(s.log.channelEntry.db.engine, s.log.channelEntry.key, "+m+"ChannelLog.loadLEOLocked(s.log, ctx)#0)")
	c.CallShape("R2-frontier", fr, "*loadDurableEntryIdentityFrom", "*(s.log.channelEntry.db.engine, s.log.channelEntry.key, "+m+"ChannelLog.loadLEOLocked(s.log, ctx)#0)")

	rep := c.Fn(m + "ChannelStore.ReplaceRecoverySuffix")
	write := OneOf{CallTo{m + "channelEntry.stageCommitRows"}, CallTo{"*engine.Batch.Commit"}, CallTo{m + "channelEntry.stageTruncateDurableProposals"}, CallTo{m + "ChannelLog.stageDeleteMessage"}}
	keepPair := "*loadDurableProposalPairByLast(*, req.KeepThrough)"
	c.c02Guard("R2-replace", rep, write,
		"*.loadDurableFrontierLocked(*)#2 == nil",
		"* == req.Expected",
		"req.KeepThrough <= *.LEO",
		"req.KeepThrough >= *.Committed",
		"req.Committed >= *.Committed",
		"req.KeepThrough <= 0 || "+keepPair+"#2 == nil",
		"req.KeepThrough <= 0 || "+keepPair+"#1 == true",
		"req.KeepThrough <= 0 || *.manifest.LastOffset == req.KeepThrough",
		"*.prepareRecoveryReplacementLocked(*)#2 == nil",
		"req.Committed <= *.prepareRecoveryReplacementLocked(*)#1",
		"*validateCheckpoint(*) == nil",
	)
	c.c02Guard("R2-replace", rep, CallTo{m + "channelEntry.stageCommitRows"},
		"*.stageTruncateDurableProposals(*) == nil", "*.readRows(*)#1 == nil", "*engine.Batch.DeleteRange(*) == nil", "* >= len(*.readRows(*)#0)")
	c.CallShape("R2-replace", rep, "*.stageTruncateDurableProposals", "*(s.log.channelEntry, ctx, *, req.KeepThrough)")
	c.CallShape("R2-replace", rep, "*.readRows", "*(s.log, ctx, (req.KeepThrough + 1), 0, zero:ReadOptions)")
	c.CallShape("R2-replace", rep, m+"channelEntry.stageCommitRows", "*(s.log.channelEntry, *, *.rows, *, nil, *.proposals, *.entries)")
	c.c02Guard("R2-replace", rep, Ret{0, "alloc:ReplaceRecoverySuffixResult"}, "*engine.Batch.Commit(*) == nil || *engine.Batch.Commit(*) != nil")
	tr := c.Fn(m + "channelEntry.stageTruncateDurableProposals")
	c.c02Guard("R2-replace", tr, CallTo{"*engine.Batch.Delete(*"}, "*.manifest.LastOffset > to", "*.manifest.BaseOffset >= to", "*.validateDurableProposalCommandIndex(*) == nil")
	c.c02Guard("R2-replace", tr, CallTo{"*engine.Batch.DeleteRange"}, "*.Iter.Error(*) == nil")
	c.CallShape("R2-replace", tr, "*encodeEntryIdentityKey", "*(e.key, (to + 1))")

	// =============================================================== R3 committed watermark
	c.Mono("R3-hw", m+"Checkpoint.HW", MonoOpts{
		LiteralsToo: true,
		AlsoGuards:  []string{"*.loadCheckpoint(*)#1 == false"}, // no durable checkpoint yet: the zero checkpoint is raised
		Resets: map[string]string{
			m + "decodeCheckpoint":                   "decode of the persisted value",
			m + "checkpointFromChannel":              "type conversion of a caller-supplied checkpoint; every persisting caller validates it with validateCheckpointMonotonicLocked (R3-hw guards below)",
			m + "ChannelStore.ReplaceRecoverySuffix": "fenced recovery replacement: req.Committed >= current.Committed and <= final offset are separate R2-replace/R3-hw obligations",
			m + "*Backup*":                           "backup import/export decodes a snapshot into an empty database",
			m + "*backup*":                           "backup import/export decodes a snapshot into an empty database",
			m + "MessageDB.*estore*":                 "restore of a snapshot into an empty database",
			"pkg/channel/store.MessageDBFactory.OpenBackupSnapshot*": "read-only backup export: the literal names the committed cut to stream, it is never persisted",
			m + "*napshot*": "snapshot install: checkpoint.HW == snap.EndOffset is validated by validateCheckpointMonotonicLocked in installSnapshotLocked",
		},
	})
	ec := c.Fn(m + "ChannelStore.prepareExactCheckpointLocked")
	hwStore := StoreTo{Addr: "*.HW"}
	c.c02Guard("R3-hw", ec, OneOf{hwStore, StoreTo{Addr: "*.checkpoint"}},
		"committed <= proposalLEO", "committed > *.HW", "*.HW <= visibleLEO", "*.loadCheckpoint(*)#2 == nil")
	c.StoreShape("R3-hw", ec, "*.HW", "committed")
	c.c02Guard("R3-hw", ec, RetNil{}, "committed <= proposalLEO", "committed == 0 || *.HW <= visibleLEO", "committed == 0 || *.loadCheckpoint(*)#2 == nil")
	for _, caller := range []struct{ fn, shape string }{
		{"ChannelStore.prepareExactAppendRecordsLocked", "*(s, ctx, committed, (expectedBaseOffset + len(records)), max(*.loadLEOLocked(s.log, ctx)#0, (expectedBaseOffset + len(*))), *)"},
		{"ChannelStore.prepareAdjacentExactAppendLocked", "*(s, ctx, item.Committed, *.LastOffset, *.LastOffset, *)"},
		{"ChannelStore.prepareStagedExactReplayLocked", "*(s, ctx, item.Committed, *.LastOffset, visibleLEO, *)"},
	} {
		c.CallShape("R3-hw", c.Fn(m+caller.fn), m+"ChannelStore.prepareExactCheckpointLocked", caller.shape)
	}
	c.ConfineCalls("R3-hw", m+"ChannelStore.prepareExactCheckpointLocked", 3,
		m+"ChannelStore.prepareExactAppendRecordsLocked", m+"ChannelStore.prepareAdjacentExactAppendLocked", m+"ChannelStore.prepareStagedExactReplayLocked")
	vm := c.Fn(m + "ChannelLog.validateCheckpointMonotonicLocked")
	c.c02Guard("R3-hw", vm, RetNil{},
		"*validateCheckpoint(*) == nil", "checkpoint.HW <= visibleHW", "checkpoint.HW <= leo", "*.loadCheckpoint(*)#2 == nil",
		"*.loadCheckpoint(*)#1 == false || checkpoint.HW >= *.HW")
	c.c02Guard("R3-hw", rep, StoreTo{Addr: "*.HW", Val: "req.Committed"}, "req.Committed >= *.Committed", "req.Committed <= *.prepareRecoveryReplacementLocked(*)#1", "* == req.Expected")
	af := c.Fn(m + "ChannelStore.prepareApplyFetchedRecordsLocked")
	c.c02Guard("R3-hw", af, StoreTo{Addr: "*.HW"}, "*.CheckpointHW <= *", "*.CheckpointHW > *.HW")
	c.c02Guard("R3-hw", af, StoreTo{Addr: "*.checkpoint"},
		"*.validateCheckpointMonotonicLocked(*) == nil")
	// merged checkpoint keeps the largest HW
	mg := c.Fn(m + "mergePreparedCommitRows")
	c.c02Guard("R3-hw", mg, StoreTo{Addr: "target.checkpoint"}, "target.checkpoint == nil || *.HW > *.HW")
	// who persists a checkpoint key
	c.ConfineCalls("R3-hw", m+"encodeCheckpointKey", 5,
		m+"ChannelLog.loadCheckpoint", m+"ChannelLog.storeCheckpointLocked", m+"ChannelLog.ApplyFetch", m+"ChannelLog.installSnapshotLocked",
		m+"channelEntry.stageCommitRows", m+"MessageDB.importBackupChannel", m+"MessageDB.importMessageBackupChannelStream", m+"MessageDB.loadBackupImportCheckpoint",
		m+"*ackup*", m+"*napshot*", m+"*nspect*")
	c.ConfineCalls("R3-hw", m+"ChannelLog.storeCheckpointLocked", 5,
		m+"ChannelLog.StoreCheckpoint", m+"ChannelLog.StoreCheckpointMonotonic", m+"ChannelStore.StoreCheckpoint", m+"ChannelStore.StoreCheckpointMonotonic", m+"ChannelStore.StoreCheckpointHWMonotonic")
	// the two writers without monotonic validation have no caller in the loaded packages (module-wide in the thorough tier)
	c.NoCalls("R3-hw", m+"ChannelStore.StoreCheckpoint", "*")
	c.NoCalls("R3-hw", m+"ChannelLog.StoreCheckpoint", "*")
	hwm := c.Fn(m + "ChannelStore.StoreCheckpointHWMonotonic")
	c.c02Guard("R3-hw", hwm, CallTo{m + "ChannelLog.storeCheckpointLocked"}, "*.loadCheckpoint(*)#2 == nil", "*.loadCheckpoint(*)#1 == false || hw > *.HW")
	for _, n := range []string{"ChannelLog.StoreCheckpointMonotonic", "ChannelStore.StoreCheckpointMonotonic"} {
		c.c02Guard("R3-hw", c.Fn(m+n), CallTo{m + "ChannelLog.storeCheckpointLocked"}, "*.validateCheckpointMonotonicLocked(*) == nil")
	}
	c.c02Guard("R3-hw", c.Fn(m+"ChannelLog.ApplyFetch"), CallTo{"*engine.Batch.Set(*encodeCheckpointKey(*"}, "req.Checkpoint == nil || *.validateCheckpointMonotonicLocked(*) == nil")
	// replication-side admission of a replacement
	vr := c.Fn(r + "validateRecoveryReplacement")
	c.c02Guard("R3-hw", vr, RetNil{},
		"replacement.KeepThrough <= replacement.Expected.LEO",
		"replacement.KeepThrough >= replacement.Expected.Committed",
		"replacement.Committed >= replacement.Expected.Committed",
		"replacement.Committed <= *",
		"*validateExactState(*) == nil")
	c.c02IterGuard("R3-hw", vr, "*.Manifest.BaseOffset == *", "*validMutation(*) == true")

	// =============================================================== R4 fetch
	fetch := c.Fn(r + "storeAdapter.Fetch")
	res, _ := c02FieldStores(c, r+"FetchRangeResult.Proposals", "")
	c.c02Guard("R4-fetch", fetch, res,
		"* == *.Expected",
		"*recoveryProposalsFromPage(*)#1 == nil",
		"*.ReadExactRecoveryPage(*)#1 == nil || phi(*ReadExactRecoveryPage(*)#1*) == nil")
	c.StoreShape("R4-fetch", fetch, "*ReplicaState.LEO", "*.LEO")
	c.StoreShape("R4-fetch", fetch, "*ReplicaState.Committed", "*.HW")
	c.CallShape("R4-fetch", fetch, "*recoveryProposalsFromPage", "*(*, *)")
	rp := c.Fn(r + "recoveryProposalsFromPage")
	c.c02Guard("R4-fetch", rp, RetNil{},
		"len(page.Records) != 0", "len(page.Entries) == len(page.Records)",
		"*validProbeEntryChain(*) == true",
		"*.PreviousIndex == request.Previous.Index",
		"*.PreviousTerm == request.Previous.LeaderTerm",
		"*.PreviousDigest == request.Previous.Digest",
		"(*.Manifest.BaseOffset + 1) == request.From",
		"*.Manifest.LastOffset <= request.Through",
	)
	c.c02IterGuard("R4-fetch", rp,
		"*.Index == (request.From + *)",
		"*.Present == true",
		"*.Identity.Index == (request.From + *)",
		"*validEntryIdentity(*) == true",
		"page.Records[*].Index == (request.From + *)",
	)
	c.c02IterGuard("R4-fetch", rp,
		"*SealProposalManifest(*)#2 == true",
		"*SealProposalManifest(*)#0 == *",
		"len(*SealProposalManifest(*)#1) == len(*)",
		"*SealProposalManifest(*)#1[*] == *",
	)

	// =============================================================== R5 chain predicates
	vc := c.Fn(r + "validProbeEntryChain")
	c.c02IterGuard("R5-chain", vc,
		"* <= 1 || *#1 == false || *.PreviousIndex == *.Index",
		"* <= 1 || *#1 == false || *.PreviousTerm == *.LeaderTerm",
		"* <= 1 || *#1 == false || *.PreviousDigest == *.Digest",
	)
	ve := c.Fn(r + "validEntryIdentity")
	ver := c02Const(c, "pkg/channel", "ProposalManifestVersion")
	c.GuardTrue("R5-chain", ve, 0,
		"identity.Version == "+ver, "identity.ChannelEpoch != 0", "identity.LeaderTerm != 0", "identity.FenceVersion != 0", "identity.Index != 0",
		"(identity.PreviousIndex + 1) == identity.Index", "identity.CommandID != *", "identity.Digest != *",
		"identity.PreviousIndex != 0 || identity.PreviousTerm == 0", "identity.PreviousIndex != 0 || identity.PreviousDigest == *",
		"identity.PreviousIndex == 0 || identity.PreviousTerm != 0", "identity.PreviousIndex == 0 || identity.PreviousDigest != *")
	vx := c.Fn(r + "validateExactState")
	z := "state.InitialState.LEO == 0 || "
	c.c02Guard("R5-chain", vx, RetNil{},
		"state.InitialState.LEO != 0 || state.InitialState.HW == 0", "state.InitialState.LEO != 0 || state.Manifest == *", "state.InitialState.LEO != 0 || state.TailIdentity == *",
		z+"state.InitialState.HW <= state.InitialState.LEO", z+"state.InitialState.CheckpointHW == state.InitialState.HW", z+"*.LastOffset == state.InitialState.LEO", z+"*validEntryIdentity(*) == true",
		z+"*.Index == state.InitialState.LEO", z+"*.ChannelEpoch == *.ChannelEpoch", z+"*.LeaderTerm == *.LeaderTerm", z+"*.FenceVersion == *.FenceVersion",
		z+"*.CommandID == *.CommandID", z+"*.Digest == *.Digest")
	le := c.Fn(r + "loadExactRecoveryState")
	c.c02Guard("R5-chain", le, Ret{1, "make([]EntryProbe, *)"}, "*validProbeEntryChain(*) == true", "len(*.Entries) == len(indexes)")
	c.c02IterGuard("R5-chain", le, "*.Index == indexes[*]", "*.Index > *.LEO || *.Present == true", "*.Index <= *.LEO || *.Present == false")
	load := c.Fn(r + "storeAdapter.Load")
	c.c02Guard("R5-chain", load, StoreTo{Addr: "*.State"}, "phi(*validateExactState(*)*) == nil || *validateExactState(*) == nil")

	// =============================================================== R6 outcomes
	nm := c.Fn(r + "normalizeMutationResult")
	c02ValidFlag(c, "R6-outcomes", nm, "result", []string{
		"*.Durable(*) == false || result.LastOffset == mutation.Manifest.LastOffset",
		"*.Durable(*) == false || result.NeedFrom == 0",
		"*.Durable(*) == false || result.Err == nil",
		"*.Durable(*) == true || result.LastOffset == 0",
		"*.Durable(*) == true || result.Err != nil",
		"*.Durable(*) == true || result.NeedFrom == 0 || result.NeedFrom <= mutation.Manifest.LastOffset",
	})
	mm := c.Fn(r + "mapMutationResult")
	needFrom := c02Const(c, c02Rep, "ReplicateNeedFrom")
	conflict := c02Const(c, "pkg/channel", "AppendOutcomeConflict")
	c.c02Guard("R6-outcomes", mm, StoreTo{Addr: "*ReplicateResult.Status", Val: needFrom},
		"result.NeedFrom > 0", "result.NeedFrom <= mutation.Manifest.LastOffset", "result.Outcome == "+conflict, "*.Durable(*) == false", "result.LastOffset == 0")
	c.c02Guard("R6-outcomes", mm, StoreTo{Addr: "*ReplicateResult.LastOffset"},
		"*.Durable(*) == true", "result.LastOffset == mutation.Manifest.LastOffset", "result.Err == nil", "result.NeedFrom == 0")
	c.c02Guard("R6-outcomes", mm, Ret{1, "true"}, "*.Valid(*) == true")
	rf := c.Fn(r + "runtimeRepairOwner.repairFromFrontier")
	c.c02Guard("R6-outcomes", rf, Ret{0, "true"}, "* > *.LastOffset")
	c.c02Guard("R6-outcomes", rf, StoreTo{Addr: "*FetchRange.Previous"}, "repair.needFrom <= 1 || *.Present == true")
	c02AfterRecv(c, "R6-outcomes", rf)
	c.c02Guard("R6-outcomes", rf, CallTo{"*SealProposalManifest"}, "*.Durable(*) == true")
	vl := c.Fn(r + "validLocalDurabilityResult")
	c.GuardTrue("R6-outcomes", vl, 0, "*.Durable(*) == false || result.LastOffset == proposal.last")

	c.Min("R1-new-proposal", 55)
	c.Min("R1-already-durable", 20)
	c.Min("R1-gap", 7)
	c.Min("R1-validators", 23)
	c.Min("R2-frontier", 17)
	c.Min("R2-replace", 20)
	c.Min("R3-hw", 30)
	c.Min("R4-fetch", 20)
	c.Min("R5-chain", 30)
	c.Min("R6-outcomes", 18)
}

// c02ValidFlag: a function of the shape `valid := …; if valid { return <param> }; return <reject>` returns its
// parameter `param` unchanged only behind the listed facts. The facts are accumulated into the flag with
// `valid = valid && cond`, which go/ssa renders as nested φ(false | cond): the φ-aware guard finder reads them.
func c02ValidFlag(c *Ctx, rule string, fn *ssa.Function, param string, guards []string) {
	if fn == nil {
		return
	}
	eff := InstrFn{"return " + param + " unchanged", func(in ssa.Instruction) bool {
		ret, ok := in.(*ssa.Return)
		if !ok || len(ret.Results) == 0 {
			return false
		}
		return Path(retOperand(ret, 0)) == param
	}}
	c.c02Guard(rule, fn, eff, guards...)
}

// c02AfterRecv: in repairFromFrontier the next page/proposal is attempted only after the peer's reply was
// received and found durable: every loop iteration of the proposal loop passes `Durable() == true`.
func c02AfterRecv(c *Ctx, rule string, fn *ssa.Function) {
	if fn == nil {
		return
	}
	c.c02IterGuard(rule, fn, "*.Durable(*) == true")
}
