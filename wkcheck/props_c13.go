package main

import (
	"fmt"
	"go/constant"
	"go/token"
	"go/types"
	"sort"
	"strings"

	"golang.org/x/tools/go/ssa"
)

// ---------------------------------------------------------------------------
// C13 — Slot state machine is deterministic and batch-transparent (structural clauses).

const c13fsm = "pkg/slot/fsm."

func init() {
	register(&PropSpec{
		ID:        "C13",
		Pkgs:      []string{"./pkg/slot/fsm", "./pkg/slot/multiraft", "./pkg/db/..."},
		Technique: "static analysis: VTA call-graph closure scan for nondeterminism sources + triaged map ranges, registry exhaustiveness, SSA edge-dominance of length facts over every fixed-offset read in the command decoders, ownership/fence guards and single-WriteBatch identity in ApplyBatch",
		Explain: "Decides: (R1) in the module call-graph closure of stateMachine.Apply/ApplyBatch/Restore/ImportHashSlotSnapshot there is no clock/random/env/goroutine/multi-way-select source except the one time.Now whose value flows only into the metrics observer, and every map range in the closure is in a hand-triaged order-insensitive table; (R2) every cmdType* constant is a key of commandDecoders and every key is such a constant; (R3) in every decoder reachable from decodeCommand each BigEndian read, constant index and slice of input bytes is dominated by a sufficient length fact, readTLV advances by at least its 5-byte header, and the decoders contain no panic or unchecked type assertion; (R4) ApplyBatch reaches command.apply only behind SlotID match, resolveHashSlot==nil, decodeCommand==nil, validateCommandHashSlots==nil for scoped commands, and a fenced hash slot skips the command without touching the batch; resolveHashSlot/validateCommandHashSlots succeed only for owned hash slots (or the enumerated migration-maintenance types); (R5) all staging in ApplyBatch goes to the single WriteBatch that is committed once, and markAppliedDeltas/forwardCommittedDeltas/the success return happen only behind Commit==nil. " +
			"NOT decided: the group-commit coordinator below WriteBatch.Commit (pkg/db/internal/commit, which reads the clock and selects on channels) is treated as a trusted durable-storage leaf that decides when, not what, is written; input-proportional allocations (make sizes) in the decoders; equality of results across batch partitions (the split-and-replay path after a stale commit is behaviour), determinism of the per-command apply bodies beyond the source scan (e.g. dependence on non-replicated runtime migration tables), that each Encode*Command emits the registered type byte, snapshot export/import byte equality, integer overflow of 5+length on 32-bit platforms.",
		Run: c13,
		Mutants: c12OnlyMutants([]Mutant{
			{Name: "apply-uses-wall-clock", File: "pkg/slot/fsm/statemachine.go",
				Old:    "\tstate.Phase = uint8(migration.phase)\n\tif cmd.Index > state.LastOutboxIndex {",
				New:    "\tstate.Phase = uint8(migration.phase)\n\tstate.LastAckedIndex = uint64(time.Now().UnixNano())\n\tif cmd.Index > state.LastOutboxIndex {",
				Expect: "C13/R1-determ/determ:*"},
			{Name: "result-depends-on-map-order", File: "pkg/slot/fsm/statemachine.go",
				Old:    "\tstarted := time.Now()\n\terr := wb.Commit()\n",
				New:    "\tfor hs, st := range pendingMigrationStates {\n\t\tresults[0] = []byte(fmt.Sprint(hs, st.Phase))\n\t}\n\tstarted := time.Now()\n\terr := wb.Commit()\n",
				Expect: "C13/R1-determ/maprange*"},
			{Name: "benign-counting-map-range", File: "pkg/slot/fsm/statemachine.go",
				Old:    "\tstarted := time.Now()\n\terr := wb.Commit()\n",
				New:    "\tpendingCount := 0\n\tfor _, st := range pendingMigrationStates {\n\t\tif st.Phase != 0 {\n\t\t\tpendingCount++\n\t\t}\n\t}\n\t_ = pendingCount\n\tstarted := time.Now()\n\terr := wb.Commit()\n",
				Expect: "!silent"},
			{Name: "third-order-sensitive-range-in-triaged-closure", File: "pkg/db/meta/batch.go",
				Old:    "\t\t\tb.closed = true\n\t\t\treturn nil\n\t\t},\n\t\tFinalize: unlock,",
				New:    "\t\t\tfor cacheKey := range state.channelDeletes {\n\t\t\t\tb.db.forgetChannel([]byte(cacheKey))\n\t\t\t\tbreak\n\t\t\t}\n\t\t\tb.closed = true\n\t\t\treturn nil\n\t\t},\n\t\tFinalize: unlock,",
				Expect: "C13/R1-determ/maprange-table:*Commit$2"},
			{Name: "unregistered-command-type", File: "pkg/slot/fsm/command.go",
				Old:    "\tcmdTypeUnbindPluginUser                    uint8 = 43\n",
				New:    "\tcmdTypeUnbindPluginUser                    uint8 = 43\n\tcmdTypeRenameUser                          uint8 = 66\n",
				Expect: "C13/R2-registry/*"},
			{Name: "decoder-weak-length-check", File: "pkg/slot/fsm/migration_cmds.go",
				Old:    "\t\t\tif len(value) != 8 {\n\t\t\t\treturn nil, fmt.Errorf(\"%w: bad apply delta SourceIndex length\", metadb.ErrCorruptValue)",
				New:    "\t\t\tif len(value) > 8 {\n\t\t\t\treturn nil, fmt.Errorf(\"%w: bad apply delta SourceIndex length\", metadb.ErrCorruptValue)",
				Expect: "C13/R3-decodesafe/*decodeApplyDelta*"},
			{Name: "readtlv-short-header", File: "pkg/slot/fsm/command.go",
				Old:    "\tif len(data) < tlvOverhead {\n\t\treturn 0, nil, 0, fmt.Errorf(\"%w: truncated TLV header\"",
				New:    "\tif len(data) < 1 {\n\t\treturn 0, nil, 0, fmt.Errorf(\"%w: truncated TLV header\"",
				Expect: "C13/R3-decodesafe/*readTLV*"},
			{Name: "readtlv-no-value-bound", File: "pkg/slot/fsm/command.go",
				Old:    "\tif end > len(data) {\n\t\treturn 0, nil, 0, fmt.Errorf(\"%w: truncated TLV value",
				New:    "\tif end > len(data)+tlvOverhead {\n\t\treturn 0, nil, 0, fmt.Errorf(\"%w: truncated TLV value",
				Expect: "C13/R3-decodesafe/*readTLV*"},
			{Name: "decodecommand-no-header-check", File: "pkg/slot/fsm/command.go",
				Old:    "\tif len(data) < headerSize {\n\t\treturn nil, fmt.Errorf(\"%w: command too short\", metadb.ErrCorruptValue)\n\t}\n\n\tversion := data[0]",
				New:    "\tif len(data) < 1 {\n\t\treturn nil, fmt.Errorf(\"%w: command too short\", metadb.ErrCorruptValue)\n\t}\n\n\tversion := data[0]",
				Expect: "C13/R3-decodesafe/*decodeCommand*"},
			{Name: "decoder-panics", File: "pkg/slot/fsm/command.go",
				Old:    "\tdecoder, ok := commandDecoders[cmdType]\n\tif !ok {\n\t\treturn nil, fmt.Errorf(\"%w: unknown command type %d\", metadb.ErrInvalidArgument, cmdType)\n\t}",
				New:    "\tdecoder, ok := commandDecoders[cmdType]\n\tif !ok {\n\t\tpanic(fmt.Errorf(\"%w: unknown command type %d\", metadb.ErrInvalidArgument, cmdType))\n\t}",
				Expect: "C13/R3-decodesafe/*no-panic*"},
			{Name: "applybatch-skip-ownership-validation", File: "pkg/slot/fsm/statemachine.go",
				Old:    "\t\t\tif err := m.validateCommandHashSlots(applyHashSlots); err != nil {\n\t\t\t\treturn nil, fmt.Errorf(",
				New:    "\t\t\tif err := m.validateCommandHashSlots(applyHashSlots); err != nil && len(cmds) > 1 {\n\t\t\t\treturn nil, fmt.Errorf(",
				Expect: "C13/R4-ownership/*ApplyBatch*"},
			{Name: "resolve-accepts-unowned", File: "pkg/slot/fsm/statemachine.go",
				Old:    "\tif _, ok := m.ownedHashSlots[hashSlot]; ok {\n\t\treturn hashSlot, nil\n\t}\n\tif isSourceMigrationMaintenanceCommandData(cmd.Data) {\n\t\treturn hashSlot, nil\n\t}\n\treturn 0, metadb.ErrInvalidArgument",
				New:    "\tif _, ok := m.ownedHashSlots[hashSlot]; ok {\n\t\treturn hashSlot, nil\n\t}\n\treturn hashSlot, nil",
				Expect: "C13/R4-ownership/*resolveHashSlot*"},
			{Name: "validate-skips-unowned", File: "pkg/slot/fsm/statemachine.go",
				Old:    "\t\tif _, ok := m.ownedHashSlots[hashSlot]; !ok {\n\t\t\treturn metadb.ErrInvalidArgument\n\t\t}\n\t}\n\treturn nil\n}\n\nfunc (m *stateMachine) applyCommandsIndividuallyAfterStaleCommit",
				New:    "\t\tif _, ok := m.ownedHashSlots[hashSlot]; !ok {\n\t\t\tcontinue\n\t\t}\n\t}\n\treturn nil\n}\n\nfunc (m *stateMachine) applyCommandsIndividuallyAfterStaleCommit",
				Expect: "C13/R4-ownership/*validateCommandHashSlots*"},
			{Name: "fenced-command-still-applied", File: "pkg/slot/fsm/statemachine.go",
				Old:    "\t\t\t\t\tresults[i] = []byte(ApplyResultHashSlotFenced)\n\t\t\t\t\tcontinue commandLoop",
				New:    "\t\t\t\t\tresults[i] = []byte(ApplyResultHashSlotFenced)\n\t\t\t\t\tif len(cmds) > 1 {\n\t\t\t\t\t\tcontinue commandLoop\n\t\t\t\t\t}\n\t\t\t\t\tbreak",
				Expect: "C13/R4-fence/*"},
			{Name: "publish-before-commit", File: "pkg/slot/fsm/statemachine.go",
				Old:    "\tstarted := time.Now()\n\terr := wb.Commit()\n",
				New:    "\tm.markAppliedDeltas(pendingDeltaKeys)\n\tstarted := time.Now()\n\terr := wb.Commit()\n",
				Expect: "C13/R5-single-batch/*markAppliedDeltas*"},
			{Name: "second-batch-for-maintenance", File: "pkg/slot/fsm/statemachine.go",
				Old:    "\t\tpendingForwards, err := m.stageMigrationMaintenanceForHashSlots(ctx, wb, cmd, hashSlot, applyHashSlots, decoded, pendingMigrationStates)",
				New:    "\t\tmwb := m.db.NewWriteBatch()\n\t\tdefer mwb.Commit()\n\t\tpendingForwards, err := m.stageMigrationMaintenanceForHashSlots(ctx, mwb, cmd, hashSlot, applyHashSlots, decoded, pendingMigrationStates)",
				Expect: "C13/R5-single-batch/*"},
		}),
	})
}

func c13(c *Ctx) {
	ab := c.Fn(c13fsm + "stateMachine.ApplyBatch")

	// ---- R1 determinism of the apply closure
	roots := []*ssa.Function{
		c.Fn(c13fsm + "stateMachine.Apply"), ab,
		c.Fn(c13fsm + "stateMachine.Restore"), c.Fn(c13fsm + "stateMachine.ImportHashSlotSnapshot"),
	}
	stop := []string{
		"pkg/slot/multiraft.ObserveProposalStage", "pkg/slot/multiraft.observeProposalStage", // metrics observers (sinks of the admitted clock read)
		"pkg/wklog.*", "pkg/wklog/*",
		// durable-storage plumbing below WriteBatch.Commit: the group-commit coordinator batches by
		// time and selects on channels, which decides WHEN a batch becomes durable, not WHAT it contains
		"pkg/db/internal/commit.*",
	}
	allow := map[string]string{
		c13fsm + "stateMachine.ApplyBatch|time.Now":   "commit latency metric only (confined below)",
		c13fsm + "stateMachine.ApplyBatch|time.Since": "commit latency metric only (confined below)",
	}
	for k, v := range c13DetermAllow {
		allow[k] = v
	}
	c.Deterministic("R1-determ", roots, stop, allow)
	c.AllUsesFlowTo("R1-determ", ab, "time.Now", []string{"pkg/slot/multiraft.ObserveProposalStage"}, []string{"time.Since"})
	c13MapRanges(c, "R1-determ", roots, stop, c13MapRangeTriage)

	// ---- R2 registry exhaustiveness
	c13Registry(c, "R2-registry")

	// ---- R3 decoders cannot panic on arbitrary bytes
	c13DecodeSafe(c, "R3-decodesafe")

	// ---- R4 ownership and fence guards in front of command.apply
	apply := CallTo{c13fsm + "command.apply"}
	c.Guard("R4-ownership", ab, apply,
		"*.SlotID == m.slot",
		"*.stateMachine.resolveHashSlot(*)#1 == nil",
		"*.decodeCommand(*)#1 == nil",
		"*.stateMachine.validateCommandHashSlots(*) == nil || *.(scopedHashSlotCommand)#1 == false",
		"*.isMigrationMaintenanceCommand(*) == true || *.isMigrationMaintenanceCommand(*) == false",
	)
	c.CallShape("R4-ownership", ab, c13fsm+"command.apply", "*(*.decodeCommand(*.Data)#0, *, *.stateMachine.resolveHashSlot(m, *)#0)")
	c.CallShape("R4-ownership", ab, c13fsm+"stateMachine.validateCommandHashSlots", "*(m, *.commandApplyHashSlots(*.decodeCommand(*.Data)#0, *.stateMachine.resolveHashSlot(m, *)#0))")
	rh := c.Fn(c13fsm + "stateMachine.resolveHashSlot")
	c.Guard("R4-ownership", rh, RetNil{},
		"m.ownedHashSlots[*]#1 == true || *.isSourceMigrationMaintenanceCommandData(*) == true || *.isApplyDeltaCommandData(*) == true",
		"*.isApplyDeltaCommandData(*) == false || *.HashSlot == cmd.HashSlot",
		"*.isApplyDeltaCommandData(*) == false || *.decodeCommand(*)#1 == nil",
	)
	vh := c.Fn(c13fsm + "stateMachine.validateCommandHashSlots")
	c12EdgeExcludes(c, "R4-ownership", vh, "m.ownedHashSlots[*]#1 == false", false, RetNil{})
	c12EdgeExcludes(c, "R4-ownership", vh, "m.ownedHashSlots[*]#1 == false", false, InstrFn{"loop continues", func(in ssa.Instruction) bool {
		_, ok := in.(*ssa.Lookup)
		return ok
	}})
	cah := c.Fn(c13fsm + "commandApplyHashSlots")
	c.Guard("R4-ownership", cah, Ret{0, "*.scopedHashSlotCommand.applyHashSlots(*)"}, "len(*) > 0")

	c13FenceRules(c, "R4-fence", ab)

	// ---- R5 one batch, one commit, publish after commit
	c13SingleBatch(c, "R5-single-batch", ab)
	commitOK := "pkg/db/meta.WriteBatch.Commit(*) == nil"
	c.Guard("R5-single-batch", ab, CallTo{c13fsm + "stateMachine.markAppliedDeltas"}, commitOK)
	c.Guard("R5-single-batch", ab, CallTo{c13fsm + "stateMachine.forwardCommittedDeltas"}, commitOK)
	c.Guard("R5-single-batch", ab, RetNil{}, commitOK+" || *.isStaleMetaCommitError(*) == true")
	c.Guard("R5-single-batch", ab, Ret{0, "make([][]byte, *)"}, commitOK)
	c.Guard("R5-single-batch", ab, CallTo{"pkg/db/meta.WriteBatch.Commit"},
		"pkg/db/meta.WriteBatch.SetSlotAppliedIndex(*) == nil || len(cmds) <= 0 || cmds[*].Index <= 0")
	c.Guard("R5-single-batch", ab, CallTo{c13fsm + "stateMachine.applyCommandsIndividuallyAfterStaleCommit"}, "*.isStaleMetaCommitError(*) == true")
	c.ErrUsed("R5-single-batch", []*ssa.Function{ab}, []string{"pkg/db/meta.WriteBatch.*", c13fsm + "command.apply", c13fsm + "stateMachine.stage*", c13fsm + "stateMachine.applyMigration*"}, []string{"pkg/db/meta.WriteBatch.Close"})
	c.ConfineCalls("R5-single-batch", "pkg/db/meta.WriteBatch.Commit", 3, c13fsm+"stateMachine.ApplyBatch", c13fsm+"stateMachine.Restore",
		c13fsm+"stateMachine.AckHashSlotMigrationOutbox", c13fsm+"stateMachine.CleanupHashSlotMigrationOutbox", // non-replicated maintenance entry points
		"pkg/db/meta.*", // the store's own non-batched helpers
		"pkg/cluster.Node.installRestoreChannelRuntimeMeta") // offline restore
}

// Allowed nondeterminism sources below the apply roots, each confirmed by reading the code.
var c13DetermAllow = map[string]string{}

// Map ranges in the apply closure, triaged by reading each loop body. Key: function short name.
var c13MapRangeTriage = map[string]string{
	"pkg/db/meta.Batch.Commit$2":                               "post-commit publish: each iteration only sets/forgets the channel cache entry keyed by the iteration key; the two loops run in a fixed sequence",
	"pkg/db/meta.Table.stageUniqueIndexChecks":                 "existential search for a conflicting unique index among the batch's own staged rows: the outcome (conflict or not) does not depend on visiting order",
	"pkg/db/meta.metaTableRegistry.rowTablesForSnapshot":       "collects table ids and sort.Slice()s them before use",
	"pkg/slot/fsm.stateMachine.runtimeSnapshotHashSlotsLocked": "appends hash slots and passes the slice through normalizeOwnedHashSlots (sort + dedup) before use",
}

// ---------------------------------------------------------------------------
// R1 helper: every map range in the closure must be triaged

func c13MapRanges(c *Ctx, rule string, roots []*ssa.Function, stopAt []string, triage map[string]string) {
	_, order := c.Reach(roots, stopAt)
	// normalizeOwnedHashSlots counts as a sorter of its argument: decided right here
	norm := c.Fn(c13fsm + "normalizeOwnedHashSlots")
	c.Guard(rule, norm, AnyRet{}, "after: sort.Slice(*)")
	c.MapRanges(rule, order, triage, map[string]int{"pkg/db/meta.Batch.Commit$2": 2}, []string{c13fsm + "normalizeOwnedHashSlots"})
}

// ---------------------------------------------------------------------------
// R2 helper

// c13RegistryEntries returns the constant keys and function values of the commandDecoders literal.
func c13RegistryEntries(c *Ctx) (map[string]bool, []*ssa.Function, string) {
	keys := map[string]bool{}
	var fns []*ssa.Function
	pk := c.P.SPkgs["pkg/slot/fsm"]
	if pk == nil {
		return keys, nil, ""
	}
	g, _ := pk.Members["commandDecoders"].(*ssa.Global)
	initFn := pk.Func("init")
	if g == nil || initFn == nil {
		return keys, nil, ""
	}
	pos := c.P.Pos(g.Pos())
	for _, b := range initFn.Blocks {
		for _, in := range b.Instrs {
			st, ok := in.(*ssa.Store)
			if !ok || st.Addr != ssa.Value(g) {
				continue
			}
			mm, ok := st.Val.(*ssa.MakeMap)
			if !ok {
				continue
			}
			for _, r := range *mm.Referrers() {
				mu, ok := r.(*ssa.MapUpdate)
				if !ok || mu.Map != ssa.Value(mm) {
					continue
				}
				if k, ok := mu.Key.(*ssa.Const); ok && k.Value != nil {
					keys[k.Value.ExactString()] = true
				} else {
					keys["?non-constant"] = true
				}
				v := mu.Value
				if mc, ok := v.(*ssa.MakeClosure); ok {
					v = mc.Fn
				}
				if cv, ok := v.(*ssa.ChangeType); ok {
					v = cv.X
				}
				if f, ok := v.(*ssa.Function); ok {
					fns = append(fns, f)
				}
			}
		}
	}
	return keys, fns, pos
}

func c13Registry(c *Ctx, rule string) {
	keys, fns, pos := c13RegistryEntries(c)
	consts := c.constsOfType("pkg/slot/fsm", "", "cmdType")
	construct := "exhaust:pkg/slot/fsm.cmdType*@commandDecoders"
	if len(keys) == 0 || len(consts) == 0 {
		c.add("exhaust", rule, construct, Undecided, pos, "commandDecoders literal or cmdType constants not found")
		return
	}
	var missing, dupVals []string
	byVal := map[string]string{}
	for n, v := range consts {
		if !keys[v.ExactString()] {
			missing = append(missing, n)
		}
		if o, dup := byVal[v.ExactString()]; dup {
			dupVals = append(dupVals, o+"="+n)
		}
		byVal[v.ExactString()] = n
	}
	var stray []string
	for k := range keys {
		if _, ok := byVal[k]; !ok {
			stray = append(stray, k)
		}
	}
	sort.Strings(missing)
	sort.Strings(stray)
	sort.Strings(dupVals)
	switch {
	case len(missing) > 0:
		c.add("exhaust", rule, construct, Violated, pos, fmt.Sprintf("command type constant(s) %v have no decoder registered in commandDecoders", missing))
	case len(dupVals) > 0:
		c.add("exhaust", rule, construct, Violated, pos, fmt.Sprintf("command type constants share a wire value: %v", dupVals))
	case len(stray) > 0:
		c.add("exhaust", rule, construct, Violated, pos, fmt.Sprintf("commandDecoders has key(s) %v that are not cmdType* constants", stray))
	default:
		c.add("exhaust", rule, construct, Held, pos, fmt.Sprintf("%d cmdType constants, %d registry keys, %d decoder functions; one-to-one", len(consts), len(keys), len(fns)))
	}
	if len(keys) != len(fns) {
		c.add("exhaust", rule, construct+"#values", Undecided, pos, fmt.Sprintf("%d keys but %d statically known decoder functions", len(keys), len(fns)))
	}
}

// ---------------------------------------------------------------------------
// R3 helper: bounds facts in the decoders

// Sites that the length-fact rule cannot prove, hand-checked. Key: function short name + "|" + rendered site.
var c13DecodeTriage = map[string]string{
	"pkg/slot/fsm.decodeUint64Slice|*": "len(data)%8 != 0 is rejected and the loop runs i over make([]uint64, len(data)/8), so data[i*8:] always has 8 bytes (arithmetic fact, outside the len-comparison fragment)",
}

// Encoders reachable from decoders (canonical re-encoding) write into buffers they sized themselves.
var c13DecodeScopeExclude = []string{"pkg/slot/fsm.Encode*", "pkg/slot/fsm.encode*", "pkg/slot/fsm.append*", "pkg/slot/fsm.put*"}

func c13IsLen(v ssa.Value) (ssa.Value, bool) {
	call, ok := v.(*ssa.Call)
	if !ok {
		return nil, false
	}
	b, ok := call.Call.Value.(*ssa.Builtin)
	if !ok || b.Name() != "len" || len(call.Call.Args) != 1 {
		return nil, false
	}
	return call.Call.Args[0], true
}

func c13Same(a, b ssa.Value) bool {
	a, b = stripConv(a), stripConv(b)
	if a == b {
		return true
	}
	ua, ok1 := a.(*ssa.UnOp)
	ub, ok2 := b.(*ssa.UnOp)
	return ok1 && ok2 && ua.Op == token.MUL && ub.Op == token.MUL && ua.X == ub.X
}

func c13ConstInt(v ssa.Value) (int64, bool) {
	k, ok := stripConv(v).(*ssa.Const)
	if !ok || k.Value == nil || k.Value.Kind() != constant.Int {
		return 0, false
	}
	return k.Int64(), true
}

// c13LenEdges: edges on which len(base) >= need (sym == nil) or sym <= len(base) holds.
func c13LenEdges(fn *ssa.Function, base ssa.Value, need int64, sym ssa.Value) map[edge]bool {
	edges := map[edge]bool{}
	for _, b := range fn.Blocks {
		if len(b.Instrs) == 0 {
			continue
		}
		iff, ok := b.Instrs[len(b.Instrs)-1].(*ssa.If)
		if !ok {
			continue
		}
		bo, ok := iff.Cond.(*ssa.BinOp)
		if !ok {
			continue
		}
		op := bo.Op.String()
		if _, cmp := negOp[op]; !cmp {
			continue
		}
		// normalise to "len(base) op other"
		var other ssa.Value
		if lb, ok := c13IsLen(stripConv(bo.X)); ok && c13Same(lb, base) {
			other = bo.Y
		} else if lb, ok := c13IsLen(stripConv(bo.Y)); ok && c13Same(lb, base) {
			other = bo.X
			op = mirrorOp[op]
		} else {
			continue
		}
		for si, truth := range []bool{true, false} {
			est := op
			if !truth {
				est = negOp[op]
			}
			if sym != nil {
				// need sym <= len  ⇔  len >= sym
				if c13Same(other, sym) && (est == ">=" || est == ">" || est == "==") {
					edges[edge{b, si}] = true
				}
				continue
			}
			k, ok := c13ConstInt(other)
			if !ok {
				continue
			}
			switch est {
			case ">=", "==":
				if k >= need {
					edges[edge{b, si}] = true
				}
			case ">":
				if k+1 >= need {
					edges[edge{b, si}] = true
				}
			}
		}
	}
	return edges
}

// c13StaticLen: the base is (a pointer to) a fixed-size array.
func c13StaticLen(v ssa.Value) (int64, bool) {
	t := v.Type().Underlying()
	if p, ok := t.(*types.Pointer); ok {
		t = p.Elem().Underlying()
	}
	if a, ok := t.(*types.Array); ok {
		return a.Len(), true
	}
	return 0, false
}

type c13Site struct {
	in   ssa.Instruction
	base ssa.Value
	need int64
	sym  ssa.Value
	what string
}

func c13IsByteSeq(t types.Type) bool {
	switch u := t.Underlying().(type) {
	case *types.Slice:
		b, ok := u.Elem().Underlying().(*types.Basic)
		return ok && b.Kind() == types.Uint8
	case *types.Basic:
		return u.Info()&types.IsString != 0
	}
	return false
}

// c13ResolveSlice peels constant re-slicings: v[a:] / v[a:b] with constant a → (base, a).
func c13ResolveSlice(v ssa.Value) (ssa.Value, int64) {
	off := int64(0)
	for {
		v = stripConv(v)
		s, ok := v.(*ssa.Slice)
		if !ok {
			return v, off
		}
		lo := int64(0)
		if s.Low != nil {
			k, ok := c13ConstInt(s.Low)
			if !ok {
				return v, off
			}
			lo = k
		}
		off += lo
		v = s.X
	}
}

func c13Sites(fn *ssa.Function) []c13Site {
	var out []c13Site
	for _, b := range fn.Blocks {
		for _, in := range b.Instrs {
			switch x := in.(type) {
			case *ssa.Call:
				name := calleeName(&x.Call)
				var width int64
				switch {
				case strings.HasSuffix(name, "ndian.Uint64"):
					width = 8
				case strings.HasSuffix(name, "ndian.Uint32"):
					width = 4
				case strings.HasSuffix(name, "ndian.Uint16"):
					width = 2
				}
				if width == 0 || !strings.HasPrefix(name, "encoding/binary.") {
					continue
				}
				args := x.Call.Args
				arg := args[len(args)-1]
				base, off := c13ResolveSlice(arg)
				out = append(out, c13Site{in: in, base: base, need: off + width, what: fmt.Sprintf("%s(%s)", name[strings.LastIndex(name, ".")+1:], Path(arg))})
			case *ssa.IndexAddr:
				if !c13IsByteSeq(x.X.Type()) {
					continue
				}
				base, off := c13ResolveSlice(x.X)
				if k, ok := c13ConstInt(x.Index); ok {
					out = append(out, c13Site{in: in, base: base, need: off + k + 1, what: Path(x)})
				} else if off == 0 {
					out = append(out, c13Site{in: in, base: base, sym: x.Index, need: -1, what: Path(x)})
				} else {
					out = append(out, c13Site{in: in, base: base, need: -2, what: Path(x)})
				}
			case *ssa.Index:
				if !c13IsByteSeq(x.X.Type()) {
					continue
				}
				if k, ok := c13ConstInt(x.Index); ok {
					out = append(out, c13Site{in: in, base: x.X, need: k + 1, what: Path(x)})
				} else {
					out = append(out, c13Site{in: in, base: x.X, sym: x.Index, need: -1, what: Path(x)})
				}
			case *ssa.Slice:
				if !c13IsByteSeq(x.X.Type()) {
					continue
				}
				base, off := c13ResolveSlice(x.X)
				hi := x.High
				if hi == nil {
					hi = x.Low
				}
				if hi == nil {
					continue
				}
				if k, ok := c13ConstInt(hi); ok {
					if off+k > 0 {
						out = append(out, c13Site{in: in, base: base, need: off + k, what: Path(x)})
					}
				} else if off == 0 {
					out = append(out, c13Site{in: in, base: base, sym: hi, what: Path(x)})
				} else {
					out = append(out, c13Site{in: in, base: base, need: -2, what: Path(x)})
				}
			}
		}
	}
	return out
}

func c13DecodeScope(c *Ctx) []*ssa.Function {
	_, regFns, _ := c13RegistryEntries(c)
	roots := append([]*ssa.Function{}, regFns...)
	for _, n := range []string{"decodeCommand", "readTLV", "commandTypeForDiagnostics", "isApplyDeltaCommandData", "isSourceMigrationMaintenanceCommandData"} {
		if fn := c.P.Funcs[c13fsm+n]; fn != nil {
			roots = append(roots, fn)
		}
	}
	_, order := c.Reach(roots, []string{"pkg/db/*", "pkg/slot/multiraft.*", "pkg/wklog*"})
	var out []*ssa.Function
	for _, fn := range order {
		if n := funcShortName(fn); strings.HasPrefix(n, c13fsm) && !globAny(c13DecodeScopeExclude, n) {
			out = append(out, fn)
		}
	}
	return out
}

func c13DecodeSafe(c *Ctx, rule string) {
	scope := c13DecodeScope(c)
	if len(scope) < 20 {
		c.add("decodesafe", rule, "scope", Undecided, "", fmt.Sprintf("only %d decoder function(s) found below decodeCommand/commandDecoders (anchors moved)", len(scope)))
		return
	}
	total := 0
	usedTriage := map[string]bool{}
	var panics []string
	for _, fn := range scope {
		name := funcShortName(fn)
		c.FuncsAnalysed[name] = true
		sites := c13Sites(fn)
		var bad []string
		var badPos string
		n := 0
		for _, s := range sites {
			n++
			key := name + "|" + s.what
			triaged := false
			for tk := range c13DecodeTriage {
				if glob(tk, key) {
					usedTriage[tk] = true
					triaged = true
				}
			}
			if triaged {
				continue
			}
			proved := false
			if n, ok := c13StaticLen(s.base); ok && s.sym == nil && s.need >= 0 && s.need <= n {
				proved = true
			}
			if !proved && (s.need >= 0 || s.sym != nil) {
				edges := c13LenEdges(fn, s.base, s.need, s.sym)
				if len(edges) > 0 {
					limit := reachUnguarded(fn, edges, nil)
					blk := s.in.Block()
					if lim, ok := limit[blk]; !ok || indexIn(blk, s.in) >= lim {
						proved = true
					}
					c.EdgesRemoved += len(edges)
				}
			}
			if !proved {
				needs := fmt.Sprintf("len >= %d", s.need)
				if s.sym != nil {
					needs = Path(s.sym) + " <= len"
				}
				bad = append(bad, fmt.Sprintf("%s (needs %s) at %s", s.what, needs, c.P.InstrPos(s.in)))
				if badPos == "" {
					badPos = c.P.InstrPos(s.in)
				}
			}
		}
		total += n
		for _, b := range fn.Blocks {
			for _, in := range b.Instrs {
				switch x := in.(type) {
				case *ssa.Panic:
					panics = append(panics, fmt.Sprintf("%s panics at %s", name, c.P.InstrPos(in)))
				case *ssa.TypeAssert:
					if !x.CommaOk {
						panics = append(panics, fmt.Sprintf("%s has an unchecked type assertion at %s", name, c.P.InstrPos(in)))
					}
				}
			}
		}
		if n == 0 {
			continue
		}
		construct := name + "#bounds"
		if len(bad) > 0 {
			c.add("decodesafe", rule, construct, Violated, badPos, fmt.Sprintf("read of input bytes not dominated by a sufficient length check: %s", strings.Join(bad, "; ")))
		} else {
			c.add("decodesafe", rule, construct, Held, c.P.Pos(fn.Pos()), fmt.Sprintf("%d fixed-offset read(s)/slice(s) of input bytes, each dominated by a length fact", n))
		}
	}
	for k, reason := range c13DecodeTriage {
		if usedTriage[k] {
			c.add("decodesafe", rule, "triaged:"+k, Exception, "", reason)
		} else {
			c.add("decodesafe", rule, "triaged:"+k, Undecided, "", "triage entry is stale (site no longer exists)")
		}
	}
	if len(panics) > 0 {
		c.add("decodesafe", rule, "decoders#no-panic", Violated, "", strings.Join(panics, "; "))
	} else {
		c.add("decodesafe", rule, "decoders#no-panic", Held, "", fmt.Sprintf("%d decoder function(s), %d bounded read site(s); no panic, no unchecked type assertion", len(scope), total))
	}
	// the cursor always advances by at least the TLV header
	rt := c.Fn(c13fsm + "readTLV")
	if rt != nil {
		okShape := true
		nret := 0
		for _, in := range instrsMatching(rt, RetNil{}) {
			nret++
			r := in.(*ssa.Return)
			if len(r.Results) != 4 || !glob("(5 + *)", Path(retOperand(r, 2))) {
				okShape = false
			}
		}
		st := Held
		if !okShape || nret == 0 {
			st = Violated
		}
		c.add("decodesafe", rule, c13fsm+"readTLV#advance>=header", st, c.P.Pos(rt.Pos()), "every successful readTLV return reports consumed = tlvOverhead + length (cursor loops cannot spin)")
	}
}

// c13BatchTouch: any per-command mutation of the batch (command.apply, a staging helper, or a direct
// WriteBatch staging call). Batch-level bookkeeping after the command loop (SetSlotAppliedIndex,
// Commit) and the deferred Close are not per-command effects.
var c13BatchTouch = InstrFn{"command applied or staged into the batch", func(in ssa.Instruction) bool {
	call, ok := in.(*ssa.Call)
	if !ok {
		return false
	}
	name := calleeName(&call.Call)
	if globAny([]string{c13fsm + "command.apply", c13fsm + "hashSlotFilteredCommand.applyForHashSlot", c13fsm + "stateMachine.stage*", c13fsm + "stateMachine.applyMigration*"}, name) {
		return true
	}
	if !glob("pkg/db/meta.WriteBatch.*", name) {
		return false
	}
	return !globAny([]string{"pkg/db/meta.WriteBatch.Close", "pkg/db/meta.WriteBatch.Commit", "pkg/db/meta.WriteBatch.SetSlotAppliedIndex"}, name)
}}

// ---------------------------------------------------------------------------
// R4 helper: a fenced hash slot skips the command

func c13FenceRules(c *Ctx, rule string, ab *ssa.Function) {
	if ab == nil {
		return
	}
	touch := c13BatchTouch
	c12EdgeExcludes(c, rule, ab, "*.stateMachine.isHashSlotFenced(*)#0 == true", true, touch)
	c12EdgeExcludes(c, rule, ab, "*.stateMachine.isHashSlotFenced(*)#1 != nil", false, OneOf{touch, RetNil{}})
	c.CallShape(rule, ab, c13fsm+"stateMachine.isHashSlotFenced", "*(m, ctx, *.commandApplyHashSlots(*.decodeCommand(*.Data)#0, *)[*], *)")
	// the fence loop is skipped only for the enumerated maintenance commands
	c12GuardFrom(c, rule, ab, c12From{From: CallTo{c13fsm + "isMigrationMaintenanceCommand"}, Local: true}, CallTo{c13fsm + "command.apply"},
		"*.isMigrationMaintenanceCommand(*) == true || (* + 1) >= len(*.commandApplyHashSlots(*))")
	fenced := c.Fn(c13fsm + "stateMachine.isHashSlotFenced")
	c.Guard(rule, fenced, Ret{0, "false"}, "m == nil || *.SourceSlot != m.slot || *.FenceIndex == 0 || errors.Is(*) == true || *LoadHashSlotMigrationState(*)#1 != nil || *.target != *.TargetSlot")
	c.Guard(rule, fenced, Ret{0, "true"}, "*.SourceSlot == m.slot", "*.FenceIndex != 0")
}

// ---------------------------------------------------------------------------
// R5 helper: one WriteBatch per ApplyBatch

// c13SingleBatch: fn creates exactly one WriteBatch, commits it at exactly one call site, and
// every *meta.WriteBatch passed to any call in fn is that very SSA value.
func c13SingleBatch(c *Ctx, rule string, fn *ssa.Function) {
	if fn == nil {
		return
	}
	fname := c.P.Name(fn)
	c.FuncsAnalysed[fname] = true
	construct := fname + "#single-writebatch"
	var news []*ssa.Call
	for _, in := range instrsMatching(fn, CallTo{"pkg/db/meta.DB.NewWriteBatch"}) {
		if cl, ok := in.(*ssa.Call); ok {
			news = append(news, cl)
		}
	}
	if len(news) != 1 {
		c.add("order", rule, construct, Violated, c.P.Pos(fn.Pos()), fmt.Sprintf("%s creates %d WriteBatches; the commands, the applied-delta records, the migration outbox and the applied index must share one", fname, len(news)))
		return
	}
	wb := ssa.Value(news[0])
	isWB := func(t types.Type) bool {
		p, ok := t.(*types.Pointer)
		if !ok {
			return false
		}
		n, ok := p.Elem().(*types.Named)
		return ok && n.Obj().Name() == "WriteBatch" && n.Obj().Pkg() != nil && strings.HasSuffix(n.Obj().Pkg().Path(), "pkg/db/meta")
	}
	var bad []string
	uses, commits := 0, 0
	for _, b := range fn.Blocks {
		for _, in := range b.Instrs {
			ci, ok := in.(ssa.CallInstruction)
			if !ok {
				continue
			}
			for _, a := range callArgs(ci.Common()) {
				if !isWB(a.Type()) {
					continue
				}
				uses++
				if a != wb {
					bad = append(bad, fmt.Sprintf("%s at %s", renderCall(ci.Common(), 2, nil), c.P.InstrPos(in)))
				}
			}
			if _, isDefer := in.(*ssa.Defer); !isDefer && calleeName(ci.Common()) == "pkg/db/meta.WriteBatch.Commit" {
				commits++
			}
		}
	}
	c.CallSites += uses
	switch {
	case len(bad) > 0:
		c.add("order", rule, construct, Violated, c.P.Pos(fn.Pos()), "a call receives a WriteBatch other than the one that is committed: "+strings.Join(bad, "; "))
	case commits != 1:
		c.add("order", rule, construct, Violated, c.P.Pos(fn.Pos()), fmt.Sprintf("%d Commit call sites (expected exactly 1)", commits))
	default:
		c.add("order", rule, construct, Held, c.P.Pos(fn.Pos()), fmt.Sprintf("1 NewWriteBatch, %d call argument(s) all the same SSA value, 1 Commit site", uses))
	}
}
