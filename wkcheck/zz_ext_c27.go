package main

import (
	"fmt"
	"go/types"
	"sort"
	"strings"
)

// C27 extension: every struct-typed message handed to an append* encoder of the two binary cluster
// codecs has ALL its fields written (a field that the encoder forgets is silently zero after a
// forwarded RPC — the decoder cannot restore what was never sent). Exemptions carry reasons.
func init() {
	extend("C27", []string{"./pkg/channel"}, func(c *Ctx) {
		exempt := map[string]string{
			// reasons confirmed by reading the code at the pinned commit
			"Record.SizeBytes@pkg/cluster/channels.appendRecord": "",
		}
		_ = exempt
		var fns []string
		for _, pat := range []string{"pkg/cluster/channels.append*", "pkg/channel/replication.append*"} {
			for _, fn := range c.P.FuncsMatching(pat) {
				if fn.Parent() == nil {
					fns = append(fns, c.P.Name(fn))
				}
			}
		}
		sort.Strings(fns)
		n := 0
		for _, name := range fns {
			fn := c.P.Funcs[name]
			if fn == nil || len(fn.Params) < 2 {
				continue
			}
			T := fn.Params[1].Type()
			if p, ok := T.Underlying().(*types.Pointer); ok {
				T = p.Elem()
			}
			named, ok := T.(*types.Named)
			if !ok {
				continue
			}
			st, ok := named.Underlying().(*types.Struct)
			if !ok || st.NumFields() == 0 {
				continue
			}
			if named.Obj().Pkg() == nil || !strings.HasPrefix(named.Obj().Pkg().Path(), modulePath) {
				continue
			}
			// only real encoders: func(dst []byte, msg T, ...) []byte
			if fn.Params[0].Type().String() != "[]byte" || fn.Signature.Results().Len() != 1 || fn.Signature.Results().At(0).Type().String() != "[]byte" {
				continue
			}
			n++
			if xc27Delegates(fn) {
				c.add("cover", "X1-encoder-covers", name+"#writes-every-field-of:"+named.Obj().Name(), Held, c.P.Pos(fn.Pos()), "hands the whole value to another append* encoder (which is checked itself)")
				continue
			}
			used := fieldsUsed(WithClosures(fn), named, true)
			var missing []string
			for i := 0; i < st.NumFields(); i++ {
				f := st.Field(i).Name()
				if used[f] > 0 {
					continue
				}
				if _, ok := c27EncoderExempt[named.Obj().Name()+"."+f+"@"+name]; ok {
					continue
				}
				missing = append(missing, f)
			}
			construct := name + "#writes-every-field-of:" + named.Obj().Name()
			if len(missing) > 0 {
				c.add("cover", "X1-encoder-covers", construct, Violated, c.P.Pos(fn.Pos()),
					fmt.Sprintf("%s never reads field(s) %v of %s: they are not on the wire, so the receiving side sees their zero value", name, missing, named.Obj().Name()))
			} else {
				c.add("cover", "X1-encoder-covers", construct, Held, c.P.Pos(fn.Pos()), fmt.Sprintf("all %d fields written (exempt: %d)", st.NumFields(), c27ExemptCount(named.Obj().Name(), name)))
			}
		}
		if n < 25 {
			c.add("cover", "X1-encoder-covers", "encoders#count", Undecided, "", fmt.Sprintf("only %d struct encoders found (hand-confirmed minimum 25)", n))
		}
	},
		Mutant{Name: "x-ack-encoder-forgets-stopped", File: "pkg/cluster/channels/codec.go", Old: "\tdst = appendUvarint(dst, req.ActivityVersion)\n\tdst = appendBool(dst, req.Stopped)\n", New: "\tdst = appendUvarint(dst, req.ActivityVersion)\n\tdst = appendBool(dst, false)\n", Expect: "C27/X1*appendAckRequest*"},
		Mutant{Name: "x-replicate-encoder-forgets-committed", File: "pkg/channel/replication/codec.go", Old: "\tdst = appendCodecUvarint(dst, request.Committed)\n\treturn appendCodecBool(dst, request.ServerAllocatedMessageIDs)", New: "\tdst = appendCodecUvarint(dst, 0)\n\treturn appendCodecBool(dst, request.ServerAllocatedMessageIDs)", Expect: "C27/X1*appendReplicateRequest*"},
	)
}

// c27EncoderExempt: "Type.Field@encoder" → reason the field is intentionally not on the wire.
var c27EncoderExempt = map[string]string{}

func c27ExemptCount(typeName, fn string) int {
	n := 0
	for k := range c27EncoderExempt {
		if strings.HasPrefix(k, typeName+".") && strings.HasSuffix(k, "@"+fn) {
			n++
		}
	}
	return n
}

// xc27Delegates: the message parameter (or its dereference / spilled copy) is passed whole to another append* function.
func xc27Delegates(fn *ssaFunction) bool {
	for _, b := range fn.Blocks {
		for _, in := range b.Instrs {
			call, ok := in.(*ssaCall)
			if !ok {
				continue
			}
			name := calleeName(&call.Call)
			if i := strings.LastIndex(name, "."); i < 0 || !strings.HasPrefix(name[i+1:], "append") {
				continue
			}
			for _, a := range call.Call.Args {
				if p := Path(a); p == fn.Params[1].Name() {
					if _, isStruct := a.Type().Underlying().(*types.Struct); isStruct {
						return true
					}
				}
			}
		}
	}
	return false
}
