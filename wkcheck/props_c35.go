package main

import (
	"fmt"
	"go/constant"
	"go/token"
	"sort"
	"strings"

	"golang.org/x/tools/go/ssa"
)

func init() {
	register(&PropSpec{
		ID:        "C35",
		Pkgs:      []string{"./pkg/protocol/channelid", "./internal/bench/workload"},
		Technique: "static analysis: SSA edge-dominance on the encoder's decision list (both copies), return-shape and call-shape rules, who-may-build confinement of \"@\" ids",
		Explain:   "Decides the structural premises of canonicity: (1) EncodePersonChannel and its bench copy encodeBenchPersonChannel return left@right only behind (crc(left) > crc(right)) or (crc equal and left > right), return right@left only behind the exact negation, and return nothing else - so the result is the lexicographic maximum of (crc,uid) first, which is the same whichever argument order is used; (2) every success return of NormalizePersonChannel is a call of EncodePersonChannel, on the decoded parts only behind DecodePersonChannel succeeded and left == sender or right == sender, on (sender, channelID) only when the id has no separator, and never with an empty sender/channel; (3) DecodePersonChannel succeeds only on exactly two non-empty parts and returns them in order; (4) ToCommandChannel/FromCommandChannel branch on IsCommandChannel with the right polarity and all three use the same suffix constant; (5) only the listed encoders concatenate with the \"@\" separator. NOT decided: the string equalities themselves for all UID pairs (symmetry follows from (1) only assuming CRC-32 and string comparison are deterministic), idempotence/reversibility for UIDs that themselves contain the separator or the command suffix, callers outside the two packages building ids by other means (fmt.Sprintf).",
		Run:       c35,
		Mutants: []Mutant{
			{Name: "encode-hash-nonstrict", File: "pkg/protocol/channelid/person.go", Old: "if leftHash > rightHash {", New: "if leftHash >= rightHash {", Expect: "C35/R1-encode*"},
			{Name: "encode-drop-hash-tie", File: "pkg/protocol/channelid/person.go", Old: "if leftHash == rightHash && leftUID > rightUID {", New: "if leftUID > rightUID {", Expect: "C35/R1-encode*"},
			{Name: "encode-tie-nonstrict-wrong-arm", File: "pkg/protocol/channelid/person.go", Old: "if leftHash == rightHash && leftUID > rightUID {", New: "if leftHash == rightHash || leftUID > rightUID {", Expect: "C35/R1-encode*"},
			{Name: "encode-fallthrough-same-order", File: "pkg/protocol/channelid/person.go", Old: "\treturn rightUID + \"@\" + leftUID\n", New: "\treturn leftUID + \"@\" + rightUID\n", Expect: "C35/R1-encode*"},
			{Name: "bench-copy-diverges", File: "internal/bench/workload/person.go", Old: "if leftHash == rightHash && leftUID > rightUID {", New: "if leftHash == rightHash && leftUID < rightUID {", Expect: "C35/R2-sibling*"},
			{Name: "normalize-drop-sender-check", File: "pkg/protocol/channelid/person.go", Old: "if left != senderUID && right != senderUID {", New: "if left != senderUID && right == \"\" {", Expect: "C35/R3-normalize*"},
			{Name: "normalize-sender-check-or", File: "pkg/protocol/channelid/person.go", Old: "if left != senderUID && right != senderUID {", New: "if left != senderUID && right != senderUID && left != right {", Expect: "C35/R3-normalize*"},
			{Name: "normalize-return-raw", File: "pkg/protocol/channelid/person.go", Old: "\treturn EncodePersonChannel(left, right), nil", New: "\treturn channelID, nil", Expect: "C35/R3-normalize*"},
			{Name: "decode-allow-empty-part", File: "pkg/protocol/channelid/person.go", Old: "if len(parts) != 2 || parts[0] == \"\" || parts[1] == \"\" {\n\t\treturn \"\", \"\", ErrInvalidPersonChannel", New: "if len(parts) != 2 || parts[0] == \"\" {\n\t\treturn \"\", \"\", ErrInvalidPersonChannel", Expect: "C35/R4-decode*"},
			{Name: "tocommand-always-append", File: "pkg/protocol/channelid/command.go", Old: "\tif IsCommandChannel(channelID) {\n\t\treturn channelID\n\t}\n\treturn channelID + CommandChannelSuffix", New: "\treturn channelID + CommandChannelSuffix", Expect: "C35/R5-command*"},
			{Name: "fromcommand-polarity", File: "pkg/protocol/channelid/command.go", Old: "if !IsCommandChannel(channelID) {", New: "if IsCommandChannel(channelID) {", Expect: "C35/R5-command*"},
			{Name: "fromcommand-other-suffix", File: "pkg/protocol/channelid/command.go", Old: "strings.TrimSuffix(channelID, CommandChannelSuffix)", New: "strings.TrimSuffix(channelID, \"__cmd\")", Expect: "C35/R5-command*"},
			{Name: "new-at-builder", File: "pkg/protocol/channelid/command.go", Old: "// IsCommandChannel reports", New: "func personChannelFast(a, b string) string { return a + \"@\" + b }\n\n// IsCommandChannel reports", Expect: "C35/R6-confine*"},
		},
	})
}

// c35EncoderRules states the decision list of a two-argument person-channel
// encoder in terms of the function's own parameter names.
func c35EncoderRules(c *Ctx, rule string, fn *ssa.Function) {
	if fn == nil {
		return
	}
	fname := c.P.Name(fn)
	if len(fn.Params) != 2 {
		c.add("shape", rule, fname+"#params", Undecided, c.P.Pos(fn.Pos()), "encoder no longer has exactly two parameters; rule table must be revisited")
		return
	}
	l, r := fn.Params[0].Name(), fn.Params[1].Name()
	hl, hr := "hash/crc32.ChecksumIEEE("+l+")", "hash/crc32.ChecksumIEEE("+r+")"
	lr := fmt.Sprintf("((%s + \"@\") + %s)", l, r)
	rl := fmt.Sprintf("((%s + \"@\") + %s)", r, l)
	// left@right  ⇒  crc(l) > crc(r)  ∨  (crc(l) == crc(r) ∧ l > r)
	c.Guard(rule, fn, Ret{0, lr},
		hl+" > "+hr+" || "+hl+" == "+hr,
		hl+" > "+hr+" || "+l+" > "+r,
	)
	// right@left  ⇒  ¬(the above)
	c.Guard(rule, fn, Ret{0, rl},
		hl+" <= "+hr,
		hl+" != "+hr+" || "+l+" <= "+r,
	)
	// nothing else is ever returned
	n := 0
	var bad []string
	for _, in := range instrsMatching(fn, AnyRet{}) {
		n++
		ret := in.(*ssa.Return)
		if len(ret.Results) != 1 {
			bad = append(bad, c.P.InstrPos(in))
			continue
		}
		s := Path(retOperand(ret, 0))
		if s != lr && s != rl {
			bad = append(bad, s+" at "+c.P.InstrPos(in))
		}
	}
	construct := fname + "#returns-only-l@r-or-r@l"
	if len(bad) > 0 || n == 0 {
		c.add("shape", rule, construct, Violated, c.P.Pos(fn.Pos()), "encoder returns something other than left@right / right@left: "+strings.Join(bad, "; "))
	} else {
		c.add("shape", rule, construct, Held, c.P.Pos(fn.Pos()), fmt.Sprintf("%d return(s), each is %s or %s", n, lr, rl))
	}
}

// c35AllReturns: result idx of every return of fn renders to one of the globs.
func c35AllReturns(c *Ctx, rule string, fn *ssa.Function, idx int, globs ...string) {
	n := 0
	var bad []string
	for _, in := range instrsMatching(fn, AnyRet{}) {
		ret := in.(*ssa.Return)
		n++
		if idx >= len(ret.Results) {
			bad = append(bad, c.P.InstrPos(in))
			continue
		}
		// a merged result (named result / `r := a; if c { r = b }; return r`) is judged through its incoming values
		vals := []ssa.Value{retOperand(ret, idx)}
		if phi, isPhi := vals[0].(*ssa.Phi); isPhi {
			vals = phi.Edges
		}
		for _, v := range vals {
			if s := Path(v); !globAny(globs, s) {
				bad = append(bad, s+" at "+c.P.InstrPos(in))
			}
		}
	}
	construct := fmt.Sprintf("%s#every-return[%d]∈%v", c.P.Name(fn), idx, globs)
	if len(bad) > 0 || n == 0 {
		c.add("shape", rule, construct, Violated, c.P.Pos(fn.Pos()), "a return has a result outside the allowed shapes: "+strings.Join(bad, "; "))
	} else {
		c.add("shape", rule, construct, Held, c.P.Pos(fn.Pos()), fmt.Sprintf("%d return(s), all of an allowed shape", n))
	}
}

func c35(c *Ctx) {
	const pkg = "pkg/protocol/channelid."
	enc := c.Fn(pkg + "EncodePersonChannel")
	c35EncoderRules(c, "R1-encode", enc)
	c35EncoderRules(c, "R2-sibling", c.Fn("internal/bench/workload.encodeBenchPersonChannel"))
	c.Min("R1-encode", 5)
	c.Min("R2-sibling", 5)

	// ---- NormalizePersonChannel
	norm := c.Fn(pkg + "NormalizePersonChannel")
	if norm != nil && len(norm.Params) == 2 {
		sender, ch := norm.Params[0].Name(), norm.Params[1].Name()
		dec := pkg + "DecodePersonChannel(" + ch + ")"
		noSep := "strings.Contains(" + ch + ", \"@\") == false"
		c.Guard("R3-normalize", norm, RetNil{},
			sender+" != \"\"",
			ch+" != \"\"",
			noSep+" || "+dec+"#2 == nil",
			noSep+" || "+dec+"#0 == "+sender+" || "+dec+"#1 == "+sender,
		)
		// the (sender, channelID) form only when the id carries no separator
		c.Guard("R3-normalize", norm, CallTo{pkg + "EncodePersonChannel(" + sender + ", " + ch + ")"}, noSep)
		// the decoded form only behind a successful decode that contains the sender
		c.Guard("R3-normalize", norm, CallTo{pkg + "EncodePersonChannel(" + dec + "#0, " + dec + "#1)"},
			dec+"#2 == nil",
			dec+"#0 == "+sender+" || "+dec+"#1 == "+sender,
		)
		c.CallShape("R3-normalize", norm, pkg+"EncodePersonChannel",
			pkg+"EncodePersonChannel("+sender+", "+ch+")",
			pkg+"EncodePersonChannel("+dec+"#0, "+dec+"#1)",
		)
		// every success return hands back the encoder's result, every failure returns ""
		n := 0
		var bad []string
		for _, in := range instrsMatching(norm, AnyRet{}) {
			ret := in.(*ssa.Return)
			if len(ret.Results) != 2 {
				bad = append(bad, c.P.InstrPos(in))
				continue
			}
			n++
			v := stripConv(retOperand(ret, 0))
			if (RetNil{}).Match(in) {
				call, ok := v.(*ssa.Call)
				if !ok || calleeName(&call.Call) != pkg+"EncodePersonChannel" {
					bad = append(bad, "success return of "+Path(v)+" at "+c.P.InstrPos(in))
				}
			}
		}
		construct := pkg + "NormalizePersonChannel#success-returns-encoder-result"
		if len(bad) > 0 || n == 0 {
			c.add("shape", "R3-normalize", construct, Violated, c.P.Pos(norm.Pos()), "a success return does not return EncodePersonChannel(…): "+strings.Join(bad, "; "))
		} else {
			c.add("shape", "R3-normalize", construct, Held, c.P.Pos(norm.Pos()), fmt.Sprintf("%d return(s); every `…, nil` return is a call of EncodePersonChannel", n))
		}
	} else if norm != nil {
		c.add("shape", "R3-normalize", pkg+"NormalizePersonChannel#params", Undecided, c.P.Pos(norm.Pos()), "signature changed; rule table must be revisited")
	}
	c.Min("R3-normalize", 9)

	// ---- DecodePersonChannel
	dec := c.Fn(pkg + "DecodePersonChannel")
	if dec != nil && len(dec.Params) == 1 {
		ch := dec.Params[0].Name()
		split := "strings.Split(" + ch + ", \"@\")"
		c.Guard("R4-decode", dec, RetNil{},
			"len("+split+") == 2",
			split+"[0] != \"\"",
			split+"[1] != \"\"",
		)
		n := 0
		var bad []string
		for _, in := range instrsMatching(dec, RetNil{}) {
			n++
			ret := in.(*ssa.Return)
			if len(ret.Results) != 3 || Path(retOperand(ret, 0)) != split+"[0]" || Path(retOperand(ret, 1)) != split+"[1]" {
				bad = append(bad, c.P.InstrPos(in))
			}
		}
		construct := pkg + "DecodePersonChannel#returns-parts-in-order"
		if len(bad) > 0 || n == 0 {
			c.add("shape", "R4-decode", construct, Violated, c.P.Pos(dec.Pos()), "success return is not (parts[0], parts[1]) of the \"@\" split: "+strings.Join(bad, ", "))
		} else {
			c.add("shape", "R4-decode", construct, Held, c.P.Pos(dec.Pos()), fmt.Sprintf("%d success return(s) of (%s[0], %s[1])", n, split, split))
		}
	}
	c.Min("R4-decode", 4)

	// ---- command channel mapping
	to := c.Fn(pkg + "ToCommandChannel")
	from := c.Fn(pkg + "FromCommandChannel")
	is := c.Fn(pkg + "IsCommandChannel")
	if to != nil && len(to.Params) == 1 {
		p := to.Params[0].Name()
		isCmd := pkg + "IsCommandChannel(" + p + ")"
		c.Guard("R5-command", to, Ret{0, p}, isCmd+" == true")
		c.Guard("R5-command", to, RetNot{0, []string{p}}, isCmd+" == false")
		c35AllReturns(c, "R5-command", to, 0, p, "("+p+" + \"*\")")
	}
	if from != nil && len(from.Params) == 1 {
		p := from.Params[0].Name()
		isCmd := pkg + "IsCommandChannel(" + p + ")"
		c.Guard("R5-command", from, Ret{1, "true"}, isCmd+" == true")
		c.Guard("R5-command", from, Ret{1, "false"}, isCmd+" == false")
		c.Guard("R5-command", from, Ret{0, p}, isCmd+" == false")
		c.Guard("R5-command", from, CallTo{"strings.TrimSuffix(" + p + ", *)"}, isCmd+" == true")
		c35AllReturns(c, "R5-command", from, 1, "true", "false")
		c35AllReturns(c, "R5-command", from, 0, p, "strings.TrimSuffix("+p+", *)")
		c.Guard("R5-command", from, Ret{0, "strings.TrimSuffix(" + p + ", *)"}, isCmd+" == true")
	}
	// one suffix constant everywhere
	suffixes := map[string][]string{}
	note := func(where string, v ssa.Value) {
		if k, ok := v.(*ssa.Const); ok && k.Value != nil && k.Value.Kind() == constant.String {
			s := constant.StringVal(k.Value)
			suffixes[s] = append(suffixes[s], where)
		} else {
			suffixes["<non-constant "+Path(v)+">"] = append(suffixes["<non-constant "+Path(v)+">"], where)
		}
	}
	nsites := 0
	for _, fn := range []*ssa.Function{is, to, from} {
		if fn == nil {
			continue
		}
		for _, b := range fn.Blocks {
			for _, in := range b.Instrs {
				switch x := in.(type) {
				case *ssa.Call:
					switch calleeName(&x.Call) {
					case "strings.HasSuffix", "strings.TrimSuffix":
						if len(x.Call.Args) == 2 {
							nsites++
							note(c.P.Name(fn)+":"+calleeName(&x.Call), x.Call.Args[1])
						}
					}
				case *ssa.BinOp:
					if x.Op == token.ADD && fn == to {
						nsites++
						note(c.P.Name(fn)+":concat", x.Y)
					}
				}
			}
		}
	}
	{
		construct := "pkg/protocol/channelid#one-command-suffix"
		var desc []string
		for s, w := range suffixes {
			desc = append(desc, fmt.Sprintf("%q@%v", s, w))
		}
		sort.Strings(desc)
		switch {
		case nsites < 3:
			c.add("shape", "R5-command", construct, Undecided, "", fmt.Sprintf("expected HasSuffix, TrimSuffix and the concatenation (3 sites), found %d", nsites))
		case len(suffixes) != 1:
			c.add("shape", "R5-command", construct, Violated, "", "IsCommandChannel/ToCommandChannel/FromCommandChannel do not use one suffix constant: "+strings.Join(desc, "; "))
		default:
			c.add("shape", "R5-command", construct, Held, "", fmt.Sprintf("%d sites use the same suffix: %s", nsites, strings.Join(desc, "; ")))
		}
	}
	if is != nil && len(is.Params) == 1 {
		c35AllReturns(c, "R5-command", is, 0, "strings.HasSuffix("+is.Params[0].Name()+", *)")
	}
	c.Min("R5-command", 12)

	// ---- who may concatenate with the "@" separator
	allowed := []string{pkg + "EncodePersonChannel", pkg + "EncodeAgentChannel", "internal/bench/workload.encodeBenchPersonChannel"}
	n := 0
	where := map[string]int{}
	var bad []string
	badPos := ""
	for _, fn := range c.P.AllFuncs {
		for _, b := range fn.Blocks {
			for _, in := range b.Instrs {
				bo, ok := in.(*ssa.BinOp)
				if !ok || bo.Op != token.ADD {
					continue
				}
				isAt := func(v ssa.Value) bool {
					k, ok := v.(*ssa.Const)
					return ok && k.Value != nil && k.Value.Kind() == constant.String && constant.StringVal(k.Value) == "@"
				}
				if !isAt(bo.X) && !isAt(bo.Y) {
					continue
				}
				n++
				name := c.P.Name(fn)
				where[name]++
				if !globAny(allowed, name) {
					bad = append(bad, name+" at "+c.P.InstrPos(in))
					if badPos == "" {
						badPos = c.P.InstrPos(in)
					}
				}
			}
		}
	}
	switch {
	case len(bad) > 0:
		c.add("confine", "R6-confine", "concat:\"@\"", Violated, badPos, fmt.Sprintf("an id is concatenated with the \"@\" separator outside the canonical encoders %v: %s", allowed, strings.Join(bad, "; ")))
	case n < 3:
		c.add("confine", "R6-confine", "concat:\"@\"", Undecided, "", fmt.Sprintf("%d concatenation site(s) with \"@\" found, hand-confirmed minimum 3 (encoders moved?)", n))
	default:
		c.add("confine", "R6-confine", "concat:\"@\"", Held, "", fmt.Sprintf("%d site(s), all inside the canonical encoders: %s", n, countsString(where)))
	}
}
