package main

// confine_closure.go — the "allowed owners" of a confinement rule are closed under private helpers:
// an unexported function or method that is only ever called (statically) from allowed owners, whose
// address is never taken and which cannot be reached through an interface, is part of its callers.
// Extracting a block of an owner into a new helper in the same package therefore does not make a
// confinement rule fire, while any call from outside the owners still does.

import (
	"go/token"

	"golang.org/x/tools/go/ssa"
)

type callIndex struct {
	callers    map[*ssa.Function][]*ssa.Function // static call sites: callee -> enclosing functions
	valueUse   map[*ssa.Function]bool            // used as a value (stored, passed, bound): callers unknown
	invokeName map[string]bool                   // method names called through an interface somewhere
}

func (c *Ctx) callIndex() *callIndex {
	if c.cidx != nil {
		return c.cidx
	}
	ix := &callIndex{callers: map[*ssa.Function][]*ssa.Function{}, valueUse: map[*ssa.Function]bool{}, invokeName: map[string]bool{}}
	for _, fn := range c.P.AllFuncs {
		for _, b := range fn.Blocks {
			for _, in := range b.Instrs {
				var callee ssa.Value
				if ci, ok := in.(ssa.CallInstruction); ok {
					cc := ci.Common()
					if cc.IsInvoke() {
						ix.invokeName[cc.Method.Name()] = true
					} else {
						callee = cc.Value
						if f, ok := callee.(*ssa.Function); ok {
							ix.callers[f] = append(ix.callers[f], fn)
						}
					}
				}
				for _, op := range in.Operands(nil) {
					if *op == nil || *op == callee {
						continue
					}
					if f, ok := (*op).(*ssa.Function); ok {
						ix.valueUse[f] = true
					}
				}
			}
		}
	}
	c.cidx = ix
	return ix
}

// allowedOwner: fn matches the allowed globs, or is a private helper all of whose callers are allowed owners.
func (c *Ctx) allowedOwner(fn *ssa.Function, allowed []string) bool {
	return c.allowedOwnerRec(fn, allowed, 0, map[*ssa.Function]bool{})
}

func (c *Ctx) allowedOwnerRec(fn *ssa.Function, allowed []string, depth int, busy map[*ssa.Function]bool) bool {
	name := c.P.Name(fn)
	if globAny(allowed, name) || globAny(allowed, rootName(name)) {
		return true
	}
	if depth > 3 || busy[fn] {
		return false
	}
	// closures belong to their parent
	if p := fn.Parent(); p != nil {
		busy[fn] = true
		defer delete(busy, fn)
		return c.allowedOwnerRec(p, allowed, depth, busy)
	}
	if fn.Object() == nil || token.IsExported(fn.Name()) || fn.Name() == "init" || fn.Name() == "main" {
		return false
	}
	ix := c.callIndex()
	if ix.valueUse[fn] {
		return false
	}
	if fn.Signature.Recv() != nil && ix.invokeName[fn.Name()] {
		return false // may be reached through an interface
	}
	callers := ix.callers[fn]
	if len(callers) == 0 {
		return false
	}
	busy[fn] = true
	defer delete(busy, fn)
	for _, caller := range callers {
		if !c.allowedOwnerRec(caller, allowed, depth+1, busy) {
			return false
		}
	}
	return true
}
