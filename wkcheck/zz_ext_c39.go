package main

import (
	"fmt"
	"go/token"
	"go/types"
	"sort"
	"strings"

	"golang.org/x/tools/go/ssa"
)

// C39 extension — "writes forwarded as deltas are applied once … and only for the migrating hash slot".
//
// The source of a hash-slot migration forwards the WHOLE original command once per migrating hash
// slot (stateMachine.stageMigrationOutbox copies cmd.Data); the target unwraps it in
// applyDeltaCmd.apply and filters the items by the migrating hash slot ONLY when the decoded command
// implements hashSlotFilteredCommand; otherwise command.apply runs, which for a command that names
// its own hash slots per item (scopedHashSlotCommand) writes the items of EVERY hash slot — into a
// Slot that does not own them (on a shared node-local DB: re-creating rows the owner deleted since).
//
//	X1-scoped-filtered  every command type that a decoder of the decoder registry can return (resolved from
//	                    the registry's map updates and the decoders' return values) or that implements
//	                    `command` at all, and whose method set implements the multi-hash-slot scoping
//	                    interface, also implements hashSlotFilteredCommand          (go/types method sets)
//	X2-filter-compares  in every applyForHashSlot implementation each call that is handed the WriteBatch
//	                    either writes under the hashSlot PARAMETER itself or is reachable only through the
//	                    CFG edge on which the hash slot it writes under was compared equal to the parameter
//	X3-filter-parity    applyForHashSlot stages the same kinds of writes (set of callees handed the
//	                    WriteBatch) as the type's unfiltered apply: a filtered replay that forgets one of the
//	                    rows loses a write in the target
//	X4-unscoped-envelope the converse of X1: a command type that does NOT implement the scoping interface stages
//	                    every write under the envelope hash-slot parameter of apply (validation of ownership,
//	                    the migration fence and the delta forwarding see no other hash slot of such a command)
//
// Nothing is matched by local name, text or line: the interfaces and the registry are the only anchors.
const (
	xc39Pkg      = "pkg/slot/fsm"
	xc39Registry = "commandDecoders"
	xc39Scoped   = "scopedHashSlotCommand"
	xc39Filtered = "hashSlotFilteredCommand"
	xc39Command  = "command"
)

func init() {
	extend("C39", nil, func(c *Ctx) { xc39Run(c) },
		// remove the filter of another batch command: X1 must name exactly that type
		Mutant{Name: "x-latest-batch-loses-filter", File: "pkg/slot/fsm/command.go",
			Old:    "func (c *upsertChannelLatestBatchCmd) applyForHashSlot(wb *metadb.WriteBatch, hashSlot uint16) error {",
			New:    "func (c *upsertChannelLatestBatchCmd) applyOnlyHashSlot(wb *metadb.WriteBatch, hashSlot uint16) error {",
			Expect: "C39/X1-scoped-filtered/*upsertChannelLatestBatchCmd*"},
		// the defect itself, re-introduced on the fixed tree
		Mutant{Name: "x-runtime-meta-batch-loses-filter", File: "pkg/slot/fsm/channel_runtime_meta_cmds.go",
			Old:    "func (c *createChannelRuntimeMetaBatchCmd) applyForHashSlot(wb *metadb.WriteBatch, hashSlot uint16) error {",
			New:    "func (c *createChannelRuntimeMetaBatchCmd) applyFiltered(wb *metadb.WriteBatch, hashSlot uint16) error {",
			Expect: "C39/X1-scoped-filtered/*createChannelRuntimeMetaBatchCmd*"},
		// the method exists but ignores its argument
		Mutant{Name: "x-completion-filter-ignores-argument", File: "pkg/slot/fsm/person_directory_task_cmds.go",
			Old:    "func (c *completePersonDirectoryTaskBatchCmd) applyForHashSlot(wb *metadb.WriteBatch, hashSlot uint16) error {\n\tfor _, item := range c.items {\n\t\tif item.HashSlot == hashSlot {",
			New:    "func (c *completePersonDirectoryTaskBatchCmd) applyForHashSlot(wb *metadb.WriteBatch, hashSlot uint16) error {\n\tfor _, item := range c.items {\n\t\tif item.HashSlot == item.HashSlot {",
			Expect: "C39/X2-filter-compares/*completePersonDirectoryTaskBatchCmd.applyForHashSlot*"},
		Mutant{Name: "x-membership-filter-delegates-to-apply", File: "pkg/slot/fsm/person_directory_task_cmds.go",
			Old:    "func (c *ensureUserChannelMembershipBatchCmd) applyForHashSlot(wb *metadb.WriteBatch, hashSlot uint16) error {\n",
			New:    "func (c *ensureUserChannelMembershipBatchCmd) applyForHashSlot(wb *metadb.WriteBatch, hashSlot uint16) error {\n\tif len(c.items) > 0 {\n\t\treturn c.apply(wb, hashSlot)\n\t}\n",
			Expect: "C39/X2-filter-compares/*ensureUserChannelMembershipBatchCmd.applyForHashSlot*"},
		// the second write of an item escapes the comparison
		Mutant{Name: "x-admission-task-write-outside-filter", File: "pkg/slot/fsm/person_directory_task_cmds.go",
			Old:    "\tfor i, item := range c.items {\n\t\tif item.HashSlot != hashSlot {\n\t\t\tcontinue\n\t\t}\n\t\tresult, err := wb.CreateChannelRuntimeMeta(item.HashSlot, item.RuntimeMeta)",
			New:    "\tfor i, item := range c.items {\n\t\tif err := wb.EnsurePersonDirectoryTask(item.HashSlot, item.Task); err != nil {\n\t\t\treturn err\n\t\t}\n\t\tif item.HashSlot != hashSlot {\n\t\t\tcontinue\n\t\t}\n\t\tresult, err := wb.CreateChannelRuntimeMeta(item.HashSlot, item.RuntimeMeta)",
			Expect: "C39/X2-filter-compares/*admitPersonDirectoryTaskBatchCmd.applyForHashSlot*EnsurePersonDirectoryTask*"},
		// the filtered replay forgets one of the rows the unfiltered apply stages
		Mutant{Name: "x-runtime-meta-filter-forgets-directory-task", File: "pkg/slot/fsm/channel_runtime_meta_cmds.go",
			Old:    "\t\tif item.Meta.ChannelType == 1 {\n\t\t\tif err := wb.EnsurePersonDirectoryTask(item.HashSlot, metadb.PersonDirectoryTask{\n\t\t\t\tChannelID: item.Meta.ChannelID, ChannelType: item.Meta.ChannelType,\n\t\t\t}); err != nil {\n\t\t\t\treturn err\n\t\t\t}\n\t\t}\n",
			New:    "",
			Nth:    2,
			Expect: "C39/X3-filter-parity/*createChannelRuntimeMetaBatchCmd*"},
		// a batch command that names a hash slot per item stops declaring them: validation, fence and forwarding go blind
		Mutant{Name: "x-latest-batch-undeclared-hash-slots", File: "pkg/slot/fsm/command.go",
			Old:    "func (c *upsertChannelLatestBatchCmd) applyHashSlots(uint16) []uint16 {",
			New:    "func (c *upsertChannelLatestBatchCmd) declaredHashSlots(uint16) []uint16 {",
			Expect: "C39/X4-unscoped-envelope/*upsertChannelLatestBatchCmd.apply*"},
		Mutant{Name: "x-device-written-under-foreign-hash-slot", File: "pkg/slot/fsm/command.go",
			Old:    "return wb.UpsertDevice(hashSlot, c.device)",
			New:    "return wb.UpsertDevice(hashSlot+uint16(c.device.DeviceFlag), c.device)",
			Expect: "C39/X4-unscoped-envelope/*upsertDeviceCmd.apply*"},
		// behaviour-preserving: the filter moves into a helper with other parameter names
		Mutant{Name: "x-silent-membership-filter-in-helper", File: "pkg/slot/fsm/person_directory_task_cmds.go",
			Old:    "func (c *ensureUserChannelMembershipBatchCmd) applyForHashSlot(wb *metadb.WriteBatch, hashSlot uint16) error {\n\tfor _, item := range c.items {\n\t\tif item.HashSlot == hashSlot {\n\t\t\tif err := wb.EnsureUserChannelMembership(item.HashSlot, item.Membership); err != nil {\n\t\t\t\treturn err\n\t\t\t}\n\t\t}\n\t}\n\treturn nil\n}\n",
			New:    "func (c *ensureUserChannelMembershipBatchCmd) applyForHashSlot(wb *metadb.WriteBatch, hashSlot uint16) error {\n\treturn c.applyMatching(hashSlot, wb)\n}\n\nfunc (c *ensureUserChannelMembershipBatchCmd) applyMatching(only uint16, batch *metadb.WriteBatch) error {\n\tfor _, entry := range c.items {\n\t\tif entry.HashSlot != only {\n\t\t\tcontinue\n\t\t}\n\t\tif err := batch.EnsureUserChannelMembership(entry.HashSlot, entry.Membership); err != nil {\n\t\t\treturn err\n\t\t}\n\t}\n\treturn nil\n}\n",
			Expect: "!silent"},
		// behaviour-preserving: positive comparison, renamed locals, index-based loop
		Mutant{Name: "x-silent-latest-filter-rewritten", File: "pkg/slot/fsm/command.go",
			Old:    "\tfor _, item := range c.items {\n\t\tif item.HashSlot != hashSlot {\n\t\t\tcontinue\n\t\t}\n\t\tif err := wb.UpsertChannelLatest(item.HashSlot, item.Latest); err != nil {\n\t\t\treturn err\n\t\t}\n\t}\n\treturn nil\n}\n\nfunc (c *upsertChannelLatestBatchCmd) applyHashSlots",
			New:    "\tfor k := 0; k < len(c.items); k++ {\n\t\trow := &c.items[k]\n\t\tif hashSlot == row.HashSlot {\n\t\t\tif failure := wb.UpsertChannelLatest(hashSlot, row.Latest); failure != nil {\n\t\t\t\treturn failure\n\t\t\t}\n\t\t}\n\t}\n\treturn nil\n}\n\nfunc (c *upsertChannelLatestBatchCmd) applyHashSlots",
			Expect: "!silent"},
	)
}

func xc39Run(c *Ctx) {
	pk := c.P.Pkgs[xc39Pkg]
	sp := c.P.SPkgs[xc39Pkg]
	if pk == nil || sp == nil {
		c.add("anchor", "anchor", xc39Pkg, Undecided, "", "package not loaded")
		return
	}
	iface := func(name string) *types.Interface {
		obj := pk.Types.Scope().Lookup(name)
		if obj == nil {
			c.add("anchor", "anchor", xc39Pkg+"."+name, Undecided, "", "anchored interface not found (renamed? update zz_ext_c39.go)")
			return nil
		}
		it, ok := obj.Type().Underlying().(*types.Interface)
		if !ok {
			c.add("anchor", "anchor", xc39Pkg+"."+name, Undecided, c.P.Pos(obj.Pos()), "anchor is no longer an interface type")
			return nil
		}
		return it
	}
	cmdI, scopedI, filteredI := iface(xc39Command), iface(xc39Scoped), iface(xc39Filtered)
	if cmdI == nil || scopedI == nil || filteredI == nil {
		return
	}
	if scopedI.NumMethods() != 1 || filteredI.NumMethods() != 1 {
		c.add("anchor", "anchor", xc39Pkg+"."+xc39Scoped+"/"+xc39Filtered, Undecided, "", "the scoping/filter interfaces are expected to have exactly one method each")
		return
	}
	filterMethod := filteredI.Method(0)

	// ---- which concrete types can the registry hand to the state machine? -----------------
	registered, decoders, unresolved := xc39RegisteredTypes(c, sp)
	if decoders < 30 {
		c.add("shape", "X1-scoped-filtered", xc39Pkg+"."+xc39Registry+"#decoders-resolved", Undecided, "",
			fmt.Sprintf("only %d decoder functions resolved from the registry's map updates (hand-confirmed minimum 30): the registry is built differently now", decoders))
	}
	// A decoder whose result cannot be traced to a concrete type (e.g. it is built by a function value)
	// is still covered: every named type of the package that implements `command` is examined below.
	c.add("shape", "X1-scoped-filtered", xc39Pkg+"."+xc39Registry+"#every-registered-command-type-examined", Held, "",
		fmt.Sprintf("%d registered decoders, %d concrete result types traced; %d decoder(s) with untraceable results %v are covered by the package-wide method-set scan", decoders, len(registered), len(unresolved), unresolved))
	// plus every named type of the package that implements `command` (constructed by a nested decoder, a test hook, …)
	cands := map[*types.Named]string{}
	for t, via := range registered {
		cands[t] = "returned by registered decoder " + via
	}
	scope := pk.Types.Scope()
	for _, n := range scope.Names() {
		tn, ok := scope.Lookup(n).(*types.TypeName)
		if !ok || tn.IsAlias() {
			continue
		}
		named, ok := tn.Type().(*types.Named)
		if !ok || types.IsInterface(named) {
			continue
		}
		if xc39Implements(named, cmdI) {
			if _, have := cands[named]; !have {
				cands[named] = "implements command"
			}
		}
	}
	var order []*types.Named
	for t := range cands {
		order = append(order, t)
	}
	sort.Slice(order, func(i, j int) bool { return order[i].Obj().Name() < order[j].Obj().Name() })

	nScoped := 0
	var filteredTypes []*types.Named
	for _, t := range order {
		if xc39Implements(t, filteredI) {
			filteredTypes = append(filteredTypes, t)
		}
		if !xc39Implements(t, scopedI) {
			continue
		}
		nScoped++
		construct := xc39Pkg + "." + t.Obj().Name() + "#forwarded-delta-applies-only-the-migrating-hash-slot"
		if xc39Implements(t, filteredI) {
			c.add("types", "X1-scoped-filtered", construct, Held, c.P.Pos(t.Obj().Pos()),
				fmt.Sprintf("%s; implements %s and %s.%s", cands[t], xc39Scoped, xc39Filtered, filterMethod.Name()))
			continue
		}
		c.add("types", "X1-scoped-filtered", construct, Violated, c.P.Pos(t.Obj().Pos()),
			fmt.Sprintf("%s (%s) implements %s — its items name their own hash slots and the source forwards the whole command once per migrating hash slot — but not %s: applyDeltaCmd.apply falls back to the unfiltered apply, so a forwarded delta for ONE migrating hash slot writes the items of every other hash slot of the batch into the target Slot, which does not own them (rows of non-migrating hash slots appear in, and on a shared node DB are re-created after deletion by, a Slot that never owned them). Add %s(wb, hashSlot) that skips items whose hash slot differs from the argument, like the sibling batch commands",
				t.Obj().Name(), cands[t], xc39Scoped, xc39Filtered, filterMethod.Name()))
	}
	if nScoped < 4 {
		c.add("types", "X1-scoped-filtered", xc39Pkg+"#scoped-command-types", Undecided, "",
			fmt.Sprintf("only %d command types implement %s (hand-confirmed minimum 4): the scoping interface moved", nScoped, xc39Scoped))
	}

	// ---- X4: a command that does not declare its hash slots writes only under the envelope's ----
	applyName := cmdI.Method(0).Name()
	nEnvelope := 0
	for _, t := range order {
		if xc39Implements(t, scopedI) || !xc39Implements(t, cmdI) {
			continue
		}
		af := xc39Method(c, t, applyName)
		if af == nil || len(af.Params) != 3 {
			continue
		}
		nEnvelope++
		xc39EnvelopeWalk(c, c.P.Name(af), "", af, af.Params[1], af.Params[2], 0)
	}
	if nEnvelope < 30 {
		c.add("guard", "X4-unscoped-envelope", xc39Pkg+"#unscoped-command-types", Undecided, "",
			fmt.Sprintf("only %d unscoped command types with an apply body found (hand-confirmed minimum 30)", nEnvelope))
	}

	// ---- X2 / X3: the filters really filter ----------------------------------------------
	for _, t := range filteredTypes {
		ff := xc39Method(c, t, filterMethod.Name())
		if ff == nil {
			c.add("anchor", "anchor", xc39Pkg+"."+t.Obj().Name()+"."+filterMethod.Name(), Undecided, c.P.Pos(t.Obj().Pos()), "method body not found in the loaded program")
			continue
		}
		xc39FilterCompares(c, ff)
		if af := xc39Method(c, t, cmdI.Method(0).Name()); af != nil {
			xc39Parity(c, t, af, ff)
		}
	}
}

// xc39Implements: T or *T has every method of it.
func xc39Implements(t *types.Named, it *types.Interface) bool {
	return types.Implements(t, it) || types.Implements(types.NewPointer(t), it)
}

func xc39Method(c *Ctx, t *types.Named, name string) *ssa.Function {
	for _, recv := range []types.Type{types.NewPointer(t), t} {
		sel := c.P.SSA.MethodSets.MethodSet(recv).Lookup(t.Obj().Pkg(), name)
		if sel == nil {
			continue
		}
		if fn := c.P.SSA.MethodValue(sel); fn != nil && len(fn.Blocks) > 0 && fn.Synthetic == "" {
			return fn
		}
		if f, ok := sel.Obj().(*types.Func); ok {
			if fn := c.P.SSA.FuncValue(f); fn != nil && len(fn.Blocks) > 0 {
				return fn
			}
		}
	}
	return nil
}

// xc39RegisteredTypes: concrete (named) types of the command values returned by the functions stored
// into the decoder registry, anywhere in the package. Result: type → decoder short name.
func xc39RegisteredTypes(c *Ctx, sp *ssa.Package) (map[*types.Named]string, int, []string) {
	out := map[*types.Named]string{}
	g, _ := sp.Members[xc39Registry].(*ssa.Global)
	if g == nil {
		c.add("anchor", "anchor", xc39Pkg+"."+xc39Registry, Undecided, "", "decoder registry variable not found (renamed? update zz_ext_c39.go)")
		return out, 1 << 20, nil
	}
	isRegistry := func(v ssa.Value) bool {
		v = stripConv(v)
		if u, ok := v.(*ssa.UnOp); ok && u.Op == token.MUL && u.X == ssa.Value(g) {
			return true
		}
		if refs := v.Referrers(); refs != nil { // the MakeMap that is stored into the global
			for _, r := range *refs {
				if st, ok := r.(*ssa.Store); ok && st.Addr == ssa.Value(g) && st.Val == v {
					return true
				}
			}
		}
		return false
	}
	decoders := map[*ssa.Function]bool{}
	var unresolved []string
	var fns []*ssa.Function
	for _, m := range sp.Members {
		if f, ok := m.(*ssa.Function); ok {
			fns = append(fns, WithClosures(f)...)
		}
	}
	for _, fn := range c.P.AllFuncs {
		if fn.Pkg == sp {
			fns = append(fns, fn)
		}
	}
	seenFn := map[*ssa.Function]bool{}
	for _, fn := range fns {
		if seenFn[fn] {
			continue
		}
		seenFn[fn] = true
		for _, b := range fn.Blocks {
			for _, in := range b.Instrs {
				mu, ok := in.(*ssa.MapUpdate)
				if !ok || !isRegistry(mu.Map) {
					continue
				}
				switch v := stripConv(mu.Value).(type) {
				case *ssa.Function:
					decoders[v] = true
				case *ssa.MakeClosure:
					if f, ok := v.Fn.(*ssa.Function); ok {
						decoders[f] = true
					}
				default:
					unresolved = append(unresolved, c.P.Name(fn)+"#registry-entry:"+c.P.InstrPos(in))
				}
			}
		}
	}
	for d := range decoders {
		name := c.P.Name(d)
		if name == "" {
			name = funcShortName(d)
		}
		ok := xc39ReturnTypes(d, 0, map[*ssa.Function]bool{}, func(t *types.Named) {
			if prev, have := out[t]; !have || name < prev {
				out[t] = name
			}
		})
		if !ok {
			unresolved = append(unresolved, name)
		}
	}
	sort.Strings(unresolved)
	return out, len(decoders), unresolved
}

// xc39ReturnTypes reports the named types that result idx of fn can hold; false when some return
// value cannot be resolved.
func xc39ReturnTypes(fn *ssa.Function, idx int, busy map[*ssa.Function]bool, emit func(*types.Named)) bool {
	if fn == nil || len(fn.Blocks) == 0 {
		return false
	}
	if busy[fn] {
		return true
	}
	busy[fn] = true
	ok := true
	seen := map[ssa.Value]bool{}
	var walk func(v ssa.Value)
	walk = func(v ssa.Value) {
		if v == nil || seen[v] {
			return
		}
		seen[v] = true
		switch x := v.(type) {
		case *ssa.Const:
			// nil (error paths)
		case *ssa.MakeInterface:
			t := x.X.Type()
			if p, isPtr := t.(*types.Pointer); isPtr {
				t = p.Elem()
			}
			if named, isNamed := t.(*types.Named); isNamed {
				emit(named)
			} else {
				ok = false
			}
		case *ssa.ChangeInterface:
			walk(x.X)
		case *ssa.ChangeType:
			walk(x.X)
		case *ssa.Phi:
			for _, e := range x.Edges {
				walk(e)
			}
		case *ssa.Extract:
			call, isCall := x.Tuple.(*ssa.Call)
			if !isCall {
				ok = false
				return
			}
			if callee := call.Call.StaticCallee(); callee != nil && xc39ReturnTypes(callee, x.Index, busy, emit) {
				return
			}
			ok = false
		case *ssa.Call:
			if callee := x.Call.StaticCallee(); callee != nil && xc39ReturnTypes(callee, 0, busy, emit) {
				return
			}
			ok = false
		default:
			ok = false
		}
	}
	for _, b := range fn.Blocks {
		for _, in := range b.Instrs {
			if ret, isRet := in.(*ssa.Return); isRet && idx < len(ret.Results) {
				walk(ret.Results[idx])
			}
		}
	}
	return ok
}

// xc39WritesOf: the calls of fn that are handed the WriteBatch parameter (receiver or argument).
func xc39WritesOf(fn *ssa.Function, wb ssa.Value) []ssa.CallInstruction {
	var out []ssa.CallInstruction
	for _, b := range fn.Blocks {
		for _, in := range b.Instrs {
			ci, ok := in.(ssa.CallInstruction)
			if !ok {
				continue
			}
			for _, a := range callArgs(ci.Common()) {
				if xc39IsParam(a, wb) {
					out = append(out, ci)
					break
				}
			}
		}
	}
	return out
}

// xc39IsParam: v is parameter p (through conversions, or a load of p's spill slot).
func xc39IsParam(v ssa.Value, p ssa.Value) bool {
	v = stripConv(v)
	if v == p {
		return true
	}
	if u, ok := v.(*ssa.UnOp); ok && u.Op == token.MUL {
		if a, ok := u.X.(*ssa.Alloc); ok && spilledParam(a) == p {
			return true
		}
	}
	return false
}

// xc39FilterCompares decides X2 for one applyForHashSlot implementation.
func xc39FilterCompares(c *Ctx, fn *ssa.Function) {
	name := c.P.Name(fn)
	c.FuncsAnalysed[name] = true
	// signature is fixed by the interface: (receiver, *WriteBatch, hash slot)
	if len(fn.Params) != 3 {
		c.add("guard", "X2-filter-compares", name+"#shape", Undecided, c.P.Pos(fn.Pos()), "unexpected parameter list")
		return
	}
	if n := xc39FilterWalk(c, name, "", fn, fn.Params[1], fn.Params[2], 0); n == 0 {
		c.add("guard", "X2-filter-compares", name+"#stages-writes", Undecided, c.P.Pos(fn.Pos()),
			"the filtered apply hands the WriteBatch to no call at all: a forwarded delta of this command would write nothing in the target")
	}
}

// xc39FilterWalk checks the calls of fn that are handed WriteBatch value wb, given that hs is the
// hash slot to filter by. root names the applyForHashSlot implementation the obligations belong to;
// via is the chain of helpers entered so far. Returns the number of write sites examined.
func xc39FilterWalk(c *Ctx, root, via string, fn *ssa.Function, wb, hs ssa.Value, depth int) int {
	for _, cl := range WithClosures(fn)[1:] {
		for _, fv := range cl.FreeVars {
			if types.Identical(fv.Type(), wb.Type()) || types.Identical(fv.Type(), types.NewPointer(wb.Type())) {
				c.add("guard", "X2-filter-compares", root+"#writes-inside-closure"+via, Undecided, c.P.Pos(cl.Pos()), "the WriteBatch is captured by a closure: the comparison cannot be related to the write")
			}
		}
	}
	// edges on which "<other> == hash-slot parameter" holds, with the rendering of <other>
	type cmpEdge struct {
		e     edge
		other string
	}
	var cmps []cmpEdge
	for _, b := range fn.Blocks {
		if len(b.Instrs) == 0 {
			continue
		}
		iff, ok := b.Instrs[len(b.Instrs)-1].(*ssa.If)
		if !ok {
			continue
		}
		cond, truth := iff.Cond, true
		for {
			u, isNot := cond.(*ssa.UnOp)
			if !isNot || u.Op != token.NOT {
				break
			}
			cond, truth = u.X, !truth
		}
		bin, ok := cond.(*ssa.BinOp)
		if !ok || (bin.Op != token.EQL && bin.Op != token.NEQ) {
			continue
		}
		var other ssa.Value
		switch {
		case xc39IsParam(bin.X, hs) && !xc39IsParam(bin.Y, hs):
			other = bin.Y
		case xc39IsParam(bin.Y, hs) && !xc39IsParam(bin.X, hs):
			other = bin.X
		default:
			continue
		}
		succ := 0
		if (bin.Op == token.EQL) != truth {
			succ = 1
		}
		cmps = append(cmps, cmpEdge{edge{b, succ}, Path(stripConv(other))})
	}
	writes := xc39WritesOf(fn, wb)
	for _, w := range writes {
		callee := calleeName(w.Common())
		construct := root + "#writes-only-items-of-the-hash-slot-argument:" + callee + via
		args := callArgs(w.Common())
		// a method of the WriteBatch itself is a sink keyed by its hash-slot argument; anything else is a helper
		sink := len(args) > 0 && xc39IsParam(args[0], wb) && w.Common().Signature().Recv() != nil
		var slotArgs []ssa.Value
		for _, a := range args {
			if types.Identical(a.Type().Underlying(), hs.Type().Underlying()) {
				slotArgs = append(slotArgs, a)
			}
		}
		if sink && len(slotArgs) == 1 && xc39IsParam(slotArgs[0], hs) {
			c.add("guard", "X2-filter-compares", construct, Held, c.P.InstrPos(w), "writes under the hash-slot parameter itself")
			continue
		}
		removed := map[edge]bool{}
		var facts []string
		for _, ce := range cmps {
			match := !sink // a helper: any comparison of an item's hash slot with the parameter in front of it
			for _, a := range slotArgs {
				if sink && Path(stripConv(a)) == ce.other {
					match = true
				}
			}
			if match {
				removed[ce.e] = true
				facts = append(facts, ce.other+" == <hash-slot parameter>")
			}
		}
		limit := reachUnguarded(fn, removed, nil)
		b := w.Block()
		lim, reach := limit[b]
		if !reach || indexIn(b, w) >= lim {
			note := ""
			if !sink {
				note = " (helper: it receives the batch behind a comparison with the parameter)"
			}
			c.add("guard", "X2-filter-compares", construct, Held, c.P.InstrPos(w),
				fmt.Sprintf("reachable only through [%s]%s", strings.Join(dedup(facts), "; "), note))
			continue
		}
		if !sink {
			// unguarded helper: it must filter itself, by the hash slot it is handed
			helper := w.Common().StaticCallee()
			wi, hi := -1, -1
			for i, a := range w.Common().Args {
				if xc39IsParam(a, wb) {
					wi = i
				}
				if xc39IsParam(a, hs) {
					hi = i
				}
			}
			if helper != nil && len(helper.Blocks) > 0 && wi >= 0 && hi >= 0 && wi < len(helper.Params) && hi < len(helper.Params) && depth < 3 {
				if n := xc39FilterWalk(c, root, via+" via "+callee, helper, helper.Params[wi], helper.Params[hi], depth+1); n > 0 {
					continue
				}
			}
			c.add("guard", "X2-filter-compares", construct, Violated, c.P.InstrPos(w),
				fmt.Sprintf("%s hands the WriteBatch to %s without comparing any item's hash slot with its hash-slot argument, and the callee cannot be shown to filter by it: the filtered apply of a forwarded delta would write items of hash slots that are not migrating", c.P.Name(fn), callee))
			continue
		}
		why := "no branch compares the hash slot it writes under with the hash-slot parameter"
		if len(removed) > 0 {
			why = "a path from the entry reaches it without passing the comparison"
		} else if len(cmps) > 0 {
			why = "the parameter is compared, but not with the hash slot this call writes under"
		}
		c.add("guard", "X2-filter-compares", construct, Violated, c.P.InstrPos(w),
			fmt.Sprintf("%s hands the WriteBatch to %s for a hash slot that was not compared equal to the hash-slot argument (%s): the filtered apply of a forwarded delta would write items of hash slots that are not migrating", c.P.Name(fn), callee, why))
	}
	return len(writes)
}

// xc39EnvelopeWalk decides X4 for the apply of a command type that does NOT implement the scoping
// interface: ownership validation, the migration fence and delta forwarding only ever see the
// envelope hash slot of such a command, so every write it stages must be keyed by that parameter.
func xc39EnvelopeWalk(c *Ctx, root, via string, fn *ssa.Function, wb, hs ssa.Value, depth int) {
	for _, w := range xc39WritesOf(fn, wb) {
		callee := calleeName(w.Common())
		construct := root + "#writes-under-the-envelope-hash-slot:" + callee + via
		args := callArgs(w.Common())
		sink := len(args) > 0 && xc39IsParam(args[0], wb) && w.Common().Signature().Recv() != nil
		var slotArgs []ssa.Value
		passes := false
		for _, a := range args {
			if types.Identical(a.Type().Underlying(), hs.Type().Underlying()) {
				slotArgs = append(slotArgs, a)
			}
			if xc39IsParam(a, hs) {
				passes = true
			}
		}
		if sink {
			var foreign []string
			for _, a := range slotArgs {
				if !xc39IsParam(a, hs) {
					foreign = append(foreign, Path(stripConv(a)))
				}
			}
			switch {
			case len(slotArgs) == 0:
				c.add("guard", "X4-unscoped-envelope", construct, Held, c.P.InstrPos(w), "the write takes no hash-slot argument")
			case len(foreign) == 0:
				c.add("guard", "X4-unscoped-envelope", construct, Held, c.P.InstrPos(w), "keyed by the envelope hash-slot parameter")
			default:
				c.add("guard", "X4-unscoped-envelope", construct, Violated, c.P.InstrPos(w),
					fmt.Sprintf("%s writes under hash slot %v, not under the envelope hash slot it is applied for, and its type does not implement %s: the ownership check, the migration fence and the delta forwarding never see that hash slot, so during a migration the write is neither refused nor forwarded", c.P.Name(fn), foreign, xc39Scoped))
			}
			continue
		}
		if passes {
			wi, hi := -1, -1
			for i, a := range w.Common().Args {
				if xc39IsParam(a, wb) {
					wi = i
				}
				if xc39IsParam(a, hs) {
					hi = i
				}
			}
			if helper := w.Common().StaticCallee(); helper != nil && len(helper.Blocks) > 0 && wi >= 0 && hi >= 0 && wi < len(helper.Params) && hi < len(helper.Params) && depth < 3 {
				xc39EnvelopeWalk(c, root, via+" via "+callee, helper, helper.Params[wi], helper.Params[hi], depth+1)
				continue
			}
			c.add("guard", "X4-unscoped-envelope", construct, Held, c.P.InstrPos(w), "hands the batch on together with the envelope hash-slot parameter")
			continue
		}
		c.add("guard", "X4-unscoped-envelope", construct, Undecided, c.P.InstrPos(w),
			fmt.Sprintf("%s hands the WriteBatch to %s without the envelope hash slot: which hash slot the callee writes under cannot be decided", c.P.Name(fn), callee))
	}
}

// xc39Parity decides X3: the same kinds of writes in apply and applyForHashSlot.
func xc39Parity(c *Ctx, t *types.Named, apply, filtered *ssa.Function) {
	if len(apply.Params) < 2 || len(filtered.Params) < 2 {
		return
	}
	// kinds of write = WriteBatch methods reached, looking through helpers that are handed the batch
	var collect func(fn *ssa.Function, wb ssa.Value, m map[string]bool, depth int)
	collect = func(fn *ssa.Function, wb ssa.Value, m map[string]bool, depth int) {
		for _, w := range xc39WritesOf(fn, wb) {
			args := callArgs(w.Common())
			if len(args) > 0 && xc39IsParam(args[0], wb) && w.Common().Signature().Recv() != nil {
				m[calleeName(w.Common())] = true
				continue
			}
			helper := w.Common().StaticCallee()
			wi := -1
			for i, a := range w.Common().Args {
				if xc39IsParam(a, wb) {
					wi = i
				}
			}
			if helper != nil && len(helper.Blocks) > 0 && wi >= 0 && wi < len(helper.Params) && depth < 3 && helper != apply && helper != filtered {
				collect(helper, helper.Params[wi], m, depth+1)
				continue
			}
			m[calleeName(w.Common())] = true
		}
	}
	a, f := map[string]bool{}, map[string]bool{}
	collect(apply, apply.Params[1], a, 0)
	collect(filtered, filtered.Params[1], f, 0)
	var missing, extra []string
	for k := range a {
		if !f[k] {
			missing = append(missing, k)
		}
	}
	for k := range f {
		if !a[k] {
			extra = append(extra, k)
		}
	}
	sort.Strings(missing)
	sort.Strings(extra)
	construct := xc39Pkg + "." + t.Obj().Name() + "#filtered-apply-stages-the-same-writes-as-apply"
	if len(missing) == 0 && len(extra) == 0 {
		c.add("shape", "X3-filter-parity", construct, Held, c.P.Pos(filtered.Pos()), fmt.Sprintf("%d kind(s) of write in both", len(a)))
		return
	}
	c.add("shape", "X3-filter-parity", construct, Violated, c.P.Pos(filtered.Pos()),
		fmt.Sprintf("%s: the filtered apply used for forwarded deltas does not stage the same writes as apply (only in apply: %v; only in the filtered apply: %v): the target of a migration would hold different rows than the source for the same command", t.Obj().Name(), missing, extra))
}
