package main

import (
	"fmt"
	"go/constant"
	"go/types"
	"sort"
	"strconv"
	"strings"

	"golang.org/x/tools/go/ssa"
)

// boundsSite is one index/slice operation whose in-range-ness must be visible on every path.
type boundsSite struct {
	in   ssa.Instruction
	desc string // normalised "X[I]" / "X[L:H]" rendering (triage key)
	x    ssa.Value
	// requirements: each is (index value, strict) meaning index < len(x) (strict) or index <= len(x)
	reqs []boundsReq
}

type boundsReq struct {
	idx    ssa.Value
	strict bool
}

func isByteSeq(t types.Type) bool {
	switch u := t.Underlying().(type) {
	case *types.Slice:
		return true
	case *types.Basic:
		return u.Info()&types.IsString != 0
	case *types.Pointer:
		_, ok := u.Elem().Underlying().(*types.Array)
		return ok
	case *types.Array:
		return true
	}
	return false
}

func arrayLen(t types.Type) (int64, bool) {
	switch u := t.Underlying().(type) {
	case *types.Pointer:
		if a, ok := u.Elem().Underlying().(*types.Array); ok {
			return a.Len(), true
		}
	case *types.Array:
		return u.Len(), true
	}
	return 0, false
}

func constInt(v ssa.Value) (int64, bool) {
	k, ok := stripConv(v).(*ssa.Const)
	if !ok || k.Value == nil || k.Value.Kind() != constant.Int {
		return 0, false
	}
	i, ok := constant.Int64Val(k.Value)
	return i, ok
}

// maxOfType: the largest value an integer-typed index can take (for uint8 indices into [256]T).
func maxOfType(t types.Type) (int64, bool) {
	if b, ok := t.Underlying().(*types.Basic); ok {
		switch b.Kind() {
		case types.Uint8:
			return 255, true
		case types.Uint16:
			return 65535, true
		}
	}
	return 0, false
}

func collectBoundsSites(fn *ssa.Function) []boundsSite {
	var out []boundsSite
	for _, b := range fn.Blocks {
		for _, in := range b.Instrs {
			switch x := in.(type) {
			case *ssa.IndexAddr:
				if !isByteSeq(x.X.Type()) {
					continue
				}
				out = append(out, boundsSite{in: in, desc: Path(x.X) + "[" + Path(x.Index) + "]", x: x.X, reqs: []boundsReq{{x.Index, true}}})
			case *ssa.Index:
				if !isByteSeq(x.X.Type()) {
					continue
				}
				out = append(out, boundsSite{in: in, desc: Path(x.X) + "[" + Path(x.Index) + "]", x: x.X, reqs: []boundsReq{{x.Index, true}}})
			case *ssa.Slice:
				if !isByteSeq(x.X.Type()) {
					continue
				}
				var reqs []boundsReq
				if x.High != nil {
					reqs = append(reqs, boundsReq{x.High, false})
				} else if x.Low != nil {
					reqs = append(reqs, boundsReq{x.Low, false})
				}
				if x.Max != nil {
					reqs = append(reqs, boundsReq{x.Max, false})
				}
				if len(reqs) == 0 {
					continue
				}
				out = append(out, boundsSite{in: in, desc: Path(x), x: x.X, reqs: reqs})
			}
		}
	}
	return out
}

// lenFactEdges: CFG edges of fn on which "idx < len(x)" (strict) / "idx <= len(x)" is established,
// either symbolically (same rendering) or through constants (len(x) >= c with c large enough).
func lenFactEdgesStringBased(fn *ssa.Function, x ssa.Value, idx ssa.Value, strict bool) map[edge]bool {
	edges := map[edge]bool{}
	lenX := "len(" + Path(x) + ")"
	idxS := Path(idx)
	k, isConst := constInt(idx)
	// the index may also be "base + const": then a fact about "base + c2" with c2 >= const suffices (monotone)
	for _, b := range fn.Blocks {
		if len(b.Instrs) == 0 {
			continue
		}
		iff, ok := b.Instrs[len(b.Instrs)-1].(*ssa.If)
		if !ok {
			continue
		}
		for si, truth := range []bool{true, false} {
			a, ok := condAtom(iff.Cond, truth)
			if !ok {
				continue
			}
			// orient as  L op len(x)
			l, op, r := a.L, a.Op, a.R
			if l == lenX {
				l, r = r, l
				op = mirrorOp[op]
			}
			if r != lenX {
				continue
			}
			// now: l op len(x)
			if isConst {
				c, err := strconv.ParseInt(l, 10, 64)
				if err != nil {
					continue
				}
				// need k < len (strict) or k <= len
				need := k
				if strict {
					need = k + 1
				}
				// fact gives len >= lb
				var lb int64 = -1
				switch op {
				case "<":
					lb = c + 1
				case "<=", "==":
					lb = c
				}
				if lb >= need {
					edges[edge{b, si}] = true
				}
				continue
			}
			if l == idxS {
				if (strict && op == "<") || (!strict && (op == "<=" || op == "<" || op == "==")) {
					edges[edge{b, si}] = true
				}
				continue
			}
			// "(base + c2) <= len(x)" proves "(base + c1) <= len(x)" and "base + c1 < len" when c1 < c2 …
			if bo, ok := stripConv(idx).(*ssa.BinOp); ok && bo.Op.String() == "+" {
				if c1, ok := constInt(bo.Y); ok {
					base := Path(bo.X)
					if strings.HasPrefix(l, "("+base+" + ") && strings.HasSuffix(l, ")") {
						c2, err := strconv.ParseInt(strings.TrimSuffix(strings.TrimPrefix(l, "("+base+" + "), ")"), 10, 64)
						if err == nil {
							// fact: base+c2 (op) len
							var slack int64 = -1 // len - base >= slack
							switch op {
							case "<":
								slack = c2 + 1
							case "<=", "==":
								slack = c2
							}
							need := c1
							if strict {
								need = c1 + 1
							}
							if slack >= need {
								edges[edge{b, si}] = true
							}
						}
					}
				}
			} else {
				// idx is a bare base and the fact is about "(idx + c2) <= len(x)" with c2 >= 1 (strict) / 0
				base := idxS
				if strings.HasPrefix(l, "("+base+" + ") && strings.HasSuffix(l, ")") {
					c2, err := strconv.ParseInt(strings.TrimSuffix(strings.TrimPrefix(l, "("+base+" + "), ")"), 10, 64)
					if err == nil {
						var slack int64 = -1
						switch op {
						case "<":
							slack = c2 + 1
						case "<=", "==":
							slack = c2
						}
						need := int64(0)
						if strict {
							need = 1
						}
						if slack >= need {
							edges[edge{b, si}] = true
						}
					}
				}
			}
		}
	}
	return edges
}

// provenInRange decides one requirement of one site.
func provenInRange(fn *ssa.Function, s boundsSite, r boundsReq) bool {
	// constant index into a fixed-size array, or small-typed index into a large enough array
	if n, ok := arrayLen(s.x.Type()); ok {
		if k, ok := constInt(r.idx); ok {
			if (r.strict && k < n) || (!r.strict && k <= n) {
				return true
			}
		}
		if m, ok := maxOfType(stripConv(r.idx).Type()); ok && m < n {
			return true
		}
		if m, ok := maxOfType(r.idx.Type()); ok && m < n {
			return true
		}
	}
	// slicing to len(x) itself or to a constant 0
	if k, ok := constInt(r.idx); ok && k == 0 && !r.strict {
		return true
	}
	if Path(r.idx) == "len("+Path(s.x)+")" && !r.strict {
		return true
	}
	// a sub-slice with a known constant length: x[L:(L + c)] or x[a:b] with constants
	if sl, ok := s.x.(*ssa.Slice); ok && sl.High != nil {
		var n int64 = -1
		if sl.Low != nil {
			lo := Path(sl.Low)
			hi := Path(sl.High)
			if strings.HasPrefix(hi, "("+lo+" + ") && strings.HasSuffix(hi, ")") {
				if v, err := strconv.ParseInt(strings.TrimSuffix(strings.TrimPrefix(hi, "("+lo+" + "), ")"), 10, 64); err == nil {
					n = v
				}
			}
			if a, ok := constInt(sl.Low); ok {
				if b, ok := constInt(sl.High); ok {
					n = b - a
				}
			}
		} else if b, ok := constInt(sl.High); ok {
			n = b
		}
		if k, ok := constInt(r.idx); ok && n >= 0 && ((r.strict && k < n) || (!r.strict && k <= n)) {
			return true
		}
	}
	// freshly made buffer of constant/explicit size: make([]T, n) indexed by const < n
	if mk, ok := s.x.(*ssa.MakeSlice); ok {
		if n, ok := constInt(mk.Len); ok {
			if k, ok := constInt(r.idx); ok && ((r.strict && k < n) || (!r.strict && k <= n)) {
				return true
			}
		}
	}
	edges := lenFactEdges(fn, s.x, r.idx, r.strict)
	if len(edges) == 0 {
		return false
	}
	limit := reachUnguarded(fn, edges, nil)
	b := s.in.Block()
	lim, ok := limit[b]
	return !ok || indexIn(b, s.in) >= lim
}

// DecodeSafe: in every function of fns, (R-bin) each index/slice of a byte sequence is
// dominated by a visible length fact, (R-panic) there is no explicit panic and no
// single-value type assertion, (R-make) every make with a non-constant size is
// dominated by an upper-bound comparison of that size. triage: "func|site" → reason.
func (c *Ctx) DecodeSafe(rule string, fns []*ssa.Function, triage map[string]string) {
	usedTriage := map[string]bool{}
	for _, fn := range fns {
		if fn == nil || len(fn.Blocks) == 0 {
			continue
		}
		name := c.P.Name(fn)
		c.FuncsAnalysed[name] = true
		var bad []string
		var badPos string
		proven, triaged := 0, 0
		note := func(key, msg string, in ssa.Instruction) {
			if _, ok := triage[key]; ok {
				usedTriage[key] = true
				triaged++
				return
			}
			bad = append(bad, msg+" at "+c.P.InstrPos(in)+"  [triage key: "+key+"]")
			if badPos == "" {
				badPos = c.P.InstrPos(in)
			}
		}
		for _, s := range collectBoundsSites(fn) {
			ok := true
			for _, r := range s.reqs {
				if !provenInRange(fn, s, r) {
					ok = false
				}
			}
			if ok {
				proven++
				continue
			}
			note(name+"|"+s.desc, "index/slice "+s.desc+" is not dominated by a length check", s.in)
		}
		for _, b := range fn.Blocks {
			if b == fn.Recover {
				continue
			}
			for _, in := range b.Instrs {
				switch x := in.(type) {
				case *ssa.Panic:
					if strings.Contains(b.Comment, "select") || isUnreachablePanic(x) {
						continue
					}
					note(name+"|panic", "explicit panic", in)
				case *ssa.TypeAssert:
					if !x.CommaOk {
						note(name+"|assert "+Path(x), "single-value type assertion "+Path(x)+" can panic", in)
					}
				case *ssa.MakeSlice:
					if _, ok := constInt(x.Len); ok {
						proven++
						continue
					}
					if makeSizeBounded(fn, x) {
						proven++
						continue
					}
					note(name+"|make "+Path(x.Len), "make with size "+Path(x.Len)+" not dominated by an upper bound", in)
				}
			}
		}
		construct := name + "#decode-safe"
		if len(bad) > 0 {
			c.add("decodesafe", rule, construct, Violated, badPos, strings.Join(bad, "; "))
		} else {
			c.add("decodesafe", rule, construct, Held, c.P.Pos(fn.Pos()), fmt.Sprintf("%d index/slice/make site(s) proven in range, %d triaged; no panic, no unchecked assertion", proven, triaged))
		}
	}
	var stale []string
	for k := range triage {
		if !usedTriage[k] {
			stale = append(stale, k)
		}
	}
	sort.Strings(stale)
	if len(stale) > 0 {
		c.add("decodesafe", rule, "triage-table#stale", Exception, "", fmt.Sprintf("triage entries no longer needed (site gone or now proven): %v", stale))
	}
}

func isUnreachablePanic(p *ssa.Panic) bool {
	if k, ok := p.X.(*ssa.MakeInterface); ok {
		if cst, ok := k.X.(*ssa.Const); ok && cst.Value != nil && strings.Contains(cst.Value.String(), "blocking select matched no case") {
			return true
		}
	}
	return false
}

// makeSizeBounded: the size of make is len(x)-derived, or dominated by "size <= K" / "size < K".
// boundedCountHelpers: callee globs whose (first int) result is a count already checked against a
// caller-supplied maximum or the remaining input; their own bodies are decided by separate guard rules.
var boundedCountHelpers = []string{
	"pkg/channel/replication.exchangeCursor.count", "pkg/channel/replication.exchangeCursor.sliceCount",
	"pkg/cluster/channels.readSliceHeader", "pkg/cluster/channels.readCollectionLen",
}

func makeSizeBounded(fn *ssa.Function, mk *ssa.MakeSlice) bool {
	var szv ssa.Value = stripConv(mk.Len)
	if ex, ok := szv.(*ssa.Extract); ok {
		szv = ex.Tuple
	}
	if call, ok := szv.(*ssa.Call); ok && globAny(boundedCountHelpers, calleeName(&call.Call)) {
		return true
	}
	sz := Path(mk.Len)
	if strings.HasPrefix(sz, "len(") || strings.Contains(sz, "len(") && !strings.Contains(sz, "#") {
		return true // proportional to data already in memory
	}
	spec := guardSpec{atoms: []AtomSpec{{L: sz, Op: "<=", R: "*"}}}
	edges, _ := guardEdges(fn, spec)
	if len(edges) == 0 {
		return false
	}
	limit := reachUnguarded(fn, edges, nil)
	b := mk.Block()
	lim, ok := limit[b]
	return !ok || indexIn(b, mk) >= lim
}
