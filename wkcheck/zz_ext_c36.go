package main

import (
	"fmt"
	"go/types"
	"sort"
	"strings"

	"golang.org/x/tools/go/ssa"
)

// Extension rules for C36 found by seeded change C36-b.
//
// SendBatch evaluates the permission of ONE representative command per coalescing group and hands
// the outcome to every member of the group. "the batched path and the per-send path return the same
// decision" therefore rests on a clause that no rule of props_c36.go states:
//
//	X1-coalesce-key-covers-inputs
//	  every field of SendCommand that the permission evaluation of the representative reads (anywhere
//	  in the call closure of resolveSendBatchPermissions: routing, read plans, per-send fallback) is
//	  (a) copied unchanged into a field of the comparable coalescing key sendPermissionScope, or
//	  (b) pinned to its zero value for every coalescible command (the "not coalescible" exit of
//	      permissionScopeForBatch tests it), or
//	  (c) listed in the exemption table with the reason it cannot change a decision.
//	  Two commands that differ in an evaluated field then never share an outcome. The seed dropped
//	  DeviceID from the key although the system-device bypass reads it.
//	  Further: the group map key carries that scope (and nothing replaces it), the key types are
//	  compared by value (only basic comparable field types), a whole SendCommand never leaves the
//	  analysed closure towards code the rule cannot see, and the only caller of the evaluation is
//	  SendBatchEach.
//
// The rule computes both sets from the SSA (field selections typed channelappend.SendCommand), it
// names no local variable. Reads that only feed pkg/wklog / sendtrace calls are diagnostics and ignored.
func init() {
	const fSend = "internal/usecase/message/send.go"
	const fPerm = "internal/usecase/message/permission.go"
	const fBatch = "internal/usecase/message/permission_batch.go"
	extend("C36", nil, func(c *Ctx) {
		const rule = "X1-coalesce-key-covers-inputs"
		root := c.Fn(c36Pkg + "App.resolveSendBatchPermissions")
		scopeFn := c.Fn(c36Pkg + "permissionScopeForBatch")
		each := c.Fn(c36Pkg + "App.SendBatchEach")
		if root == nil || scopeFn == nil || each == nil {
			return
		}
		// (b) the pinned fields: a coalescible verdict only behind their zero value
		c.Guard(rule, scopeFn, Ret{1, "true"}, "cmd.RequestScoped == false", "len(cmd.MessageScopedUIDs) <= 0")
		pinned := map[string]string{
			"RequestScoped":     "permissionScopeForBatch returns coalescible only behind cmd.RequestScoped == false",
			"MessageScopedUIDs": "permissionScopeForBatch returns coalescible only behind len(cmd.MessageScopedUIDs) == 0 (the evaluation reads only its length)",
		}
		// (c) no exemption is needed at the pinned commit
		exempt := map[string]string{}

		xc36KeyCovers(c, rule, root, scopeFn, pinned, exempt)

		// the group key carries the scope, the map is keyed by it, and key equality is value equality
		c.StoreShape(rule, each, "*sendBatchPermissionGroupKey.scope", c36Pkg+"permissionScopeForBatch(*)#0")
		xc36GroupMapKeyed(c, rule, each)
		xc36ValueComparable(c, rule, "sendPermissionScope")
		xc36ValueComparable(c, rule, "sendBatchPermissionGroupKey")
		c.ConfineCalls(rule, c36Pkg+"App.resolveSendBatchPermissions", 1, c36Pkg+"App.SendBatchEach")
		c.ConfineCalls(rule, c36Pkg+"permissionScopeForBatch", 1, c36Pkg+"App.SendBatchEach")
		c.Min(rule, 9)
	},
		// the seeded change, as one edit: the key no longer distinguishes the device
		Mutant{Name: "x-scope-ignores-device", File: fSend, Old: "\t\tdeviceID:               cmd.DeviceID,\n", New: "", Expect: "C36/X1-coalesce-key-covers-inputs/*"},
		// copy-paste: the device slot of the key is filled with another field
		Mutant{Name: "x-scope-device-slot-holds-uid", File: fSend, Old: "\t\tdeviceID:               cmd.DeviceID,\n", New: "\t\tdeviceID:               cmd.FromUID,\n", Expect: "C36/X1-coalesce-key-covers-inputs/*"},
		// the normalisation request is evaluated but no longer part of the key
		Mutant{Name: "x-scope-ignores-normalize", File: fSend, Old: "\t\tnormalizePersonChannel: cmd.NormalizePersonChannel,\n", New: "", Expect: "C36/X1-coalesce-key-covers-inputs/*"},
		// the key is made lossy (uid prefix): different senders share one outcome
		Mutant{Name: "x-scope-truncates-uid", File: fSend, Old: "\t\tfromUID:                cmd.FromUID,\n", New: "\t\tfromUID:                cmd.FromUID[:min(len(cmd.FromUID), 8)],\n", Expect: "C36/X1-coalesce-key-covers-inputs/*"},
		// the evaluation starts to depend on a field the key does not contain (per-send fallback path)
		Mutant{Name: "x-persend-reads-unkeyed-field", File: fPerm, Old: "\tif a.systemDeviceID != \"\" && cmd.DeviceID == a.systemDeviceID {\n\t\treason, err := a.checkTerminalChannelPermission(ctx, cmd)", New: "\tif a.systemDeviceID != \"\" && cmd.DeviceID == a.systemDeviceID && cmd.DeviceFlag != 0 {\n\t\treason, err := a.checkTerminalChannelPermission(ctx, cmd)", Expect: "C36/X1-coalesce-key-covers-inputs/*"},
		// ... and on the raw-fact batched path
		Mutant{Name: "x-batch-plan-reads-unkeyed-field", File: fBatch, Old: "\t\tplan.systemDevice = a.systemDeviceID != \"\" && cmd.DeviceID == a.systemDeviceID\n", New: "\t\tplan.systemDevice = a.systemDeviceID != \"\" && cmd.DeviceID == a.systemDeviceID && cmd.SenderSessionID != 0\n", Expect: "C36/X1-coalesce-key-covers-inputs/*"},
		// the group key forgets the scope altogether
		Mutant{Name: "x-group-key-drops-scope", File: fSend, Old: "\t\tkey := sendBatchPermissionGroupKey{scope: scope}\n", New: "\t\tkey := sendBatchPermissionGroupKey{}\n\t\t_ = scope\n", Expect: "C36/X1-coalesce-key-covers-inputs/*"},
		// request-scoped sends become coalescible
		Mutant{Name: "x-request-scoped-coalesced", File: fSend, Old: "\tif cmd.RequestScoped || len(cmd.MessageScopedUIDs) > 0 {\n\t\treturn sendPermissionScope{}, false\n\t}\n\treturn sendPermissionScope{", New: "\tif len(cmd.MessageScopedUIDs) > 0 {\n\t\treturn sendPermissionScope{}, false\n\t}\n\treturn sendPermissionScope{", Expect: "C36/X1-coalesce-key-covers-inputs/*"},
		// behaviour-preserving: the command is copied to a renamed local first and the literal is reordered
		Mutant{Name: "x-scope-refactored-same-key", File: fSend,
			Old:    "\treturn sendPermissionScope{\n\t\tfromUID:                cmd.FromUID,\n\t\tdeviceID:               cmd.DeviceID,\n",
			New:    "\tsender := &cmd\n\treturn sendPermissionScope{\n\t\tdeviceID:               sender.DeviceID,\n\t\tfromUID:                sender.FromUID,\n",
			Expect: "!silent"},
	)
}

const xc36CmdPkg = "internal/contracts/channelappend"

// xc36IsCmd: t (or *t) is channelappend.SendCommand.
func xc36IsCmd(t types.Type) bool {
	t = types.Unalias(t)
	if p, ok := t.Underlying().(*types.Pointer); ok {
		t = types.Unalias(p.Elem())
	}
	n, ok := t.(*types.Named)
	return ok && n.Obj().Name() == "SendCommand" && n.Obj().Pkg() != nil && strings.HasSuffix(n.Obj().Pkg().Path(), xc36CmdPkg)
}

// xc36CarriesCmd: a value of type t contains a whole SendCommand (directly, behind pointers, in slices,
// arrays, maps or struct fields).
func xc36CarriesCmd(t types.Type, seen map[types.Type]bool) bool {
	t = types.Unalias(t)
	if xc36IsCmd(t) {
		return true
	}
	if seen[t] {
		return false
	}
	seen[t] = true
	switch u := t.Underlying().(type) {
	case *types.Pointer:
		return xc36CarriesCmd(u.Elem(), seen)
	case *types.Slice:
		return xc36CarriesCmd(u.Elem(), seen)
	case *types.Array:
		return xc36CarriesCmd(u.Elem(), seen)
	case *types.Map:
		return xc36CarriesCmd(u.Elem(), seen) || xc36CarriesCmd(u.Key(), seen)
	case *types.Struct:
		for i := 0; i < u.NumFields(); i++ {
			if xc36CarriesCmd(u.Field(i).Type(), seen) {
				return true
			}
		}
	}
	return false
}

func xc36InMessagePkg(fn *ssa.Function) bool {
	if fn == nil {
		return false
	}
	if o := fn.Origin(); o != nil {
		fn = o
	}
	for fn.Parent() != nil {
		fn = fn.Parent()
	}
	return fn.Pkg != nil && strings.HasSuffix(fn.Pkg.Pkg.Path(), "internal/usecase/message") && len(fn.Blocks) > 0
}

// xc36Closure: root, its anonymous functions and every function of the message package that is called
// or referenced as a value from them, transitively. escapes lists calls that hand a whole SendCommand to
// code outside that closure (interface methods, other packages, dynamic calls that are not local closures).
func xc36Closure(c *Ctx, root *ssa.Function) (fns []*ssa.Function, escapes []string) {
	seen := map[*ssa.Function]bool{}
	var work []*ssa.Function
	push := func(f *ssa.Function) {
		if f != nil && !seen[f] && xc36InMessagePkg(f) {
			seen[f] = true
			work = append(work, f)
		}
	}
	push(root)
	for len(work) > 0 {
		fn := work[len(work)-1]
		work = work[:len(work)-1]
		fns = append(fns, fn)
		for _, a := range fn.AnonFuncs {
			push(a)
		}
		for _, b := range fn.Blocks {
			for _, in := range b.Instrs {
				var ops []*ssa.Value
				for _, op := range in.Operands(ops) {
					if op == nil || *op == nil {
						continue
					}
					switch v := (*op).(type) {
					case *ssa.Function:
						push(v)
					case *ssa.MakeClosure:
						if f, ok := v.Fn.(*ssa.Function); ok {
							push(f)
						}
					}
				}
				ci, ok := in.(ssa.CallInstruction)
				if !ok {
					continue
				}
				com := ci.Common()
				if callee := com.StaticCallee(); callee != nil && xc36InMessagePkg(callee) {
					continue
				}
				if _, isBuiltin := com.Value.(*ssa.Builtin); isBuiltin {
					continue
				}
				if !com.IsInvoke() {
					// a call of a function value that is a closure/parameter of the analysed package: the
					// possible targets inside the package are in the closure already (referenced as values).
					if _, isParam := com.Value.(*ssa.Parameter); isParam {
						if xc36OnlyScalars(com.Args) {
							continue
						}
					}
				}
				for _, a := range com.Args {
					if xc36CarriesCmd(a.Type(), map[types.Type]bool{}) {
						escapes = append(escapes, fmt.Sprintf("%s passes %s to %s at %s", c.P.Name(fn), a.Type().String(), calleeName(com), c.P.InstrPos(in)))
						break
					}
				}
			}
		}
	}
	sort.Slice(fns, func(i, j int) bool { return c.P.Name(fns[i]) < c.P.Name(fns[j]) })
	sort.Strings(escapes)
	return fns, escapes
}

func xc36OnlyScalars(args []ssa.Value) bool {
	for _, a := range args {
		if xc36CarriesCmd(a.Type(), map[types.Type]bool{}) {
			return false
		}
	}
	return true
}

// xc36DiagOnly: every use of v (through conversions and interface boxing) is an argument of a logging /
// tracing call.
func xc36DiagOnly(v ssa.Value, depth int) bool {
	refs := v.Referrers()
	if refs == nil || len(*refs) == 0 || depth > 4 {
		return false
	}
	for _, r := range *refs {
		switch x := r.(type) {
		case *ssa.Convert:
			if !xc36DiagOnly(x, depth+1) {
				return false
			}
		case *ssa.ChangeType:
			if !xc36DiagOnly(x, depth+1) {
				return false
			}
		case *ssa.MakeInterface:
			if !xc36DiagOnly(x, depth+1) {
				return false
			}
		case ssa.CallInstruction:
			n := calleeName(x.Common())
			if !strings.HasPrefix(n, "pkg/wklog.") && !strings.HasPrefix(n, "pkg/observability/sendtrace.") {
				return false
			}
		case *ssa.DebugRef:
		default:
			return false
		}
	}
	return true
}

// xc36FieldReads: SendCommand fields whose VALUE is used in the given functions (a field address that is
// only stored to is a write and does not count), with one position per field.
func xc36FieldReads(c *Ctx, fns []*ssa.Function) map[string]string {
	out := map[string]string{}
	note := func(f *types.Var, in ssa.Instruction) {
		if f == nil {
			return
		}
		if _, ok := out[f.Name()]; !ok {
			out[f.Name()] = c.P.Name(in.Parent()) + " at " + c.P.InstrPos(in)
		}
	}
	for _, fn := range fns {
		for _, b := range fn.Blocks {
			for _, in := range b.Instrs {
				switch x := in.(type) {
				case *ssa.Field:
					if xc36IsCmd(x.X.Type()) && !xc36DiagOnly(x, 0) {
						note(fieldVar(x.X.Type(), x.Field), in)
					}
				case *ssa.FieldAddr:
					if !xc36IsCmd(x.X.Type()) || x.Referrers() == nil {
						continue
					}
					for _, r := range *x.Referrers() {
						if st, ok := r.(*ssa.Store); ok && st.Addr == ssa.Value(x) && st.Val != ssa.Value(x) {
							continue // write
						}
						if _, ok := r.(*ssa.DebugRef); ok {
							continue
						}
						if ld, ok := r.(*ssa.UnOp); ok && xc36DiagOnly(ld, 0) {
							continue
						}
						note(fieldVar(x.X.Type(), x.Field), in)
						break
					}
				}
			}
		}
	}
	return out
}

// xc36KeyedFields: SendCommand fields copied UNCHANGED (type conversions only) into a field of
// sendPermissionScope inside scopeFn: scope field → command field.
func xc36KeyedFields(scopeFn *ssa.Function) (keyed map[string]string, other []string) {
	keyed = map[string]string{}
	for _, b := range scopeFn.Blocks {
		for _, in := range b.Instrs {
			st, ok := in.(*ssa.Store)
			if !ok {
				continue
			}
			fa, ok := st.Addr.(*ssa.FieldAddr)
			if !ok || typeBaseName(fa.X.Type()) != "sendPermissionScope" {
				continue
			}
			slot := fieldName(fa.X.Type(), fa.Field)
			v := st.Val
			for {
				switch x := v.(type) {
				case *ssa.Convert:
					v = x.X
					continue
				case *ssa.ChangeType:
					v = x.X
					continue
				}
				break
			}
			src := ""
			switch x := v.(type) {
			case *ssa.UnOp:
				if f, ok := x.X.(*ssa.FieldAddr); ok && xc36IsCmd(f.X.Type()) {
					src = fieldName(f.X.Type(), f.Field)
				}
			case *ssa.Field:
				if xc36IsCmd(x.X.Type()) {
					src = fieldName(x.X.Type(), x.Field)
				}
			}
			if src == "" {
				other = append(other, slot+" = "+Path(st.Val))
				continue
			}
			keyed[src] = slot
		}
	}
	sort.Strings(other)
	return keyed, other
}

func xc36KeyCovers(c *Ctx, rule string, root, scopeFn *ssa.Function, pinned, exempt map[string]string) {
	fns, escapes := xc36Closure(c, root)
	names := map[string]bool{}
	for _, f := range fns {
		names[c.P.Name(f)] = true
		c.FuncsAnalysed[c.P.Name(f)] = true
	}
	// anti-vacuity: the evaluators of both paths are inside the closure
	var missing []string
	for _, want := range []string{"App.checkSendPermission", "App.checkGroupSendPermissionsBatch", "App.checkPersonSendPermissionsBatch", "App.checkTerminalChannelPermission", "App.checkPersonSendPermission", "App.checkGroupSendPermission"} {
		if !names[c36Pkg+want] {
			missing = append(missing, want)
		}
	}
	construct := c.P.Name(root) + "#evaluation-closure"
	if len(missing) > 0 {
		c.add("cover", rule, construct, Undecided, c.P.Pos(root.Pos()), fmt.Sprintf("the permission evaluators %v are no longer reachable from the batch resolver by static calls; the set of evaluated command fields cannot be computed", missing))
	} else {
		c.add("cover", rule, construct, Held, c.P.Pos(root.Pos()), fmt.Sprintf("%d functions of the message package reachable from the resolver, including the per-send and both batched evaluators", len(fns)))
	}
	construct = c.P.Name(root) + "#command-stays-in-closure"
	if len(escapes) > 0 {
		c.add("cover", rule, construct, Undecided, c.P.Pos(root.Pos()), "a whole SendCommand leaves the analysed evaluation code, so the fields it depends on are unknown: "+strings.Join(escapes, "; "))
	} else {
		c.add("cover", rule, construct, Held, c.P.Pos(root.Pos()), "no call hands a whole SendCommand (or a value containing one) to code outside the closure")
	}

	reads := xc36FieldReads(c, fns)
	keyed, other := xc36KeyedFields(scopeFn)
	var fields []string
	for f := range reads {
		fields = append(fields, f)
	}
	sort.Strings(fields)
	if len(fields) < 3 {
		c.add("cover", rule, "evaluated-fields#count", Undecided, c.P.Pos(root.Pos()), fmt.Sprintf("only %v found as evaluated SendCommand fields (hand-confirmed minimum 3): field selection matching went vacuous", fields))
	}
	for _, f := range fields {
		construct := "SendCommand." + f + "#evaluated⇒keyed"
		switch {
		case keyed[f] != "":
			c.add("cover", rule, construct, Held, "", fmt.Sprintf("read by %s; copied unchanged into sendPermissionScope.%s", reads[f], keyed[f]))
		case pinned[f] != "":
			c.add("cover", rule, construct, Held, "", fmt.Sprintf("read by %s; pinned: %s (guard obligation of this rule)", reads[f], pinned[f]))
		case exempt[f] != "":
			c.add("cover", rule, construct, Exception, "", fmt.Sprintf("read by %s; exempt: %s", reads[f], exempt[f]))
		default:
			detail := fmt.Sprintf("the permission evaluation of a group's representative reads SendCommand.%s (%s) but the coalescing key sendPermissionScope built by %s does not contain it: two commands of one batch that differ only in %s share one permission outcome", f, reads[f], c.P.Name(scopeFn), f)
			if len(other) > 0 {
				detail += fmt.Sprintf(" (key slots not filled by an unchanged command field: %v)", other)
			}
			c.add("cover", rule, construct, Violated, c.P.Pos(scopeFn.Pos()), detail)
		}
	}
}

// xc36GroupMapKeyed: the group index is looked up and registered in a map keyed by sendBatchPermissionGroupKey,
// and every such lookup/registration uses one and the same key local (the StoreShape obligation shows that the
// key literal receives the item's scope).
func xc36GroupMapKeyed(c *Ctx, rule string, fn *ssa.Function) {
	construct := c.P.Name(fn) + "#groups-looked-up-by-key"
	lookups, updates := 0, 0
	var bad []string
	keyAllocs := map[ssa.Value]bool{}
	note := func(kind string, v ssa.Value, in ssa.Instruction) {
		if u, ok := v.(*ssa.UnOp); ok {
			if a, ok := u.X.(*ssa.Alloc); ok {
				keyAllocs[a] = true
				return
			}
		}
		bad = append(bad, kind+" with "+Path(v)+" at "+c.P.InstrPos(in))
	}
	for _, b := range fn.Blocks {
		for _, in := range b.Instrs {
			switch x := in.(type) {
			case *ssa.Lookup:
				if typeBaseName(x.Index.Type()) == "sendBatchPermissionGroupKey" {
					lookups++
					note("lookup", x.Index, in)
				}
			case *ssa.MapUpdate:
				if typeBaseName(x.Key.Type()) == "sendBatchPermissionGroupKey" {
					updates++
					note("registration", x.Key, in)
				}
			}
		}
	}
	switch {
	case len(bad) > 0 || len(keyAllocs) > 1:
		if len(keyAllocs) > 1 {
			bad = append(bad, fmt.Sprintf("%d different key locals are used", len(keyAllocs)))
		}
		c.add("shape", rule, construct, Violated, c.P.Pos(fn.Pos()), "the group index is looked up / registered under a key other than the one that received the item's scope: "+strings.Join(bad, "; "))
	case lookups == 0 || updates == 0:
		c.add("shape", rule, construct, Undecided, c.P.Pos(fn.Pos()), fmt.Sprintf("group map accesses by sendBatchPermissionGroupKey: %d lookup(s), %d update(s) (expected both)", lookups, updates))
	default:
		c.add("shape", rule, construct, Held, c.P.Pos(fn.Pos()), fmt.Sprintf("%d lookup(s) and %d registration(s), all with the one key local that carries the item's scope", lookups, updates))
	}
}

// xc36ValueComparable: the struct's fields are strings, booleans, numbers, time.Time or checked key structs,
// so == on the map key compares contents (no pointer/interface identity).
func xc36ValueComparable(c *Ctx, rule, name string) {
	construct := c36Pkg + name + "#compared-by-value"
	pk := c.P.Pkgs["internal/usecase/message"]
	if pk == nil {
		c.add("anchor", "anchor", c36Pkg+name, Undecided, "", "package not loaded")
		return
	}
	obj, _ := pk.Types.Scope().Lookup(name).(*types.TypeName)
	if obj == nil {
		c.add("anchor", "anchor", c36Pkg+name, Undecided, "", "anchored type not found")
		return
	}
	st, ok := obj.Type().Underlying().(*types.Struct)
	if !ok {
		c.add("shape", rule, construct, Undecided, "", "no longer a struct")
		return
	}
	var bad []string
	for i := 0; i < st.NumFields(); i++ {
		ft := types.Unalias(st.Field(i).Type())
		switch u := ft.Underlying().(type) {
		case *types.Basic:
			continue
		case *types.Struct:
			_ = u
			if n := typeBaseName(ft); n == "sendPermissionScope" || n == "Time" {
				continue
			}
		}
		bad = append(bad, st.Field(i).Name()+" "+ft.String())
	}
	if len(bad) > 0 {
		c.add("shape", rule, construct, Violated, c.P.Pos(obj.Pos()), fmt.Sprintf("key field(s) %v are not compared by content", bad))
		return
	}
	c.add("shape", rule, construct, Held, c.P.Pos(obj.Pos()), fmt.Sprintf("%d field(s), all basic / value structs", st.NumFields()))
}
