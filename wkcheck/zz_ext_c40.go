package main

import (
	"fmt"
	"go/token"
	"go/types"
	"sort"
	"strings"

	"golang.org/x/tools/go/ssa"
)

// C40 extension: the LEADER-SIDE stream cache half of "a replayed event id is not applied twice"
// and "a finish that would drop cached non-durable deltas fails" (props_c40.go decides the durable
// reducer and the finish branch, but not the two cache-side facts those branches rest on).
//
// X1-snapshot-present (seed C40-b): the predicate that exempts a finish from the fail-closed
// cache-miss ("the payload carries its own snapshot") is true only for a snapshot value that is
// present AND non-empty; "empty" is the same test the terminal merge uses to decide whether the
// cached snapshot must be injected, and that test is false only for a value other than ""/null.
//
// X2-replay-table (seed C40-c): the per-session table of applied event ids is grow-only while the
// session lives (no delete/clear/replacement, it does not escape), is keyed by the event's own id,
// every lane mutation sits behind "this id is not in the table" and is followed by recording it.
func init() {
	cl := "pkg/cluster/node_message_event_stream_cache.go"
	extend("C40", nil, xc40Run,
		// ---- X1
		Mutant{Name: "x-has-snapshot-is-key-presence", File: cl,
			Old: "\traw, exists := body[\"snapshot\"]\n\treturn exists && !isEmptyMessageEventSnapshotRaw(raw)\n",
			New: "\t_, exists := body[\"snapshot\"]\n\treturn exists\n", Expect: "C40/X1-snapshot-present*"},
		Mutant{Name: "x-empty-snapshot-forgets-null", File: cl,
			Old: "\tcase \"\", \"null\":\n\t\treturn true\n", New: "\tcase \"\":\n\t\treturn true\n", Expect: "C40/X1-snapshot-present*"},
		Mutant{Name: "x-merge-keeps-null-snapshot", File: cl,
			Old: "\tif raw, exists := body[\"snapshot\"]; !exists || isEmptyMessageEventSnapshotRaw(raw) {\n",
			New: "\tif _, exists := body[\"snapshot\"]; !exists {\n", Expect: "C40/X1-snapshot-present*"},
		Mutant{Name: "x-has-snapshot-on-unparseable-payload", File: cl,
			Old: "\tif len(payload) == 0 || json.Unmarshal(payload, &body) != nil {\n\t\treturn false\n\t}\n\traw, exists",
			New: "\tif len(payload) == 0 {\n\t\treturn false\n\t}\n\t_ = json.Unmarshal(payload, &body)\n\traw, exists", Expect: "C40/X1-snapshot-present*"},
		Mutant{Name: "x-ok-has-snapshot-early-returns", File: cl,
			Old: "\traw, exists := body[\"snapshot\"]\n\treturn exists && !isEmptyMessageEventSnapshotRaw(raw)\n",
			New: "\tsnap, present := body[\"snapshot\"]\n\tif !present {\n\t\treturn false\n\t}\n\tif isEmptyMessageEventSnapshotRaw(snap) {\n\t\treturn false\n\t}\n\treturn true\n", Expect: "!silent"},
		// ---- X2
		Mutant{Name: "x-cache-forgets-superseded-event-id", File: cl,
			Old: "\tstate.LastEventID = event.EventID\n\tstate.LastEventType = event.EventType\n\tstate.LastVisibility = event.Visibility\n",
			New: "\tdelete(session.applied, state.LastEventID)\n\tstate.LastEventID = event.EventID\n\tstate.LastEventType = event.EventType\n\tstate.LastVisibility = event.Visibility\n", Expect: "C40/X2-replay-table*"},
		Mutant{Name: "x-cache-replay-table-trimmed-on-touch", File: cl,
			Old: "\tif session != nil {\n\t\tsession.updated = now\n\t\treturn session, nil\n\t}\n",
			New: "\tif session != nil {\n\t\tsession.updated = now\n\t\tif len(session.applied) > 1024 {\n\t\t\tsession.applied = make(map[string]metadb.MessageEventAppendResult)\n\t\t}\n\t\treturn session, nil\n\t}\n", Expect: "C40/X2-replay-table*"},
		Mutant{Name: "x-cache-replay-table-cleared", File: cl,
			Old: "\tif session != nil {\n\t\tsession.updated = now\n\t\treturn session, nil\n\t}\n",
			New: "\tif session != nil {\n\t\tsession.updated = now\n\t\tif len(session.applied) > 1024 {\n\t\t\tclear(session.applied)\n\t\t}\n\t\treturn session, nil\n\t}\n", Expect: "C40/X2-replay-table*"},
		Mutant{Name: "x-cache-delta-not-recorded", File: cl,
			Old: "\tresult := cachedMessageEventResult(event, state)\n\tsession.applied[event.EventID] = cloneMessageEventAppendResult(result)\n\treturn result, c.observationLocked(), nil\n",
			New: "\tresult := cachedMessageEventResult(event, state)\n\treturn result, c.observationLocked(), nil\n", Expect: "C40/X2-replay-table*"},
		Mutant{Name: "x-cache-replay-gate-only-for-latest", File: cl,
			Old: "\tif result, ok := session.applied[event.EventID]; ok {\n",
			New: "\tif result, ok := session.applied[event.EventID]; ok && result.State.LastEventID == event.EventID {\n", Expect: "C40/X2-replay-table*"},
		Mutant{Name: "x-cache-recorded-under-lane-key", File: cl,
			Old: "\tresult := cachedMessageEventResult(event, state)\n\tsession.applied[event.EventID] = cloneMessageEventAppendResult(result)\n\treturn result, c.observationLocked(), nil\n",
			New: "\tresult := cachedMessageEventResult(event, state)\n\tsession.applied[event.EventKey] = cloneMessageEventAppendResult(result)\n\treturn result, c.observationLocked(), nil\n", Expect: "C40/X2-replay-table*"},
		Mutant{Name: "x-cache-session-replaced-while-alive", File: cl,
			Old: "\tif session != nil {\n\t\tsession.updated = now\n\t\treturn session, nil\n\t}\n",
			New: "\tif session != nil && len(session.applied) <= 1024 {\n\t\tsession.updated = now\n\t\treturn session, nil\n\t}\n", Expect: "C40/X2-replay-table*"},
		Mutant{Name: "x-ok-replay-table-through-local-alias", File: cl,
			Old: "\tif result, ok := session.applied[event.EventID]; ok {\n",
			New: "\tmemo := session.applied\n\tif prior, seen := memo[event.EventID]; seen {\n\t\tresult := prior\n", Expect: "!silent"},
	)
}

func xc40Run(c *Ctx) {
	k := "pkg/cluster."

	// ------------------------------------------------------------------ X1: "has its own snapshot"
	const x1 = "X1-snapshot-present"
	has := c.Fn(k + "messageEventPayloadHasSnapshot")
	empty := k + "isEmptyMessageEventSnapshotRaw"
	// true only for: parseable payload, key present, looked-up value not empty
	c.GuardTrue(x1, has, 0,
		`*["snapshot"]#1 == true`,
		empty+`(*["snapshot"]#0) == false`,
		"encoding/json.Unmarshal(payload, *) == nil")
	emptyFn := c.Fn(empty)
	c.c15FalseOnly(x1, emptyFn, 0, `strings.TrimSpace(raw) != ""`, `strings.TrimSpace(raw) != "null"`)
	// the terminal merge leaves the payload's snapshot alone only under the same two facts; on every
	// other path to the merged body the cached snapshot has been put in.
	merge := c.Fn(k + "mergeMessageEventTerminalPayload")
	inject := StoreTo{Addr: `*["snapshot"]`, Val: k + "cloneJSONRawMessage(snapshot)"}
	merged := Ret{0, "encoding/json.Marshal(*)#0"}
	c.c15Behind(x1, merge, merged, `*["snapshot"]#1 == true`, false, inject)
	c.c15Behind(x1, merge, merged, empty+`(*["snapshot"]#0) == false`, false, inject)
	// the emptiness test is the one shared by both (nobody else decides "has a snapshot")
	c.ConfineCalls(x1, empty, 1, k+"messageEventPayloadHasSnapshot", k+"mergeMessageEventTerminalPayload")
	c.Min(x1, 8)

	// ------------------------------------------------------------------ X2: the cache's replay table
	const x2 = "X2-replay-table"
	sess := k + "messageEventStreamCacheSession"
	applied := c.Field(sess + ".applied")
	states := c.Field(sess + ".states")
	sessions := c.Field(k + "messageEventStreamCache.sessions")
	if applied == nil || states == nil || sessions == nil {
		return
	}
	// (a) grow-only for the life of the session
	xc40GrowOnly(c, x2, sess+".applied", applied)
	// the field itself is set once, to a fresh map, in the constructor literal
	nlit := 0
	for _, s := range c.fieldStores(applied) {
		name := c.P.Name(s.fn)
		construct := name + "#replay-table-set:" + Path(s.val)
		_, fresh := s.val.(*ssa.MakeMap)
		switch {
		case s.literal && fresh && name == k+"messageEventStreamCache.sessionLocked":
			nlit++
			c.add("confine", x2, construct, Held, c.P.InstrPos(s.in), "fresh map in the session constructor literal")
		default:
			c.add("confine", x2, construct, Violated, c.P.InstrPos(s.in),
				fmt.Sprintf("%s replaces the applied-id table of a stream-cache session (%s): ids recorded so far are forgotten and a retried delta/snapshot is reduced into the lane a second time; the table is created once, with the session, in sessionLocked", name, Path(s.val)))
		}
	}
	if nlit == 0 {
		c.add("confine", x2, "stores:"+sess+".applied", Undecided, "", "the constructor store of the applied-id table was not found (vacuous)")
	}
	// a live session is never replaced: entries of cache.sessions are written only by sessionLocked, behind "no session under this key"
	c39ConfineMapUpdates(c, x2, k+"messageEventStreamCache.sessions", k+"messageEventStreamCache.sessionLocked")
	sl := c.Fn(k + "messageEventStreamCache.sessionLocked")
	c.Guard(x2, sl, InstrFn{"sessions[key] = …", func(in ssa.Instruction) bool {
		mu, ok := in.(*ssa.MapUpdate)
		return ok && xc40IsFieldMap(mu.Map, sessions) && Path(mu.Key) == "key"
	}}, "c.sessions[key] == nil")

	// (b) recorded under the event's own id, everywhere
	isApplied := func(in ssa.Instruction) bool {
		mu, ok := in.(*ssa.MapUpdate)
		return ok && xc40IsFieldMap(mu.Map, applied)
	}
	isStates := func(in ssa.Instruction) bool {
		mu, ok := in.(*ssa.MapUpdate)
		return ok && xc40IsFieldMap(mu.Map, states)
	}
	recordOwnID := InstrFn{"applied[event.EventID] = …", func(in ssa.Instruction) bool {
		return isApplied(in) && Path(in.(*ssa.MapUpdate).Key) == "event.EventID"
	}}
	laneWrite := InstrFn{"states[…] = …", isStates}
	nrec := 0
	var names []string
	byName := map[string]*ssa.Function{}
	for _, fn := range c.P.AllFuncs {
		names = append(names, c.P.Name(fn))
		byName[c.P.Name(fn)] = fn
	}
	sort.Strings(names)
	// functions that write a lane without being a replay-gated reduction, with the reason
	ungated := map[string]string{
		k + "messageEventStreamCache.markTerminalPersisted": "stores the DURABLE result of a terminal event (already deduplicated by the durable applied row, R2-append) over the cached lane; it does not reduce a payload into the lane",
	}
	nlane := 0
	for _, name := range names {
		fn := byName[name]
		for _, in := range instrsMatching(fn, InstrFn{"applied[…] = …", isApplied}) {
			nrec++
			mu := in.(*ssa.MapUpdate)
			construct := name + "#replay-record-key:" + Path(mu.Key)
			if Path(mu.Key) == "event.EventID" && xc40HasParam(fn, "event") {
				c.add("shape", x2, construct, Held, c.P.InstrPos(in), "recorded under the id of the event being applied")
			} else {
				c.add("shape", x2, construct, Violated, c.P.InstrPos(in),
					fmt.Sprintf("%s records an applied event under %s, not under event.EventID of its event parameter: the replay lookup (by event.EventID) will miss it and the event is reduced again", name, Path(mu.Key)))
			}
		}
		if len(instrsMatching(fn, laneWrite)) == 0 {
			continue
		}
		nlane++
		// (c) a lane write is followed by recording the id on every path to a return
		c.FollowedBy(x2, fn, laneWrite, recordOwnID)
		// (d) and happens only for an id that is not in the table yet
		if why, ok := ungated[name]; ok {
			c.add("guard", x2, name+"#lane-write-gated-by-replay-table", Exception, c.P.Pos(fn.Pos()), why)
			continue
		}
		c.Guard(x2, fn, laneWrite, "*.applied[event.EventID]#1 == false")
		c.Guard(x2, fn, recordOwnID, "*.applied[event.EventID]#1 == false")
	}
	if nrec < 3 || nlane < 2 {
		c.add("shape", x2, "sites:replay-records-and-lane-writes", Undecided, "", fmt.Sprintf("%d replay record(s) and %d lane-writing function(s) found, hand-confirmed minimum 3 and 2", nrec, nlane))
	}
	c.Min(x2, 12)
}

// xc40IsFieldMap: v is the map held in struct field fv (a load of &x.fv, or x.fv of a struct value).
func xc40IsFieldMap(v ssa.Value, fv *types.Var) bool {
	switch x := v.(type) {
	case *ssa.UnOp:
		if x.Op != token.MUL {
			return false
		}
		fa, ok := x.X.(*ssa.FieldAddr)
		return ok && fieldVar(fa.X.Type(), fa.Field) == fv
	case *ssa.Field:
		return fieldVar(x.X.Type(), x.Field) == fv
	case *ssa.ChangeType:
		return xc40IsFieldMap(x.X, fv)
	}
	return false
}

func xc40HasParam(fn *ssa.Function, name string) bool {
	for _, p := range fn.Params {
		if p.Name() == name {
			return true
		}
	}
	return false
}

// xc40GrowOnly: every use of the map held in field fv, in every loaded function, is a lookup, an
// entry store, len or range. delete/clear on it is a violation; any use through which the map could
// be shrunk out of sight (passed to a call, stored somewhere, returned, captured) is undecided.
func xc40GrowOnly(c *Ctx, rule, field string, fv *types.Var) {
	type use struct {
		fn   *ssa.Function
		in   ssa.Instruction
		what string
	}
	var shrink, escape []use
	nuse := 0
	for _, fn := range c.P.AllFuncs {
		var maps []ssa.Value
		for _, b := range fn.Blocks {
			for _, in := range b.Instrs {
				switch x := in.(type) {
				case *ssa.FieldAddr:
					if fieldVar(x.X.Type(), x.Field) != fv || x.Referrers() == nil {
						continue
					}
					for _, r := range *x.Referrers() {
						switch y := r.(type) {
						case *ssa.UnOp:
							if y.Op == token.MUL {
								maps = append(maps, y)
								continue
							}
							escape = append(escape, use{fn, r, "address used by " + r.String()})
						case *ssa.Store:
							if y.Addr == ssa.Value(x) {
								continue // a store of the field itself: judged by the constructor rule
							}
							escape = append(escape, use{fn, r, "the field's address is stored"})
						case *ssa.DebugRef:
						default:
							escape = append(escape, use{fn, r, "the field's address is handed to " + r.String()})
						}
					}
				case *ssa.Field:
					if fieldVar(x.X.Type(), x.Field) == fv {
						maps = append(maps, x)
					}
				}
			}
		}
		seen := map[ssa.Value]bool{}
		for len(maps) > 0 {
			m := maps[len(maps)-1]
			maps = maps[:len(maps)-1]
			if seen[m] || m.Referrers() == nil {
				continue
			}
			seen[m] = true
			for _, r := range *m.Referrers() {
				nuse++
				switch y := r.(type) {
				case *ssa.Lookup, *ssa.Range, *ssa.DebugRef:
				case *ssa.MapUpdate:
					if y.Map != m {
						escape = append(escape, use{fn, r, "the table is stored as a key/value of another map"})
					}
				case *ssa.Phi:
					maps = append(maps, y)
				case *ssa.ChangeType:
					maps = append(maps, y)
				case *ssa.BinOp: // comparison with nil
				case ssa.CallInstruction:
					cc := y.Common()
					if bi, ok := cc.Value.(*ssa.Builtin); ok {
						switch bi.Name() {
						case "len":
							continue
						case "delete", "clear":
							shrink = append(shrink, use{fn, r, bi.Name()})
							continue
						}
					}
					escape = append(escape, use{fn, r, "the table is passed to " + calleeName(cc)})
				default:
					escape = append(escape, use{fn, r, "the table flows into " + strings.TrimSpace(r.String())})
				}
			}
		}
	}
	construct := "grow-only:" + field
	switch {
	case len(shrink) > 0:
		var s []string
		for _, u := range shrink {
			s = append(s, fmt.Sprintf("%s in %s at %s", u.what, c.P.Name(u.fn), c.P.InstrPos(u.in)))
		}
		sort.Strings(s)
		c.add("confine", rule, construct, Violated, c.P.InstrPos(shrink[0].in),
			"entries are removed from the applied-id table of a live stream-cache session ("+strings.Join(s, "; ")+"): an event whose record is gone is reduced into the cached lane again when it is retried, and the duplicated delta is what close/finish later write durably. Records may only go away together with the whole session")
	case len(escape) > 0:
		var s []string
		for _, u := range escape {
			s = append(s, fmt.Sprintf("%s in %s at %s", u.what, c.P.Name(u.fn), c.P.InstrPos(u.in)))
		}
		sort.Strings(s)
		c.add("confine", rule, construct, Undecided, c.P.InstrPos(escape[0].in), "the applied-id table leaves the uses the rule can follow: "+strings.Join(s, "; "))
	case nuse == 0:
		c.add("confine", rule, construct, Undecided, "", "no use of the table found (vacuous)")
	default:
		c.add("confine", rule, construct, Held, "", fmt.Sprintf("%d use(s), all lookup / entry store / len / range", nuse))
	}
}
