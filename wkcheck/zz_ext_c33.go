package main

import (
	"fmt"
	"go/token"
	"go/types"
	"sort"
	"strings"

	"golang.org/x/tools/go/ssa"
)

// Extension rules for C33 found by seeded change C33-b.
//
// Clause: "the scan order (expiryHeap) and the by-second lookup (expiryBySeen) of an authority slot index
// the SAME set of buckets". scheduleExpiryLocked files a route into whatever bucket expiryBySeen holds for
// its activity second and pushes a bucket on the heap only when the lookup is empty; expireLocked only ever
// examines buckets it pops from the heap. A bucket that is still reachable through expiryBySeen after it
// left the heap therefore swallows every later route of that second: the route is active, indexed by key,
// and no expiry pass will ever look at it (seed C33-b dropped the un-indexing after heap.Pop).
//
//	X1-bucket-index-lockstep
//	  (a) removal: every container/heap.Pop / container/heap.Remove on the slot heap is, on every path through
//	      it, accompanied by delete(expiryBySeen, B.seenUnix) for the very bucket B that leaves the heap
//	      (Pop: the root read before the pop, or the pop's result; Remove: the bucket whose heapIndex is
//	      passed). The only branches allowed to skip the delete are the entry-is-not-this-bucket tests
//	      (expiryBySeen[B.seenUnix] != B, or the comma-ok of that lookup being false).
//	  (b) insertion: every expiryBySeen[k] = V is accompanied by container/heap.Push(heap, V) and vice versa
//	      (a bucket that can be found by second but is not in the heap is never scanned either).
//	  (c) nobody else touches the two containers: expiryBySeen is set/deleted only at the enumerated sites,
//	      both fields are assigned only in newAuthoritySlot, and the heap field's address is only loaded or
//	      handed to container/heap.{Push,Pop,Remove}; its elements are never stored through the field.
//
// (a) and (b) are checked in EVERY function of the package that performs such an operation, not in an
// enumerated list, so a new pop/remove site is covered too. container/heap semantics are trusted (as in R5).
func init() {
	const exp = "internal/runtime/presence/expiry_index.go"
	const unindex = "\t\t\tif current := s.expiryBySeen[bucket.seenUnix]; current == bucket {\n\t\t\t\tdelete(s.expiryBySeen, bucket.seenUnix)\n\t\t\t}\n"
	extend("C33", nil, func(c *Ctx) {
		const rule = "X1-bucket-index-lockstep"
		heapFv := c.Field(c33P + "authoritySlot.expiryHeap")
		seenFv := c.Field(c33P + "authoritySlot.expiryBySeen")
		keyFv := c.Field(c33P + "expiryBucket.seenUnix")
		idxFv := c.Field(c33P + "expiryBucket.heapIndex")
		if heapFv == nil || seenFv == nil || keyFv == nil || idxFv == nil {
			return
		}
		x := &xc33Index{c: c, rule: rule, heapFv: heapFv, seenFv: seenFv, keyFv: keyFv, idxFv: idxFv}
		x.removals()
		x.insertions()
		sched := c33P + "authoritySlot.scheduleExpiryLocked"
		unsched := c33P + "authoritySlot.unscheduleExpiryLocked"
		expire := c33P + "authoritySlot.expireLocked"
		c33ConfineMap(c, rule, c33P+"authoritySlot.expiryBySeen", map[string][]string{"set": {sched}, "delete": {unsched, expire}})
		c.ConfineStores(rule, c33P+"authoritySlot.expiryHeap", true, c33P+"newAuthoritySlot")
		c.ConfineStores(rule, c33P+"authoritySlot.expiryBySeen", true, c33P+"newAuthoritySlot")
		x.heapHandleUses()
		c.Min(rule, 8)
	},
		// the seeded change: the popped bucket stays in the by-second lookup
		Mutant{Name: "x-expire-pop-keeps-second-lookup", File: exp, Old: unindex, New: "", Expect: "C33/X1-bucket-index-lockstep/*"},
		// same mechanism from the unregister side: the emptied bucket leaves the heap but not the lookup
		Mutant{Name: "x-unschedule-remove-keeps-second-lookup", File: exp,
			Old:    "\tif current := s.expiryBySeen[bucket.seenUnix]; current == bucket {\n\t\tdelete(s.expiryBySeen, bucket.seenUnix)\n\t}\n\tif bucket.heapIndex >= 0 {",
			New:    "\tif bucket.heapIndex >= 0 {",
			Expect: "C33/X1-bucket-index-lockstep/*"},
		// un-indexing made conditional on something that is not the identity test
		Mutant{Name: "x-expire-unindex-only-when-empty", File: exp,
			Old:    "\t\t\tif current := s.expiryBySeen[bucket.seenUnix]; current == bucket {\n\t\t\t\tdelete(s.expiryBySeen, bucket.seenUnix)",
			New:    "\t\t\tif current := s.expiryBySeen[bucket.seenUnix]; current == bucket && len(bucket.keys) == 0 {\n\t\t\t\tdelete(s.expiryBySeen, bucket.seenUnix)",
			Expect: "C33/X1-bucket-index-lockstep/*"},
		// the wrong second is un-indexed
		Mutant{Name: "x-expire-unindexes-other-second", File: exp,
			Old:    "\t\t\tif current := s.expiryBySeen[bucket.seenUnix]; current == bucket {\n\t\t\t\tdelete(s.expiryBySeen, bucket.seenUnix)",
			New:    "\t\t\tif current := s.expiryBySeen[bucket.seenUnix]; current == bucket {\n\t\t\t\tdelete(s.expiryBySeen, now.Unix())",
			Expect: "C33/X1-bucket-index-lockstep/*"},
		// a bucket findable by second that never enters the heap
		Mutant{Name: "x-schedule-bucket-not-pushed-when-heap-large", File: exp,
			Old:    "\t\theap.Push(&s.expiryHeap, bucket)\n",
			New:    "\t\tif len(s.expiryHeap) < 4096 {\n\t\t\theap.Push(&s.expiryHeap, bucket)\n\t\t}\n",
			Expect: "C33/X1-bucket-index-lockstep/*"},
		// a new site that empties the heap wholesale
		Mutant{Name: "x-heap-truncated-elsewhere", File: exp,
			Old:    "\tresult.IndexRoutes = len(s.expiryByKey)\n",
			New:    "\tif len(s.active) == 0 {\n\t\ts.expiryHeap = s.expiryHeap[:0]\n\t}\n\tresult.IndexRoutes = len(s.expiryByKey)\n",
			Expect: "C33/X1-bucket-index-lockstep/*"},
		// behaviour-preserving: locals renamed, the popped value is used instead of the root read before, counters moved
		Mutant{Name: "x-expire-refactor-uses-pop-result", File: exp,
			Old:    "\t\t\theap.Pop(&s.expiryHeap)\n" + unindex + "\t\t\tresult.DueBuckets++\n",
			New:    "\t\t\tresult.DueBuckets++\n\t\t\tdue := heap.Pop(&s.expiryHeap).(*expiryBucket)\n\t\t\tif indexed, ok := s.expiryBySeen[due.seenUnix]; ok && indexed == due {\n\t\t\t\tdelete(s.expiryBySeen, due.seenUnix)\n\t\t\t}\n",
			Expect: "!silent"},
		// behaviour-preserving: un-index before leaving the heap, early return kept
		Mutant{Name: "x-unschedule-refactor-order", File: exp,
			Old:    "\tif current := s.expiryBySeen[bucket.seenUnix]; current == bucket {\n\t\tdelete(s.expiryBySeen, bucket.seenUnix)\n\t}\n\tif bucket.heapIndex >= 0 {\n\t\theap.Remove(&s.expiryHeap, bucket.heapIndex)\n\t}\n",
			New:    "\tif bucket.heapIndex >= 0 {\n\t\theap.Remove(&s.expiryHeap, bucket.heapIndex)\n\t}\n\tif s.expiryBySeen[bucket.seenUnix] != bucket {\n\t\treturn\n\t}\n\tdelete(s.expiryBySeen, bucket.seenUnix)\n",
			Expect: "!silent"},
	)
}

type xc33Index struct {
	c      *Ctx
	rule   string
	heapFv *types.Var // authoritySlot.expiryHeap
	seenFv *types.Var // authoritySlot.expiryBySeen
	keyFv  *types.Var // expiryBucket.seenUnix
	idxFv  *types.Var // expiryBucket.heapIndex
}

// xc33FieldAddrOf: v (conversions / interface boxing stripped) is the address of struct field fv.
func xc33FieldAddrOf(v ssa.Value, fv *types.Var) bool {
	v = c33StripIface(stripConv(v))
	fa, ok := v.(*ssa.FieldAddr)
	return ok && fieldVar(fa.X.Type(), fa.Field) == fv
}

// xc33LoadedFieldBase: v is a load of field fv of some struct pointer/value; returns that base.
func xc33LoadedFieldBase(v ssa.Value, fv *types.Var) (ssa.Value, bool) {
	switch x := stripConv(v).(type) {
	case *ssa.UnOp:
		if x.Op != token.MUL {
			return nil, false
		}
		if fa, ok := x.X.(*ssa.FieldAddr); ok && fieldVar(fa.X.Type(), fa.Field) == fv {
			return fa.X, true
		}
	case *ssa.Field:
		if fieldVar(x.X.Type(), x.Field) == fv {
			return x.X, true
		}
	}
	return nil, false
}

// xc33SameVal: the two operands denote the same bucket (SSA identity after looking through locals that are
// assigned exactly once; two loads of the same such local render alike).
func xc33SameVal(a, b ssa.Value) bool {
	a, b = c33Origin(stripConv(a)), c33Origin(stripConv(b))
	if a == b {
		return true
	}
	_, la := a.(*ssa.UnOp)
	_, lb := b.(*ssa.UnOp)
	return la && lb && Path(a) == Path(b) && !strings.Contains(Path(a), "[")
}

// heapCall classifies a call instruction as container/heap.<op> on the slot heap.
func (x *xc33Index) heapCall(in ssa.Instruction) (op string, cc *ssa.CallCommon) {
	ci, ok := in.(ssa.CallInstruction)
	if !ok {
		return "", nil
	}
	cc = ci.Common()
	name := calleeName(cc)
	if !strings.HasPrefix(name, "container/heap.") || len(cc.Args) == 0 || !xc33FieldAddrOf(cc.Args[0], x.heapFv) {
		return "", nil
	}
	return strings.TrimPrefix(name, "container/heap."), cc
}

// seenDelete: in is delete(<slot>.expiryBySeen, K); returns K.
func (x *xc33Index) seenDelete(in ssa.Instruction) (ssa.Value, bool) {
	ci, ok := in.(ssa.CallInstruction)
	if !ok {
		return nil, false
	}
	cc := ci.Common()
	if b, ok := cc.Value.(*ssa.Builtin); !ok || b.Name() != "delete" || len(cc.Args) != 2 || !c33IsFieldLoad(cc.Args[0], x.seenFv) {
		return nil, false
	}
	return cc.Args[1], true
}

// rootBefore: v is <slot>.expiryHeap[0] read at a point that precedes the removal r on every path.
func (x *xc33Index) rootBefore(v ssa.Value, r ssa.Instruction) bool {
	u, ok := c33Origin(stripConv(v)).(*ssa.UnOp)
	if !ok || u.Op != token.MUL {
		return false
	}
	ia, ok := u.X.(*ssa.IndexAddr)
	if !ok || !c33IsFieldLoad(ia.X, x.heapFv) {
		return false
	}
	if k, ok := ia.Index.(*ssa.Const); !ok || k.Value == nil || k.Value.ExactString() != "0" {
		return false
	}
	if u.Block() == r.Block() {
		return indexIn(u.Block(), u) < indexIn(r.Block(), r)
	}
	return u.Block().Dominates(r.Block())
}

// leaves: does bucket value b denote the bucket that removal (op, cc, in) takes out of the heap?
func (x *xc33Index) leaves(b ssa.Value, op string, cc *ssa.CallCommon, in ssa.Instruction) bool {
	switch op {
	case "Remove":
		if len(cc.Args) < 2 {
			return false
		}
		owner, ok := xc33LoadedFieldBase(cc.Args[1], x.idxFv)
		return ok && xc33SameVal(owner, b)
	case "Pop":
		if x.rootBefore(b, in) {
			return true
		}
		if ta, ok := c33Origin(stripConv(b)).(*ssa.TypeAssert); ok {
			if call, ok := ta.X.(*ssa.Call); ok && ssa.Instruction(call) == in {
				return true
			}
		}
	}
	return false
}

// skipEdges: the CFG edges on which "expiryBySeen no longer maps b's second to b" is established.
func (x *xc33Index) skipEdges(fn *ssa.Function, isBucket func(ssa.Value) bool) map[edge]bool {
	cut := map[edge]bool{}
	lookupOfBucket := func(v ssa.Value) (*ssa.Lookup, bool) {
		lk, ok := stripConv(v).(*ssa.Lookup)
		if !ok || !c33IsFieldLoad(lk.X, x.seenFv) {
			return nil, false
		}
		owner, ok := xc33LoadedFieldBase(lk.Index, x.keyFv)
		return lk, ok && isBucket(owner)
	}
	for _, b := range fn.Blocks {
		if len(b.Instrs) == 0 {
			continue
		}
		iff, ok := b.Instrs[len(b.Instrs)-1].(*ssa.If)
		if !ok {
			continue
		}
		cond, neg := iff.Cond, false
		for {
			u, ok := cond.(*ssa.UnOp)
			if !ok || u.Op != token.NOT {
				break
			}
			cond, neg = u.X, !neg
		}
		switch cv := cond.(type) {
		case *ssa.BinOp:
			if cv.Op != token.EQL && cv.Op != token.NEQ {
				continue
			}
			for _, pair := range [][2]ssa.Value{{cv.X, cv.Y}, {cv.Y, cv.X}} {
				l := pair[0]
				if ex, ok := l.(*ssa.Extract); ok && ex.Index == 0 {
					l = ex.Tuple
				}
				if _, ok := lookupOfBucket(l); ok && isBucket(pair[1]) {
					unequalOnTrue := (cv.Op == token.NEQ) != neg
					if unequalOnTrue {
						cut[edge{b, 0}] = true
					} else {
						cut[edge{b, 1}] = true
					}
				}
			}
		case *ssa.Extract:
			if cv.Index != 1 {
				continue
			}
			if lk, ok := lookupOfBucket(cv.Tuple); ok && lk.CommaOk {
				if neg {
					cut[edge{b, 0}] = true
				} else {
					cut[edge{b, 1}] = true
				}
			}
		}
	}
	return cut
}

// xc33Accompanied: every path through `site` executes an instruction satisfying pass, either before the
// site (walking back to the function entry or to the site itself) or after it (walking on to a return or to
// the site itself), never using an edge in cut.
func xc33Accompanied(site ssa.Instruction, pass func(ssa.Instruction) bool, cut map[edge]bool) (before, after bool) {
	sb := site.Block()
	si := indexIn(sb, site)
	// forward
	{
		seen := map[*ssa.BasicBlock]bool{}
		var walk func(b *ssa.BasicBlock, from int) bool // true = escapes
		walk = func(b *ssa.BasicBlock, from int) bool {
			for i := from; i < len(b.Instrs); i++ {
				in := b.Instrs[i]
				if pass(in) {
					return false
				}
				if in == site {
					return true
				}
				if _, ok := in.(*ssa.Return); ok {
					return true
				}
			}
			for k, s := range b.Succs {
				if cut[edge{b, k}] || seen[s] {
					continue
				}
				seen[s] = true
				if walk(s, 0) {
					return true
				}
			}
			return false
		}
		after = !walk(sb, si+1)
	}
	// backward
	{
		seen := map[*ssa.BasicBlock]bool{}
		var walk func(b *ssa.BasicBlock, from int) bool // true = escapes
		walk = func(b *ssa.BasicBlock, from int) bool {
			for i := from; i >= 0; i-- {
				in := b.Instrs[i]
				if pass(in) {
					return false
				}
				if in == site {
					return true
				}
			}
			if b.Index == 0 {
				return true
			}
			for _, p := range b.Preds {
				open := false
				for k, s := range p.Succs {
					if s == b && !cut[edge{p, k}] {
						open = true
					}
				}
				if !open || seen[p] {
					continue
				}
				seen[p] = true
				if walk(p, len(p.Instrs)-1) {
					return true
				}
			}
			return false
		}
		before = !walk(sb, si-1)
	}
	return
}

func (x *xc33Index) pkgFuncs() []*ssa.Function {
	var out []*ssa.Function
	for _, fn := range x.c.P.AllFuncs {
		if strings.HasPrefix(x.c.P.Name(fn), c33P) {
			out = append(out, fn)
		}
	}
	return out
}

// removals implements clause (a).
func (x *xc33Index) removals() {
	c := x.c
	n := 0
	for _, fn := range x.pkgFuncs() {
		name := c.P.Name(fn)
		for _, b := range fn.Blocks {
			for _, in := range b.Instrs {
				op, cc := x.heapCall(in)
				if op != "Pop" && op != "Remove" {
					continue
				}
				n++
				c.FuncsAnalysed[name] = true
				construct := fmt.Sprintf("%s#heap.%s→delete(expiryBySeen, removed.seenUnix)", name, op)
				isBucket := func(v ssa.Value) bool { return x.leaves(v, op, cc, in) }
				deletes, right := 0, 0
				pass := func(d ssa.Instruction) bool {
					k, ok := x.seenDelete(d)
					if !ok {
						return false
					}
					owner, ok := xc33LoadedFieldBase(k, x.keyFv)
					return ok && isBucket(owner)
				}
				for _, bb := range fn.Blocks {
					for _, d := range bb.Instrs {
						if _, ok := x.seenDelete(d); ok {
							deletes++
							if pass(d) {
								right++
							}
						}
					}
				}
				cut := x.skipEdges(fn, isBucket)
				c.EdgesRemoved += len(cut)
				before, after := xc33Accompanied(in, pass, cut)
				switch {
				case before || after:
					how := "after"
					if before {
						how = "before"
					}
					c.add("order", x.rule, construct, Held, c.P.InstrPos(in), fmt.Sprintf("the bucket leaving the heap is removed from expiryBySeen %s the removal on every path (%d skip edge(s) that only establish the entry is not this bucket)", how, len(cut)))
				case right == 0:
					c.add("order", x.rule, construct, Violated, c.P.InstrPos(in), fmt.Sprintf("%s takes a bucket out of expiryHeap but never deletes that bucket's second from expiryBySeen (%d delete(s) of other keys): a later route with the same activity second is filed into a bucket no expiry pass will scan, so it outlives the TTL", name, deletes))
				default:
					c.add("order", x.rule, construct, Violated, c.P.InstrPos(in), fmt.Sprintf("in %s a path through the heap removal skips delete(expiryBySeen, removed.seenUnix) by a branch other than the entry-is-not-this-bucket test: the bucket can stay findable by second after it left the heap", name))
				}
			}
		}
	}
	if n < 2 {
		c.add("vacuity", x.rule, "heap-removals", Undecided, "", fmt.Sprintf("%d container/heap.Pop/Remove site(s) on authoritySlot.expiryHeap found, hand-confirmed minimum 2", n))
	}
}

// insertions implements clause (b).
func (x *xc33Index) insertions() {
	c := x.c
	nSet, nPush := 0, 0
	for _, fn := range x.pkgFuncs() {
		name := c.P.Name(fn)
		for _, b := range fn.Blocks {
			for _, in := range b.Instrs {
				if mu, ok := in.(*ssa.MapUpdate); ok && c33IsFieldLoad(mu.Map, x.seenFv) {
					nSet++
					c.FuncsAnalysed[name] = true
					val := mu.Value
					pass := func(d ssa.Instruction) bool {
						op, cc := x.heapCall(d)
						return op == "Push" && len(cc.Args) == 2 && xc33SameVal(c33StripIface(cc.Args[1]), val)
					}
					before, after := xc33Accompanied(in, pass, nil)
					construct := name + "#expiryBySeen[k]=V→heap.Push(V)"
					if before || after {
						c.add("order", x.rule, construct, Held, c.P.InstrPos(in), "the bucket made findable by second is pushed on the heap on every path")
					} else {
						c.add("order", x.rule, construct, Violated, c.P.InstrPos(in), "a bucket is registered in expiryBySeen on a path that does not push the same bucket on expiryHeap: routes filed into it are never scanned by an expiry pass")
					}
				}
				if op, cc := x.heapCall(in); op == "Push" && len(cc.Args) == 2 {
					nPush++
					c.FuncsAnalysed[name] = true
					val := c33StripIface(cc.Args[1])
					pass := func(d ssa.Instruction) bool {
						mu, ok := d.(*ssa.MapUpdate)
						return ok && c33IsFieldLoad(mu.Map, x.seenFv) && xc33SameVal(mu.Value, val)
					}
					before, after := xc33Accompanied(in, pass, nil)
					construct := name + "#heap.Push(V)→expiryBySeen[k]=V"
					if before || after {
						c.add("order", x.rule, construct, Held, c.P.InstrPos(in), "every bucket pushed on the heap is registered in expiryBySeen on every path")
					} else {
						c.add("order", x.rule, construct, Violated, c.P.InstrPos(in), "a bucket is pushed on expiryHeap on a path that does not register the same bucket in expiryBySeen: the second can get two buckets and the lookup no longer names the one in the heap")
					}
				}
			}
		}
	}
	if nSet < 1 || nPush < 1 {
		c.add("vacuity", x.rule, "heap-insertions", Undecided, "", fmt.Sprintf("%d expiryBySeen store(s) and %d heap.Push site(s) found, hand-confirmed minimum 1 each", nSet, nPush))
	}
}

// heapHandleUses implements the heap half of clause (c): &slot.expiryHeap is only loaded (len, root read),
// assigned in the constructor, or handed to container/heap.{Push,Pop,Remove}; no element is stored through it.
func (x *xc33Index) heapHandleUses() {
	c := x.c
	allowedOps := map[string]bool{"Push": true, "Pop": true, "Remove": true}
	var bad []string
	badPos := ""
	uses := map[string]int{}
	note := func(in ssa.Instruction, fn *ssa.Function, what string) {
		bad = append(bad, fmt.Sprintf("%s in %s at %s", what, c.P.Name(fn), c.P.InstrPos(in)))
		if badPos == "" {
			badPos = c.P.InstrPos(in)
		}
	}
	for _, fn := range c.P.AllFuncs {
		for _, b := range fn.Blocks {
			for _, in := range b.Instrs {
				fa, ok := in.(*ssa.FieldAddr)
				if !ok || fieldVar(fa.X.Type(), fa.Field) != x.heapFv || fa.Referrers() == nil {
					continue
				}
				for _, ref := range *fa.Referrers() {
					switch r := ref.(type) {
					case *ssa.UnOp:
						uses["load"]++
						if r.Referrers() == nil {
							continue
						}
						for _, rr := range *r.Referrers() {
							switch e := rr.(type) {
							case *ssa.IndexAddr:
								if e.Referrers() == nil {
									continue
								}
								for _, er := range *e.Referrers() {
									if st, ok := er.(*ssa.Store); ok && st.Addr == ssa.Value(e) {
										note(st, fn, "element store through the heap field")
									}
								}
							case *ssa.Slice:
								note(e, fn, "reslice of the heap field")
							case ssa.CallInstruction:
								if bi, ok := e.Common().Value.(*ssa.Builtin); ok && (bi.Name() == "len" || bi.Name() == "cap") {
									continue
								}
								note(e, fn, "heap slice handed to "+calleeName(e.Common()))
							}
						}
					case *ssa.Store:
						if r.Addr == ssa.Value(fa) {
							uses["assign"]++ // who may assign is decided by ConfineStores
						} else {
							note(r, fn, "address of the heap field stored")
						}
					case *ssa.MakeInterface:
						if r.Referrers() == nil {
							continue
						}
						for _, rr := range *r.Referrers() {
							ci, ok := rr.(ssa.CallInstruction)
							if !ok {
								note(rr, fn, "boxed heap handle used outside a call")
								continue
							}
							name := calleeName(ci.Common())
							if op := strings.TrimPrefix(name, "container/heap."); op != name && allowedOps[op] {
								uses["heap."+op]++
								continue
							}
							note(rr, fn, "heap handle passed to "+name)
						}
					case *ssa.DebugRef:
					default:
						note(ref, fn, fmt.Sprintf("heap field address used by %T", ref))
					}
				}
			}
		}
	}
	construct := "heap-handle-uses:" + c33P + "authoritySlot.expiryHeap"
	if len(bad) > 0 {
		sort.Strings(bad)
		c.add("confine", x.rule, construct, Violated, badPos, "the slot heap is reachable by an operation the lock-step rules do not see: "+strings.Join(bad, "; "))
		return
	}
	c.add("confine", x.rule, construct, Held, "", "the heap field is only loaded, assigned in the constructor or handed to container/heap.{Push,Pop,Remove}: "+countsString(uses))
}
