package main

import (
	"fmt"
	"go/token"
	"sort"
	"strings"

	"golang.org/x/tools/go/ssa"
)

// extend adds rules, packages and mutants to an already registered property. This file is
// named zz_* so that its init runs after every props_*.go (Go initialises files in name order).
// It holds the rules added after trying independently seeded changes against the checks.
func extend(id string, pkgs []string, run func(c *Ctx), mutants ...Mutant) {
	spec := registry[id]
	if spec == nil {
		panic("extend: unknown property " + id)
	}
	have := map[string]bool{}
	for _, p := range spec.Pkgs {
		have[p] = true
	}
	for _, p := range pkgs {
		if !have[p] {
			spec.Pkgs = append(spec.Pkgs, p)
		}
	}
	old := spec.Run
	spec.Run = func(c *Ctx) {
		old(c)
		run(c)
	}
	spec.Mutants = append(spec.Mutants, mutants...)
}

func init() {
	// ---- C01 -----------------------------------------------------------------------------
	extend("C01", nil, func(c *Ctx) {
		const rp = "pkg/channel/replication."
		// X1: the committed mark shipped with every business proposal is the leader's current HW
		// (seed C01-a froze it at the install-time frontier, so replicas never learn new commits
		// and a later recovery truncates acknowledged entries).
		seal := c.Fn(rp + "sealBusinessProposal")
		c.StoreShape("X1-committed-mark", seal, "*durableProposal.committed", "hw")
		c.CallShape("X1-committed-mark", c.Fn(rp+"quorumLog.Commit"), rp+"sealBusinessProposal", rp+"sealBusinessProposal(*.authority, *.frontier, *.hw, *")
		// X2: recovery compares BOTH quorum frontiers (committed and LEO) of the stable page round
		// with the frontier round (seed C01-b dropped the LEO comparison, so a voter lost between
		// the rounds shrinks the certified prefix silently).
		c01xFrontierClasses(c, c.Fn(rp+"recoverQuorumPrefix"))
	},
		Mutant{Name: "x-committed-mark-frozen", File: "pkg/channel/replication/quorum_log.go", Old: "manifest: manifest, records: frozen, committed: hw,", New: "manifest: manifest, records: frozen, committed: frontier.Committed,", Expect: "C01/X1*"},
		Mutant{Name: "x-recovery-drops-leo-recheck", File: "pkg/channel/replication/recovery_owner.go", Old: "if quorumFrontier(stableCommitted, request.Quorum) != certifiedCommitted || quorumFrontier(stableLEOs, request.Quorum) != quorumLEO {", New: "_ = stableLEOs\n\t\tif quorumFrontier(stableCommitted, request.Quorum) != certifiedCommitted {", Expect: "C01/X2*"},
	)

	// ---- C03 -----------------------------------------------------------------------------
	// "reusing a command identity with different content is rejected" rests on the entry digest
	// being injective over the record: the same framing clauses as C05 (seed C03-c removed the
	// length prefix of the variable-length fields, so content shifted across a field boundary
	// seals to the same identity and is accepted as an exact retry).
	extend("C03", []string{"./pkg/quorumlog"}, func(c *Ctx) {
		digest := c.Fn("pkg/quorumlog.digestProposalEntry")
		if digest == nil {
			return
		}
		c05Flow(c, digest, "pkg/quorumlog.Record", map[string]string{"Index": "forced equal to entry.Index (C05-R3)", "Epoch": "forced equal to entry.ChannelEpoch (C05-R3)"})
		c05Flow(c, digest, "pkg/quorumlog.EntryIdentity", map[string]string{"Version": "domain-separation literal", "Digest": "the output"})
		c05Branches(c, digest)
	},
		Mutant{Name: "x-digest-no-length-prefix", File: "pkg/quorumlog/proposal.go", Old: "\t\twriteUint64(uint64(len(value)))\n", New: "", Expect: "C03/R2-framing*"},
	)

	// ---- C07 -----------------------------------------------------------------------------
	// lookups by (sender, client message number) stay exact only if the negative idempotency filter
	// is never trusted while incomplete: the loaded flag and the filter contents travel together
	// between an entry and its warm state (seed C07-a kept the flag and dropped the filter).
	extend("C07", nil, func(c *Ctx) {
		c08PairedCopy(c, "X1-warm-filter", c.Fn("pkg/db/message.channelRegistry.acquire"))
		c08PairedCopy(c, "X1-warm-filter", c.Fn("pkg/db/message.channelRegistry.retainWarmLocked"))
	},
		Mutant{Name: "x-warm-state-drops-filter", File: "pkg/db/message/channel_registry.go", Old: "entry.idempotencyMembership = warm.idempotencyMembership", New: "_ = warm.idempotencyMembership", Expect: "C07/X1*"},
	)

	// ---- C09 -----------------------------------------------------------------------------
	// a suffix replacement is one atomic mutation: the rows deleted are ALL rows above KeepThrough
	// (seed C09-b read only up to the new tail, leaving the old, longer tail and its indexes behind).
	extend("C09", nil, func(c *Ctx) {
		rep := c.Fn("pkg/db/message.ChannelStore.ReplaceRecoverySuffix")
		c.CallShape("X1-replace-deletes-whole-suffix", rep, "*.readRows", "*(s.log, ctx, (req.KeepThrough + 1), 0, zero:ReadOptions)")
	},
		Mutant{Name: "x-replace-keeps-old-tail", File: "pkg/db/message/recovery_replace.go", Old: "readRows(ctx, req.KeepThrough+1, 0,", New: "readRows(ctx, req.KeepThrough+1, finalOffset,", Expect: "C09/X1*"},
	)

	// ---- C22 -----------------------------------------------------------------------------
	// SENDACK has two historical body layouts; the canonical (encoder) layout is core-first. The
	// decoder must try the canonical layout first and fall back to the legacy one only when the
	// canonical parse FAILED — choosing the layout by a content heuristic misdecodes canonical
	// frames whose sequence bytes happen to look like a string length (seed C22-b).
	extend("C22", nil, func(c *Ctx) {
		fn := c.Fn("pkg/protocol/codec.decodeSendackBody")
		c.Guard("X1-sendack-canonical-first", fn, CallTo{"pkg/protocol/codec.decodeSendackBodyClientMsgNoFirst"},
			"pkg/protocol/codec.decodeSendackBodyCoreFirst(data, version)#3 != nil")
		c.Guard("X1-sendack-canonical-first", fn, RetNil{},
			"pkg/protocol/codec.decodeSendackBodyCoreFirst(data, version)#3 == nil || pkg/protocol/codec.decodeSendackBodyClientMsgNoFirst(data, version)#3 == nil")
		c.ConfineCalls("X1-sendack-canonical-first", "pkg/protocol/codec.decodeSendackBodyClientMsgNoFirst", 1, "pkg/protocol/codec.decodeSendackBody")
		c.ConfineCalls("X1-sendack-canonical-first", "pkg/protocol/codec.decodeSendackBodyCoreFirst", 1, "pkg/protocol/codec.decodeSendackBody")
	},
		Mutant{Name: "x-sendack-legacy-layout-first", File: "pkg/protocol/codec/sendack.go", Old: "\tif clientMsgNo, messageSeq, reasonCode, err := decodeSendackBodyCoreFirst(data, version); err == nil {\n\t\treturn clientMsgNo, messageSeq, reasonCode, nil\n\t}\n\tclientMsgNo, messageSeq, reasonCode, err := decodeSendackBodyClientMsgNoFirst(data, version)", New: "\tif clientMsgNo, messageSeq, reasonCode, err := decodeSendackBodyClientMsgNoFirst(data, version); err == nil {\n\t\treturn clientMsgNo, messageSeq, reasonCode, nil\n\t}\n\tclientMsgNo, messageSeq, reasonCode, err := decodeSendackBodyCoreFirst(data, version)", Expect: "C22/X1*"},
	)

	// ---- C23 -----------------------------------------------------------------------------
	// The retained partial frame must be the session's OWN copy of the bytes: the inbound buffer is
	// only ever appended to (copy), resliced from itself, or cleared — never set to a view of the
	// transport's read buffer, which the transport reuses for the next chunk (seed C23-c).
	extend("C23", nil, func(c *Ctx) {
		fv := c.Field("pkg/gateway/core.sessionState.inbound")
		if fv == nil {
			return
		}
		n := 0
		for _, s := range c.fieldStores(fv) {
			if s.literal {
				continue
			}
			n++
			name := c.P.Name(s.fn)
			addr, val := Path(s.addr), Path(s.val)
			construct := name + "#inbound-owns-its-bytes:" + val
			ok := val == "nil" || glob("append("+addr+", *)", val) || glob(addr+"[*]", val)
			if ok {
				c.add("shape", "X1-inbound-ownership", construct, Held, c.P.InstrPos(s.in), "append-copy, self-reslice or clear")
			} else {
				c.add("shape", "X1-inbound-ownership", construct, Violated, c.P.InstrPos(s.in),
					fmt.Sprintf("%s stores %s into the session's inbound buffer: that aliases a buffer the session does not own (the transport may reuse it before the rest of the frame arrives); it must be append(inbound, …), inbound[k:] or nil", name, val))
			}
		}
		if n < 4 {
			c.add("shape", "X1-inbound-ownership", "stores:sessionState.inbound", Undecided, "", fmt.Sprintf("%d store(s) found, hand-confirmed minimum 4", n))
		}
	},
		Mutant{Name: "x-inbound-aliases-transport-buffer", File: "pkg/gateway/core/server.go", Old: "\t\tstate.inbound = append(state.inbound, data[consumed:]...)", New: "\t\tstate.inbound = data[consumed:]", Expect: "C23/X1*"},
	)

	// ---- C04 -----------------------------------------------------------------------------
	extend("C04", nil, func(c *Ctx) {
		// X1: the current-term barrier is written only by an authority strictly newer than the
		// durable tail's (channel epoch, leader term): equal term is stale (seed C04-b: `<=` → `<`
		// lets an older fence version of the same term write over the newer tail after a restart).
		fn := c.Fn("pkg/channel/replication.writeCurrentTermBarrier")
		eff := OneOf{RetNil{}, CallTo{"pkg/channel/replication.runDurableRound"}}
		c.Guard("X1-barrier-stale", fn, eff,
			"recovered.LEO <= 0 || authority.ID.ChannelEpoch >= *.ChannelEpoch",
			"recovered.LEO <= 0 || authority.ID.ChannelEpoch != *.ChannelEpoch || authority.ID.LeaderTerm > *.LeaderTerm")
	},
		Mutant{Name: "x-barrier-equal-term-accepted", File: "pkg/channel/replication/recovery_barrier.go", Old: "authority.ID.LeaderTerm <= tail.LeaderTerm", New: "authority.ID.LeaderTerm < tail.LeaderTerm", Expect: "C04/X1*"},
	)
}

// sliceElemFields: which struct field names feed the elements of slice value v (through append chains and phis).
func sliceElemFields(v ssa.Value) map[string]bool {
	out := map[string]bool{}
	seen := map[ssa.Value]bool{}
	var walk func(v ssa.Value, d int)
	walk = func(v ssa.Value, d int) {
		if v == nil || seen[v] || d > 12 {
			return
		}
		seen[v] = true
		switch x := v.(type) {
		case *ssa.Phi:
			for _, e := range x.Edges {
				walk(e, d+1)
			}
		case *ssa.Call:
			if b, ok := x.Call.Value.(*ssa.Builtin); ok && b.Name() == "append" {
				for _, a := range x.Call.Args {
					walk(a, d+1)
				}
			}
		case *ssa.Slice:
			// varargs slice of a local array: look at the stores into it
			if a := baseAlloc(x.X); a != nil && a.Referrers() != nil {
				for _, r := range *a.Referrers() {
					if ia, ok := r.(*ssa.IndexAddr); ok && ia.Referrers() != nil {
						for _, rr := range *ia.Referrers() {
							if st, ok := rr.(*ssa.Store); ok {
								walk(st.Val, d+1)
							}
						}
					}
				}
			}
		case *ssa.UnOp:
			if x.Op == token.MUL {
				walk(x.X, d+1)
			}
		case *ssa.FieldAddr:
			out[fieldName(x.X.Type(), x.Field)] = true
		case *ssa.Field:
			out[fieldName(x.X.Type(), x.Field)] = true
		case *ssa.Convert:
			walk(x.X, d+1)
		}
	}
	walk(v, 0)
	return out
}

// c01xFrontierClasses: in recoverQuorumPrefix, for each of the classes Committed and LEO there is a
// comparison between two distinct quorumFrontier(...) results of that class (page round vs frontier round).
func c01xFrontierClasses(c *Ctx, fn *ssa.Function) {
	if fn == nil {
		return
	}
	classOf := map[*ssa.Call]string{}
	for _, b := range fn.Blocks {
		for _, in := range b.Instrs {
			call, ok := in.(*ssa.Call)
			if !ok || !strings.HasSuffix(calleeName(&call.Call), ".quorumFrontier") || len(call.Call.Args) < 1 {
				continue
			}
			fs := sliceElemFields(call.Call.Args[0])
			var names []string
			for f := range fs {
				names = append(names, f)
			}
			sort.Strings(names)
			classOf[call] = strings.Join(names, "+")
		}
	}
	compared := map[string]bool{}
	for _, b := range fn.Blocks {
		for _, in := range b.Instrs {
			bin, ok := in.(*ssa.BinOp)
			if !ok || (bin.Op != token.NEQ && bin.Op != token.EQL) {
				continue
			}
			x, okx := stripConv(bin.X).(*ssa.Call)
			y, oky := stripConv(bin.Y).(*ssa.Call)
			if okx && oky && x != y && classOf[x] != "" && classOf[x] == classOf[y] {
				compared[classOf[x]] = true
			}
		}
	}
	for _, class := range []string{"Committed", "LEO"} {
		construct := c.P.Name(fn) + "#page-round-rechecks-quorum-" + class
		n := 0
		for _, k := range classOf {
			if k == class {
				n++
			}
		}
		if compared[class] {
			c.add("guard", "X2-recovery-recheck", construct, Held, c.P.Pos(fn.Pos()), fmt.Sprintf("%d quorumFrontier computations over %s; the page-round value is compared with the frontier-round value", n, class))
		} else {
			c.add("guard", "X2-recovery-recheck", construct, Violated, c.P.Pos(fn.Pos()), fmt.Sprintf("recoverQuorumPrefix no longer compares the stable page round's quorum %s with the frontier round's (found %d quorumFrontier computations over %s): a voter lost between the two rounds silently shrinks the selected prefix", class, n, class))
		}
	}
}
