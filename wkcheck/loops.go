package main

// loops.go — "for all" over a collection: every iteration of the loop over a collection performs the effect, and
// the loop is left only by exhausting the collection. A filter (`if x.Done { continue }`), a `break` or a `return`
// in the body makes the rule fire unless the skipping edge is one of the stated skip guards.

import (
	"fmt"
	"go/token"
	"strings"

	"golang.org/x/tools/go/ssa"
)

// loopHeaders: header blocks of loops in fn that iterate over a collection whose rendering matches overGlob —
// `for … range m` (map: the block that advances the iterator) and `for i … range s` / `for i := 0; i < len(s); i++`.
func loopHeaders(fn *ssa.Function, overGlob string) []*ssa.BasicBlock {
	var out []*ssa.BasicBlock
	for _, b := range fn.Blocks {
		if len(b.Instrs) == 0 {
			continue
		}
		iff, ok := b.Instrs[len(b.Instrs)-1].(*ssa.If)
		if !ok {
			continue
		}
		switch c := iff.Cond.(type) {
		case *ssa.Extract: // ok of next(range(m))
			if nx, ok := c.Tuple.(*ssa.Next); ok && c.Index == 0 {
				if rg, ok := nx.Iter.(*ssa.Range); ok && glob(overGlob, Path(rg.X)) {
					out = append(out, b)
				}
			}
		case *ssa.BinOp: // i < len(s)
			if c.Op != token.LSS {
				continue
			}
			if call, ok := c.Y.(*ssa.Call); ok {
				if bi, ok := call.Call.Value.(*ssa.Builtin); ok && bi.Name() == "len" && len(call.Call.Args) == 1 && glob(overGlob, Path(call.Call.Args[0])) {
					out = append(out, b)
				}
			}
		}
	}
	return out
}

// EveryIteration decides: in fn, the loop over the collection matching overGlob performs `eff` in every iteration
// (no path from the start of the body back to the header avoids it, other than across an edge establishing one of
// `skips`), and nothing leaves the loop from inside the body.
func (c *Ctx) EveryIteration(rule string, fn *ssa.Function, overGlob string, eff Effect, skips ...string) {
	if fn == nil {
		return
	}
	fname := c.P.Name(fn)
	c.FuncsAnalysed[fname] = true
	construct := fmt.Sprintf("%s#every-iteration-over:%s→%s", fname, overGlob, eff.String())
	hs := loopHeaders(fn, overGlob)
	if len(hs) != 1 {
		c.add("loop", rule, construct, Undecided, c.P.Pos(fn.Pos()), fmt.Sprintf("expected exactly one loop over %s, found %d", overGlob, len(hs)))
		return
	}
	H := hs[0]
	body := H.Succs[0]
	// the natural loop: blocks reachable from the body that can come back to H
	fwd := map[*ssa.BasicBlock]bool{}
	var walk func(b *ssa.BasicBlock)
	walk = func(b *ssa.BasicBlock) {
		if fwd[b] || b == H {
			return
		}
		fwd[b] = true
		for _, s := range b.Succs {
			walk(s)
		}
	}
	walk(body)
	back := map[*ssa.BasicBlock]bool{H: true}
	for changed := true; changed; {
		changed = false
		for b := range fwd {
			if back[b] {
				continue
			}
			for _, s := range b.Succs {
				if back[s] {
					back[b] = true
					changed = true
					break
				}
			}
		}
	}
	inLoop := func(b *ssa.BasicBlock) bool { return b == H || (fwd[b] && back[b]) }
	removed := map[edge]bool{}
	var skipDescr []string
	for _, s := range skips {
		e, d := guardEdges(fn, parseGuard(s))
		for k := range e {
			removed[k] = true
		}
		skipDescr = append(skipDescr, d...)
	}
	var bad []string
	// (1) early exits
	for b := range fwd {
		if !inLoop(b) {
			continue
		}
		for si, s := range b.Succs {
			if !inLoop(s) && !removed[edge{b, si}] {
				bad = append(bad, "the loop is left from inside its body at "+c.P.InstrPos(b.Instrs[len(b.Instrs)-1])+" (later elements are not visited)")
			}
		}
	}
	// (2) an iteration that avoids the effect
	hasEff := func(b *ssa.BasicBlock) bool {
		for _, in := range b.Instrs {
			if eff.Match(in) {
				return true
			}
		}
		return false
	}
	n := 0
	for b := range fwd {
		if inLoop(b) && hasEff(b) {
			n++
		}
	}
	if n == 0 {
		c.add("loop", rule, construct, Undecided, c.P.Pos(fn.Pos()), "the effect does not occur inside the loop (vacuous; effect or loop moved)")
		return
	}
	seen := map[*ssa.BasicBlock]bool{}
	var reach func(b *ssa.BasicBlock) bool // can the header be reached from b without executing the effect?
	reach = func(b *ssa.BasicBlock) bool {
		if b == H {
			return true
		}
		if seen[b] || !inLoop(b) || hasEff(b) {
			return false
		}
		seen[b] = true
		for si, s := range b.Succs {
			if removed[edge{b, si}] {
				continue
			}
			if reach(s) {
				return true
			}
		}
		return false
	}
	if reach(body) {
		bad = append(bad, "an iteration can complete without "+eff.String()+" (an element is skipped)")
	}
	if len(bad) > 0 {
		c.add("loop", rule, construct, Violated, c.P.InstrPos(H.Instrs[len(H.Instrs)-1]), strings.Join(dedup(bad), "; "))
		return
	}
	c.add("loop", rule, construct, Held, c.P.InstrPos(H.Instrs[len(H.Instrs)-1]), fmt.Sprintf("every iteration reaches the effect (%d site block(s)); the loop ends only by exhaustion; skip edges allowed: %v", n, dedup(skipDescr)))
}

// SuccessOnlyAfterLoop decides: a success return (`return …, nil`) of fn is reachable only by running the loop over
// the collection matching overGlob to exhaustion, or across an edge / after a call named by one of `unless`
// (a disjunction in guard syntax). A fast path that returns before the sweep, or a `return nil` out of the body,
// makes it fire.
func (c *Ctx) SuccessOnlyAfterLoop(rule string, fn *ssa.Function, overGlob string, unless string) {
	if fn == nil {
		return
	}
	fname := c.P.Name(fn)
	c.FuncsAnalysed[fname] = true
	construct := fmt.Sprintf("%s#success-only-after-sweep-of:%s", fname, overGlob)
	hs := loopHeaders(fn, overGlob)
	if len(hs) != 1 {
		c.add("loop", rule, construct, Undecided, c.P.Pos(fn.Pos()), fmt.Sprintf("expected exactly one loop over %s, found %d", overGlob, len(hs)))
		return
	}
	H := hs[0]
	g := parseGuard(unless)
	removed, descr := guardEdges(fn, g)
	removed[edge{H, 1}] = true // the exhaustion edge
	limit := reachUnguarded(fn, removed, g.afters)
	var bad []string
	n := 0
	for _, in := range instrsMatching(fn, RetNil{}) {
		n++
		if lim, ok := limit[in.Block()]; ok && indexIn(in.Block(), in) < lim {
			bad = append(bad, c.P.InstrPos(in))
		}
	}
	pos := c.P.InstrPos(H.Instrs[len(H.Instrs)-1])
	switch {
	case n == 0:
		c.add("loop", rule, construct, Undecided, pos, "no success return found (vacuous)")
	case len(bad) > 0:
		c.add("loop", rule, construct, Violated, bad[0], fmt.Sprintf("a success return is reachable without sweeping %s to its end and without %q (at %s): elements are left unprocessed", overGlob, unless, strings.Join(bad, ", ")))
	default:
		c.add("loop", rule, construct, Held, pos, fmt.Sprintf("%d success return(s), each behind the exhaustion of the loop or [%s]", n, strings.Join(dedup(descr), "; ")))
	}
}

// NextIterationGuarded decides: the loop with header H goes on to its next iteration (a path from the start of the
// body back to H) only across an edge establishing `guard` — "the scan continues only past elements that passed
// the test", whatever the loop form (index loop, range loop over a sub-slice).
func (c *Ctx) NextIterationGuarded(rule string, fn *ssa.Function, H *ssa.BasicBlock, label, guard string) {
	fname := c.P.Name(fn)
	construct := fmt.Sprintf("%s#%s:next-iteration⇐%s", fname, label, guard)
	removed, descr := guardEdges(fn, parseGuard(guard))
	body := H.Succs[0]
	seen := map[*ssa.BasicBlock]bool{}
	var reach func(b *ssa.BasicBlock) bool
	reach = func(b *ssa.BasicBlock) bool {
		if b == H {
			return true
		}
		if seen[b] {
			return false
		}
		seen[b] = true
		for si, s := range b.Succs {
			if removed[edge{b, si}] {
				continue
			}
			if reach(s) {
				return true
			}
		}
		return false
	}
	pos := c.P.InstrPos(H.Instrs[len(H.Instrs)-1])
	if reach(body) {
		c.add("loop", rule, construct, Violated, pos, "the loop can continue with the next element without "+guard)
		return
	}
	c.add("loop", rule, construct, Held, pos, fmt.Sprintf("%d guard edge(s) [%s]; no path from the body back to the loop header avoids them", len(removed), strings.Join(dedup(descr), "; ")))
}
