package main

import (
	"fmt"
	"go/token"
	"go/types"
	"sort"
	"strings"

	"golang.org/x/tools/go/ssa"
)

// Extension rules for C13 found by trying independently seeded changes against the rule table.
//
//	X1-overlay-authoritative (seed C13-a): batch transparency of one WriteBatch rests on the commit-time
//	    overlay (batchCommitState.*): an operation must see the effect of every earlier operation of the
//	    SAME batch, also a negative one (row removed / channel deleted). Structurally: wherever a function
//	    consults an overlay map with the comma-ok form and also reads committed storage through the
//	    overlay's db handle, the committed read is reachable only on the "no overlay entry" edge.
//	X2-legacy-default (seed C13-c): "commands for hash slots the slot does not own are refused" rests on
//	    the hash slot that is checked against ownedHashSlots being the envelope's own hash slot. The one
//	    substitution (envelope hash slot 0 → legacyHashSlot) is legal only for legacy 1:1 machines.
func init() {
	extend("C13", nil, func(c *Ctx) {
		xc13OverlayAuthoritative(c, "X1-overlay-authoritative")
		xc13LegacyDefault(c, "X2-legacy-default")
	},
		// ---- X1
		Mutant{Name: "x-subscriber-negative-overlay-ignored", File: "pkg/db/meta/batch.go",
			Old:    "\tif exists, ok := state.subscriberRows[string(key)]; ok {\n\t\treturn exists, nil\n\t}",
			New:    "\tif exists, ok := state.subscriberRows[string(key)]; ok && exists {\n\t\treturn true, nil\n\t}",
			Expect: "C13/X1-overlay-authoritative/*loadSubscriberExists*"},
		Mutant{Name: "x-table-row-negative-overlay-ignored", File: "pkg/db/meta/table_runtime.go",
			Old:    "\tif overlay, ok := state.tableRows[string(primaryKey)]; ok {\n\t\tif !overlay.exists {\n\t\t\treturn nil, false, nil\n\t\t}\n\t\treturn overlay.value, true, nil\n\t}\n\treturn state.db.get(primaryKey)",
			New:    "\tif overlay, ok := state.tableRows[string(primaryKey)]; ok && overlay.exists {\n\t\treturn overlay.value, true, nil\n\t}\n\treturn state.db.get(primaryKey)",
			Expect: "C13/X1-overlay-authoritative/*loadBatchValue*"},
		Mutant{Name: "x-channel-delete-overlay-dropped", File: "pkg/db/meta/batch.go",
			Old:    "\tif _, deleted := state.channelDeletes[string(key)]; deleted {\n\t\treturn Channel{}, false, nil\n\t}\n",
			New:    "",
			Expect: "C13/X1-overlay-authoritative/*loadChannel*channelDeletes*"},
		Mutant{Name: "x-runtime-meta-overlay-only-when-present", File: "pkg/db/meta/batch.go",
			Old:    "\tif entry, ok := state.runtimeMeta[string(key)]; ok {\n\t\treturn entry.meta, entry.exists, nil\n\t}",
			New:    "\tif entry, ok := state.runtimeMeta[string(key)]; ok && entry.exists {\n\t\treturn entry.meta, true, nil\n\t}",
			Expect: "C13/X1-overlay-authoritative/*loadRuntimeMeta*"},
		// ---- X2
		Mutant{Name: "x-legacy-default-in-hash-slot-mode", File: "pkg/slot/fsm/statemachine.go",
			Old:    "\tif hashSlot == 0 && m.allowLegacyDefault {",
			New:    "\tif hashSlot == 0 {",
			Expect: "C13/X2-legacy-default/*resolveHashSlot*allowLegacyDefault*"},
		Mutant{Name: "x-legacy-default-for-any-envelope-slot", File: "pkg/slot/fsm/statemachine.go",
			Old:    "\tif hashSlot == 0 && m.allowLegacyDefault {",
			New:    "\tif m.allowLegacyDefault {",
			Expect: "C13/X2-legacy-default/*resolveHashSlot*cmd.HashSlot == 0*"},
		Mutant{Name: "x-hash-slot-constructor-enables-legacy-default", File: "pkg/slot/fsm/statemachine.go",
			Old:    "\treturn newStateMachine(db, slot, hashSlots, false)",
			New:    "\treturn newStateMachine(db, slot, hashSlots, true)",
			Expect: "C13/X2-legacy-default/*NewStateMachineWithHashSlots*"},
		Mutant{Name: "x-unowned-slot-remapped-to-first-owned", File: "pkg/slot/fsm/statemachine.go",
			Old:    "\tif _, ok := m.ownedHashSlots[hashSlot]; ok {\n\t\treturn hashSlot, nil\n\t}\n\tif isSourceMigrationMaintenanceCommandData(cmd.Data) {",
			New:    "\tif _, ok := m.ownedHashSlots[hashSlot]; !ok && len(m.ownedHashSlotList) > 0 && !isSourceMigrationMaintenanceCommandData(cmd.Data) {\n\t\thashSlot = m.ownedHashSlotList[0]\n\t}\n\tif _, ok := m.ownedHashSlots[hashSlot]; ok {\n\t\treturn hashSlot, nil\n\t}\n\tif isSourceMigrationMaintenanceCommandData(cmd.Data) {",
			Expect: "C13/X2-legacy-default/*resolveHashSlot*provenance*"},
	)
}

// ---------------------------------------------------------------------------
// X1

const xc13meta = "pkg/db/meta."

// xc13OverlayLoaders: the funnels every commit-time read of a row goes through, with the overlay
// maps each must consult before committed storage (confirmed by reading pkg/db/meta at the pinned
// commit). A listed pair that is no longer found is undecided (the overlay check was removed or moved).
var xc13OverlayLoaders = map[string][]string{
	xc13meta + "batchCommitState.loadRuntimeMeta":          {"runtimeMeta"},
	xc13meta + "batchCommitState.loadChannel":              {"channelDeletes", "channelPublishes"},
	xc13meta + "batchCommitState.loadSubscriberExists":     {"subscriberRows"},
	xc13meta + "batchCommitState.loadChannelMigrationTask": {"migrationTasks"},
	xc13meta + "Table.loadBatchValue":                      {"tableRows"},
	xc13meta + "Table.loadBatchRow":                        {"tableRows"},
}

// xc13OverlayExceptions: function|map pairs where a present overlay entry legitimately falls through to
// committed storage. Each has a structural precondition that is re-checked on every run.
var xc13OverlayExceptions = map[string]struct {
	reason string
	check  func(c *Ctx) (bool, string)
}{
	xc13meta + "WriteBatch.CreateUser$1|tableRows": {
		reason: "create-if-absent of a user row treats a negative tableRows entry like no entry; harmless only because no batch operation stages the removal of a user row (DeleteUser is a non-batched Shard operation)",
		check: func(c *Ctx) (bool, string) {
			// no Table.StageDelete on the user table anywhere in the loaded packages
			var sites []string
			for _, fn := range c.P.AllFuncs {
				for _, b := range fn.Blocks {
					for _, in := range b.Instrs {
						ci, ok := in.(ssa.CallInstruction)
						if !ok {
							continue
						}
						if !glob(xc13meta+"Table.*Delete*", calleeName(ci.Common())) {
							continue
						}
						args := callArgs(ci.Common())
						if len(args) > 0 && strings.HasSuffix(Path(args[0]), ".userTable") && xc13HasBatchArg(ci.Common()) {
							sites = append(sites, c.P.InstrPos(in))
						}
					}
				}
			}
			if len(sites) > 0 {
				return false, "a batch-staged delete of the user table exists at " + strings.Join(sites, ", ")
			}
			return true, "no batch-staged delete of userTable in the loaded packages"
		},
	},
}

func xc13HasBatchArg(cc *ssa.CallCommon) bool {
	for _, a := range callArgs(cc) {
		if typeBaseName(a.Type()) == "Batch" {
			return true
		}
	}
	return false
}

// xc13StateField: v is (a load of) field F of a *batchCommitState; returns the state value and F.
func xc13StateField(v ssa.Value) (ssa.Value, string, bool) {
	v = stripConv(v)
	if u, ok := v.(*ssa.UnOp); ok && u.Op == token.MUL {
		v = u.X
	}
	fa, ok := v.(*ssa.FieldAddr)
	if !ok {
		return nil, "", false
	}
	if typeBaseName(fa.X.Type()) != "batchCommitState" {
		return nil, "", false
	}
	return fa.X, fieldName(fa.X.Type(), fa.Field), true
}

// xc13CarriesDB: value v hands the committed-storage handle of a batchCommitState to a callee: it is
// state.db itself, or a fresh Shard whose db field was initialised from state.db.
func xc13CarriesDB(v ssa.Value) bool {
	if _, f, ok := xc13StateField(v); ok && f == "db" {
		return true
	}
	a := baseAlloc(v)
	if a == nil || a.Referrers() == nil || typeBaseName(a.Type()) != "Shard" {
		return false
	}
	for _, r := range *a.Referrers() {
		fa, ok := r.(*ssa.FieldAddr)
		if !ok || fa.Referrers() == nil || fieldName(fa.X.Type(), fa.Field) != "db" {
			continue
		}
		for _, rr := range *fa.Referrers() {
			if st, ok := rr.(*ssa.Store); ok && st.Addr == ssa.Value(fa) {
				if _, f, ok := xc13StateField(st.Val); ok && f == "db" {
					return true
				}
			}
		}
	}
	return false
}

// xc13CommittedReads: calls in fn that read committed storage behind the overlay's back: they receive
// the state's db handle and do not receive the engine batch being built (those are stagers) nor the
// overlay state itself (those are overlay-aware helpers, analysed on their own).
func xc13CommittedReads(fn *ssa.Function) []ssa.Instruction {
	var out []ssa.Instruction
	for _, b := range fn.Blocks {
		if b == fn.Recover {
			continue
		}
		for _, in := range b.Instrs {
			ci, ok := in.(ssa.CallInstruction)
			if !ok {
				continue
			}
			carries, stager := false, false
			for _, a := range callArgs(ci.Common()) {
				if xc13CarriesDB(a) {
					carries = true
				}
				switch typeBaseName(a.Type()) {
				case "Batch", "batchCommitState":
					stager = true
				}
			}
			if carries && !stager {
				out = append(out, in)
			}
		}
	}
	return out
}

func xc13OverlayAuthoritative(c *Ctx, rule string) {
	found := map[string]bool{}
	for _, fn := range c.P.AllFuncs {
		fname := c.P.Name(fn)
		if !strings.HasPrefix(fname, xc13meta) {
			continue
		}
		// comma-ok lookups on overlay maps, grouped by map field
		lookups := map[string][]*ssa.Lookup{}
		for _, b := range fn.Blocks {
			for _, in := range b.Instrs {
				lk, ok := in.(*ssa.Lookup)
				if !ok || !lk.CommaOk {
					continue
				}
				if _, f, ok := xc13StateField(lk.X); ok {
					lookups[f] = append(lookups[f], lk)
				}
			}
		}
		if len(lookups) == 0 {
			continue
		}
		reads := xc13CommittedReads(fn)
		if len(reads) == 0 {
			continue
		}
		c.FuncsAnalysed[fname] = true
		var fields []string
		for f := range lookups {
			fields = append(fields, f)
		}
		sort.Strings(fields)
		for _, f := range fields {
			found[fname+"|"+f] = true
			// edges on which "no overlay entry" is established for any lookup of this map
			removed := map[edge]bool{}
			for _, lk := range lookups[f] {
				for e := range xc13AbsentEdges(fn, lk) {
					removed[e] = true
				}
			}
			c.EdgesRemoved += len(removed)
			limit := reachUnguarded(fn, removed, nil)
			var bad []string
			for _, r := range reads {
				if lim, ok := limit[r.Block()]; ok && indexIn(r.Block(), r) < lim {
					bad = append(bad, c.P.InstrPos(r))
				}
			}
			construct := fmt.Sprintf("%s#committed-read⇐no state.%s entry", fname, f)
			switch {
			case len(bad) == 0:
				c.add("guard", rule, construct, Held, c.P.InstrPos(reads[0]), fmt.Sprintf("%d committed-storage read(s) via state.db, each reachable only on an edge where the state.%s lookup found no entry (%d edge(s))", len(reads), f, len(removed)))
			default:
				detail := fmt.Sprintf("%s reads committed storage at %s although state.%s may hold an entry for the key: an earlier operation of the same batch (e.g. a staged removal) is not seen, so the result depends on how the log was grouped into batches", fname, strings.Join(bad, ", "), f)
				if ex, ok := xc13OverlayExceptions[fname+"|"+f]; ok {
					if okNow, why := ex.check(c); okNow {
						c.add("guard", rule, construct, Exception, bad[0], ex.reason+" ["+why+"]")
						continue
					} else {
						detail += "; the enumerated exception no longer applies: " + why
					}
				}
				c.add("guard", rule, construct, Violated, bad[0], detail)
			}
		}
	}
	var want []string
	for fname, fs := range xc13OverlayLoaders {
		for _, f := range fs {
			want = append(want, fname+"|"+f)
		}
	}
	sort.Strings(want)
	for _, k := range want {
		if !found[k] {
			parts := strings.SplitN(k, "|", 2)
			c.add("guard", rule, parts[0]+"#consults state."+parts[1], Undecided, "", "the loader no longer consults this overlay map before committed storage with a comma-ok lookup (check removed, or loader renamed: update xc13OverlayLoaders)")
		}
	}
}

// xc13AbsentEdges: CFG edges of fn on which the comma-ok result of lk is known to be false.
func xc13AbsentEdges(fn *ssa.Function, lk *ssa.Lookup) map[edge]bool {
	out := map[edge]bool{}
	isOK := func(v ssa.Value) bool {
		ex, ok := v.(*ssa.Extract)
		return ok && ex.Index == 1 && ex.Tuple == ssa.Value(lk)
	}
	for _, b := range fn.Blocks {
		if len(b.Instrs) == 0 {
			continue
		}
		iff, ok := b.Instrs[len(b.Instrs)-1].(*ssa.If)
		if !ok {
			continue
		}
		// polarity: cond true ⇔ ok is `pos`
		cond, pos := iff.Cond, true
		for progress := true; progress; {
			progress = false
			switch x := cond.(type) {
			case *ssa.UnOp:
				if x.Op == token.NOT {
					cond, pos, progress = x.X, !pos, true
				}
			case *ssa.BinOp:
				if x.Op != token.EQL && x.Op != token.NEQ {
					break
				}
				other, k := x.X, (*ssa.Const)(nil)
				if kc, ok := x.Y.(*ssa.Const); ok {
					k = kc
				} else if kc, ok := x.X.(*ssa.Const); ok {
					other, k = x.Y, kc
				}
				if k == nil || !types.Identical(k.Type().Underlying(), types.Typ[types.Bool]) {
					break
				}
				if (x.Op == token.EQL) != (constString(k) == "true") {
					pos = !pos
				}
				cond, progress = other, true
			}
		}
		if !isOK(cond) {
			continue
		}
		if pos {
			out[edge{b, 1}] = true // else-edge: ok == false
		} else {
			out[edge{b, 0}] = true
		}
	}
	return out
}

// ---------------------------------------------------------------------------
// X2

func xc13LegacyDefault(c *Ctx, rule string) {
	const sm = c13fsm + "stateMachine"
	isLegacyLoad := func(in ssa.Instruction) bool {
		u, ok := in.(*ssa.UnOp)
		if !ok || u.Op != token.MUL {
			return false
		}
		fa, ok := u.X.(*ssa.FieldAddr)
		return ok && typeBaseName(fa.X.Type()) == "stateMachine" && fieldName(fa.X.Type(), fa.Field) == "legacyHashSlot"
	}
	load := InstrFn{"load stateMachine.legacyHashSlot", isLegacyLoad}

	// (a) every use of the legacy default, anywhere in the package, is behind the legacy-mode flag
	rh := c.Fn(sm + ".resolveHashSlot")
	n := 0
	for _, fn := range c.P.AllFuncs {
		if !strings.HasPrefix(c.P.Name(fn), c13fsm) || len(instrsMatching(fn, load)) == 0 {
			continue
		}
		n++
		c.Guard(rule, fn, load, "*.allowLegacyDefault == true")
	}
	if rh != nil && len(instrsMatching(rh, load)) == 0 {
		c.add("guard", rule, c.P.Name(rh)+"#"+load.String(), Undecided, c.P.Pos(rh.Pos()), "resolveHashSlot no longer reads legacyHashSlot (the legacy default moved: update the rule)")
	}
	// (b) ... and only replaces the envelope's hash slot 0
	c.Guard(rule, rh, load, "cmd.HashSlot == 0")

	// (c) the flag is set once, from the constructor argument; the hash-slot-mode constructor passes false
	c.ConfineStores(rule, "pkg/slot/fsm.stateMachine.allowLegacyDefault", true, c13fsm+"newStateMachine")
	nsm := c.Fn(c13fsm + "newStateMachine")
	c.StoreShape(rule, nsm, "*stateMachine.allowLegacyDefault", "allowLegacyDefault")
	c.CallShape(rule, c.Fn(c13fsm+"NewStateMachineWithHashSlots"), c13fsm+"newStateMachine", "*(db, slot, hashSlots, false)")
	c.ConfineCalls(rule, c13fsm+"newStateMachine", 2, c13fsm+"NewStateMachine", c13fsm+"NewStateMachineWithHashSlots")

	// (d) provenance of the resolved hash slot: a success return yields the envelope's hash slot, the
	// (equality-checked, R4) hash slot of a decoded apply-delta, or the legacy default: nothing else
	// (e.g. "the first owned hash slot") may be substituted for what the proposer addressed.
	if rh != nil {
		construct := c.P.Name(rh) + "#provenance of the resolved hash slot"
		var bad []string
		var badPos string
		nret := 0
		for _, in := range instrsMatching(rh, RetNil{}) {
			ret := in.(*ssa.Return)
			nret++
			for _, leaf := range xc13Leaves(retOperand(ret, 0)) {
				p := Path(leaf)
				ok := false
				if u, isLoad := stripConv(leaf).(*ssa.UnOp); isLoad && isLegacyLoad(u) {
					ok = true
				}
				if glob("cmd.HashSlot", p) || glob("*.decodeCommand(cmd.Data)#0.(applyDeltaCmd)#0.HashSlot", p) {
					ok = true
				}
				if !ok {
					bad = append(bad, p)
					if badPos == "" {
						badPos = c.P.InstrPos(in)
					}
				}
			}
		}
		switch {
		case nret == 0:
			c.add("shape", rule, construct, Undecided, c.P.Pos(rh.Pos()), "no success return found")
		case len(bad) > 0:
			c.add("shape", rule, construct, Violated, badPos, fmt.Sprintf("resolveHashSlot can succeed with a hash slot that is neither the envelope's nor the guarded legacy default: %s; a command addressed to a hash slot this slot does not own would be applied under another hash slot", strings.Join(dedup(bad), ", ")))
		default:
			c.add("shape", rule, construct, Held, c.P.Pos(rh.Pos()), fmt.Sprintf("%d success return(s); every possible value is cmd.HashSlot, the decoded apply-delta hash slot, or stateMachine.legacyHashSlot", nret))
		}
	}
	_ = n
}

// xc13Leaves expands phis (and conversions) to the set of values v can be.
func xc13Leaves(v ssa.Value) []ssa.Value {
	var out []ssa.Value
	seen := map[ssa.Value]bool{}
	var walk func(v ssa.Value)
	walk = func(v ssa.Value) {
		v = stripConv(v)
		if seen[v] {
			return
		}
		seen[v] = true
		if phi, ok := v.(*ssa.Phi); ok {
			for _, e := range phi.Edges {
				walk(e)
			}
			return
		}
		out = append(out, v)
	}
	walk(v)
	return out
}
