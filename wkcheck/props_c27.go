package main

import (
	"fmt"
	"regexp"
	"sort"
	"strings"

	"golang.org/x/tools/go/ssa"
)

func init() {
	register(&PropSpec{
		ID:        "C27",
		Pkgs:      []string{"./pkg/channel/replication", "./pkg/cluster/propose", "./pkg/cluster/net", "./pkg/controller/command", "./pkg/cluster/channels"},
		Technique: "static analysis: sibling agreement of encoder/decoder primitive sequences (typed-AST extraction through per-codec primitive tables), fixed-offset layout agreement on SSA, per-site bounds dominance and allocation bounds over every decoder, edge-dominance guards on exact consumption and strict JSON decoding",
		Explain: "Decides layout agreement and decode robustness of the internal cluster codecs, not values: (R1) replication exchange codec: each append*/cursor.* pair (requests, results, proofs, manifest, entry identity, replica state, records, channel identity) and the two batch envelopes yield the same ordered primitive sequence with the same loop nesting and, where resolvable, the same field per position; cluster/channels RPC codec: every append*/read* pair whose decoder is a single straight-line reader agrees the same way (versioned multi-remainder decoders are listed as uncovered in the evidence, not passed); propose forward codec: encoder and the current-version decoder arm agree on (offset, width, field) and on the payload-length slot; (R2) every decoder in the six codecs indexes/slices its input only behind a visible length fact, allocates only behind a count bound, and contains no panic or unchecked assertion; the exchange cursor only advances behind a bound check; top-level decoders succeed only behind exact consumption (offset == len(data)); (R3) the controller command codec decodes with DisallowUnknownFields, rejects trailing tokens and foreign envelope versions; the cluster-net header check precedes the payload slice. Slot metadata command decoding is decided under C13. NOT decided: value round-trip equality; legacy-version decode arms that have no encoder.",
		Run:       c27,
		Mutants: []Mutant{
			{Name: "exchange-fetch-swap", File: "pkg/channel/replication/codec.go", Old: "\tdst = appendCodecUvarint(dst, request.From)\n\tdst = appendCodecUvarint(dst, request.Through)", New: "\tdst = appendCodecUvarint(dst, request.Through)\n\tdst = appendCodecUvarint(dst, request.From)", Expect: "C27/R1*fetchRequest*"},
			{Name: "exchange-manifest-drop-term", File: "pkg/channel/replication/codec.go", Old: "\tdst = appendCodecUvarint(dst, manifest.PreviousTerm)\n", New: "", Expect: "C27/R1*proposalManifest*"},
			{Name: "exchange-record-bool-as-byte", File: "pkg/channel/replication/codec.go", Old: "\t\tsyncOnce, okSync := c.boolean()", New: "\t\tsyncOnceByte, okSync := c.byte()\n\t\tsyncOnce := syncOnceByte != 0", Expect: "C27/R1*records*"},
			{Name: "exchange-identity-digest-order", File: "pkg/channel/replication/codec.go", Old: "\tdst = append(dst, identity.CommandID[:]...)\n\tdst = append(dst, identity.PreviousDigest[:]...)", New: "\tdst = append(dst, identity.PreviousDigest[:]...)\n\tdst = append(dst, identity.CommandID[:]...)", Expect: "C27/R1*entryIdentity*"},
			{Name: "exchange-bytes-no-bound", File: "pkg/channel/replication/codec.go", Old: "\tif !ok || count > len(c.data)-c.offset {\n\t\treturn nil, false\n\t}", New: "\tif !ok {\n\t\treturn nil, false\n\t}", Expect: "C27/R2*bytes*"},
			{Name: "exchange-no-exact-consumption", File: "pkg/channel/replication/codec.go", Old: "\tif c.offset != len(data) {\n\t\treturn ExchangeBatch{}, errInvalidExchangeFrame\n\t}\n", New: "", Expect: "C27/R2*DecodeExchangeBatch*"},
			{Name: "exchange-count-unbounded", File: "pkg/channel/replication/codec.go", Old: "\tif !ok || value > uint64(maximum) || value > uint64(math.MaxInt) {", New: "\tif !ok || value > uint64(math.MaxInt) {", Expect: "C27/R2*count*"},
			{Name: "propose-decode-offset", File: "pkg/cluster/propose/codec.go", Old: "\t\t\tSlotID:     binary.BigEndian.Uint32(data[3:7]),", New: "\t\t\tSlotID:     binary.BigEndian.Uint32(data[2:6]),", Expect: "C27/R1*propose*"},
			{Name: "propose-short-check", File: "pkg/cluster/propose/codec.go", Old: "\t\tif len(data) < 13 {", New: "\t\tif len(data) < 12 {", Expect: "C27/R2*DecodeForwardRequest*"},
			{Name: "command-allows-unknown-fields", File: "pkg/controller/command/codec.go", Old: "\tdecoder.DisallowUnknownFields()\n", New: "", Expect: "C27/R3*"},
			{Name: "command-ignores-version", File: "pkg/controller/command/codec.go", Old: "\tif env.Version != commandEnvelopeVersion {\n\t\treturn Command{}, fmt.Errorf(\"%w: %d\", ErrUnsupportedVersion, env.Version)\n\t}\n", New: "", Expect: "C27/R3*"},
			{Name: "uvarint-accepts-overflow", File: "pkg/channel/replication/codec.go", Old: "value, size := binary.Uvarint(c.data[c.offset:])\n\tif size <= 0 {", New: "value, size := binary.Uvarint(c.data[c.offset:])\n\tif size == 0 {", Expect: "C27/R2-varint*"},
			{Name: "meta-v6-boundary", File: "pkg/cluster/channels/codec.go", Old: "\tif version < legacyCodecVersionV6 {\n\t\treturn meta, offset, nil", New: "\tif version <= legacyCodecVersionV6 {\n\t\treturn meta, offset, nil", Expect: "C27/R1-channels/channels.Meta*"},
			{Name: "channels-ack-swap", File: "pkg/cluster/channels/codec.go", Old: "\tdst = appendUvarint(dst, req.MatchOffset)\n\tdst = appendUvarint(dst, req.ActivityVersion)\n\tdst = appendBool(dst, req.Stopped)", New: "\tdst = appendUvarint(dst, req.ActivityVersion)\n\tdst = appendUvarint(dst, req.MatchOffset)\n\tdst = appendBool(dst, req.Stopped)", Expect: "C27/R1*AckRequest*"},
		},
	})
}

var exchangeCodec = &seqCodec{
	EncFuncs: map[string]string{
		"appendCodecUvarint": "uvarint", "appendCodecBool": "bool", "appendCodecString": "string", "appendCodecBytes": "bytes",
		"appendCodecSliceCount": "slicecount", "AppendVarint": "varint",
		"appendChannelIdentity": "channelIdentity", "appendProposalManifest": "proposalManifest", "appendEntryIdentity": "entryIdentity",
		"appendReplicaState": "replicaState", "appendRecords": "records",
		"appendReplicateRequest": "replicateRequest", "appendProbeRequest": "probeRequest", "appendFetchRequest": "fetchRequest",
		"appendReplicateResult": "replicateResult", "appendProbeResult": "probeResult", "appendFetchResult": "fetchResult",
		"appendReplicateProof": "replicateProof", "appendProbeProof": "probeProof", "appendFetchProof": "fetchProof",
	},
	DecFuncs: map[string]string{
		"uvarint": "uvarint", "varint": "varint", "boolean": "bool", "string": "string", "bytes": "bytes", "byte": "byte", "fixed32": "fixed32",
		"sliceCount": "slicecount", "count": "uvarint",
		"channelIdentity": "channelIdentity", "proposalManifest": "proposalManifest", "entryIdentity": "entryIdentity",
		"replicaState": "replicaState", "records": "records",
		"replicateRequest": "replicateRequest", "probeRequest": "probeRequest", "fetchRequest": "fetchRequest",
		"replicateResult": "replicateResult", "probeResult": "probeResult", "fetchResult": "fetchResult",
		"replicateProof": "replicateProof", "probeProof": "probeProof", "fetchProof": "fetchProof",
	},
	DecRecv:      "exchangeCursor",
	AppendTokens: true,
}

var channelsCodec = &seqCodec{
	EncFuncs: map[string]string{
		"appendUvarint": "uvarint", "appendVarint": "varint", "appendBool": "bool", "appendString": "string", "appendBytes": "bytes",
		"appendOptionalBytes": "optbytes", "appendTime": "time", "appendSliceHeader": "sliceheader",
		"appendChannelKey": "channelKey", "appendChannelID": "channelID", "appendMessage": "message", "appendMessages": "messages",
		"appendMetaPtr": "metaPtr", "appendMeta": "meta", "appendNodeIDs": "nodeIDs", "appendRecords": "records", "appendRecord": "record",
		"appendRPCApplicationError": "rpcAppError", "appendOptionalRPCApplicationError": "optRPCAppError",
		"appendPullRequest": "pullRequest", "appendPullResponse": "pullResponse", "appendAckRequest": "ackRequest",
		"appendPullHintRequest": "pullHintRequest", "appendAppendRequest": "appendRequest", "appendAppendResult": "appendResult",
		"appendNotifyRequest": "notifyRequest",
	},
	DecFuncs: map[string]string{
		"readUvarint": "uvarint", "readVarint": "varint", "readBool": "bool", "readString": "string", "readBytes": "bytes", "readBytesCopy": "bytes",
		"readOptionalBytes": "optbytes", "readTime": "time", "readSliceHeader": "sliceheader", "readByte": "byte", "readInt": "varint", "readInt64": "varint",
		"readChannelKey": "channelKey", "readChannelID": "channelID", "readMessage": "message", "readMessages": "messages",
		"readMetaPtr": "metaPtr", "readMeta": "meta", "readNodeIDs": "nodeIDs", "readRecords": "records", "readRecord": "record",
		"readRPCApplicationError": "rpcAppError", "readOptionalRPCApplicationError": "optRPCAppError",
		"readPullRequest": "pullRequest", "readPullResponse": "pullResponse", "readAckRequest": "ackRequest",
		"readPullHintRequest": "pullHintRequest", "readAppendRequest": "appendRequest", "readAppendResult": "appendResult",
		"readNotifyRequest": "notifyRequest",
	},
	AppendTokens: true,
}

func c27(c *Ctx) {
	const rp = "pkg/channel/replication."
	for _, p := range [][3]string{
		{"replicateRequest", "appendReplicateRequest", "exchangeCursor.replicateRequest"},
		{"probeRequest", "appendProbeRequest", "exchangeCursor.probeRequest"},
		{"fetchRequest", "appendFetchRequest", "exchangeCursor.fetchRequest"},
		{"replicateResult", "appendReplicateResult", "exchangeCursor.replicateResult"},
		{"probeResult", "appendProbeResult", "exchangeCursor.probeResult"},
		{"fetchResult", "appendFetchResult", "exchangeCursor.fetchResult"},
		{"replicateProof", "appendReplicateProof", "exchangeCursor.replicateProof"},
		{"probeProof", "appendProbeProof", "exchangeCursor.probeProof"},
		{"fetchProof", "appendFetchProof", "exchangeCursor.fetchProof"},
		{"channelIdentity", "appendChannelIdentity", "exchangeCursor.channelIdentity"},
		{"proposalManifest", "appendProposalManifest", "exchangeCursor.proposalManifest"},
		{"entryIdentity", "appendEntryIdentity", "exchangeCursor.entryIdentity"},
		{"replicaState", "appendReplicaState", "exchangeCursor.replicaState"},
		{"records", "appendRecords", "exchangeCursor.records"},
		{"ExchangeBatch", "EncodeExchangeBatch", "DecodeExchangeBatch"},
		{"ExchangeBatchResult", "EncodeExchangeBatchResult", "DecodeExchangeBatchResult"},
	} {
		c.SeqPair("R1-exchange", exchangeCodec, "exchange."+p[0], rp+p[1], rp+p[2])
	}
	c.Min("R1-exchange", 16)

	const cp = "pkg/cluster/channels."
	var uncovered []string
	for _, p := range [][3]string{
		{"PullRequest", "appendPullRequest", "readPullRequest"},
		{"PullBatchRequest", "appendPullBatchRequest", "readPullBatchRequest"},
		{"AckRequest", "appendAckRequest", "readAckRequest"},
		{"PullHintRequest", "appendPullHintRequest", "readPullHintRequest"},
		{"PullHintBatchRequest", "appendPullHintBatchRequest", "readPullHintBatchRequest"},
		{"PullHintBatchResponse", "appendPullHintBatchResponse", "readPullHintBatchResponse"},
		{"NotifyRequest", "appendNotifyRequest", "readNotifyRequest"},
		{"ChannelKey", "appendChannelKey", "readChannelKey"},
		{"ChannelID", "appendChannelID", "readChannelID"},
		{"NodeIDs", "appendNodeIDs", "readNodeIDs"},
		{"RPCApplicationError", "appendRPCApplicationError", "readRPCApplicationError"},
		{"ConversationHeadsRequest", "appendConversationHeadsRequest", "readConversationHeadsRequest"},
		{"CommittedReadsRequest", "appendCommittedReadsRequest", "readCommittedReadsRequest"},
		{"Meta", "appendMeta", "readMeta"},
	} {
		c.SeqPair("R1-channels", channelsCodec, "channels."+p[0], cp+p[1], cp+p[2])
	}
	for _, n := range []string{"PullResponse", "PullBatchResponse", "AppendRequest", "AppendResult", "AppendBatchRequest", "AppendBatchResult", "LastVisibleRequest", "LastVisibleResponse", "ConversationHeadsResponse", "CommittedReadsResponse", "Message", "Record"} {
		uncovered = append(uncovered, n)
	}
	c.add("wire", "R1-channels", "channels#uncovered-kinds", Exception, "", fmt.Sprintf("NOT compared (version-dispatched decoders with per-version remainder readers; the sequence extractor cannot pair them soundly): %v — only R2 (decode safety) applies to them", uncovered))

	c27Propose(c)

	// R2: decode safety
	var scope []*ssa.Function
	add := func(pats ...string) {
		for _, p := range pats {
			scope = append(scope, c.Fns(p)...)
		}
	}
	add(rp+"exchangeCursor.*", rp+"DecodeExchangeBatch", rp+"DecodeExchangeBatchResult",
		"pkg/cluster/propose.DecodePayload", "pkg/cluster/propose.DecodeForwardRequest", "pkg/cluster/net.CheckHeader",
		cp+"read*", cp+"decode*")
	c.DecodeSafe("R2-decodesafe", scope, c27Triage)

	// the bounded-count helpers that DecodeSafe trusts for make() sizes really bound their result
	c.Guard("R2-countbound", c.Fn(rp+"exchangeCursor.count"), Ret{Idx: 1, Glob: "true"}, "* <= maximum", "*uvarint(*)#1 == true")
	// the cursor primitives report success only when binary.(U)varint consumed a positive number of bytes
	// (0 = truncated, <0 = overflow); DecodeSafe and the count rules trust their ok result
	c.Guard("R2-varint", c.Fn(rp+"exchangeCursor.uvarint"), Ret{Idx: 1, Glob: "true"}, "encoding/binary.Uvarint(*)#1 > 0")
	c.Guard("R2-varint", c.Fn(rp+"exchangeCursor.varint"), Ret{Idx: 1, Glob: "true"}, "encoding/binary.Varint(*)#1 > 0")
	c.Min("R2-varint", 2)
	c.Guard("R2-countbound", c.Fn(rp+"exchangeCursor.sliceCount"), RetNot{Idx: 0, Globs: []string{"0"}}, "* <= maximum")
	c.Guard("R2-countbound", c.Fn(cp+"readCollectionLen"), RetNil{}, "count <= remaining")
	c.Guard("R2-countbound", c.Fn(cp+"readSliceHeader"), RetNot{Idx: 1, Globs: []string{"0"}}, "*.readCollectionLen(*)#1 == nil")
	c.CallShape("R2-countbound", c.Fn(cp+"readSliceHeader"), cp+"readCollectionLen", cp+"readCollectionLen(*, (len(body) - *), *)")
	// exchange cursor: offset advances only behind a bound
	for _, fn := range []string{"DecodeExchangeBatch", "DecodeExchangeBatchResult"} {
		c.Guard("R2-exact", c.Fn(rp+fn), RetNil{}, "*.offset == len(data)", "len(data) <= 4194304", "len(data) != 0")
	}
	// channels: top-level decoders reject trailing bytes
	for _, fn := range c.Fns(cp + "decode*Request") {
		c.GuardOpt("R2-exact", fn, RetNil{}, GuardOpts{AllowZero: true}, "* == len(*) || *.decodeFrame*(*)#* != nil || after: *.decodeFrame*")
	}

	// R3: controller command codec is strict JSON
	dec := c.Fn("pkg/controller/command.Decode")
	c.Guard("R3-command", dec, RetNil{}, "after: encoding/json.Decoder.DisallowUnknownFields")
	// every Decode of the strict decoder (envelope and trailing-token probe) runs after DisallowUnknownFields
	c.Guard("R3-command", dec, CallTo{"encoding/json.Decoder.Decode"}, "after: encoding/json.Decoder.DisallowUnknownFields")
	// ‹envelope› = the value whose .Command is returned on success, ‹rest› = the target of the other Decode
	// call (the trailing-token probe). Both are resolved from the return operand / call arguments, not from
	// the names the locals happen to have.
	if dec != nil {
		envelope, rest, why := "", "", ""
		for _, in := range instrsMatching(dec, RetNil{}) {
			p := Path(retOperand(in.(*ssa.Return), 0))
			base := strings.TrimSuffix(p, ".Command")
			if base == p || (envelope != "" && envelope != base) {
				why = "a success return hands back " + p + ", not the Command field of the one decoded envelope"
			}
			envelope = base
		}
		if envelope != "" && why == "" {
			sawEnvelope := false
			for _, in := range instrsMatching(dec, CallTo{"encoding/json.Decoder.Decode"}) {
				args := callArgs(in.(ssa.CallInstruction).Common())
				if len(args) != 2 {
					why = "unexpected Decode call shape"
					break
				}
				switch t := Path(args[1]); {
				case t == envelope:
					sawEnvelope = true
				case rest == "" || rest == t:
					rest = t
				default:
					why = "more than two decode targets (" + rest + ", " + t + ")"
				}
			}
			if why == "" && (!sawEnvelope || rest == "") {
				why = "expected one Decode into the returned envelope and one trailing-token probe into another value"
			}
		}
		switch construct := c.P.Name(dec) + "#decode-targets"; {
		case envelope == "": // no success return: reported as vacuous by the Guard above
		case why != "":
			c.add("shape", "R3-command", construct, Violated, c.P.Pos(dec.Pos()), why)
		default:
			c.add("shape", "R3-command", construct, Held, c.P.Pos(dec.Pos()), "success returns "+envelope+".Command; Decode targets are "+envelope+" and the probe "+rest)
			c27GuardRef(c, "R3-command", dec, RetNil{}, map[string]string{"envelope": envelope, "rest": rest},
				"encoding/json.Decoder.Decode(*, ‹envelope›) == nil",
				"encoding/json.Decoder.Decode(*, ‹rest›) == io.EOF",
				"‹envelope›.Version == 1")
		}
	}
	// the command package decodes only through the strict decoder above (no lenient json.Unmarshal beside it)
	c.NoCalls("R3-command", "encoding/json.Unmarshal", "pkg/controller/command.*")
	hdr := c.Fn("pkg/cluster/net.CheckHeader")
	c.Guard("R3-header", hdr, RetNil{}, "len(data) >= 2", "data[0] == wantVersion", "data[1] == wantKind")
}

// c27GuardRef is c.Guard for guards that mention values the caller resolved structurally (return
// operands, call arguments: SSA identity). A guard names such a value ‹name›; for matching the placeholder
// is replaced by refs[name] (the value's rendering in fn) while the obligation key keeps the placeholder,
// so the rule does not depend on the identifier of a local variable.
func c27GuardRef(c *Ctx, rule string, fn *ssa.Function, eff Effect, refs map[string]string, guards ...string) {
	if fn == nil {
		return
	}
	name := c.P.Name(fn)
	c.FuncsAnalysed[name] = true
	effs := instrsMatching(fn, eff)
	if len(effs) == 0 {
		c.add("guard", rule, name+"#"+eff.String(), Undecided, c.P.Pos(fn.Pos()), "no instruction matches the effect (vacuous)")
		return
	}
	for _, gs := range guards {
		construct := name + "#" + eff.String() + "⇐" + gs
		real := gs
		for k, v := range refs {
			real = strings.ReplaceAll(real, "‹"+k+"›", v)
		}
		g := parseGuard(real)
		removed, descr := guardEdges(fn, g)
		c.EdgesRemoved += len(removed)
		limit := reachUnguarded(fn, removed, g.afters)
		var bad []string
		for _, e := range effs {
			if lim, ok := limit[e.Block()]; ok && indexIn(e.Block(), e) < lim {
				bad = append(bad, c.P.InstrPos(e))
			}
		}
		if len(bad) > 0 {
			c.add("guard", rule, construct, Violated, bad[0], fmt.Sprintf("effect %q in %s reachable without guard %q at %s", eff.String(), name, real, strings.Join(bad, ", ")))
			continue
		}
		c.add("guard", rule, construct, Held, c.P.InstrPos(effs[0]), fmt.Sprintf("%d effect site(s); %d guard edge(s) removed [%s]; no unguarded path from entry (back-references %v)", len(effs), len(removed), strings.Join(dedup(descr), "; "), refs))
	}
}

var c27Triage = map[string]string{}

var reSlice = regexp.MustCompile(`(data|out|\))\[(\d+):(\d*)\]`)
var reIndex = regexp.MustCompile(`(data|out|\))\[(\d+)\]`)

// c27Propose: EncodeForwardRequest and the current-version arm of DecodeForwardRequest agree on (offset,width,field).
func c27Propose(c *Ctx) {
	enc := c.Fn("pkg/cluster/propose.EncodeForwardRequest")
	dec := c.Fn("pkg/cluster/propose.DecodeForwardRequest")
	if enc == nil || dec == nil {
		return
	}
	encLayout := map[string]string{}
	for _, b := range enc.Blocks {
		for _, in := range b.Instrs {
			switch x := in.(type) {
			case *ssa.Call:
				name := calleeName(&x.Call)
				if strings.HasPrefix(name, "encoding/binary.bigEndian.PutUint") && len(x.Call.Args) == 3 {
					if m := reSlice.FindStringSubmatch(Path(x.Call.Args[1])); m != nil {
						encLayout[c27Field(Path(x.Call.Args[2]))] = m[2] + ":" + m[3]
					}
				}
				if name == "copy" && len(x.Call.Args) == 2 {
					if m := reSlice.FindStringSubmatch(Path(x.Call.Args[0])); m != nil {
						encLayout[c27Field(Path(x.Call.Args[1]))] = m[2] + ":" + m[3]
					}
				}
			case *ssa.Store:
				if m := reIndex.FindStringSubmatch(Path(x.Addr)); m != nil && strings.HasPrefix(Path(x.Addr), "make([]byte") {
					f := c27Field(Path(x.Val))
					if _, isConst := x.Val.(*ssa.Const); isConst {
						// constant stored under a flag test: the field is the tested one
						if len(b.Preds) == 1 {
							if iff, ok := b.Preds[0].Instrs[len(b.Preds[0].Instrs)-1].(*ssa.If); ok {
								if a, ok := condAtom(iff.Cond, true); ok {
									f = c27Field(a.L)
								}
							}
						}
						if b == enc.Blocks[0] || len(b.Preds) != 1 {
							f = "version"
						}
					}
					encLayout[f] = m[2]
				}
			}
		}
	}
	// decoder: the arm where data[0] == forwardVersion (the largest version constant)
	decLayout := map[string]string{}
	version := c.constsOfType("pkg/cluster/propose", "", "forwardVersion")
	cur := ""
	if v, ok := version["forwardVersion"]; ok {
		cur = v.ExactString()
	}
	removed, _ := guardEdges(dec, parseGuard("data[0] == "+cur))
	limit := reachUnguarded(dec, removed, nil)
	for _, b := range dec.Blocks {
		if _, reachableWithout := limit[b]; reachableWithout {
			continue // not exclusively inside the current-version arm
		}
		for _, in := range b.Instrs {
			st, ok := in.(*ssa.Store)
			if !ok {
				continue
			}
			fa, ok := st.Addr.(*ssa.FieldAddr)
			if !ok {
				continue
			}
			v := Path(st.Val)
			if m := reSlice.FindStringSubmatch(v); m != nil {
				decLayout[fieldName(fa.X.Type(), fa.Field)] = m[2] + ":" + m[3]
			} else if m := reIndex.FindStringSubmatch(v); m != nil {
				decLayout[fieldName(fa.X.Type(), fa.Field)] = m[2]
			}
		}
		// payload length slot: Uint32(data[a:b]) compared with len(data)-K
		for _, in := range b.Instrs {
			if iff, ok := in.(*ssa.If); ok {
				if a, ok := condAtom(iff.Cond, true); ok && strings.Contains(a.String(), "len(data)") {
					if m := reSlice.FindStringSubmatch(a.String()); m != nil {
						decLayout["len(Payload)"] = m[2] + ":" + m[3]
					}
				}
			}
		}
	}
	render := func(m map[string]string) string {
		var s []string
		for k, v := range m {
			s = append(s, k+"@"+v)
		}
		sort.Strings(s)
		return strings.Join(s, " ")
	}
	delete(encLayout, "version")
	construct := "propose.ForwardRequest#enc=dec(v" + cur + ")"
	pos := c.P.Pos(dec.Pos())
	if len(encLayout) < 5 || len(decLayout) < 5 {
		c.add("wire", "R1-propose", construct, Undecided, pos, fmt.Sprintf("cannot read the fixed-offset layout (enc: %s | dec: %s)", render(encLayout), render(decLayout)))
		return
	}
	if render(encLayout) != render(decLayout) {
		c.add("wire", "R1-propose", construct, Violated, pos, fmt.Sprintf("EncodeForwardRequest writes %s but the version-%s decoder arm reads %s", render(encLayout), cur, render(decLayout)))
		return
	}
	c.add("wire", "R1-propose", construct, Held, pos, "layout agrees: "+render(encLayout))
}

func c27Field(path string) string {
	if strings.HasPrefix(path, "len(") {
		inner := strings.TrimSuffix(strings.TrimPrefix(path, "len("), ")")
		if i := strings.LastIndex(inner, "."); i >= 0 {
			return "len(" + inner[i+1:] + ")"
		}
		return path
	}
	if i := strings.LastIndex(path, "."); i >= 0 {
		return strings.TrimRight(path[i+1:], ")")
	}
	return path
}
