package main

import (
	"fmt"
	"sort"
	"strings"

	"golang.org/x/tools/go/ssa"
)

// NOTE: uses the helpers c15ReceiverMethods, c15ConfineRender, c15FieldStores, c15RetShapes and
// c15FalseOnly defined in props_c15.go.

func init() {
	cm := "pkg/db/meta/compat.go"
	hp := "pkg/db/meta/compat_channel_migration_helpers.go"
	tb := "pkg/db/meta/table_channel_migration.go"
	register(&PropSpec{
		ID:        "C17",
		Pkgs:      []string{"./pkg/db/meta"},
		Technique: "static analysis: closure-addressed SSA edge-dominance guards (success return only behind fence/proof/transition checks), required-comparison tables for the proof and fence predicates, frozen abort-phase truth tables, store frame conditions per migration closure and who-may-stage confinement",
		Explain:   "Decides the structural clause of 'migration cutover is fenced and irreversible': (R1) the closures of WriteBatch.CommitChannelLeaderTransfer and PromoteLearnerAndRemoveReplica return success only behind requireMatchingFence(…, allowExpired=false)==nil, requireActiveChannelMigrationTaskFence==nil, requireChannelMigrationCutoverProof==nil, the phase-transition check, and (transfer) desired leader = task's, in ISR, NextLeaderEpoch > LeaderEpoch / (promote) the source/target membership tests, and they store only the route fields they own (never a fence field); (R2) the proof, matching-fence, active-fence and no-foreign-fence predicates return nil only behind each required equality (drain proof vs current fence version, channel epoch, leader epoch, leader; complete proof; token/version/deadline); (R3) set-fence only behind requireNoForeignChannelMigrationFence, reset/clear/abort clear the fence only behind active-task-fence + matching-fence, the fence fields are written nowhere else; (R4) the abort-phase predicates are true exactly for the frozen pre-commit phase sets (never VerifyNewLeader/VerifyMembership/ClearFence) and AbortChannelMigration succeeds only behind !IsTerminal and requireChannelMigrationAbortTransition==nil; (R5) an active task row and the active-index key are staged only behind ensureChannelMigrationActiveAvailable==nil, which returns nil only for the same task id or a non-active holder; task rows are encoded only in stageUpsertChannelMigrationTask; (R6) stageChannelMigrationTaskAndMeta stages only behind both guards matching, validateChannelMigrationTask==nil and validateChannelRuntimeMeta==nil on the bumped row, and validateChannelRuntimeMeta returns nil only behind leader∈replicas∩ISR, ISR⊆replicas, 0<MinISR<=len(replicas). NOT decided: arbitrary command orderings as behaviour; that AdvanceChannelMigrationTask (which may set any status/phase on a guard-matching task) is only sent with legal transitions by the executor; batch atomicity of Pebble.",
		Run:       c17,
		Mutants: []Mutant{
			{Name: "transfer-without-proof", File: cm, Old: "\t\tif err := requireChannelMigrationCutoverProof(task, meta, req.RuntimeGuard.ExpectedFenceVersion); err != nil {\n\t\t\treturn ChannelMigrationTask{}, ChannelRuntimeMeta{}, err\n\t\t}\n\t\tif req.DesiredLeader", New: "\t\tif req.DesiredLeader", Expect: "C17/R1-transfer*"},
			{Name: "transfer-accepts-expired-fence", File: cm, Old: "req.RuntimeGuard.ExpectedFenceVersion, req.NowMS, false); err != nil {\n\t\t\treturn ChannelMigrationTask{}, ChannelRuntimeMeta{}, err\n\t\t}\n\t\tif err := requireActiveChannelMigrationTaskFence(task, meta, req.RuntimeGuard.ExpectedFenceVersion); err != nil {\n\t\t\treturn ChannelMigrationTask{}, ChannelRuntimeMeta{}, err\n\t\t}\n\t\tif err := requireChannelMigrationCutoverProof(task, meta, req.RuntimeGuard.ExpectedFenceVersion); err != nil {\n\t\t\treturn ChannelMigrationTask{}, ChannelRuntimeMeta{}, err\n\t\t}\n\t\tif req.DesiredLeader", New: "req.RuntimeGuard.ExpectedFenceVersion, req.NowMS, true); err != nil {\n\t\t\treturn ChannelMigrationTask{}, ChannelRuntimeMeta{}, err\n\t\t}\n\t\tif err := requireActiveChannelMigrationTaskFence(task, meta, req.RuntimeGuard.ExpectedFenceVersion); err != nil {\n\t\t\treturn ChannelMigrationTask{}, ChannelRuntimeMeta{}, err\n\t\t}\n\t\tif err := requireChannelMigrationCutoverProof(task, meta, req.RuntimeGuard.ExpectedFenceVersion); err != nil {\n\t\t\treturn ChannelMigrationTask{}, ChannelRuntimeMeta{}, err\n\t\t}\n\t\tif req.DesiredLeader", Expect: "C17/R1-transfer*"},
			{Name: "transfer-leader-not-in-isr", File: cm, Old: " || !containsUint64(meta.ISR, req.DesiredLeader) || req.NextLeaderEpoch <= meta.LeaderEpoch {", New: " || req.NextLeaderEpoch <= meta.LeaderEpoch {", Expect: "C17/R1-transfer*"},
			{Name: "promote-without-active-fence", File: cm, Old: "\t\tif err := requireActiveChannelMigrationTaskFence(task, meta, req.RuntimeGuard.ExpectedFenceVersion); err != nil {\n\t\t\treturn ChannelMigrationTask{}, ChannelRuntimeMeta{}, err\n\t\t}\n\t\tif err := requireChannelMigrationCutoverProof(task, meta, req.RuntimeGuard.ExpectedFenceVersion); err != nil {\n\t\t\treturn ChannelMigrationTask{}, ChannelRuntimeMeta{}, err\n\t\t}\n\t\tsourceInISR", New: "\t\tif err := requireChannelMigrationCutoverProof(task, meta, req.RuntimeGuard.ExpectedFenceVersion); err != nil {\n\t\t\treturn ChannelMigrationTask{}, ChannelRuntimeMeta{}, err\n\t\t}\n\t\tsourceInISR", Expect: "C17/R1-promote*"},
			{Name: "promote-removes-leader", File: cm, Old: "\t\t\treq.TargetNode != task.TargetNode ||\n\t\t\tmeta.Leader == req.SourceNode ||\n", New: "\t\t\treq.TargetNode != task.TargetNode ||\n", Expect: "C17/R1-promote*"},
			{Name: "proof-ignores-leader-epoch", File: hp, Old: "\t\ttask.DrainedLeaderEpoch != meta.LeaderEpoch ||\n", New: "", Expect: "C17/R2-proof*"},
			{Name: "proof-stale-fence-version", File: hp, Old: "\t\tmeta.WriteFenceVersion != expectedFenceVersion ||\n", New: "", Expect: "C17/R2-proof*"},
			{Name: "proof-accepts-partial", File: hp, Old: "if expectedFenceVersion == 0 || !proof.hasAny() || proof.hasPartial() {", New: "if expectedFenceVersion == 0 || !proof.hasAny() {", Expect: "C17/R2-proof*"},
			{Name: "partial-forgets-leader-node", File: hp, Old: "\treturn proof.DrainedLeaderNode == 0 ||\n\t\tproof.DrainedRuntimeGeneration == 0 ||", New: "\treturn proof.DrainedRuntimeGeneration == 0 ||", Expect: "C17/R2-proof*"},
			{Name: "matching-fence-ignores-version", File: hp, Old: "meta.WriteFenceToken != token || meta.WriteFenceVersion != version {", New: "meta.WriteFenceToken != token {", Expect: "C17/R2-fence*"},
			{Name: "active-fence-foreign-token", File: hp, Old: "\t\ttask.FenceToken != meta.WriteFenceToken ||\n", New: "", Expect: "C17/R2-fence*"},
			{Name: "set-fence-over-foreign", File: cm, Old: "\t\tif err := requireNoForeignChannelMigrationFence(task, meta); err != nil {\n\t\t\treturn ChannelMigrationTask{}, ChannelRuntimeMeta{}, err\n\t\t}\n", New: "", Expect: "C17/R3-set*"},
			{Name: "clear-fence-without-ownership", File: cm, Old: "\t\tif err := requireActiveChannelMigrationTaskFence(task, meta, req.RuntimeGuard.ExpectedFenceVersion); err != nil {\n\t\t\treturn ChannelMigrationTask{}, ChannelRuntimeMeta{}, err\n\t\t}\n\t\tif err := requireMatchingFence(meta, req.RuntimeGuard.ExpectedFenceToken, req.RuntimeGuard.ExpectedFenceVersion, 0, true); err != nil {\n\t\t\treturn ChannelMigrationTask{}, ChannelRuntimeMeta{}, err\n\t\t}\n\t\tnextTask := clearChannelMigrationTaskFenceAndProof(task)\n\t\tnextTask.Status = req.Status\n\t\tnextTask.Phase = req.Phase\n\t\tnextTask.UpdatedAtMS = req.UpdatedAtMS\n\t\tnextTask.CompletedAtMS = req.CompletedAtMS\n", New: "\t\tif err := requireMatchingFence(meta, req.RuntimeGuard.ExpectedFenceToken, req.RuntimeGuard.ExpectedFenceVersion, 0, true); err != nil {\n\t\t\treturn ChannelMigrationTask{}, ChannelRuntimeMeta{}, err\n\t\t}\n\t\tnextTask := clearChannelMigrationTaskFenceAndProof(task)\n\t\tnextTask.Status = req.Status\n\t\tnextTask.Phase = req.Phase\n\t\tnextTask.UpdatedAtMS = req.UpdatedAtMS\n\t\tnextTask.CompletedAtMS = req.CompletedAtMS\n", Expect: "C17/R3-clear*"},
			{Name: "reset-before-expiry", File: cm, Old: "\t\tif req.NowMS <= meta.WriteFenceUntilMS {\n\t\t\treturn ChannelMigrationTask{}, ChannelRuntimeMeta{}, dberrors.ErrConflict\n\t\t}\n", New: "", Expect: "C17/R3-reset*"},
			{Name: "abort-after-commit-phase", File: hp, Old: "\t\tChannelMigrationPhaseCommitLeaderMeta:\n\t\treturn true\n\tdefault:\n\t\treturn false\n\t}\n}\n\nfunc isReplicaReplaceAbortPhase", New: "\t\tChannelMigrationPhaseCommitLeaderMeta,\n\t\tChannelMigrationPhaseVerifyNewLeader:\n\t\treturn true\n\tdefault:\n\t\treturn false\n\t}\n}\n\nfunc isReplicaReplaceAbortPhase", Expect: "C17/R4-abort*"},
			{Name: "abort-after-promote-phase", File: hp, Old: "\t\tChannelMigrationPhasePromoteAndRemove:\n\t\treturn true\n\tdefault:\n\t\treturn false\n\t}\n}\n\nfunc requireMatchingFence", New: "\t\tChannelMigrationPhasePromoteAndRemove,\n\t\tChannelMigrationPhaseVerifyMembership:\n\t\treturn true\n\tdefault:\n\t\treturn false\n\t}\n}\n\nfunc requireMatchingFence", Expect: "C17/R4-abort*"},
			{Name: "abort-skips-transition-check", File: cm, Old: "\t\tif err := requireChannelMigrationAbortTransition(task); err != nil {\n\t\t\treturn ChannelMigrationTask{}, ChannelRuntimeMeta{}, err\n\t\t}\n", New: "", Expect: "C17/R4-abort*"},
			{Name: "abort-clears-foreign-fence", File: cm, Old: "\t\t\tif err := requireActiveChannelMigrationTaskFence(task, meta, req.RuntimeGuard.ExpectedFenceVersion); err != nil {\n\t\t\t\treturn ChannelMigrationTask{}, ChannelRuntimeMeta{}, err\n\t\t\t}\n", New: "", Expect: "C17/R3-abort*"},
			{Name: "second-active-task-allowed", File: tb, Old: "\tif existing.IsActive() {\n\t\treturn dberrors.ErrAlreadyExists\n\t}\n\treturn nil\n}", New: "\t_ = existing\n\treturn nil\n}", Expect: "C17/R5-active*"},
			{Name: "active-check-skipped", File: tb, Old: "\t\tif err := s.ensureChannelMigrationActiveAvailable(ctx, activeIndexKey, task); err != nil {\n\t\t\treturn err\n\t\t}\n", New: "", Expect: "C17/R5-active*"},
			{Name: "stage-without-meta-validation", File: cm, Old: "\t\tif err := validateChannelRuntimeMeta(nextMeta); err != nil {\n\t\t\treturn err\n\t\t}\n\t\tif err := shard.stageUpsertChannelMigrationTask(ctx, batch, nextTask); err != nil {", New: "\t\tif err := shard.stageUpsertChannelMigrationTask(ctx, batch, nextTask); err != nil {", Expect: "C17/R6-stage*"},
			{Name: "stage-ignores-runtime-guard", File: cm, Old: "if !guard.matches(task) || !runtimeGuard.matches(meta) {", New: "if !guard.matches(task) {", Expect: "C17/R6-stage*"},
			{Name: "validate-leader-outside-isr", File: "pkg/db/meta/table_runtime_meta.go", Old: "; !ok || !containsUint64(meta.ISR, meta.Leader) {", New: "; !ok {", Expect: "C17/R6-valid*"},
		},
	})
}

func c17(c *Ctx) {
	p := "pkg/db/meta."
	wb := p + "WriteBatch."
	fenceArgs := "req.RuntimeGuard.ExpectedFenceToken, req.RuntimeGuard.ExpectedFenceVersion"
	active := p + "requireActiveChannelMigrationTaskFence(task, meta, req.RuntimeGuard.ExpectedFenceVersion) == nil"
	proof := p + "requireChannelMigrationCutoverProof(task, meta, req.RuntimeGuard.ExpectedFenceVersion) == nil"
	liveFence := p + "requireMatchingFence(meta, " + fenceArgs + ", req.NowMS, false) == nil"
	anyFence := p + "requireMatchingFence(meta, " + fenceArgs + ", 0, true) == nil"
	row := "pkg/db/meta.ChannelRuntimeMeta"

	// ---------------------------------------------------------------- R1: cutover commits
	tr := c.Fn(wb + "CommitChannelLeaderTransfer$1")
	c.Guard("R1-transfer", tr, RetNil{},
		liveFence, active, proof,
		p+"requireChannelMigrationLeaderTransferTransition(task, req) == nil",
		"req.DesiredLeader == "+p+"channelMigrationTaskDesiredLeader(task)",
		p+"containsUint64(meta.ISR, req.DesiredLeader) == true",
		"req.NextLeaderEpoch > meta.LeaderEpoch")
	c.c15FieldStores("R1-transfer", tr, row, []string{"meta"}, map[string][]string{
		"Leader": {"req.DesiredLeader"}, "LeaderEpoch": {"req.NextLeaderEpoch"}, "LeaseUntilMS": {"req.LeaseUntilMS"}})

	pr := c.Fn(wb + "PromoteLearnerAndRemoveReplica$1")
	c.Guard("R1-promote", pr, RetNil{},
		liveFence, active, proof,
		p+"requireChannelMigrationPromoteLearnerTransition(task, req) == nil",
		"req.SourceNode == task.SourceNode", "req.TargetNode == task.TargetNode",
		"meta.Leader != req.SourceNode",
		p+"containsUint64(meta.Replicas, req.SourceNode) == true",
		p+"containsUint64(meta.Replicas, req.TargetNode) == true",
		p+"containsUint64(meta.ISR, req.TargetNode) == false")
	c.c15FieldStores("R1-promote", pr, row, []string{"meta"}, map[string][]string{
		"Replicas":     {p + "replaceUint64Member(*.Replicas, req.SourceNode, req.TargetNode)"},
		"ISR":          {p + "replaceUint64Member(*.ISR, req.SourceNode, req.TargetNode)", p + "normalizeUint64Set(append(*.ISR, *))"},
		"ChannelEpoch": {"(*.ChannelEpoch + 1)"}})

	// ---------------------------------------------------------------- R2: the predicates
	cp := c.Fn(p + "requireChannelMigrationCutoverProof")
	c.Guard("R2-proof", cp, RetNil{},
		"expectedFenceVersion != 0",
		p+"ChannelMigrationCutoverProof.hasAny(*) == true",
		p+"ChannelMigrationCutoverProof.hasPartial(*) == false",
		"task.DrainedFenceVersion == expectedFenceVersion",
		"meta.WriteFenceVersion == expectedFenceVersion",
		"task.DrainedChannelEpoch == meta.ChannelEpoch",
		"task.DrainedLeaderEpoch == meta.LeaderEpoch",
		"task.DrainedLeaderNode == meta.Leader",
		"task.CutoverHW <= task.CutoverLEO")
	same := map[string][]string{}
	for _, f := range []string{"CutoverLEO", "CutoverHW", "DrainedLeaderNode", "DrainedRuntimeGeneration", "DrainedChannelEpoch", "DrainedLeaderEpoch", "DrainedFenceVersion"} {
		same[f] = []string{"task." + f}
	}
	c.c15FieldStores("R2-proof", cp, p+"ChannelMigrationCutoverProof", nil, same)
	hp := c.Fn(p + "ChannelMigrationCutoverProof.hasPartial")
	any := p + "ChannelMigrationCutoverProof.hasAny(proof) == false"
	c.c15FalseOnly("R2-proof", hp, 0,
		any+" || proof.DrainedLeaderNode != 0", any+" || proof.DrainedRuntimeGeneration != 0", any+" || proof.DrainedChannelEpoch != 0",
		any+" || proof.DrainedLeaderEpoch != 0", any+" || proof.DrainedFenceVersion != 0", any+" || proof.CutoverHW <= proof.CutoverLEO")

	mf := c.Fn(p + "requireMatchingFence")
	c.Guard("R2-fence", mf, RetNil{},
		`token != ""`, "version != 0", "meta.WriteFenceToken == token", "meta.WriteFenceVersion == version",
		"allowExpired || nowMS <= meta.WriteFenceUntilMS")
	af := c.Fn(p + "requireActiveChannelMigrationTaskFence")
	c.Guard("R2-fence", af, RetNil{},
		`task.FenceToken != ""`, "task.FenceVersion != 0", "task.FenceUntilMS > 0",
		"task.FenceToken == task.TaskID", "task.FenceToken == meta.WriteFenceToken",
		"task.FenceVersion == meta.WriteFenceVersion", "task.FenceVersion == expectedFenceVersion")
	nf := c.Fn(p + "requireNoForeignChannelMigrationFence")
	c.Guard("R2-fence", nf, RetNil{}, `meta.WriteFenceToken == ""`)
	c.c15RetShapes("R2-fence", nf, "nil|ErrConflict|requireActive(task,meta,meta.WriteFenceVersion)", func(r []string) string {
		if len(r) == 1 && (r[0] == "nil" || r[0] == "pkg/db/internal/dberrors.ErrConflict" || r[0] == p+"requireActiveChannelMigrationTaskFence(task, meta, meta.WriteFenceVersion)") {
			return ""
		}
		return fmt.Sprint("returns ", r)
	})
	c.Guard("R2-fence", nf, CallTo{p + "requireActiveChannelMigrationTaskFence"}, `meta.WriteFenceToken != ""`)

	// ---------------------------------------------------------------- R3: who touches the fence
	set := c.Fn(wb + "SetChannelWriteFence$1")
	c.Guard("R3-set", set, RetNil{},
		p+"requireNoForeignChannelMigrationFence(task, meta) == nil",
		p+"requireChannelMigrationSetFenceTransition(task, req) == nil")
	c.c15FieldStores("R3-set", set, row, []string{"meta"}, map[string][]string{
		"WriteFenceToken": {"task.TaskID"}, "WriteFenceVersion": {"(meta.WriteFenceVersion + 1)"},
		"WriteFenceReason": {"req.FenceReason"}, "WriteFenceUntilMS": {"req.FenceUntilMS"}})

	clearCall := CallTo{p + "clearChannelRuntimeMetaFence"}
	rs := c.Fn(wb + "ResetChannelWriteFenceToPreCutover$1")
	c.Guard("R3-reset", rs, OneOf{RetNil{}, clearCall}, active, anyFence,
		p+"requireChannelMigrationResetFenceTransition(task, req) == nil",
		"req.NowMS > meta.WriteFenceUntilMS")
	c.c15FieldStores("R3-reset", rs, row, []string{"meta", p + "clearChannelRuntimeMetaFence(meta)"}, map[string][]string{})

	cl := c.Fn(wb + "ClearChannelWriteFence$1")
	idem := p + "isChannelMigrationClearFenceIdempotent(task, meta, req) == true"
	c.Guard("R3-clear", cl, RetNil{}, idem+" || "+active, idem+" || "+anyFence,
		p+"requireChannelMigrationClearFenceTransition(task, req) == nil")
	c.Guard("R3-clear", cl, clearCall, active, anyFence)
	c.Guard("R3-clear", cl, Ret{1, "meta"}, idem)
	c.c15FieldStores("R3-clear", cl, row, []string{"meta", p + "clearChannelRuntimeMetaFence(meta)"}, map[string][]string{})

	ab := c.Fn(wb + "AbortChannelMigration$1")
	c.Guard("R3-abort", ab, clearCall, active, anyFence)
	c.Guard("R3-abort", ab, RetNil{},
		active+` || meta.WriteFenceToken == ""`,
		`meta.WriteFenceToken != "" || task.FenceToken == ""`,
		`meta.WriteFenceToken != "" || task.FenceVersion == 0`)
	c.c15FieldStores("R3-abort", ab, row, []string{"meta", p + "clearChannelRuntimeMetaFence(*)"}, map[string][]string{
		"Replicas": {p + "removeUint64Member(*.Replicas, task.TargetNode)"}, "ChannelEpoch": {"(*.ChannelEpoch + 1)"}})
	c.Guard("R3-abort", ab, StoreTo{Addr: "*.Replicas"},
		p+"canAbortRemoveUnpromotedChannelMigrationLearner(task) == true", p+"containsUint64(*.ISR, task.TargetNode) == false")

	c.ConfineCalls("R3-fence-writers", p+"clearChannelRuntimeMetaFence", 3, rs0(wb, "ResetChannelWriteFenceToPreCutover$1"), rs0(wb, "ClearChannelWriteFence$1"), rs0(wb, "AbortChannelMigration$1"))
	c.c17NoCallers("R3-fence-writers", p+"clearRuntimeFence")
	c.c15FieldStores("R3-fence-writers", c.Fn(p+"clearChannelRuntimeMetaFence"), row, []string{"meta"}, map[string][]string{
		"WriteFenceToken": {`""`}, "WriteFenceVersion": {"(meta.WriteFenceVersion + 1)"}, "WriteFenceReason": {"0"}, "WriteFenceUntilMS": {"0"}})
	for _, f := range []string{"WriteFenceToken", "WriteFenceVersion", "WriteFenceReason", "WriteFenceUntilMS"} {
		c.c17ConfineFieldStores("R3-fence-writers", row+"."+f, "pkg/db/meta.",
			wb+"SetChannelWriteFence$1", p+"clearChannelRuntimeMetaFence", p+"clearRuntimeFence", p+"preserveRuntimeMetaState", p+"decodeRuntimeMetaColumn")
	}
	c.ConfineCalls("R3-fence-writers", wb+"stageChannelMigrationTaskAndMeta", 7,
		wb+"SetChannelWriteFence", wb+"ResetChannelWriteFenceToPreCutover", wb+"CommitChannelLeaderTransfer", wb+"AddChannelLearner",
		wb+"PromoteLearnerAndRemoveReplica", wb+"ClearChannelWriteFence", wb+"AbortChannelMigration")
	// the learner step owns no fence either
	c.c15FieldStores("R3-fence-writers", c.Fn(wb+"AddChannelLearner$1"), row, []string{"meta"}, map[string][]string{
		"Replicas": {"append(*.Replicas, *)"}, "ChannelEpoch": {"(*.ChannelEpoch + 1)"}})

	// ---------------------------------------------------------------- R4: abort is impossible after commit / promote
	c.Guard("R4-abort", ab, RetNil{},
		p+"ChannelMigrationTask.IsTerminal(task) == false",
		p+"requireChannelMigrationAbortTransition(task) == nil")
	at := c.Fn(p + "requireChannelMigrationAbortTransition")
	lt := p + "isLeaderTransferAbortPhase(task.Phase) == true"
	rr := p + "isReplicaReplaceAbortPhase(task.Phase) == true"
	c.Guard("R4-abort", at, RetNil{},
		lt+" || "+rr,
		lt+" || task.Kind == 2",
		lt+" || !task.EmbeddedLeaderTransfer || "+p+"isLeaderTransferPhase(task.Phase) == false")
	c.c17PhaseTable("R4-abort", c.Fn(p+"isLeaderTransferAbortPhase"), "Validate", "ProbeTarget", "WriteFence", "DrainLeader", "FinalTargetCatchUp", "CommitLeaderMeta")
	c.c17PhaseTable("R4-abort", c.Fn(p+"isReplicaReplaceAbortPhase"), "Validate", "AddLearner", "BootstrapTarget", "WarmCatchUp", "CutoverFence", "FinalTargetCatchUp", "PromoteAndRemove")
	c.c17PhaseTable("R4-abort", c.Fn(p+"canAbortRemoveUnpromotedChannelMigrationLearner"), "BootstrapTarget", "WarmCatchUp", "CutoverFence", "FinalTargetCatchUp", "PromoteAndRemove")
	term := c.Fn(p + "ChannelMigrationTask.IsTerminal")
	c.c15FalseOnly("R4-abort", term, 0, "t.Status != 4", "t.Status != 5", "t.Status != 6")
	c.c17ConstIs("R4-abort", "ChannelMigrationStatus", map[string]string{"Completed": "4", "Failed": "5", "Aborted": "6"})

	// ---------------------------------------------------------------- R5: one active task per channel
	su := c.Fn(p + "Shard.stageUpsertChannelMigrationTask")
	ensure := p + "Shard.ensureChannelMigrationActiveAvailable(*) == nil"
	notActive := p + "ChannelMigrationTask.IsActive(task) == false"
	taskEnc := CallTo{p + "Table.encodeValue(pkg/db/meta.channelMigrationTable, *"}
	c.Guard("R5-active", su, taskEnc, ensure+" || "+notActive, p+"validateChannelMigrationTask(task) == nil")
	c.Guard("R5-active", su, CallTo{"pkg/db/internal/engine.Batch.Set(batch, " + p + "encodeChannelMigrationActiveIndexKey(*"}, ensure, p+"ChannelMigrationTask.IsActive(task) == true")
	c.CallShape("R5-active", su, p+"Shard.ensureChannelMigrationActiveAvailable",
		p+"Shard.ensureChannelMigrationActiveAvailable(s, ctx, "+p+"encodeChannelMigrationActiveIndexKey(s.hashSlot, task.ChannelID, task.ChannelType), task)")
	c.CallShape("R5-active", su, p+"Table.encodeValue", p+"Table.encodeValue(pkg/db/meta.channelMigrationTable, *, task)")
	en := c.Fn(p + "Shard.ensureChannelMigrationActiveAvailable")
	c.Guard("R5-active", en, RetNil{}, "*#0 == task.TaskID || "+p+"ChannelMigrationTask.IsActive(*) == false")
	c.Guard("R5-active", en, Ret{0, "pkg/db/internal/dberrors.ErrAlreadyExists"}, p+"ChannelMigrationTask.IsActive(*) == true")
	c.CallShape("R5-active", en, p+"MetaDB.get", p+"MetaDB.get(s.db, activeIndexKey)")
	ia := c.Fn(p + "ChannelMigrationTask.IsActive")
	c.c15RetShapes("R5-active", ia, "!IsTerminal(t)", func(r []string) string {
		if len(r) == 1 && r[0] == "!"+p+"ChannelMigrationTask.IsTerminal(t)" {
			return ""
		}
		return fmt.Sprint("returns ", r)
	})
	c.c15ConfineRender("R5-active", p+"Table.encodeValue(pkg/db/meta.channelMigrationTable, *", 1, p+"Shard.stageUpsertChannelMigrationTask")
	c.c15ReceiverMethods("R5-active", p+"channelMigrationTable", 8,
		p+"Table.Get", p+"Table.scanPrimary", p+"Table.primaryRowKey", p+"Table.stageDeleteIndexEntries", p+"Table.stagePutIndexEntries",
		p+"Table.encodeValue", p+"Table.decodeValue", p+"Table.Schema", p+"Table.scanIndex*", p+"Table.ScanIndex*", p+"Table.stageDeletePrimaryFromIndexEntries", p+"Table.decodeIndexKey", p+"Table.indexByID")

	// ---------------------------------------------------------------- R6: every accepted step leaves valid metadata
	st := c.Fn(wb + "stageChannelMigrationTaskAndMeta$1")
	stageEff := OneOf{CallTo{p + "Shard.stageUpsertChannelMigrationTask"}, CallTo{p + "Table.encodeValue(pkg/db/meta.channelRuntimeMetaTable, *"}}
	c.Guard("R6-stage", st, stageEff,
		p+"ChannelMigrationTaskGuard.matches(guard, *) == true",
		p+"ChannelMigrationRuntimeGuard.matches(runtimeGuard, *) == true",
		"dyn:mutate(*)#2 == nil",
		p+"validateChannelMigrationTask(dyn:mutate(*)#0) == nil",
		p+"validateChannelRuntimeMeta("+p+"bumpRuntimeRoute(*)) == nil",
		p+"ChannelMigrationTask.IsTerminal(*) == false || * == dyn:mutate(*)#0")
	c.CallShape("R6-stage", st, p+"Shard.stageUpsertChannelMigrationTask", p+"Shard.stageUpsertChannelMigrationTask(*, ctx, batch, dyn:mutate(*)#0)")
	c.CallShape("R6-stage", st, "dyn:mutate", "dyn:mutate("+p+"batchCommitState.loadChannelMigrationTask(*)#0, "+p+"batchCommitState.loadRuntimeMeta(*)#0)")
	vm := c.Fn(p + "validateChannelRuntimeMeta")
	c.Guard("R6-valid", vm, RetNil{},
		"len(meta.Replicas) != 0", "meta.MinISR > 0", "meta.MinISR <= len(meta.Replicas)",
		"meta.Leader == 0 || make(map)[meta.Leader]#1 == true",
		"meta.Leader == 0 || "+p+"containsUint64(meta.ISR, meta.Leader) == true")
	// ISR ⊆ replicas is checked per loop iteration: the dual form "bad fact ⇒ no success return reachable"
	c.c17Rejects("R6-valid", vm, "make(map)[meta.ISR[*]]#1 == false")

	c.Min("R1-transfer", 8)
	c.Min("R1-promote", 11)
	c.Min("R2-proof", 16)
	c.Min("R2-fence", 15)
	c.Min("R4-abort", 12)
	c.Min("R5-active", 11)
	c.Min("R6-stage", 8)
}

func rs0(prefix, name string) string { return prefix + name }

// c17Rejects: for each bad fact (atom), at least one CFG edge establishes it and no success return
// (error result = nil constant) is reachable from the target of any such edge. Dual of Guard; usable
// for per-iteration checks inside loops where edge-dominance of the final return cannot be stated.
func (c *Ctx) c17Rejects(rule string, fn *ssa.Function, badFacts ...string) {
	if fn == nil {
		return
	}
	fname := c.P.Name(fn)
	for _, bf := range badFacts {
		edges, _ := guardEdges(fn, parseGuard(bf))
		construct := fname + "#" + bf + "⇒no success return"
		if len(edges) == 0 {
			c.add("guard", rule, construct, Violated, c.P.Pos(fn.Pos()), fname+" never tests "+bf+" (the rejecting branch is gone)")
			continue
		}
		bad := ""
		for e := range edges {
			seen := map[*ssa.BasicBlock]bool{}
			work := []*ssa.BasicBlock{e.from.Succs[e.succ]}
			for len(work) > 0 && bad == "" {
				b := work[len(work)-1]
				work = work[:len(work)-1]
				if seen[b] {
					continue
				}
				seen[b] = true
				for _, in := range b.Instrs {
					if (RetNil{}).Match(in) {
						bad = c.P.InstrPos(in)
					}
				}
				work = append(work, b.Succs...)
			}
		}
		if bad != "" {
			c.add("guard", rule, construct, Violated, bad, fmt.Sprintf("%s can still return nil at %s after establishing %s", fname, bad, bf))
		} else {
			c.add("guard", rule, construct, Held, c.P.Pos(fn.Pos()), fmt.Sprintf("%d edge(s) establish the bad fact; none can reach a success return", len(edges)))
		}
	}
}

// c17NoCallers: the function (if it still exists) is never called in the loaded packages.
func (c *Ctx) c17NoCallers(rule, callee string) {
	sites := c.callSites(callee)
	construct := "nocallers:" + callee
	if len(sites) > 0 {
		c.add("confine", rule, construct, Violated, c.P.InstrPos(sites[0].in), fmt.Sprintf("%s (an unguarded fence clear) is called from %s", callee, c.P.Name(sites[0].fn)))
		return
	}
	c.add("confine", rule, construct, Held, "", "no call site in the loaded packages")
}

// c17ConfineFieldStores: like ConfineStores with literals included, but only stores inside functions
// whose name has the prefix `within` are considered (other packages build request rows, never stored rows).
func (c *Ctx) c17ConfineFieldStores(rule, field, within string, allowed ...string) {
	fv := c.Field(field)
	if fv == nil {
		return
	}
	n := 0
	var bad []string
	badPos := ""
	for _, s := range c.fieldStores(fv) {
		name := c.P.Name(s.fn)
		if !strings.HasPrefix(name, within) {
			continue
		}
		n++
		if !globAny(allowed, name) {
			bad = append(bad, name+" at "+c.P.InstrPos(s.in))
			if badPos == "" {
				badPos = c.P.InstrPos(s.in)
			}
		}
	}
	construct := "stores:" + field
	switch {
	case len(bad) > 0:
		c.add("confine", rule, construct, Violated, badPos, fmt.Sprintf("%s is written outside the enumerated fence writers: %s", field, strings.Join(bad, "; ")))
	case n == 0:
		c.add("confine", rule, construct, Undecided, "", "no store found (vacuous)")
	default:
		c.add("confine", rule, construct, Held, "", fmt.Sprintf("%d store site(s) in %s*, all in enumerated fence writers", n, within))
	}
}

// c17PhaseTable: the bool predicate over a ChannelMigrationPhase returns true exactly for the frozen
// set of phase constants (by constant name, values resolved through go/types): true only behind
// phase ∈ set, and every member of the set is a case.
func (c *Ctx) c17PhaseTable(rule string, fn *ssa.Function, names ...string) {
	if fn == nil {
		return
	}
	consts := c.constsOfType("pkg/db/meta", "ChannelMigrationPhase", "ChannelMigrationPhase")
	operand := "phase"
	if len(fn.Params) == 1 && fn.Params[0].Name() != "phase" {
		operand = fn.Params[0].Name() + ".Phase"
	}
	var atoms []string
	for _, n := range names {
		v, ok := consts["ChannelMigrationPhase"+n]
		if !ok {
			c.add("anchor", "anchor", "ChannelMigrationPhase"+n, Undecided, "", "phase constant not found")
			return
		}
		atoms = append(atoms, operand+" == "+v.ExactString())
	}
	sort.Strings(atoms)
	c.GuardTrue(rule, fn, 0, strings.Join(atoms, " || "))
	// completeness: each listed phase has its own true edge
	fname := c.P.Name(fn)
	var missing []string
	for _, a := range atoms {
		e, _ := guardEdges(fn, parseGuard(a))
		if len(e) == 0 {
			missing = append(missing, a)
		}
	}
	construct := fname + "#cases=" + strings.Join(names, ",")
	if len(missing) > 0 {
		c.add("declist", rule, construct, Violated, c.P.Pos(fn.Pos()), fmt.Sprintf("%s no longer tests %v (frozen truth table changed)", fname, missing))
		return
	}
	c.add("declist", rule, construct, Held, c.P.Pos(fn.Pos()), fmt.Sprintf("all %d frozen phases are cases", len(names)))
}

// c17ConstIs pins the numeric values used in guard strings to the named constants.
func (c *Ctx) c17ConstIs(rule, typeName string, want map[string]string) {
	consts := c.constsOfType("pkg/db/meta", typeName, typeName)
	var bad []string
	for n, v := range want {
		k, ok := consts[typeName+n]
		if !ok || k.ExactString() != v {
			bad = append(bad, typeName+n)
		}
	}
	sort.Strings(bad)
	construct := "consts:" + typeName
	if len(bad) > 0 {
		c.add("declist", rule, construct, Undecided, "", fmt.Sprintf("constants %v no longer have the values the rule table was written against", bad))
		return
	}
	c.add("declist", rule, construct, Held, "", "terminal status constants have the values used by the guards")
}
