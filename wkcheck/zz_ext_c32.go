package main

import (
	"fmt"
	"go/constant"
	"go/token"
	"go/types"
	"sort"
	"strings"

	"golang.org/x/tools/go/ssa"
)

// Extension rules for C32 (receive-acknowledgement tracking is exact), added after two independently
// seeded bugs that the R1..R3 table did not see. R3-token only decided that cancel/finish act behind
// "some slot holds the token"; it did not decide WHICH slot leaves the attempt set, nor that a token
// value is never issued twice.
//
//	X1-slot   (seed a)  attempt-set conservation in ackTrackerEntry.cancelAttempt / finishAttempt: the only
//	                    token that leaves {primary} ∪ extraAttempts is the token being cancelled/finished.
//	                      - every slot that is vacated (removeExtraAttempt(e, I) / store to extraAttempts[I])
//	                        is the slot whose token was compared equal to the request token (same index
//	                        value I), or the slot whose token was moved into e.primary (same I);
//	                      - a slot token moved into e.primary is followed on every path by the removal of
//	                        that same slot (no duplicate), and its pending metadata comes from the same slot;
//	                      - e.primary is overwritten only when it holds the request token, or after it was
//	                        saved into the matched slot;
//	                      - the slot evidence is still valid when it is used (no reshaping of the slice
//	                        between the read and the removal);
//	                      - removeExtraAttempt(index) is a swap-remove of exactly `index`: the last element
//	                        is moved into `index` unless index is the last, then the slice shrinks by one.
//	X2-token-unique (seed b)  bind-token ids are never issued twice during the tracker's lifetime: the
//	                    nextBindToken counter is only ever advanced (Add of a positive constant, in
//	                    newBindToken; no Store/Swap/CompareAndSwap anywhere, Reset included), and every
//	                    AckBindToken id is the result of that Add, returned only when non-zero.
func init() {
	const f = "internal/runtime/delivery/ack_tracker.go"
	extend("C32", nil, func(c *Ctx) {
		// ---- X1: attempt-set conservation ------------------------------------------------------
		for _, n := range []string{"cancelAttempt", "finishAttempt"} {
			xc32Conserve(c, "X1-slot", c.Fn(c32Pkg+"ackTrackerEntry."+n))
		}
		c.ConfineStores("X1-slot", c32Pkg+"ackTrackerEntry.extraAttempts", false,
			c32Pkg+"ackTrackerEntry.removeExtraAttempt", c32Pkg+"ackTrackerEntry.addAttempt")
		xc32SwapRemove(c, "X1-slot", c.Fn(c32Pkg+"ackTrackerEntry.removeExtraAttempt"))

		// ---- X2: token ids are never reissued --------------------------------------------------
		const ctr = c32Pkg + "AckTracker.nextBindToken"
		const newTok = c32Pkg + "AckTracker.newBindToken"
		sites := c.AtomicOps("X2-token-unique", ctr, []string{"Add", "Load"}, nil)
		nAdd := 0
		for _, s := range sites {
			if s.method != "Add" {
				continue
			}
			nAdd++
			name := c.P.Name(s.fn)
			construct := "counter-advance:" + name
			args := s.call.Common().Args
			k, _ := stripConv(args[len(args)-1]).(*ssa.Const)
			switch {
			case name != newTok:
				c.add("mono", "X2-token-unique", construct, Violated, c.P.InstrPos(s.call), "nextBindToken is advanced outside newBindToken: ids handed out there are not turned into tokens by the checked allocator")
			case k == nil || k.Value == nil || k.Value.Kind() != constant.Int || constant.Sign(k.Value) <= 0:
				c.add("mono", "X2-token-unique", construct, Violated, c.P.InstrPos(s.call), "nextBindToken.Add delta "+Path(args[len(args)-1])+" is not a positive constant: the counter may stall or rewind and reissue an id")
			default:
				c.add("mono", "X2-token-unique", construct, Held, c.P.InstrPos(s.call), "counter advanced by the positive constant "+Path(k))
			}
		}
		if len(sites) > 0 && nAdd == 0 {
			c.add("mono", "X2-token-unique", "counter-advance:"+newTok, Undecided, "", "no Add on nextBindToken found (allocator changed? update the rule)")
		}
		// every token id is the freshly advanced counter value
		c.ConfineStores("X2-token-unique", c32Pkg+"AckBindToken.id", true, newTok)
		nt := c.Fn(newTok)
		c.StoreShape("X2-token-unique", nt, "*AckBindToken.id", "sync/atomic.Uint64.Add(t.nextBindToken, *)")
		c.Guard("X2-token-unique", nt, AnyRet{}, "sync/atomic.Uint64.Add(t.nextBindToken, *) != 0")
	},
		// X1
		Mutant{Name: "x-cancel-promotes-oldest-drops-last", File: f,
			Old:    "promoted := e.extraAttempts[last]\n\t\t\te.pending = promoted.pending\n\t\t\te.primary = promoted.token\n\t\t\te.removeExtraAttempt(last)",
			New:    "promoted := e.extraAttempts[0]\n\t\t\te.pending = promoted.pending\n\t\t\te.primary = promoted.token\n\t\t\te.removeExtraAttempt(len(e.extraAttempts) - 1)\n\t\t\t_ = last",
			Expect: "C32/X1-slot*"},
		Mutant{Name: "x-cancel-promotes-last-drops-first", File: f,
			Old: "e.primary = promoted.token\n\t\t\te.removeExtraAttempt(last)", New: "e.primary = promoted.token\n\t\t\te.removeExtraAttempt(0)", Expect: "C32/X1-slot*"},
		Mutant{Name: "x-cancel-promoted-token-stays-in-slot", File: f,
			Old: "e.primary = promoted.token\n\t\t\te.removeExtraAttempt(last)", New: "e.primary = promoted.token", Expect: "C32/X1-slot*"},
		Mutant{Name: "x-cancel-promoted-pending-from-other-slot", File: f,
			Old: "e.pending = promoted.pending\n", New: "e.pending = e.extraAttempts[0].pending\n", Expect: "C32/X1-slot*"},
		Mutant{Name: "x-cancel-extra-drops-neighbour", File: f,
			Old: "\t\te.removeExtraAttempt(i)\n\t\treturn true\n\t}\n\treturn false\n}\n\nfunc (e *ackTrackerEntry) removeExtraAttempt",
			New: "\t\te.removeExtraAttempt(len(e.extraAttempts) - 1)\n\t\treturn true\n\t}\n\treturn false\n}\n\nfunc (e *ackTrackerEntry) removeExtraAttempt", Expect: "C32/X1-slot*"},
		Mutant{Name: "x-finish-extra-drops-primary-reservation", File: f,
			Old: "e.extraAttempts[i] = ackBindAttempt{token: e.primary, pending: e.pending}\n\t\t\te.primary = AckBindToken{}", New: "e.removeExtraAttempt(i)\n\t\t\te.primary = AckBindToken{}", Expect: "C32/X1-slot*"},
		Mutant{Name: "x-finish-parks-primary-in-wrong-slot", File: f,
			Old: "e.extraAttempts[i] = ackBindAttempt{token: e.primary, pending: e.pending}", New: "e.extraAttempts[0] = ackBindAttempt{token: e.primary, pending: e.pending}", Expect: "C32/X1-slot*"},
		Mutant{Name: "x-remove-extra-always-drops-last", File: f,
			Old: "\tif index != last {\n\t\te.extraAttempts[index] = e.extraAttempts[last]\n\t}\n", New: "", Expect: "C32/X1-slot*"},
		// X2
		Mutant{Name: "x-reset-rewinds-token-counter", File: f,
			Old: "\tt.pendingCount.Store(0)\n}", New: "\tt.pendingCount.Store(0)\n\tt.nextBindToken.Store(0)\n}", Expect: "C32/X2-token-unique*"},
		Mutant{Name: "x-token-id-from-message-id", File: f,
			Old: "\n\ttoken := t.newBindToken()\n", New: "\n\ttoken := AckBindToken{id: pending.MessageID}\n", Expect: "C32/X2-token-unique*"},
		Mutant{Name: "x-token-id-from-peek", File: f,
			Old: "id := t.nextBindToken.Add(1)", New: "t.nextBindToken.Add(1)\n\t\tid := t.nextBindToken.Load()", Expect: "C32/X2-token-unique*"},
	)
}

// ---------------------------------------------------------------------------
// X1 helpers

// xc32Attempts is the view of one ackTrackerEntry method: its receiver, its request-token
// parameter and the three fields that make up the attempt set.
type xc32Attempts struct {
	c                        *Ctx
	fn                       *ssa.Function
	name                     string
	recv                     *ssa.Parameter
	tok                      *ssa.Parameter
	extras, primary, pending *types.Var
	muts                     []ssa.Instruction // instructions that may reshape / rewrite extraAttempts
}

func xc32NewAttempts(c *Ctx, fn *ssa.Function, needTok bool) *xc32Attempts {
	if fn == nil {
		return nil
	}
	a := &xc32Attempts{c: c, fn: fn, name: c.P.Name(fn)}
	a.extras = c.Field(c32Pkg + "ackTrackerEntry.extraAttempts")
	a.primary = c.Field(c32Pkg + "ackTrackerEntry.primary")
	a.pending = c.Field(c32Pkg + "ackTrackerEntry.pending")
	if a.extras == nil || a.primary == nil || a.pending == nil {
		return nil
	}
	if len(fn.Params) > 0 {
		a.recv = fn.Params[0]
	}
	for _, p := range fn.Params[min(1, len(fn.Params)):] {
		if typeBaseName(p.Type()) == "AckBindToken" {
			if a.tok != nil { // two token parameters: which one is "the" request token is not structural
				a.tok = nil
				break
			}
			a.tok = p
		}
	}
	if a.recv == nil || (needTok && a.tok == nil) {
		c.add("anchor", "X1-slot", "shape:"+a.name, Undecided, c.P.Pos(fn.Pos()), "expected a method with an entry receiver and exactly one AckBindToken parameter")
		return nil
	}
	for _, b := range fn.Blocks {
		for _, in := range b.Instrs {
			if a.isMutation(in) {
				a.muts = append(a.muts, in)
			}
		}
	}
	c.FuncsAnalysed[a.name] = true
	return a
}

func (a *xc32Attempts) recvField(addr ssa.Value, fv *types.Var) bool {
	fa, ok := addr.(*ssa.FieldAddr)
	return ok && fa.X == ssa.Value(a.recv) && fieldVar(fa.X.Type(), fa.Field) == fv
}

func (a *xc32Attempts) loadOfRecvField(v ssa.Value, fv *types.Var) bool {
	u, ok := stripConv(v).(*ssa.UnOp)
	return ok && u.Op == token.MUL && a.recvField(u.X, fv)
}

// slotAddr: addr is &e.extraAttempts[idx].
func (a *xc32Attempts) slotAddr(addr ssa.Value) (ssa.Value, bool) {
	ia, ok := addr.(*ssa.IndexAddr)
	if !ok || !a.loadOfRecvField(ia.X, a.extras) {
		return nil, false
	}
	return stripConv(ia.Index), true
}

// slotLoad: v is the value of e.extraAttempts[idx] (a whole slot), read by instruction `read`.
func (a *xc32Attempts) slotLoad(v ssa.Value) (idx ssa.Value, read ssa.Instruction, ok bool) {
	u, isU := stripConv(v).(*ssa.UnOp)
	if !isU || u.Op != token.MUL {
		return nil, nil, false
	}
	idx, ok = a.slotAddr(u.X)
	return idx, u, ok
}

// slotRef: v is component `field` of slot idx of e.extraAttempts - read directly, through a register
// copy of the slot, or through a local that is a one-time whole copy of the slot. `read` is the
// instruction at which the slot memory was actually read.
func (a *xc32Attempts) slotRef(v ssa.Value, field string) (idx ssa.Value, read ssa.Instruction, ok bool) {
	switch x := stripConv(v).(type) {
	case *ssa.Field:
		if fieldName(x.X.Type(), x.Field) != field {
			return nil, nil, false
		}
		return a.slotLoad(x.X)
	case *ssa.UnOp:
		if x.Op != token.MUL {
			return nil, nil, false
		}
		fa, isFA := x.X.(*ssa.FieldAddr)
		if !isFA || fieldName(fa.X.Type(), fa.Field) != field {
			return nil, nil, false
		}
		if idx, ok := a.slotAddr(fa.X); ok {
			return idx, x, true
		}
		al, isAl := fa.X.(*ssa.Alloc)
		if !isAl || spilledParam(al) != nil {
			return nil, nil, false
		}
		// the local must be written exactly once, as a whole, from a slot
		var src ssa.Value
		n := 0
		for _, r := range *al.Referrers() {
			switch y := r.(type) {
			case *ssa.Store:
				if y.Addr == ssa.Value(al) {
					n++
					src = y.Val
				}
			case *ssa.FieldAddr:
				for _, rr := range *y.Referrers() {
					if st, isSt := rr.(*ssa.Store); isSt && st.Addr == ssa.Value(y) {
						return nil, nil, false
					}
				}
			}
		}
		if n != 1 {
			return nil, nil, false
		}
		return a.slotLoad(src)
	}
	return nil, nil, false
}

func xc32PureIdx(v ssa.Value, a *xc32Attempts, depth int) bool {
	if depth > 6 {
		return false
	}
	switch x := stripConv(v).(type) {
	case *ssa.Const, *ssa.Parameter:
		return true
	case *ssa.BinOp:
		return xc32PureIdx(x.X, a, depth+1) && xc32PureIdx(x.Y, a, depth+1)
	case *ssa.Call:
		if b, ok := x.Call.Value.(*ssa.Builtin); ok && b.Name() == "len" && len(x.Call.Args) == 1 {
			return a.loadOfRecvField(x.Call.Args[0], a.extras)
		}
	}
	return false
}

// sameIdx: the two index operands denote the same slot - SSA identity, or the same side-effect-free
// expression over constants, parameters and len(e.extraAttempts) (valid because the checks below also
// require that nothing reshapes the slice between evidence and use).
func (a *xc32Attempts) sameIdx(x, y ssa.Value) bool {
	x, y = stripConv(x), stripConv(y)
	if x == y {
		return true
	}
	if kx, ok := x.(*ssa.Const); ok {
		ky, ok2 := y.(*ssa.Const)
		return ok2 && kx.Value != nil && ky.Value != nil && constant.Compare(kx.Value, token.EQL, ky.Value)
	}
	return xc32PureIdx(x, a, 0) && xc32PureIdx(y, a, 0) && Path(x) == Path(y)
}

// isMutation: the instruction may change which token sits in which extraAttempts slot.
func (a *xc32Attempts) isMutation(in ssa.Instruction) bool {
	switch x := in.(type) {
	case *ssa.Store:
		if a.recvField(x.Addr, a.extras) {
			return true
		}
		if _, ok := a.slotAddr(x.Addr); ok {
			return true
		}
		if fa, ok := x.Addr.(*ssa.FieldAddr); ok {
			if _, ok := a.slotAddr(fa.X); ok {
				return true
			}
		}
	case ssa.CallInstruction:
		for _, arg := range x.Common().Args {
			if arg == ssa.Value(a.recv) {
				return true // the entry pointer escapes into a callee (removeExtraAttempt, addAttempt, …)
			}
		}
	}
	return false
}

// vacated: the instruction takes slot idx out of the attempt set (removal) or overwrites it.
func (a *xc32Attempts) vacated(in ssa.Instruction) (ssa.Value, string, bool) {
	switch x := in.(type) {
	case *ssa.Store:
		if idx, ok := a.slotAddr(x.Addr); ok {
			return idx, "overwrite of extraAttempts[" + Path(idx) + "]", true
		}
		if fa, ok := x.Addr.(*ssa.FieldAddr); ok {
			if idx, ok := a.slotAddr(fa.X); ok {
				return idx, "overwrite of extraAttempts[" + Path(idx) + "]." + fieldName(fa.X.Type(), fa.Field), true
			}
		}
	case ssa.CallInstruction:
		cc := x.Common()
		if calleeName(cc) == c32Pkg+"ackTrackerEntry.removeExtraAttempt" && len(cc.Args) == 2 && cc.Args[0] == ssa.Value(a.recv) {
			idx := stripConv(cc.Args[1])
			return idx, "removeExtraAttempt(" + Path(idx) + ")", true
		}
	}
	return nil, "", false
}

func xc32Before(x, y ssa.Instruction) bool { // x executes strictly before y on some path
	bx, by := x.Block(), y.Block()
	if bx == by && indexIn(bx, x) < indexIn(by, y) {
		return true
	}
	seen := map[*ssa.BasicBlock]bool{}
	work := append([]*ssa.BasicBlock(nil), bx.Succs...)
	for len(work) > 0 {
		b := work[len(work)-1]
		work = work[:len(work)-1]
		if seen[b] {
			continue
		}
		seen[b] = true
		if b == by {
			return true
		}
		work = append(work, b.Succs...)
	}
	return false
}

func xc32Dominates(x, y ssa.Instruction) bool {
	bx, by := x.Block(), y.Block()
	if bx == by {
		return indexIn(bx, x) < indexIn(by, y)
	}
	return bx.Dominates(by)
}

// stale: some reshaping instruction other than `except` can run before `at`.
func (a *xc32Attempts) stale(at, except ssa.Instruction) bool {
	for _, m := range a.muts {
		if m != except && m != at && xc32Before(m, at) {
			return true
		}
	}
	return false
}

// condEdges returns the CFG edges on which `left == right` is known, for every If whose condition
// compares (==, !=, possibly negated) two values accepted by match.
func xc32EqEdges(fn *ssa.Function, match func(x, y ssa.Value) bool) map[edge]bool {
	out := map[edge]bool{}
	for _, b := range fn.Blocks {
		if len(b.Instrs) == 0 {
			continue
		}
		iff, ok := b.Instrs[len(b.Instrs)-1].(*ssa.If)
		if !ok {
			continue
		}
		cond := iff.Cond
		neg := false
		for {
			u, ok := cond.(*ssa.UnOp)
			if !ok || u.Op != token.NOT {
				break
			}
			neg = !neg
			cond = u.X
		}
		bin, ok := cond.(*ssa.BinOp)
		if !ok || (bin.Op != token.EQL && bin.Op != token.NEQ) {
			continue
		}
		if !match(bin.X, bin.Y) && !match(bin.Y, bin.X) {
			continue
		}
		eq := bin.Op == token.EQL
		if neg {
			eq = !eq
		}
		if eq {
			out[edge{b, 0}] = true
		} else {
			out[edge{b, 1}] = true
		}
	}
	return out
}

func xc32Unguarded(fn *ssa.Function, edges map[edge]bool, at ssa.Instruction) bool {
	limit := reachUnguarded(fn, edges, nil)
	lim, ok := limit[at.Block()]
	return ok && indexIn(at.Block(), at) < lim
}

// matchedAt: `at` is reachable only through an edge on which extraAttempts[idx].token == request token.
func (a *xc32Attempts) matchedAt(at ssa.Instruction, idx ssa.Value) bool {
	edges := xc32EqEdges(a.fn, func(x, y ssa.Value) bool {
		if stripConv(y) != ssa.Value(a.tok) {
			return false
		}
		j, read, ok := a.slotRef(x, "token")
		return ok && a.sameIdx(j, idx) && !a.stale(read, nil)
	})
	return len(edges) > 0 && !xc32Unguarded(a.fn, edges, at)
}

// primaryIsRequestAt: `at` is reachable only through an edge on which e.primary == request token.
func (a *xc32Attempts) primaryIsRequestAt(at ssa.Instruction) bool {
	edges := xc32EqEdges(a.fn, func(x, y ssa.Value) bool {
		return stripConv(y) == ssa.Value(a.tok) && a.loadOfRecvField(x, a.primary)
	})
	return len(edges) > 0 && !xc32Unguarded(a.fn, edges, at)
}

func xc32IsZeroValue(v ssa.Value) bool {
	k, ok := stripConv(v).(*ssa.Const)
	return ok && k.Value == nil
}

// xc32Conserve decides the conservation clauses for one of cancelAttempt / finishAttempt.
func xc32Conserve(c *Ctx, rule string, fn *ssa.Function) {
	a := xc32NewAttempts(c, fn, true)
	if a == nil {
		return
	}
	pos := c.P.Pos(fn.Pos())
	type pstore struct {
		in  *ssa.Store
		idx ssa.Value // promoted slot, nil for a clearing store
	}
	var primaries []pstore
	var pendings []*ssa.Store
	var saves []*ssa.Store // e.extraAttempts[I] = {token: e.primary, pending: e.pending}
	lits := c32Literals(fn, "ackBindAttempt")
	for _, b := range fn.Blocks {
		for _, in := range b.Instrs {
			st, ok := in.(*ssa.Store)
			if !ok {
				continue
			}
			switch {
			case a.recvField(st.Addr, a.primary):
				primaries = append(primaries, pstore{in: st})
			case a.recvField(st.Addr, a.pending):
				pendings = append(pendings, st)
			default:
				if _, ok := a.slotAddr(st.Addr); ok {
					if al := c32LoadOf(st.Val); al != nil && lits[al] != nil &&
						lits[al]["token"] != nil && a.loadOfRecvField(lits[al]["token"], a.primary) &&
						lits[al]["pending"] != nil && a.loadOfRecvField(lits[al]["pending"], a.pending) {
						saves = append(saves, st)
					}
				}
			}
		}
	}

	// (1) every vacated slot is the matched slot or the promoted slot
	var bad, good []string
	nSites := 0
	for _, b := range fn.Blocks {
		for _, in := range b.Instrs {
			idx, what, ok := a.vacated(in)
			if !ok {
				if st, isSt := in.(*ssa.Store); isSt && a.recvField(st.Addr, a.extras) {
					nSites++
					bad = append(bad, fmt.Sprintf("%s reshapes extraAttempts directly at %s instead of vacating one identified slot", a.name, c.P.InstrPos(in)))
				}
				continue
			}
			nSites++
			if a.stale(in, in) {
				bad = append(bad, fmt.Sprintf("%s at %s runs after another reshaping of extraAttempts, so the index evidence may be stale", what, c.P.InstrPos(in)))
				continue
			}
			if a.matchedAt(in, idx) {
				good = append(good, what+": matched slot")
				continue
			}
			promoted := false
			for _, p := range primaries {
				j, read, ok := a.slotRef(p.in.Val, "token")
				if ok && a.sameIdx(j, idx) && !a.stale(read, nil) && xc32Dominates(p.in, in) {
					promoted = true
				}
			}
			if promoted {
				good = append(good, what+": promoted slot")
				continue
			}
			bad = append(bad, fmt.Sprintf("%s at %s: slot %s is neither the slot whose token was compared equal to the request token nor the slot whose token was moved into e.primary - another attempt's reservation is destroyed", what, c.P.InstrPos(in), Path(idx)))
		}
	}
	xc32Report(c, rule, a.name+"#vacated-slot-is-matched-or-promoted", pos, nSites, bad, good)

	// (2) e.primary is overwritten only when it holds the request token or was saved into the matched
	// slot; a promoted slot token is removed from its slot on every path and brings its own metadata
	bad, good = nil, nil
	for _, p := range primaries {
		at := c.P.InstrPos(p.in)
		saved := false
		for _, s := range saves {
			if xc32Dominates(s, p.in) {
				saved = true
			}
		}
		if !saved && !a.primaryIsRequestAt(p.in) {
			bad = append(bad, fmt.Sprintf("e.primary is overwritten at %s although it is not known to hold the request token and was not saved into the matched slot first - a live primary reservation is lost", at))
			continue
		}
		if xc32IsZeroValue(p.in.Val) {
			good = append(good, "clear")
			continue
		}
		j, read, ok := a.slotRef(p.in.Val, "token")
		if !ok || a.stale(read, nil) {
			bad = append(bad, fmt.Sprintf("e.primary = %s at %s: the new primary token is not the token of an identified extraAttempts slot", Path(p.in.Val), at))
			continue
		}
		removal := InstrFn{"removal of the promoted slot", func(in ssa.Instruction) bool {
			idx, _, ok := a.vacated(in)
			_, isCall := in.(ssa.CallInstruction)
			return ok && isCall && a.sameIdx(idx, j)
		}}
		if c.escapesWithout(fn, p.in, removal) {
			bad = append(bad, fmt.Sprintf("the token of slot %s is moved into e.primary at %s but a return is reachable without removeExtraAttempt of that same slot - the token is duplicated and a different attempt may be dropped instead", Path(j), at))
			continue
		}
		paired := false
		for _, q := range pendings {
			k, r2, ok := a.slotRef(q.Val, "pending")
			if ok && a.sameIdx(k, j) && !a.stale(r2, nil) && (xc32Dominates(q, p.in) || xc32Dominates(p.in, q)) {
				paired = true
			}
		}
		if !paired {
			bad = append(bad, fmt.Sprintf("slot %s's token is promoted at %s without e.pending being taken from the same slot", Path(j), at))
			continue
		}
		good = append(good, "promotion of slot "+Path(j))
	}
	xc32Report(c, rule, a.name+"#primary-overwrite-conserves-tokens", pos, len(primaries), bad, good)

	// (3) the metadata written to e.pending belongs to the matched or the promoted slot
	bad, good = nil, nil
	for _, q := range pendings {
		at := c.P.InstrPos(q)
		k, read, ok := a.slotRef(q.Val, "pending")
		if !ok || a.stale(read, nil) {
			bad = append(bad, fmt.Sprintf("e.pending = %s at %s is not the metadata of an identified extraAttempts slot", Path(q.Val), at))
			continue
		}
		okSlot := a.matchedAt(q, k)
		for _, p := range primaries {
			if j, _, ok := a.slotRef(p.in.Val, "token"); ok && a.sameIdx(j, k) && (xc32Dominates(q, p.in) || xc32Dominates(p.in, q)) {
				okSlot = true
			}
		}
		if !okSlot {
			bad = append(bad, fmt.Sprintf("e.pending at %s is taken from slot %s, which is neither the matched nor the promoted slot", at, Path(k)))
			continue
		}
		good = append(good, "slot "+Path(k))
	}
	xc32Report(c, rule, a.name+"#pending-from-matched-or-promoted-slot", pos, len(pendings), bad, good)
}

func xc32Report(c *Ctx, rule, construct, pos string, n int, bad, good []string) {
	sort.Strings(bad)
	switch {
	case len(bad) > 0:
		c.add("flow", rule, construct, Violated, pos, strings.Join(bad, "; "))
	case n == 0:
		c.add("flow", rule, construct, Undecided, pos, "no site found (vacuous: the code moved, update the rule)")
	default:
		c.add("flow", rule, construct, Held, pos, fmt.Sprintf("%d site(s): %s", n, strings.Join(dedup(good), "; ")))
	}
}

// xc32SwapRemove decides that removeExtraAttempt(index) removes exactly slot `index`:
//   - the only element stores are  extraAttempts[index] = extraAttempts[len-1]  and  extraAttempts[len-1] = zero,
//   - the slice is only ever set to nil (behind len-1 == 0) or to extraAttempts[:len-1],
//   - the shrink is reachable only through  index == len-1  or after the move into `index`.
func xc32SwapRemove(c *Ctx, rule string, fn *ssa.Function) {
	a := xc32NewAttempts(c, fn, false)
	if a == nil {
		return
	}
	pos := c.P.Pos(fn.Pos())
	var idxParam *ssa.Parameter
	for _, p := range fn.Params[1:] {
		if b, ok := p.Type().Underlying().(*types.Basic); ok && b.Info()&types.IsInteger != 0 {
			if idxParam != nil {
				idxParam = nil
				break
			}
			idxParam = p
		}
	}
	if idxParam == nil {
		c.add("anchor", rule, "shape:"+a.name, Undecided, pos, "expected exactly one integer index parameter")
		return
	}
	isLast := func(v ssa.Value) bool { // len(e.extraAttempts) - 1
		b, ok := stripConv(v).(*ssa.BinOp)
		if !ok || b.Op != token.SUB || !c32IsOneConst(stripConv(b.Y)) {
			return false
		}
		s, ok := c32IsLen(stripConv(b.X))
		return ok && a.loadOfRecvField(s, a.extras)
	}
	var bad, good []string
	var moves, shrinks []ssa.Instruction
	for _, b := range fn.Blocks {
		for _, in := range b.Instrs {
			st, ok := in.(*ssa.Store)
			if !ok {
				if ci, isCall := in.(ssa.CallInstruction); isCall && a.isMutation(in) {
					bad = append(bad, "the entry is handed to "+calleeName(ci.Common())+" at "+c.P.InstrPos(in))
				}
				continue
			}
			at := c.P.InstrPos(in)
			if idx, ok := a.slotAddr(st.Addr); ok {
				src, _, isSlot := a.slotLoad(st.Val)
				switch {
				case idx == ssa.Value(idxParam) && isSlot && isLast(src):
					moves = append(moves, in)
					good = append(good, "move last→index")
				case isLast(idx) && xc32IsZeroValue(st.Val):
					good = append(good, "zero last")
				default:
					bad = append(bad, fmt.Sprintf("element store extraAttempts[%s] = %s at %s is neither the move of the last element into `%s` nor the zeroing of the last element", Path(idx), Path(st.Val), at, idxParam.Name()))
				}
				continue
			}
			if fa, ok := st.Addr.(*ssa.FieldAddr); ok {
				if _, ok := a.slotAddr(fa.X); ok {
					bad = append(bad, "partial slot store at "+at)
					continue
				}
			}
			if a.recvField(st.Addr, a.extras) {
				shrinks = append(shrinks, in)
				v := stripConv(st.Val)
				sl, isSl := v.(*ssa.Slice)
				switch {
				case xc32IsZeroValue(v):
					zero := xc32EqEdges(fn, func(x, y ssa.Value) bool { return isLast(x) && c32IsZeroConst(stripConv(y)) })
					if len(zero) == 0 || xc32Unguarded(fn, zero, in) {
						bad = append(bad, "extraAttempts = nil at "+at+" is reachable without len(extraAttempts)-1 == 0")
					} else {
						good = append(good, "nil when it was the only slot")
					}
				case isSl && sl.Low == nil && sl.Max == nil && sl.High != nil && isLast(sl.High) && a.loadOfRecvField(sl.X, a.extras):
					good = append(good, "shrink by one")
				default:
					bad = append(bad, fmt.Sprintf("extraAttempts = %s at %s is not extraAttempts[:len-1] / nil", Path(st.Val), at))
				}
			}
		}
	}
	if len(shrinks) == 0 {
		bad = append(bad, "the slice is never shrunk")
	}
	// shrink only via index == last, or after the move
	isLastIdx := xc32EqEdges(fn, func(x, y ssa.Value) bool { return stripConv(x) == ssa.Value(idxParam) && isLast(y) })
	moveBlocks := map[*ssa.BasicBlock]int{}
	for _, m := range moves {
		moveBlocks[m.Block()] = indexIn(m.Block(), m)
	}
	// forward reachability from the entry that stops at guard edges and at move stores
	limit := map[*ssa.BasicBlock]int{}
	if len(fn.Blocks) > 0 {
		work := []*ssa.BasicBlock{fn.Blocks[0]}
		seen := map[*ssa.BasicBlock]bool{fn.Blocks[0]: true}
		for len(work) > 0 {
			b := work[len(work)-1]
			work = work[:len(work)-1]
			if i, ok := moveBlocks[b]; ok {
				limit[b] = i
				continue
			}
			limit[b] = len(b.Instrs)
			for si, s := range b.Succs {
				if !isLastIdx[edge{b, si}] && !seen[s] {
					seen[s] = true
					work = append(work, s)
				}
			}
		}
	}
	for _, s := range shrinks {
		if lim, ok := limit[s.Block()]; ok && indexIn(s.Block(), s) < lim {
			bad = append(bad, fmt.Sprintf("the slice is shrunk at %s on a path where `%s` is not the last slot and the last element was not moved into it: the last attempt is dropped instead of attempt `%s`", c.P.InstrPos(s), idxParam.Name(), idxParam.Name()))
		}
	}
	xc32Report(c, rule, a.name+"#swap-remove-of-index", pos, len(shrinks)+len(moves), bad, good)
}
