package main

import (
	"fmt"
	"go/types"
	"sort"
	"strings"

	"golang.org/x/tools/go/ssa"
)

func init() {
	register(&PropSpec{
		ID:        "C05",
		Pkgs:      []string{"./pkg/quorumlog", "./pkg/channel", "./pkg/db/message"},
		Technique: "static analysis: struct-field coverage + SSA def-use flow of every field into the hash sink through fixed-width or length-prefixed writers, edge-dominance guards on derive/verify, complete-literal check on the record adapters",
		Explain: "Decides the structural injectivity argument of the entry digest, everything except SHA-256 itself: (R1) every field of quorumlog.Record and quorumlog.EntryIdentity is read by digestProposalEntry and flows (SSA def-use) into hash.Write, exemptions Version (bound by the domain-separation literal), Digest (the output), Record.Index/Epoch (R3 forces them equal to the hashed entry.Index/ChannelEpoch); (R2) framing: integer and array fields are written with a constant width, every variable-length field (string/slice) is written only through the closure that writes its length first, and the only data-dependent branch is the SyncOnce flag whose two arms write distinct constants; (R3) DeriveProposalEntries reaches the digest and VerifyEntry returns true only behind record.Index in {0,index}, record.Epoch == ChannelEpoch, and VerifyEntry's result is the comparison digest(entry,record) == entry.Digest; (R4) the three adapters that build quorumlog.Record set all nine fields. A field added to Record/EntryIdentity but not hashed is reported by name. NOT decided: collision resistance of SHA-256 (assumed), digest values, that callers pass the record they stored.",
		Run:       c05,
		Mutants: []Mutant{
			{Name: "drop-clientmsgno", File: "pkg/quorumlog/proposal.go", Old: "\twriteBytes([]byte(record.ClientMsgNo))\n", New: "", Expect: "C05/R1*"},
			{Name: "drop-fence", File: "pkg/quorumlog/proposal.go", Old: "\twriteUint64(entry.FenceVersion)\n", New: "", Expect: "C05/R1*"},
			{Name: "unframed-payload", File: "pkg/quorumlog/proposal.go", Old: "\twriteBytes(record.Payload)\n", New: "\t_, _ = hash.Write(record.Payload)\n", Expect: "C05/R2*"},
			{Name: "no-length-prefix", File: "pkg/quorumlog/proposal.go", Old: "\t\twriteUint64(uint64(len(value)))\n", New: "", Expect: "C05/R2*"},
			{Name: "synconce-same-byte", File: "pkg/quorumlog/proposal.go", Old: "_, _ = hash.Write([]byte{0})", New: "_, _ = hash.Write([]byte{1})", Expect: "C05/R2*"},
			{Name: "verify-skips-epoch", File: "pkg/quorumlog/proposal.go", Old: "\t\trecord.Epoch != entry.ChannelEpoch || record.ServerTimestampMS <= 0 {", New: "\t\trecord.ServerTimestampMS <= 0 {", Expect: "C05/R3*"},
			{Name: "derive-skips-index", File: "pkg/quorumlog/proposal.go", Old: "if record.ID == 0 || (record.Index != 0 && record.Index != index) || record.Epoch != manifest.ChannelEpoch", New: "if record.ID == 0 || record.Epoch != manifest.ChannelEpoch", Expect: "C05/R3*"},
			{Name: "verify-always-true-digest", File: "pkg/quorumlog/proposal.go", Old: "\treturn digestProposalEntry(entry, record) == entry.Digest\n", New: "\t_ = digestProposalEntry(entry, record)\n\treturn true\n", Expect: "C05/R3*"},
			{Name: "adapter-forgets-synconce", File: "pkg/db/message/proposal_manifest.go", Old: "ServerTimestampMS: row.ServerTimestampMS, SyncOnce: row.FramerFlags&4 != 0,\n\t\t\tPayload: row.Payload,\n\t\t}\n\t})\n}", New: "ServerTimestampMS: row.ServerTimestampMS,\n\t\t\tPayload: row.Payload,\n\t\t}\n\t})\n}", Expect: "C05/R4*"},
		},
	})
}

func c05(c *Ctx) {
	digest := c.Fn("pkg/quorumlog.digestProposalEntry")
	if digest == nil {
		return
	}
	fns := WithClosures(digest)
	exRecord := map[string]string{
		"Index": "R3: derive/verify force record.Index ∈ {0, entry.Index}; entry.Index is hashed",
		"Epoch": "R3: derive/verify force record.Epoch == entry.ChannelEpoch, which is hashed",
	}
	exEntry := map[string]string{
		"Version": "bound by the domain-separation literal \"wukongim/channel-entry/v1\" and checked == ProposalManifestVersion by derive/verify",
		"Digest":  "the output of the digest",
	}
	c.Cover("R1-cover", fns, "pkg/quorumlog.Record", exRecord)
	c.Cover("R1-cover", fns, "pkg/quorumlog.EntryIdentity", exEntry)
	c05Flow(c, digest, "pkg/quorumlog.Record", exRecord)
	c05Flow(c, digest, "pkg/quorumlog.EntryIdentity", exEntry)
	c05Branches(c, digest)

	// R3: derive/verify guards
	derive := c.Fn("pkg/quorumlog.DeriveProposalEntries")
	c.Guard("R3-derive", derive, CallTo{"pkg/quorumlog.digestProposalEntry"},
		"*.Index == 0 || *.Index == (*)",
		"*.Epoch == manifest.ChannelEpoch",
		"manifest.Version == 1",
		"manifest.PreviousIndex == manifest.BaseOffset",
	)
	c.CallShape("R3-derive", derive, "pkg/quorumlog.digestProposalEntry", "pkg/quorumlog.digestProposalEntry(*, *)")
	verify := c.Fn("pkg/quorumlog.VerifyEntry")
	c.GuardTrue("R3-verify", verify, 0,
		"pkg/quorumlog.digestProposalEntry(entry, record) == entry.Digest",
		"record.Index == 0 || record.Index == entry.Index",
		"record.Epoch == entry.ChannelEpoch",
		"entry.Version == 1",
		"(entry.PreviousIndex + 1) == entry.Index",
	)

	// R4: adapters build complete records
	for _, name := range []string{"pkg/channel.DeriveProposalEntries$1", "pkg/db/message.deriveDurableProposalEntries$1", "pkg/db/message.verifyBackupRowIdentity"} {
		c.LiteralComplete("R4-adapters", c.Fn(name), "pkg/quorumlog.Record", nil, nil)
	}
	// every construction site of quorumlog.Record in the loaded packages is one of the checked adapters (or test-free helper inside quorumlog)
	c05RecordLiteralSites(c)
}

// c05Flow: every non-exempt field read in the digest function flows into the hash sink
// through an accepted writer; variable-length fields only through the length-prefixing closure.
func c05Flow(c *Ctx, digest *ssa.Function, structName string, exempt map[string]string) {
	T := c.lookupType(structName)
	if T == nil {
		c.add("anchor", "anchor", structName, Undecided, "", "struct not found")
		return
	}
	st := T.Underlying().(*types.Struct)
	// classify local closures
	fixedW, lenPrefixed := c05Closures(digest)
	reads := fieldReads([]*ssa.Function{digest}, func(v ssa.Value) bool { return sameNamed(v.Type(), T) })
	for i := 0; i < st.NumFields(); i++ {
		f := st.Field(i)
		if _, ok := exempt[f.Name()]; ok {
			continue
		}
		construct := fmt.Sprintf("%s.%s→hash", structName, f.Name())
		vals := reads[f.Name()]
		if len(vals) == 0 {
			c.add("cover", "R1-flow", construct, Violated, c.P.Pos(digest.Pos()), "field is not read by the digest function")
			continue
		}
		varLen := false
		switch u := f.Type().Underlying().(type) {
		case *types.Slice:
			varLen = true
		case *types.Basic:
			varLen = u.Info()&types.IsString != 0
		}
		isBool := false
		if b, ok := f.Type().Underlying().(*types.Basic); ok && b.Info()&types.IsBoolean != 0 {
			isBool = true
		}
		var good, badEnds []string
		for _, v := range vals {
			for _, e := range forwardFlow(v, []string{"len"}) {
				switch e.Kind {
				case "call":
					target := c05CallTarget(e.In)
					switch {
					case target != nil && lenPrefixed[target]:
						good = append(good, "length-prefixed writer "+funcShortName(target))
					case target != nil && fixedW[target] && !varLen:
						good = append(good, "fixed-width writer "+funcShortName(target))
					case (e.Name == "io.Writer.Write" || e.Name == "hash.Hash.Write") && e.Arg >= 1 && !varLen:
						good = append(good, "direct constant-width hash.Write")
					default:
						badEnds = append(badEnds, e.String()+" at "+c.P.InstrPos(e.In))
					}
				case "if":
					if isBool {
						good = append(good, "two-way flag branch")
					} else {
						badEnds = append(badEnds, "branch at "+c.P.InstrPos(e.In))
					}
				case "cmp":
					if isBool {
						good = append(good, "flag test")
					}
				default:
					badEnds = append(badEnds, e.String()+" at "+c.P.InstrPos(e.In))
				}
			}
		}
		rule := "R1-flow"
		if varLen {
			rule = "R2-framing"
		}
		switch {
		case len(badEnds) > 0:
			c.add("cover", rule, construct, Violated, c.P.Pos(vals[0].Pos()), fmt.Sprintf("field %s reaches the hash (or leaves the function) outside an accepted framed writer: %s", f.Name(), strings.Join(dedup(badEnds), "; ")))
		case len(good) == 0:
			c.add("cover", rule, construct, Violated, c.P.Pos(vals[0].Pos()), "field is read but never flows into the hash")
		default:
			c.add("cover", rule, construct, Held, c.P.Pos(vals[0].Pos()), "flows into the hash via "+strings.Join(dedup(good), ", "))
		}
	}
}

// c05CallTarget resolves a call to a closure declared in the same function (directly or through a local variable).
func c05CallTarget(in ssa.Instruction) *ssa.Function {
	ci, ok := in.(ssa.CallInstruction)
	if !ok {
		return nil
	}
	switch v := ci.Common().Value.(type) {
	case *ssa.Function:
		if v.Parent() != nil {
			return v
		}
	case *ssa.MakeClosure:
		if fn, ok := v.Fn.(*ssa.Function); ok {
			return fn
		}
	case *ssa.UnOp:
		// load of a local variable / free variable holding a closure
		var holder ssa.Value = v.X
		if fv, ok := holder.(*ssa.FreeVar); ok {
			// find the binding in the parent
			par := fv.Parent().Parent()
			if par == nil {
				return nil
			}
			for _, b := range par.Blocks {
				for _, pin := range b.Instrs {
					if mc, ok := pin.(*ssa.MakeClosure); ok && mc.Fn == ssa.Value(fv.Parent()) {
						for i, bv := range mc.Bindings {
							if i < len(fv.Parent().FreeVars) && fv.Parent().FreeVars[i] == fv {
								holder = bv
							}
						}
					}
				}
			}
		}
		if a, ok := holder.(*ssa.Alloc); ok && a.Referrers() != nil {
			var found *ssa.Function
			n := 0
			for _, r := range *a.Referrers() {
				if st, ok := r.(*ssa.Store); ok && st.Addr == ssa.Value(a) {
					n++
					if mc, ok := st.Val.(*ssa.MakeClosure); ok {
						found, _ = mc.Fn.(*ssa.Function)
					}
				}
			}
			if n == 1 {
				return found
			}
		}
	}
	return nil
}

// c05Closures classifies the closures of the digest function: fixed-width writers
// (PutUintN into a buffer, then hash.Write of the buffer, no branch) and
// length-prefixing writers (fixed-width write of len(param) strictly before hash.Write(param)).
func c05Closures(digest *ssa.Function) (fixedW, lenPrefixed map[*ssa.Function]bool) {
	fixedW, lenPrefixed = map[*ssa.Function]bool{}, map[*ssa.Function]bool{}
	isWrite := func(in ssa.Instruction) bool {
		ci, ok := in.(ssa.CallInstruction)
		if !ok {
			return false
		}
		n := calleeName(ci.Common())
		return n == "io.Writer.Write" || n == "hash.Hash.Write"
	}
	for _, cl := range digest.AnonFuncs {
		if len(cl.Blocks) != 1 || len(cl.Params) != 1 {
			continue
		}
		put, write := -1, -1
		for i, in := range cl.Blocks[0].Instrs {
			if ci, ok := in.(ssa.CallInstruction); ok {
				if strings.HasPrefix(calleeName(ci.Common()), "encoding/binary.bigEndian.PutUint") && put < 0 {
					args := ci.Common().Args
					if len(args) == 3 && stripConv(args[2]) == ssa.Value(cl.Params[0]) {
						put = i
					}
				}
			}
			if isWrite(in) && write < 0 {
				write = i
			}
		}
		if put >= 0 && write > put {
			fixedW[cl] = true
		}
	}
	for _, cl := range digest.AnonFuncs {
		if len(cl.Blocks) != 1 || len(cl.Params) != 1 {
			continue
		}
		lenAt, write := -1, -1
		for i, in := range cl.Blocks[0].Instrs {
			if t := c05CallTarget(in); t != nil && fixedW[t] && lenAt < 0 {
				ci := in.(ssa.CallInstruction)
				if len(ci.Common().Args) == 1 {
					if lc, ok := stripConv(ci.Common().Args[0]).(*ssa.Call); ok {
						if b, ok := lc.Call.Value.(*ssa.Builtin); ok && b.Name() == "len" && lc.Call.Args[0] == ssa.Value(cl.Params[0]) {
							lenAt = i
						}
					}
				}
			}
			if isWrite(in) && write < 0 {
				ci := in.(ssa.CallInstruction)
				args := callArgs(ci.Common())
				if len(args) == 2 && args[1] == ssa.Value(cl.Params[0]) {
					write = i
				}
			}
		}
		if lenAt >= 0 && write > lenAt {
			lenPrefixed[cl] = true
		}
	}
	return
}

// c05Branches: the only branches of the digest function test a bool field of the record and
// their two arms write distinct one-byte constants.
func c05Branches(c *Ctx, digest *ssa.Function) {
	construct := "pkg/quorumlog.digestProposalEntry#branches"
	var bad []string
	n := 0
	for _, fn := range WithClosures(digest) {
		for _, b := range fn.Blocks {
			if len(b.Instrs) == 0 {
				continue
			}
			iff, ok := b.Instrs[len(b.Instrs)-1].(*ssa.If)
			if !ok {
				continue
			}
			n++
			a, ok := condAtom(iff.Cond, true)
			if !ok || !strings.HasPrefix(a.L, "record.") || a.R != "true" {
				bad = append(bad, "data-dependent branch on "+Path(iff.Cond)+" at "+c.P.InstrPos(iff))
				continue
			}
			consts := map[string]bool{}
			for _, s := range b.Succs {
				for _, in := range s.Instrs {
					if st, ok := in.(*ssa.Store); ok {
						if k, ok := st.Val.(*ssa.Const); ok {
							consts[constString(k)] = true
						}
					}
				}
			}
			if len(consts) < 2 {
				var ks []string
				for k := range consts {
					ks = append(ks, k)
				}
				sort.Strings(ks)
				bad = append(bad, fmt.Sprintf("the two arms of the flag branch at %s do not write distinct constants (%v)", c.P.InstrPos(iff), ks))
			}
		}
	}
	if len(bad) > 0 {
		c.add("cover", "R2-framing", construct, Violated, c.P.Pos(digest.Pos()), strings.Join(bad, "; "))
		return
	}
	c.add("cover", "R2-framing", construct, Held, c.P.Pos(digest.Pos()), fmt.Sprintf("%d branch(es), each a two-way flag test writing distinct constants", n))
}

// c05RecordLiteralSites: quorumlog.Record values are constructed only in the checked adapters.
func c05RecordLiteralSites(c *Ctx) {
	T := c.lookupType("pkg/quorumlog.Record")
	if T == nil {
		return
	}
	allowed := []string{"pkg/channel.DeriveProposalEntries$1", "pkg/db/message.deriveDurableProposalEntries$1", "pkg/db/message.verifyBackupRowIdentity"}
	sites := map[string]bool{}
	for _, fn := range c.P.AllFuncs {
		for _, b := range fn.Blocks {
			for _, in := range b.Instrs {
				st, ok := in.(*ssa.Store)
				if !ok {
					continue
				}
				fa, ok := st.Addr.(*ssa.FieldAddr)
				if !ok || !sameNamed(fa.X.Type(), T) {
					continue
				}
				if a, ok := fa.X.(*ssa.Alloc); ok && spilledParam(a) == nil {
					sites[c.P.Name(fn)] = true
				}
			}
		}
	}
	var bad []string
	for s := range sites {
		if !globAny(allowed, s) {
			bad = append(bad, s)
		}
	}
	sort.Strings(bad)
	construct := "literal-sites:pkg/quorumlog.Record"
	if len(bad) > 0 {
		c.add("confine", "R4-adapters", construct, Violated, "", fmt.Sprintf("quorumlog.Record is constructed field-by-field outside the checked adapters: %v (add the adapter to the complete-literal table)", bad))
		return
	}
	c.add("confine", "R4-adapters", construct, Held, "", fmt.Sprintf("%d construction site(s), all checked adapters", len(sites)))
}
