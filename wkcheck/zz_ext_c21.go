package main

import (
	"fmt"
	"go/token"
	"go/types"
	"sort"
	"strings"

	"golang.org/x/tools/go/ssa"
)

// Extension rules for C21 found by seeded change C21-c (Node.HashSlotForKey stopped reading the installed route
// table's hash-slot count and resolved it from the published snapshot / the configuration instead, so between the
// route-table install and the snapshot publication it maps keys with another count than Node.RouteKey does).
//
// props_c21.go proves WHAT every mapper computes from (key, count) and lists under "NOT decided" which count a
// wrapper passes. "Every component computes the same value for the same key" also needs every component of ONE
// node to use the SAME count. The routing path (Router.RouteKey → routeKey) reads it from the installed
// routing.Table; so a wrapper that owns a router and picks the count itself must pick that one:
//
//	X1-count-source, for every call  mapper(key, count)  of a confirmed mapper inside a method whose receiver
//	struct holds a *routing.Router:
//	  (a) reads-installed-table : the value tree of `count` (through φ) contains the leaf
//	      recv.<router field>.Table().HashSlotCount - the installed table's count of this very receiver;
//	  (b) table-count-wins : every other non-zero leaf (snapshot, control snapshot, configuration, …) enters the
//	      tree on a φ edge that is reachable from the entry only across an edge establishing `W == 0`, where W is
//	      itself a value that carries the installed-table leaf and satisfies (b) ("table first" is inductive along
//	      the fallback chain). A leaf that is not behind such an edge can override or pre-empt the installed count.
//
// The analysis is on SSA values and CFG edges: it does not depend on the names of locals, on the order or
// placement of the loads (hoisting the snapshot loads out of the `if` is fine), on locking, logging or added early
// returns. NOT decided: the relative order of the fallbacks among themselves (they are only consulted while no table
// with a non-zero count is installed), and callers that are handed the count as a parameter
// (messageEventStreamCache.removeHashSlotsObserved: the count of the table being retired, by design).
func init() {
	const f = "pkg/cluster/node_slot_proxy_port.go"
	extend("C21", nil, func(c *Ctx) {
		xc21CountSource(c, "X1-count-source", 1)
	},
		// the seeded change: the router lookup is gone, the published snapshot is the first source
		Mutant{Name: "x-count-ignores-installed-table", File: f,
			Old:    "\tcount := uint16(0)\n\tif n.router != nil {\n\t\tif table := n.router.Table(); table != nil {\n\t\t\tcount = table.HashSlotCount\n\t\t}\n\t}\n\tif count == 0 {\n",
			New:    "\tn.mu.RLock()\n\tcount := n.snapshot.HashSlotCount\n\tn.mu.RUnlock()\n\tif count == 0 {\n",
			Expect: "C21/X1-count-source/*Node.HashSlotForKey*reads-installed-table"},
		// sibling: the table is still read, but a published snapshot overrides it
		Mutant{Name: "x-snapshot-count-overrides-table", File: f,
			Old:    "\tif count == 0 {\n\t\tn.mu.RLock()\n\t\tcount = n.snapshot.HashSlotCount\n\t\tif count == 0 {\n\t\t\tcount = n.controlSnapshot.HashSlots.Count\n\t\t}\n\t\tn.mu.RUnlock()\n\t}\n",
			New:    "\tn.mu.RLock()\n\tif n.snapshot.HashSlotCount != 0 {\n\t\tcount = n.snapshot.HashSlotCount\n\t}\n\tn.mu.RUnlock()\n",
			Expect: "C21/X1-count-source/*Node.HashSlotForKey*table-count-wins"},
		// sibling: the configured count pre-empts the installed one
		Mutant{Name: "x-config-count-before-table", File: f,
			Old:    "\tcount := uint16(0)\n\tif n.router != nil {\n",
			New:    "\tcount := n.cfg.Slots.HashSlotCount\n\tif count == 0 && n.router != nil {\n",
			Expect: "C21/X1-count-source/*Node.HashSlotForKey*table-count-wins"},
		// sibling: the last fallback is taken whenever the SNAPSHOT count is zero, whatever the table says
		Mutant{Name: "x-config-fallback-tests-wrong-value", File: f,
			Old:    "\tif count == 0 {\n\t\tcount = n.cfg.Slots.HashSlotCount\n\t}\n",
			New:    "\tif n.snapshot.HashSlotCount == 0 {\n\t\tcount = n.cfg.Slots.HashSlotCount\n\t}\n",
			Expect: "C21/X1-count-source/*Node.HashSlotForKey*table-count-wins"},
	)
}

func xc21IsRouterPtr(t types.Type) bool {
	p, ok := t.Underlying().(*types.Pointer)
	if !ok {
		return false
	}
	n, ok := p.Elem().(*types.Named)
	return ok && n.Obj().Name() == "Router" && n.Obj().Pkg() != nil && shortPkg(n.Obj().Pkg().Path()) == "pkg/cluster/routing"
}

// xc21RouterField: index of the *routing.Router field of the receiver's struct, or -1.
func xc21RouterField(fn *ssa.Function) int {
	if fn.Signature.Recv() == nil || len(fn.Params) == 0 {
		return -1
	}
	t := fn.Params[0].Type()
	if p, ok := t.Underlying().(*types.Pointer); ok {
		t = p.Elem()
	}
	st, ok := t.Underlying().(*types.Struct)
	if !ok {
		return -1
	}
	for i := 0; i < st.NumFields(); i++ {
		if xc21IsRouterPtr(st.Field(i).Type()) {
			return i
		}
	}
	return -1
}

// xc21IsPrimary: v is  recv.<router>.Table().HashSlotCount  (loads transparent).
func xc21IsPrimary(v ssa.Value, fn *ssa.Function, routerField int) bool {
	ld, ok := stripConv(v).(*ssa.UnOp)
	if !ok || ld.Op != token.MUL {
		return false
	}
	fa, ok := ld.X.(*ssa.FieldAddr)
	if !ok || fieldName(fa.X.Type(), fa.Field) != "HashSlotCount" || typeBaseName(fa.X.Type()) != "Table" {
		return false
	}
	call, ok := stripConv(fa.X).(*ssa.Call)
	if !ok || call.Call.IsInvoke() || calleeName(&call.Call) != "pkg/cluster/routing.Router.Table" || len(call.Call.Args) != 1 {
		return false
	}
	rl, ok := stripConv(call.Call.Args[0]).(*ssa.UnOp)
	if !ok || rl.Op != token.MUL {
		return false
	}
	rfa, ok := rl.X.(*ssa.FieldAddr)
	return ok && rfa.Field == routerField && rfa.X == ssa.Value(fn.Params[0])
}

func xc21IsZero(v ssa.Value) bool {
	u, ok := constUint(stripConv(v))
	return ok && u == 0
}

type xc21Intro struct {
	leaf ssa.Value
	from *ssa.BasicBlock // nil: the value is the root itself (introduced unconditionally)
	to   *ssa.BasicBlock
}

// xc21Leaves decomposes v through φ into (leaf, introducing edge) pairs.
func xc21Leaves(v ssa.Value) []xc21Intro {
	var out []xc21Intro
	seen := map[*ssa.Phi]bool{}
	var walk func(p *ssa.Phi)
	walk = func(p *ssa.Phi) {
		if seen[p] {
			return
		}
		seen[p] = true
		for i, e := range p.Edges {
			e = stripConv(e)
			if q, ok := e.(*ssa.Phi); ok {
				walk(q)
				continue
			}
			out = append(out, xc21Intro{e, p.Block().Preds[i], p.Block()})
		}
	}
	v = stripConv(v)
	if p, ok := v.(*ssa.Phi); ok {
		walk(p)
	} else {
		out = append(out, xc21Intro{v, nil, nil})
	}
	return out
}

type xc21An struct {
	fn          *ssa.Function
	routerField int
	visiting    map[ssa.Value]bool
}

func (a *xc21An) hasPrimary(v ssa.Value) bool {
	for _, in := range xc21Leaves(v) {
		if xc21IsPrimary(in.leaf, a.fn, a.routerField) {
			return true
		}
	}
	return false
}

// zeroEdges: the CFG edges on which `W == 0` is established for some W that carries the installed-table leaf and is
// itself table-first.
func (a *xc21An) zeroEdges() (map[edge]bool, []string) {
	removed := map[edge]bool{}
	var descr []string
	for _, b := range a.fn.Blocks {
		if len(b.Instrs) == 0 {
			continue
		}
		iff, ok := b.Instrs[len(b.Instrs)-1].(*ssa.If)
		if !ok {
			continue
		}
		cond, truth := iff.Cond, true
		for {
			u, ok := cond.(*ssa.UnOp)
			if !ok || u.Op != token.NOT {
				break
			}
			cond, truth = u.X, !truth
		}
		bo, ok := cond.(*ssa.BinOp)
		if !ok || (bo.Op != token.EQL && bo.Op != token.NEQ) {
			continue
		}
		var w ssa.Value
		switch {
		case xc21IsZero(bo.Y):
			w = stripConv(bo.X)
		case xc21IsZero(bo.X):
			w = stripConv(bo.Y)
		default:
			continue
		}
		if !a.hasPrimary(w) {
			continue
		}
		if bad := a.tableFirst(w); len(bad) > 0 {
			continue
		}
		// succ 0 is taken when the condition is true
		zeroSucc := 0
		if (bo.Op == token.NEQ) == truth {
			zeroSucc = 1
		}
		removed[edge{b, zeroSucc}] = true
		descr = append(descr, Path(w)+" == 0")
	}
	return removed, descr
}

// tableFirst returns the reasons why v is NOT "installed table count first" (empty: it is).
func (a *xc21An) tableFirst(v ssa.Value) []string {
	v = stripConv(v)
	if a.visiting[v] {
		return []string{"cyclic dependency between the count and its own guard"}
	}
	intros := xc21Leaves(v)
	var fallbacks []xc21Intro
	for _, in := range intros {
		if xc21IsZero(in.leaf) || xc21IsPrimary(in.leaf, a.fn, a.routerField) {
			continue
		}
		fallbacks = append(fallbacks, in)
	}
	if len(fallbacks) == 0 {
		return nil
	}
	a.visiting[v] = true
	removed, _ := a.zeroEdges()
	delete(a.visiting, v)
	limit := reachUnguarded(a.fn, removed, nil)
	var bad []string
	for _, in := range fallbacks {
		if in.from == nil {
			bad = append(bad, fmt.Sprintf("%s is used unconditionally", Path(in.leaf)))
			continue
		}
		if _, reachable := limit[in.from]; !reachable {
			continue
		}
		open := false
		for si, s := range in.from.Succs {
			if s == in.to && !removed[edge{in.from, si}] {
				open = true
			}
		}
		if open {
			bad = append(bad, fmt.Sprintf("%s becomes the count on a path that never established \"installed table count == 0\"", Path(in.leaf)))
		}
	}
	return dedup(bad)
}

func xc21CountSource(c *Ctx, rule string, minSites int) {
	mapper := map[string]bool{}
	for _, m := range c21Mappers {
		mapper[m] = true
	}
	sites := 0
	for _, fn := range c.P.AllFuncs {
		rf := xc21RouterField(fn)
		if rf < 0 {
			continue
		}
		fname := c.P.Name(fn)
		for _, b := range fn.Blocks {
			for _, ins := range b.Instrs {
				call, ok := ins.(*ssa.Call)
				if !ok || call.Call.IsInvoke() || !mapper[calleeName(&call.Call)] || len(call.Call.Args) != 2 {
					continue
				}
				sites++
				c.FuncsAnalysed[fname] = true
				pos := c.P.InstrPos(call)
				base := fmt.Sprintf("%s#count-of(%s)", fname, calleeName(&call.Call))
				count := call.Call.Args[1]
				a := &xc21An{fn: fn, routerField: rf, visiting: map[ssa.Value]bool{}}

				// a separate call that is reached only after a table-first count was found zero is a fallback SITE
				// (the same decision written as early returns instead of as one merged count)
				if !a.hasPrimary(count) {
					zeroed, zdescr := a.zeroEdges()
					lim, reach := reachUnguarded(fn, zeroed, nil)[b]
					if len(zeroed) > 0 && (!reach || indexIn(b, call) >= lim) {
						why := fmt.Sprintf("fallback call site: reachable only across an edge establishing that the table-first count is zero [%s]", strings.Join(dedup(zdescr), "; "))
						c.add("valueflow", rule, base+"#reads-installed-table", Held, pos, why)
						c.add("valueflow", rule, base+"#table-count-wins", Held, pos, why)
						continue
					}
				}
				var leaves []string
				for _, in := range xc21Leaves(count) {
					if !xc21IsZero(in.leaf) {
						leaves = append(leaves, Path(in.leaf))
					}
				}
				sort.Strings(leaves)
				leaves = dedup(leaves)
				if a.hasPrimary(count) {
					c.add("valueflow", rule, base+"#reads-installed-table", Held, pos, "the count's value tree contains the installed route table's count of the receiver's router; sources: "+strings.Join(leaves, ", "))
				} else {
					c.add("valueflow", rule, base+"#reads-installed-table", Violated, pos,
						fmt.Sprintf("%s owns a router but the hash-slot count it passes to the mapper never comes from the installed route table (recv.router.Table().HashSlotCount); sources: %s. Router.RouteKey maps the same key with the installed table's count, so the two disagree whenever these sources differ from it (e.g. before the snapshot is published)", fname, strings.Join(leaves, ", ")))
				}
				if bad := a.tableFirst(count); len(bad) > 0 {
					c.add("valueflow", rule, base+"#table-count-wins", Violated, pos, "a fallback source can pre-empt or override the installed route table's count: "+strings.Join(bad, "; "))
				} else {
					_, descr := a.zeroEdges()
					c.add("valueflow", rule, base+"#table-count-wins", Held, pos, fmt.Sprintf("every other source enters the count only across an edge establishing that the table-first value is zero [%s]", strings.Join(dedup(descr), "; ")))
				}
			}
		}
	}
	if sites < minSites {
		c.add("vacuity", rule, "self-counting-wrappers", Undecided, "", fmt.Sprintf("found %d mapper call(s) inside methods of a router-owning type, hand-confirmed minimum is %d (Node.HashSlotForKey moved or no longer calls a confirmed mapper?)", sites, minSites))
	}
}
