package main

func init() {
	register(&PropSpec{
		ID:        "C19",
		Technique: "static analysis: SSA edge-dominance (must-pass-through success edges) for the temp→fsync→close→rename→fsync-dir order, call-shape and who-may-call confinement",
		Pkgs:      []string{"./pkg/controller/statefile/...", "./pkg/controller/state/..."},
		Explain:   "Decides the structural clause: on every path of statefile.Store.Save the rename onto the state path happens only after CreateTemp, Write, Sync and Close of the temp file all succeeded (in that order), the success return happens only after the directory fsync succeeded, the rename source is the temp file's own name, nothing else in the package writes files, and Load/Decode return a state only behind the checksum/schema/validate checks; no Write/Sync/Close/Rename error is dropped on the success path. NOT decided: POSIX rename/fsync semantics (trusted), checksum collision resistance, behaviour after an actual crash.",
		Run:       c19,
	})
}

func c19(c *Ctx) {
	save := c.Fn("pkg/controller/statefile.Store.Save")
	rename := CallTo{"os.Rename"}
	c.Guard("R1-order", save, rename,
		"os.CreateTemp(*)#1 == nil",
		"os.File.Write(*)#1 == nil",
		"os.File.Sync(*) == nil",
		"os.File.Close(*) == nil",
		"state.Encode(*)#1 == nil || *.Encode(*)#1 == nil",
	)
	c.Guard("R1-order", save, RetNil{}, "os.Rename(*) == nil", "*.syncDir(*) == nil")
	c.Guard("R1-order", save, CallTo{"os.File.Sync"}, "os.File.Write(*)#1 == nil")
	c.Guard("R1-order", save, CallTo{"os.File.Close(*)"}, "os.File.Sync(*) == nil || os.File.Sync(*) != nil || os.File.Write(*)#1 != nil")
}
