package main

import (
	"fmt"
	"go/constant"
	"go/token"
	"sort"
	"strings"

	"golang.org/x/tools/go/ssa"
)

func init() {
	register(&PropSpec{
		ID:        "C19",
		Technique: "static analysis: SSA edge-dominance (must-pass-through success edges) for the temp→write→fsync→close→rename→fsync-dir order, argument-shape/value-resolution checks, file-effect whitelist and who-may-write confinement, checksum field coverage",
		Pkgs:      []string{"./pkg/controller/statefile/...", "./pkg/controller/state/...", "./pkg/controller"},
		Explain: "Decides the structural clauses of the atomic-replace protocol: in statefile.Store.Save the rename onto s.path is reachable only after CreateTemp (in filepath.Dir(s.path)), Write of the complete state.Encode output, Sync and Close of that same temp file all succeeded, the success return only after the rename and the directory fsync succeeded, the rename source and the deferred Remove target are the CreateTemp name, no Write/Sync/Rename/CreateTemp error is dropped, and the statefile package performs no other file-system mutation (whitelist of os/io calls per function); Store.path is never reassigned and the literal file name is built only in three enumerated controller-runtime functions, which never write file contents. " +
			"Load returns a state only as the value of state.Decode behind Decode == nil; Decode succeeds only behind json decode ok, no trailing token, schema version, non-empty checksum, checksum equality against Checksum of the very object it returns, and Validate; checksumView covers every ClusterState field but Checksum, and Encode stores the checksum before marshalling. " +
			"NOT decided: POSIX rename/fsync semantics (trusted), CRC32C collision resistance, json canonical-form stability, behaviour after an actual crash, that the whole-file Rename/Remove of the mirror-promotion path picks the right file.",
		Run: c19,
		Mutants: []Mutant{
			{Name: "save-drop-fsync", File: "pkg/controller/statefile/store.go",
				Old:    "if err := tmp.Sync(); err != nil {\n\t\t_ = tmp.Close()\n\t\treturn fmt.Errorf(\"statefile: fsync temp %s: %w\", tmpPath, err)\n\t}\n",
				New:    "",
				Expect: "C19/R1-order/*os.Rename*Sync*"},
			{Name: "save-ignore-write-error", File: "pkg/controller/statefile/store.go",
				Old:    "if _, err := tmp.Write(data); err != nil {\n\t\t_ = tmp.Close()\n\t\treturn fmt.Errorf(\"statefile: write temp %s: %w\", tmpPath, err)\n\t}",
				New:    "_, _ = tmp.Write(data)",
				Expect: "C19/R1-order/*os.Rename*Write*"},
			{Name: "save-ignore-close-error", File: "pkg/controller/statefile/store.go",
				Old:    "if err := tmp.Close(); err != nil {\n\t\treturn fmt.Errorf(\"statefile: close temp %s: %w\", tmpPath, err)\n\t}",
				New:    "_ = tmp.Close()",
				Expect: "C19/R1-order/*os.Rename*Close*"},
			{Name: "save-rename-before-fsync", File: "pkg/controller/statefile/store.go",
				Old:    "if err := tmp.Sync(); err != nil {\n\t\t_ = tmp.Close()\n\t\treturn fmt.Errorf(\"statefile: fsync temp %s: %w\", tmpPath, err)\n\t}\n",
				New:    "if err := os.Rename(tmpPath, s.path); err != nil {\n\t\t_ = tmp.Close()\n\t\treturn err\n\t}\n\tif err := tmp.Sync(); err != nil {\n\t\t_ = tmp.Close()\n\t\treturn fmt.Errorf(\"statefile: fsync temp %s: %w\", tmpPath, err)\n\t}\n",
				Expect: "C19/R1-order/*os.Rename*Sync*"},
			{Name: "save-temp-in-other-dir", File: "pkg/controller/statefile/store.go",
				Old: "os.CreateTemp(dir, base+\".*.tmp\")", New: "os.CreateTemp(\"\", base+\".*.tmp\")",
				Expect: "C19/R1-shape/*os.CreateTemp*"},
			{Name: "save-no-dir-fsync", File: "pkg/controller/statefile/store.go",
				Old:    "if err := syncDir(dir); err != nil {\n\t\treturn err\n\t}",
				New:    "_ = syncDir(dir)",
				Expect: "C19/R1-order/*syncDir*"},
			{Name: "syncdir-no-sync", File: "pkg/controller/statefile/store.go",
				Old:    "if err := d.Sync(); err != nil {\n\t\treturn fmt.Errorf(\"statefile: fsync dir %s: %w\", dir, err)\n\t}\n",
				New:    "",
				Expect: "C19/R1-order/pkg/controller/statefile.syncDir*"},
			{Name: "save-writes-in-place", File: "pkg/controller/statefile/store.go",
				Old: "if err := os.Rename(tmpPath, s.path); err != nil {", New: "if err := os.WriteFile(s.path, data, 0o600); err != nil {",
				Expect: "C19/R2-confine/*os.WriteFile*"},
			{Name: "save-cleanup-removes-state-file", File: "pkg/controller/statefile/store.go",
				Old: "_ = os.Remove(tmpPath)", New: "_ = os.Remove(s.path)",
				Expect: "C19/R1-shape/*os.Remove*"},
			{Name: "save-renames-stale-name", File: "pkg/controller/statefile/store.go",
				Old: "tmpPath := tmp.Name()", New: "tmpPath := s.path + \".tmp\"",
				Expect: "C19/R1-shape/*os.Rename*"},
			{Name: "load-ignores-decode-error", File: "pkg/controller/statefile/store.go",
				Old:    "st, err := state.Decode(data)\n\tif err != nil {\n\t\treturn state.ClusterState{}, err\n\t}",
				New:    "st, _ := state.Decode(data)",
				Expect: "C19/R3-load/*"},
			{Name: "decode-skips-checksum-compare", File: "pkg/controller/state/codec.go",
				Old:    "if actual != expected {\n\t\treturn ClusterState{}, fmt.Errorf(\"%w: expected %s got %s\", ErrChecksumMismatch, expected, actual)\n\t}",
				New:    "_ = actual",
				Expect: "C19/R3-decode/*Checksum ==*"},
			{Name: "decode-accepts-missing-checksum", File: "pkg/controller/state/codec.go",
				Old:    "if actual == \"\" {\n\t\treturn ClusterState{}, fmt.Errorf(\"%w: missing checksum\", ErrChecksumMismatch)\n\t}",
				New:    "if actual == \"\" {\n\t\treturn st, nil\n\t}",
				Expect: "C19/R3-decode/*"},
			{Name: "decode-skips-validate", File: "pkg/controller/state/codec.go",
				Old:    "st.Checksum = expected\n\tif err := st.Validate(); err != nil {\n\t\treturn ClusterState{}, err\n\t}",
				New:    "st.Checksum = expected",
				Expect: "C19/R3-decode/*Validate*"},
			{Name: "decode-allows-trailing-bytes", File: "pkg/controller/state/codec.go",
				Old:    "if err := decoder.Decode(&trailing); err != io.EOF {",
				New:    "if err := decoder.Decode(&trailing); err != io.EOF && err != nil {",
				Expect: "C19/R3-decode/*io.EOF*"},
			{Name: "checksum-forgets-tasks", File: "pkg/controller/state/codec.go",
				Old: "\t\tTasks:             st.Tasks,\n", New: "",
				Expect: "C19/R3-cover/*"},
			{Name: "encode-omits-checksum", File: "pkg/controller/state/codec.go",
				Old: "st.Checksum = checksum\n\treturn json.Marshal(st)", New: "_ = checksum\n\treturn json.Marshal(st)",
				Expect: "C19/R3-encode/*"},
		},
	})
}

func c19(c *Ctx) {
	const (
		sf      = "pkg/controller/statefile."
		tmpFile = "os.CreateTemp(*)#0"
		tmpName = "os.File.Name(os.CreateTemp(path/filepath.Dir(s.path), *)#0)"
		writeOK = "os.File.Write(os.CreateTemp(*)#0, pkg/controller/state.Encode(*)#0)#1 == nil"
		syncOK  = "os.File.Sync(os.CreateTemp(*)#0) == nil"
		closeOK = "os.File.Close(os.CreateTemp(*)#0) == nil"
	)
	save := c.Fn(sf + "Store.Save")
	rename := CallTo{"os.Rename"}

	// R1 order: rename only after the temp file is completely written, fsynced and closed.
	c.Guard("R1-order", save, rename,
		"pkg/controller/state.Encode(*)#1 == nil",
		"os.CreateTemp(*)#1 == nil",
		writeOK, syncOK, closeOK,
	)
	c.Guard("R1-order", save, CallTo{"os.File.Sync"}, writeOK)
	// the Close whose success admits the rename runs after the successful fsync
	c.Guard("R1-order", save, InstrFn{"tested os.File.Close", c19TestedCall("os.File.Close")}, syncOK)
	c.Guard("R1-order", save, RetNil{}, "os.Rename(*) == nil", "pkg/controller/statefile.syncDir(*) == nil")
	syncDir := c.Fn(sf + "syncDir")
	c.Guard("R1-order", syncDir, RetNil{}, "os.Open(dir)#1 == nil", "os.File.Sync(os.Open(dir)#0) == nil")

	// R1 shape: which file is created / written / renamed / removed / directory-synced.
	c.CallShape("R1-shape", save, "os.CreateTemp", "os.CreateTemp(path/filepath.Dir(s.path), *)")
	c.CallShape("R1-shape", save, "os.File.Write", "os.File.Write("+tmpFile+", pkg/controller/state.Encode(st)#0)")
	c.CallShape("R1-shape", save, "os.File.Sync", "os.File.Sync("+tmpFile+")")
	c.CallShape("R1-shape", save, "os.File.Close", "os.File.Close("+tmpFile+")")
	c.CallShape("R1-shape", save, "pkg/controller/statefile.syncDir", "pkg/controller/statefile.syncDir(path/filepath.Dir(s.path))")
	c19Args(c, "R1-shape", save, "os.Rename", tmpName, "s.path")
	c19Args(c, "R1-shape", save, "os.Remove", tmpName)

	// R2 confinement: the statefile package has no other file-system effect; the path is fixed at construction.
	c19FileEffects(c, "R2-confine", sf+"*", map[string][]string{
		"os.CreateTemp": {sf + "Store.Save"},
		"os.File.Write": {sf + "Store.Save"},
		"os.Rename":     {sf + "Store.Save"},
		"os.Remove":     {sf + "Store.Save"},
	})
	c.ConfineStores("R2-confine", "pkg/controller/statefile.Store.path", true, sf+"New")
	// the literal file name is built in three enumerated places of the controller runtime …
	c19ConstConfine(c, "R2-confine", "cluster-state.json", 3, "pkg/controller.Runtime.Start", "pkg/controller.Runtime.PrepareControllerVoter", "pkg/controller.Runtime.loadMirrorStateCandidates")
	c.ConfineCalls("R2-confine", "pkg/controller/statefile.New", 3, "pkg/controller.Runtime.Start", "pkg/controller.Runtime.PrepareControllerVoter", "pkg/controller.loadMirrorStateCandidate")
	// … and that package only ever moves/removes whole files, it never writes file contents.
	for _, callee := range []string{"os.WriteFile", "os.Create", "os.OpenFile", "os.CreateTemp", "os.Truncate", "os.File.Write*", "os.File.Truncate", "os.File.ReadFrom", "io.Copy*", "io.WriteString"} {
		c.NoCalls("R2-confine", callee, "pkg/controller.*")
	}

	// R4 errdisc: the errors of the protocol steps are consumed (Close on failing paths is the accepted drop;
	// the success-path Close is the tested one required by R1-order).
	if save != nil && syncDir != nil {
		c.ErrUsed("R4-errdisc", append(WithClosures(save), syncDir),
			[]string{"os.CreateTemp", "os.File.Write", "os.File.Sync", "os.Rename", "os.Open", "pkg/controller/statefile.syncDir", "pkg/controller/state.Encode"}, nil)
	}

	// R3 load: only a successfully decoded state is returned.
	load := c.Fn(sf + "Store.Load")
	const decoded = "pkg/controller/state.Decode(os.ReadFile(s.path)#0)"
	c.Guard("R3-load", load, RetNil{}, decoded+"#1 == nil", "os.ReadFile(s.path)#1 == nil")
	c.Guard("R3-load", load, RetNot{0, []string{"zero:ClusterState"}}, decoded+"#1 == nil")
	c19RetShape(c, "R3-load", load, 0, "zero:ClusterState", decoded+"#0")

	// R3 decode: success only behind every integrity check.
	dec := c.Fn("pkg/controller/state.Decode")
	checks := []string{
		"encoding/json.Decoder.Decode(*) == nil",
		"encoding/json.Decoder.Decode(*) == io.EOF",
		"*.SchemaVersion == 1",
		"*.Checksum != \"\"",
		"pkg/controller/state.Checksum(*)#1 == nil",
		"*.Checksum == pkg/controller/state.Checksum(*)#0",
		"pkg/controller/state.ClusterState.Validate(*) == nil",
	}
	c.Guard("R3-decode", dec, RetNil{}, checks...)
	c.Guard("R3-decode", dec, RetNot{0, []string{"zero:ClusterState"}}, checks...)
	c19DecodeSameObject(c, "R3-decode", dec)

	// R3 cover: the checksum covers every persisted field.
	view := c.Fn("pkg/controller/state.checksumView")
	if view != nil {
		c.Cover("R3-cover", []*ssa.Function{view}, "pkg/controller/state.ClusterState", map[string]string{"Checksum": "the checksum itself is excluded from its own input"})
		c.LiteralComplete("R3-cover", view, "pkg/controller/state.checksumClusterState", nil, nil)
	}
	sum := c.Fn("pkg/controller/state.Checksum")
	c.CallShape("R3-cover", sum, "hash/crc32.Checksum", "hash/crc32.Checksum(encoding/json.Marshal(pkg/controller/state.checksumView(*))#0, *)")
	c19RetFlows(c, "R3-cover", sum, 0, "hash/crc32.Checksum")
	c.Guard("R3-cover", sum, RetNil{}, "encoding/json.Marshal(*)#1 == nil")

	// R3 encode: what is written carries the checksum of a validated state.
	enc := c.Fn("pkg/controller/state.Encode")
	marshal := CallTo{"encoding/json.Marshal"}
	c.Guard("R3-encode", enc, marshal, "pkg/controller/state.ClusterState.Validate(*) == nil", "pkg/controller/state.Checksum(*)#1 == nil")
	c19Before(c, "R3-encode", enc, marshal, StoreTo{Addr: "*.Checksum", Val: "pkg/controller/state.Checksum(*)#0"})

	c.Min("R1-order", 11)
	c.Min("R1-shape", 7)
	c.Min("R3-decode", 15)
}

// c19TestedCall matches calls to callee whose (error) result is used, i.e. not the `_ = f.Close()` cleanup calls.
func c19TestedCall(callee string) func(in ssa.Instruction) bool {
	return func(in ssa.Instruction) bool {
		call, ok := in.(*ssa.Call)
		return ok && calleeName(&call.Call) == callee && hasRealReferrers(call)
	}
}

// c19AllocStores collects every store to the local cell a, following captures into closures;
// escaped is set when the address is used in any other way.
func c19AllocStores(cell ssa.Value, depth int) (stores []*ssa.Store, escaped bool) {
	refs := cell.Referrers()
	if refs == nil || depth > 4 {
		return nil, true
	}
	for _, r := range *refs {
		switch x := r.(type) {
		case *ssa.DebugRef:
		case *ssa.UnOp:
			if x.Op != token.MUL {
				escaped = true
			}
		case *ssa.Store:
			if x.Addr == cell {
				stores = append(stores, x)
			} else {
				escaped = true
			}
		case *ssa.MakeClosure:
			fn, _ := x.Fn.(*ssa.Function)
			for i, b := range x.Bindings {
				if b != cell {
					continue
				}
				if fn == nil || i >= len(fn.FreeVars) {
					escaped = true
					continue
				}
				s, e := c19AllocStores(fn.FreeVars[i], depth+1)
				stores = append(stores, s...)
				escaped = escaped || e
			}
		default:
			escaped = true
		}
	}
	return
}

// c19Resolve looks through loads of single-assignment local variables (also when the
// variable is captured by a closure), so that rules do not depend on local names.
func c19Resolve(v ssa.Value, depth int) ssa.Value {
	v = stripConv(v)
	if depth > 6 {
		return v
	}
	u, ok := v.(*ssa.UnOp)
	if !ok || u.Op != token.MUL {
		return v
	}
	var cell ssa.Value
	switch x := u.X.(type) {
	case *ssa.Alloc:
		if spilledParam(x) != nil {
			return v
		}
		cell = x
	case *ssa.FreeVar:
		cell = c19Binding(x)
	}
	if cell == nil {
		return v
	}
	if _, ok := cell.(*ssa.Alloc); !ok {
		return v
	}
	stores, escaped := c19AllocStores(cell, 0)
	if escaped || len(stores) != 1 {
		return v
	}
	return c19Resolve(stores[0].Val, depth+1)
}

// c19Binding finds the value bound to free variable fv where its closure is created.
func c19Binding(fv *ssa.FreeVar) ssa.Value {
	fn := fv.Parent()
	par := fn.Parent()
	if par == nil {
		return nil
	}
	idx := -1
	for i, f := range fn.FreeVars {
		if f == fv {
			idx = i
		}
	}
	var out ssa.Value
	n := 0
	for _, b := range par.Blocks {
		for _, in := range b.Instrs {
			if mc, ok := in.(*ssa.MakeClosure); ok && mc.Fn == ssa.Value(fn) && idx >= 0 && idx < len(mc.Bindings) {
				out = mc.Bindings[idx]
				n++
			}
		}
	}
	if n != 1 {
		return nil
	}
	if inner, ok := out.(*ssa.FreeVar); ok {
		return c19Binding(inner)
	}
	return out
}

// c19Args: every call to callee in fn or its closures has (resolved) leading arguments of the given shapes.
func c19Args(c *Ctx, rule string, fn *ssa.Function, callee string, shapes ...string) {
	if fn == nil {
		return
	}
	fname := c.P.Name(fn)
	n := 0
	var bad []string
	badPos := ""
	for _, f := range WithClosures(fn) {
		for _, b := range f.Blocks {
			for _, in := range b.Instrs {
				ci, ok := in.(ssa.CallInstruction)
				if !ok || calleeName(ci.Common()) != callee {
					continue
				}
				n++
				args := callArgs(ci.Common())
				for i, sh := range shapes {
					got := "<missing>"
					if i < len(args) {
						got = Path(c19Resolve(args[i], 0))
					}
					if !glob(sh, got) {
						bad = append(bad, fmt.Sprintf("arg %d is %s at %s", i, got, c.P.InstrPos(in)))
						if badPos == "" {
							badPos = c.P.InstrPos(in)
						}
					}
				}
			}
		}
	}
	c.CallSites += n
	construct := fname + "#args:" + callee
	switch {
	case n == 0:
		c.add("shape", rule, construct, Undecided, c.P.Pos(fn.Pos()), "no call to "+callee+" in "+fname+" or its closures (vacuous)")
	case len(bad) > 0:
		c.add("shape", rule, construct, Violated, badPos, fmt.Sprintf("%s must be called with %v (locals resolved to their single definition): %s", callee, shapes, strings.Join(bad, "; ")))
	default:
		c.add("shape", rule, construct, Held, c.P.Pos(fn.Pos()), fmt.Sprintf("%d call(s) to %s, arguments resolve to %v", n, callee, shapes))
	}
}

// c19FileEffects: inside functions matching scope every call into os/io/syscall is either a
// read-only/handle operation or a listed mutating operation inside its listed owner function.
func c19FileEffects(c *Ctx, rule, scope string, mutating map[string][]string) {
	readOnly := []string{
		"os.ReadFile", "os.Open", "os.Stat", "os.Lstat", "os.ReadDir", "os.IsNotExist", "os.IsExist", "os.Getpid",
		"os.File.Name", "os.File.Sync", "os.File.Close", "os.File.Stat", "os.File.Read", "os.File.ReadAt", "os.File.Fd",
		"os.init", "io.init", "io.ReadAll", "io.ReadFull",
	}
	fns := c.Fns(scope)
	seen := map[string]int{}
	bad := map[string][]string{}
	badPos := map[string]string{}
	n := 0
	for _, fn := range fns {
		name := c.P.Name(fn)
		for _, b := range fn.Blocks {
			for _, in := range b.Instrs {
				ci, ok := in.(ssa.CallInstruction)
				if !ok {
					continue
				}
				cn := calleeName(ci.Common())
				if !globAny([]string{"os.*", "io.*", "io/ioutil.*", "io/fs.*", "syscall.*", "golang.org/x/sys/*", "bufio.*"}, cn) {
					continue
				}
				n++
				if globAny(readOnly, cn) {
					continue
				}
				seen[cn]++
				owners, ok := mutating[cn]
				if ok && (globAny(owners, name) || globAny(owners, rootName(name))) {
					continue
				}
				bad[cn] = append(bad[cn], fmt.Sprintf("%s at %s", name, c.P.InstrPos(in)))
				if badPos[cn] == "" {
					badPos[cn] = c.P.InstrPos(in)
				}
			}
		}
	}
	c.CallSites += n
	var keys []string
	for k := range bad {
		keys = append(keys, k)
	}
	sort.Strings(keys)
	for _, k := range keys {
		c.add("confine", rule, "file-effect:"+k+"@"+scope, Violated, badPos[k], fmt.Sprintf("file-system effect %s outside the atomic-replace protocol (allowed owners %v): %s", k, mutating[k], strings.Join(bad[k], "; ")))
	}
	var owned []string
	for k := range mutating {
		owned = append(owned, k)
	}
	sort.Strings(owned)
	for _, k := range owned {
		if len(bad[k]) > 0 {
			continue
		}
		if seen[k] == 0 {
			c.add("confine", rule, "file-effect:"+k+"@"+scope, Undecided, "", "listed protocol step "+k+" is not called at all (the protocol changed; update the rule table)")
			continue
		}
		c.add("confine", rule, "file-effect:"+k+"@"+scope, Held, "", fmt.Sprintf("%d call(s), all inside %v", seen[k], mutating[k]))
	}
	if len(keys) == 0 {
		c.add("confine", rule, "file-effect:other@"+scope, Held, "", fmt.Sprintf("%d function(s), %d os/io call(s): every one is read-only or a listed protocol step", len(fns), n))
	}
}

// c19ConstConfine: string constants containing substr occur only in the allowed functions.
func c19ConstConfine(c *Ctx, rule, substr string, min int, allowed ...string) {
	n := 0
	var bad []string
	badPos := ""
	where := map[string]int{}
	for _, fn := range c.P.AllFuncs {
		name := c.P.Name(fn)
		for _, b := range fn.Blocks {
			for _, in := range b.Instrs {
				for _, op := range in.Operands(nil) {
					if op == nil || *op == nil {
						continue
					}
					k, ok := (*op).(*ssa.Const)
					if !ok || k.Value == nil || k.Value.Kind() != constant.String || !strings.Contains(constant.StringVal(k.Value), substr) {
						continue
					}
					if strings.ContainsAny(constant.StringVal(k.Value), " %\n") {
						continue // message text, not a path element
					}
					n++
					where[name]++
					if !globAny(allowed, name) && !globAny(allowed, rootName(name)) {
						bad = append(bad, fmt.Sprintf("%s at %s", name, c.P.InstrPos(in)))
						if badPos == "" {
							badPos = c.P.InstrPos(in)
						}
					}
				}
			}
		}
	}
	construct := "const:" + substr
	switch {
	case len(bad) > 0:
		c.add("confine", rule, construct, Violated, badPos, fmt.Sprintf("the state file name %q is built outside the enumerated functions %v: %s", substr, allowed, strings.Join(bad, "; ")))
	case n < min:
		c.add("confine", rule, construct, Undecided, "", fmt.Sprintf("%d use(s) of %q found, hand-confirmed minimum %d", n, substr, min))
	default:
		c.add("confine", rule, construct, Held, "", fmt.Sprintf("%d use(s) of %q, all inside %v: %s", n, substr, allowed, countsString(where)))
	}
}

// c19RetShape: result idx of every return of fn renders to one of the globs.
func c19RetShape(c *Ctx, rule string, fn *ssa.Function, idx int, globs ...string) {
	if fn == nil {
		return
	}
	fname := c.P.Name(fn)
	var bad []string
	n := 0
	for _, in := range instrsMatching(fn, AnyRet{}) {
		ret := in.(*ssa.Return)
		if idx >= len(ret.Results) {
			continue
		}
		n++
		if got := Path(retOperand(ret, idx)); !globAny(globs, got) {
			bad = append(bad, got+" at "+c.P.InstrPos(in))
		}
	}
	construct := fmt.Sprintf("%s#result[%d]∈%v", fname, idx, globs)
	switch {
	case n == 0:
		c.add("shape", rule, construct, Undecided, c.P.Pos(fn.Pos()), "no return found")
	case len(bad) > 0:
		c.add("shape", rule, construct, Violated, c.P.Pos(fn.Pos()), "returned value of an unexpected origin: "+strings.Join(bad, "; "))
	default:
		c.add("shape", rule, construct, Held, c.P.Pos(fn.Pos()), fmt.Sprintf("%d return(s), each returns one of %v", n, globs))
	}
}

// c19Before: every instruction matching eff is reached from the entry only after an instruction matching barrier.
func c19Before(c *Ctx, rule string, fn *ssa.Function, eff, barrier Effect) {
	if fn == nil {
		return
	}
	fname := c.P.Name(fn)
	construct := fname + "#" + barrier.String() + " before " + eff.String()
	effs := instrsMatching(fn, eff)
	if len(effs) == 0 || len(instrsMatching(fn, barrier)) == 0 {
		c.add("order", rule, construct, Violated, c.P.Pos(fn.Pos()), fmt.Sprintf("%d effect site(s) %q, %d site(s) of the required preceding step %q", len(effs), eff.String(), len(instrsMatching(fn, barrier)), barrier.String()))
		return
	}
	// blocks enterable without having executed the barrier, and how far into them
	limit := map[*ssa.BasicBlock]int{}
	work := []*ssa.BasicBlock{fn.Blocks[0]}
	seen := map[*ssa.BasicBlock]bool{fn.Blocks[0]: true}
	for len(work) > 0 {
		b := work[len(work)-1]
		work = work[:len(work)-1]
		stop := -1
		for i, in := range b.Instrs {
			if barrier.Match(in) {
				stop = i
				break
			}
		}
		if stop >= 0 {
			limit[b] = stop
			continue
		}
		limit[b] = len(b.Instrs)
		for _, s := range b.Succs {
			if !seen[s] {
				seen[s] = true
				work = append(work, s)
			}
		}
	}
	var bad []string
	for _, e := range effs {
		if lim, ok := limit[e.Block()]; ok && indexIn(e.Block(), e) < lim {
			bad = append(bad, c.P.InstrPos(e))
		}
	}
	if len(bad) > 0 {
		c.add("order", rule, construct, Violated, bad[0], fmt.Sprintf("in %s %q is reachable without first executing %q (at %s)", fname, eff.String(), barrier.String(), strings.Join(bad, ", ")))
		return
	}
	c.add("order", rule, construct, Held, c.P.InstrPos(effs[0]), fmt.Sprintf("%d site(s) of %q, each reachable only after %q", len(effs), eff.String(), barrier.String()))
}

// c19RetFlows: on every success return of fn, result idx is data-dependent on a call to callee.
func c19RetFlows(c *Ctx, rule string, fn *ssa.Function, idx int, callee string) {
	if fn == nil {
		return
	}
	fname := c.P.Name(fn)
	construct := fmt.Sprintf("%s#result[%d]←%s", fname, idx, callee)
	var depends func(v ssa.Value, seen map[ssa.Value]bool) bool
	depends = func(v ssa.Value, seen map[ssa.Value]bool) bool {
		if v == nil || seen[v] {
			return false
		}
		seen[v] = true
		if call, ok := v.(*ssa.Call); ok && calleeName(&call.Call) == callee {
			return true
		}
		// values stored into a local cell (e.g. the varargs array) flow to whoever reads the cell
		switch x := v.(type) {
		case *ssa.Alloc:
			for _, r := range *x.Referrers() {
				switch y := r.(type) {
				case *ssa.Store:
					if depends(y.Val, seen) {
						return true
					}
				case *ssa.IndexAddr:
					for _, rr := range *y.Referrers() {
						if st, ok := rr.(*ssa.Store); ok && depends(st.Val, seen) {
							return true
						}
					}
				}
			}
		}
		if in, ok := v.(ssa.Instruction); ok {
			for _, op := range in.Operands(nil) {
				if op != nil && *op != nil && depends(*op, seen) {
					return true
				}
			}
		}
		return false
	}
	var bad []string
	n := 0
	for _, in := range instrsMatching(fn, RetNil{}) {
		ret := in.(*ssa.Return)
		n++
		if !depends(retOperand(ret, idx), map[ssa.Value]bool{}) {
			bad = append(bad, c.P.InstrPos(in))
		}
	}
	switch {
	case n == 0:
		c.add("shape", rule, construct, Undecided, c.P.Pos(fn.Pos()), "no success return")
	case len(bad) > 0:
		c.add("shape", rule, construct, Violated, bad[0], fmt.Sprintf("%s returns a value that does not depend on %s (at %s)", fname, callee, strings.Join(bad, ", ")))
	default:
		c.add("shape", rule, construct, Held, c.P.Pos(fn.Pos()), fmt.Sprintf("%d success return(s), result is computed from %s", n, callee))
	}
}

// c19Root strips loads, field selections and interface boxing down to the local cell.
func c19Root(v ssa.Value) ssa.Value {
	for {
		switch x := v.(type) {
		case *ssa.UnOp:
			if x.Op != token.MUL {
				return v
			}
			v = x.X
		case *ssa.FieldAddr:
			v = x.X
		case *ssa.MakeInterface:
			v = x.X
		case *ssa.Convert:
			v = x.X
		case *ssa.ChangeType:
			v = x.X
		default:
			return v
		}
	}
}

// c19DecodeSameObject: the object json-decoded from the input, the object whose checksum is
// recomputed, the object whose stored checksum is compared, the validated object and the object
// returned on success are one and the same local cell.
func c19DecodeSameObject(c *Ctx, rule string, fn *ssa.Function) {
	if fn == nil {
		return
	}
	fname := c.P.Name(fn)
	construct := fname + "#verified-object-is-returned-object"
	roles := map[string][]ssa.Value{}
	for _, b := range fn.Blocks {
		for _, in := range b.Instrs {
			switch x := in.(type) {
			case *ssa.Call:
				switch calleeName(&x.Call) {
				case "pkg/controller/state.Checksum":
					roles["checksummed"] = append(roles["checksummed"], c19Root(x.Call.Args[0]))
				case "pkg/controller/state.ClusterState.Validate":
					roles["validated"] = append(roles["validated"], c19Root(x.Call.Args[0]))
				case "encoding/json.Decoder.Decode":
					r := c19Root(x.Call.Args[1])
					if a, ok := r.(*ssa.Alloc); ok && typeBaseName(a.Type()) == "ClusterState" {
						roles["decoded"] = append(roles["decoded"], r)
					}
				}
			case *ssa.BinOp:
				if x.Op != token.EQL && x.Op != token.NEQ {
					continue
				}
				for _, pair := range [][2]ssa.Value{{x.X, x.Y}, {x.Y, x.X}} {
					if ex, ok := pair[1].(*ssa.Extract); ok && ex.Index == 0 {
						if call, ok := ex.Tuple.(*ssa.Call); ok && calleeName(&call.Call) == "pkg/controller/state.Checksum" {
							roles["compared"] = append(roles["compared"], c19Root(pair[0]))
						}
					}
				}
			case *ssa.Return:
				if (RetNil{}).Match(in) {
					roles["returned"] = append(roles["returned"], c19Root(retOperand(x, 0)))
				}
			}
		}
	}
	var cell ssa.Value
	var problems []string
	for _, role := range []string{"decoded", "checksummed", "compared", "validated", "returned"} {
		if len(roles[role]) == 0 {
			problems = append(problems, "no "+role+" object found")
			continue
		}
		for _, r := range roles[role] {
			if _, ok := r.(*ssa.Alloc); !ok {
				problems = append(problems, role+" object is not a local cell: "+Path(r))
				continue
			}
			if cell == nil {
				cell = r
			} else if r != cell {
				problems = append(problems, role+" object differs from the decoded one")
			}
		}
	}
	if len(problems) > 0 {
		c.add("shape", rule, construct, Violated, c.P.Pos(fn.Pos()), strings.Join(problems, "; "))
		return
	}
	c.add("shape", rule, construct, Held, c.P.Pos(fn.Pos()), "the json-decoded, checksummed, compared, validated and returned ClusterState are the same local object")
}
