package main

import (
	"go/ast"
	"go/token"
	"go/types"
)

func endsWithReturn(b *ast.BlockStmt) bool {
	if b == nil || len(b.List) == 0 {
		return false
	}
	_, ok := b.List[len(b.List)-1].(*ast.ReturnStmt)
	return ok
}

// hasPrimitive: does the node contain a call to one of the codec's encoder/decoder primitives?
func (x *seqExtractor) hasPrimitive(n ast.Node) bool {
	found := false
	ast.Inspect(n, func(m ast.Node) bool {
		if call, ok := m.(*ast.CallExpr); ok {
			name, _ := calleeIdent(call)
			if _, ok := x.codec.EncFuncs[name]; ok {
				found = true
			}
			if _, ok := x.codec.DecFuncs[name]; ok {
				found = true
			}
		}
		return !found
	})
	return found
}

var flipCmp = map[token.Token]string{token.LSS: ">=", token.GEQ: "<", token.GTR: "<=", token.LEQ: ">", token.EQL: "!=", token.NEQ: "=="}

// negateCond renders the negation of a version condition; a single comparison is flipped
// (so `!(version < 6)` and `version >= 6` render identically), anything else is wrapped.
func negateCond(cond ast.Expr, vc string) string {
	e := ast.Unparen(cond)
	if b, ok := e.(*ast.BinaryExpr); ok {
		if op, ok := flipCmp[b.Op]; ok {
			return types.ExprString(b.X) + " " + op + " " + types.ExprString(b.Y)
		}
	}
	return "!(" + vc + ")"
}

// isOrderingCmp: a single <,<=,>,>= comparison. Only such a version test followed by an early return
// is a layout branch ("older versions stop here"); an equality test that returns is a validation reject.
func isOrderingCmp(cond ast.Expr) bool {
	b, ok := ast.Unparen(cond).(*ast.BinaryExpr)
	if !ok {
		return false
	}
	switch b.Op {
	case token.LSS, token.LEQ, token.GTR, token.GEQ:
		return true
	}
	return false
}
