package main

import (
	"fmt"
	"go/types"
	"strings"

	"golang.org/x/tools/go/ssa"
)

func init() {
	register(&PropSpec{
		ID:        "C01",
		Pkgs:      []string{"./pkg/channel/replication", "./pkg/db/message"},
		Technique: "static analysis: SSA edge-dominance guards on the quorum-round / receipt / install / repair paths + who-may-write and who-may-call confinement + argument-shape checks",
		Explain: "Decides the local structural halves of the durability mechanism on every CFG path: (1) runDurableRound returns success only behind localDurable && durableVotes >= writeQuorum, the two counters are written only there, only behind outcome.Durable(), and a completion counts as the local write only for voter == local; (2) finishCommit and writeCurrentTermBarrier publish a frontier/receipt only behind the same three-part proof and every runDurableRound call passes the installed authority's voters and write quorum; receipts are built only in finishCommit/loadRetainedProposal and remembered only from there; (3) quorumLog.Install sets ready=true only after validAuthority, recoverQuorumPrefix, repairQuorumPrefix and (for a non-empty foreign-authority frontier) writeCurrentTermBarrier all succeeded, in that order, feeding each step the previous step's result; (4) repairQuorumPrefix replaces a suffix only behind local.Committed <= selection.Index with KeepThrough taken from the inspected committed boundary and succeeds only when LEO, Committed and tail identity equal the selection; MessageDB ReplaceRecoverySuffix stages deletes only behind the exact-frontier, keep-through and retention fences; (5) every recovery entry point validates a strict-majority topology and recoverQuorumPrefix advances the selected identity only on a quorum-identical probe result. " +
			"NOT decided: the property itself - that the selection rule (greatest quorum-identical prefix among >= Q responders) never drops an entry acknowledged by a different Q-subset; that is an argument over which replicas answer (schedules, fault sequences) and needs model checking or fault enumeration. Also not decided: FailoverPlanner.Plan's numeric choice, peer/dispatcher implementations honouring the completion contract, crash behaviour of the storage engine.",
		Run: c01,
		Mutants: []Mutant{
			{Name: "round-drop-local-durable", File: "pkg/channel/replication/quorum_round.go",
				Old: "if result.localDurable && result.durableVotes >= writeQuorum {", New: "if result.durableVotes >= writeQuorum {", Expect: "C01/R1-round*"},
			{Name: "round-quorum-minus-one", File: "pkg/channel/replication/quorum_round.go",
				Old: "if result.localDurable && result.durableVotes >= writeQuorum {", New: "if result.localDurable && result.durableVotes >= writeQuorum-1 {", Expect: "C01/R1-round*"},
			{Name: "round-count-unknown-as-vote", File: "pkg/channel/replication/quorum_round.go",
				Old: "case completion.outcome == ch.AppendOutcomeUnknown:\n\t\t\t\tresult.outcome = ch.AppendOutcomeUnknown", New: "case completion.outcome == ch.AppendOutcomeUnknown:\n\t\t\t\tresult.durableVotes++\n\t\t\t\tresult.outcome = ch.AppendOutcomeUnknown", Expect: "C01/R2-votes*"},
			{Name: "round-hedge-marked-local", File: "pkg/channel/replication/quorum_round.go",
				Old: "results <- writeResult{voter: follower, completion: completion}\n\t\t}\n\t\tif err := hedged", New: "results <- writeResult{local: true, voter: follower, completion: completion}\n\t\t}\n\t\tif err := hedged", Expect: "C01/R2-votes*"},
			{Name: "finish-drop-quorum-check", File: "pkg/channel/replication/quorum_log.go",
				Old: "if !result.localDurable || result.durableVotes < state.authority.WriteQuorum || !result.outcome.Durable() {", New: "if !result.localDurable || !result.outcome.Durable() {", Expect: "C01/R3-finish*"},
			{Name: "barrier-drop-local-durable", File: "pkg/channel/replication/recovery_barrier.go",
				Old: "if !result.localDurable || result.durableVotes < authority.WriteQuorum || !result.outcome.Durable() {", New: "if result.durableVotes < authority.WriteQuorum || !result.outcome.Durable() {", Expect: "C01/R3-finish*"},
			{Name: "commit-quorum-one", File: "pkg/channel/replication/quorum_log.go",
				Old: "result, err := runDurableRound(ctx, l.cfg.Local, state.authority.Voters, state.authority.WriteQuorum, durable, l.cfg.Durability)", New: "result, err := runDurableRound(ctx, l.cfg.Local, state.authority.Voters, 1, durable, l.cfg.Durability)", Expect: "C01/R3-finish*"},
			{Name: "commit-ack-on-round-error", File: "pkg/channel/replication/quorum_log.go",
				Old: "\t\treturn Receipt{}, err\n\t}\n\treturn l.finishCommit(state, pending, result)", New: "\t}\n\treturn l.finishCommit(state, pending, result)", Expect: "C01/R3-finish*"},
			{Name: "install-skip-barrier", File: "pkg/channel/replication/quorum_log.go",
				Old: "if recovered != (ReplicaState{}) && !frontierUsesAuthority(recovered, authority.ID) {", New: "if recovered != (ReplicaState{}) && !frontierUsesAuthority(recovered, authority.ID) && authority.WriteQuorum > 1 {", Expect: "C01/R5-install*"},
			{Name: "install-ignore-barrier-error", File: "pkg/channel/replication/quorum_log.go",
				Old: "\t\tif barrierErr != nil {\n\t\t\treturn Installed{}, barrierErr\n\t\t}\n", New: "\t\t_ = barrierErr\n", Expect: "C01/R5-install*"},
			{Name: "install-ready-before-repair", File: "pkg/channel/replication/quorum_log.go",
				Old: "\trecovered, err := repairQuorumPrefix(ctx, recoveryRepairRequest{", New: "\tstate.ready = true\n\trecovered, err := repairQuorumPrefix(ctx, recoveryRepairRequest{", Expect: "C01/R5-install*"},
			{Name: "repair-drop-committed-fence", File: "pkg/channel/replication/recovery_repair.go",
				Old: "\tif local.Committed > selection.Index {\n\t\treturn ReplicaState{}, ch.ErrLogConflict\n\t}\n", New: "", Expect: "C01/R6-repair*"},
			{Name: "repair-accept-uncommitted-tail", File: "pkg/channel/replication/recovery_repair.go",
				Old: "if local.LEO == selection.Index && local.TailIdentity == selection.Identity && local.Committed == selection.Index {", New: "if local.LEO == selection.Index && local.TailIdentity == selection.Identity {", Expect: "C01/R6-repair*"},
			{Name: "repair-truncate-below-committed", File: "pkg/channel/replication/recovery_repair.go",
				Old: "\t\t\tpageKeep = keepThrough\n", New: "\t\t\tpageKeep = 0\n", Expect: "C01/R6-repair*"},
			{Name: "repair-ignore-replace-outcome", File: "pkg/channel/replication/recovery_repair.go", Nth: 1,
				Old: "if len(replaced) != 1 || !replaced[0].Outcome.Durable() || replaced[0].Err != nil ||", New: "if len(replaced) != 1 || replaced[0].Err != nil ||", Expect: "C01/R6-repair*"},
			{Name: "replace-drop-committed-fence", File: "pkg/db/message/recovery_replace.go",
				Old: "req.KeepThrough > current.LEO || req.KeepThrough < current.Committed ||", New: "req.KeepThrough > current.LEO ||", Expect: "C01/R6-repair*"},
			{Name: "replace-drop-expected-fence", File: "pkg/db/message/recovery_replace.go",
				Old: "if current != req.Expected || req.KeepThrough > current.LEO", New: "if req.KeepThrough > current.LEO", Expect: "C01/R6-repair*"},
			{Name: "topology-allow-half", File: "pkg/channel/replication/recovery.go",
				Old: "quorum > len(voters) || quorum*2 <= len(voters) {", New: "quorum > len(voters) || quorum*2 < len(voters) {", Expect: "C01/R7-topology*"},
			{Name: "recover-accept-minority-identity", File: "pkg/channel/replication/recovery_owner.go",
				Old: "identity, ok := quorumIdentityAt(stableReports, position, index, request.Quorum)", New: "identity, ok := quorumIdentityAt(stableReports, position, index, 1)", Expect: "C01/R8-select*"},
			{Name: "recover-short-probe-round", File: "pkg/channel/replication/recovery_owner.go",
				Old: "\tif len(frontierReports) < request.Quorum {\n\t\treturn recoverySelection{}, errRecoveryQuorumUnavailable\n\t}\n", New: "", Expect: "C01/R8-select*"},
		},
	})
}

// c01FieldStore is an effect: a store (through any base object) to the struct
// field named "pkg/path.T.F", resolved by *types.Var so local names do not matter.
func c01FieldStore(c *Ctx, q string, val string) Effect {
	fv := c.Field(q)
	name := "store " + q[strings.LastIndex(q, "/")+1:]
	if val != "" {
		name += " = " + val
	}
	return InstrFn{Name: name, F: func(in ssa.Instruction) bool {
		if fv == nil {
			return false
		}
		st, ok := in.(*ssa.Store)
		if !ok {
			return false
		}
		fa, ok := st.Addr.(*ssa.FieldAddr)
		if !ok || fieldVar(fa.X.Type(), fa.Field) != fv {
			return false
		}
		return val == "" || glob(val, Path(st.Val))
	}}
}

// c01CellValue resolves a value that is a load of a single-assignment cell
// (an address-taken local or a captured variable) to the one value stored
// into that cell, following closure bindings outwards. ok=false when the cell
// has zero or several stores (then the caller must not guess).
func c01CellValue(v ssa.Value, depth int) (ssa.Value, bool) {
	if depth > 6 {
		return nil, false
	}
	u, isLoad := v.(*ssa.UnOp)
	if !isLoad || u.Op.String() != "*" {
		return v, true
	}
	cell := u.X
	for {
		fvar, ok := cell.(*ssa.FreeVar)
		if !ok {
			break
		}
		fn := fvar.Parent()
		par := fn.Parent()
		if par == nil {
			return nil, false
		}
		idx := -1
		for i, f := range fn.FreeVars {
			if f == fvar {
				idx = i
			}
		}
		var bound ssa.Value
		for _, b := range par.Blocks {
			for _, in := range b.Instrs {
				if mc, ok := in.(*ssa.MakeClosure); ok && mc.Fn == ssa.Value(fn) && idx >= 0 && idx < len(mc.Bindings) {
					if bound != nil && bound != mc.Bindings[idx] {
						return nil, false
					}
					bound = mc.Bindings[idx]
				}
			}
		}
		if bound == nil {
			return nil, false
		}
		cell = bound
	}
	a, ok := cell.(*ssa.Alloc)
	if !ok {
		return nil, false
	}
	var stored []ssa.Value
	var count func(cell ssa.Value, fn *ssa.Function)
	count = func(cell ssa.Value, fn *ssa.Function) {
		for _, b := range fn.Blocks {
			for _, in := range b.Instrs {
				switch x := in.(type) {
				case *ssa.Store:
					if x.Addr == cell {
						stored = append(stored, x.Val)
					}
				case *ssa.MakeClosure:
					for i, bnd := range x.Bindings {
						if bnd == cell {
							if cf, ok := x.Fn.(*ssa.Function); ok && i < len(cf.FreeVars) {
								count(cf.FreeVars[i], cf)
							}
						}
					}
				}
			}
		}
	}
	count(a, a.Parent())
	if len(stored) != 1 {
		return nil, false
	}
	return c01CellValue(stored[0], depth+1)
}

// c01StoresResolve: every store, inside functions matching fnGlob, to a field
// named `field` of a struct type named `owner` (the type may be function-local,
// so it is matched by name inside the anchored functions only) stores a value
// that (after resolving single-assignment cells) renders to one of shapes.
func c01StoresResolve(c *Ctx, rule, fnGlob, owner, field string, min int, shapes ...string) {
	n := 0
	var bad []string
	badPos := ""
	for _, fn := range c.Fns(fnGlob) {
		for _, b := range fn.Blocks {
			for _, in := range b.Instrs {
				st, ok := in.(*ssa.Store)
				if !ok {
					continue
				}
				fa, ok := st.Addr.(*ssa.FieldAddr)
				if !ok || fieldName(fa.X.Type(), fa.Field) != field || ownerTypeName(fa.X.Type()) != owner {
					continue
				}
				n++
				v, ok := c01CellValue(st.Val, 0)
				r := "<unresolved cell>"
				if ok {
					r = Path(v)
					if bo, isBin := v.(*ssa.BinOp); isBin {
						// operands may themselves be cells (captured parameters)
						x, okx := c01CellValue(bo.X, 0)
						y, oky := c01CellValue(bo.Y, 0)
						if okx && oky {
							r = "(" + Path(x) + " " + bo.Op.String() + " " + Path(y) + ")"
						}
					}
				}
				if !ok || !globAny(shapes, r) {
					bad = append(bad, fmt.Sprintf("%s in %s at %s", r, c.P.Name(fn), c.P.InstrPos(in)))
					if badPos == "" {
						badPos = c.P.InstrPos(in)
					}
				}
			}
		}
	}
	construct := "storevalues:" + owner + "." + field + "@" + fnGlob
	switch {
	case len(bad) > 0:
		c.add("shape", rule, construct, Violated, badPos, fmt.Sprintf("store to %s.%s has a value outside %v: %s", owner, field, shapes, strings.Join(bad, "; ")))
	case n < min:
		c.add("shape", rule, construct, Undecided, "", fmt.Sprintf("%d store(s) found, hand-confirmed minimum %d (vacuous or moved)", n, min))
	default:
		c.add("shape", rule, construct, Held, "", fmt.Sprintf("%d store(s), every stored value resolves to %v", n, shapes))
	}
}

// c01ResultTypeConfined: functions of the loaded packages that have a result of
// the named type and an error result may contain a success return only if listed.
func c01SuccessReturnsConfined(c *Ctx, rule, typeName string, allowed ...string) {
	T := c.lookupType(typeName)
	if T == nil {
		c.add("anchor", "anchor", typeName, Undecided, "", "type not found")
		return
	}
	n := 0
	var bad []string
	badPos := ""
	where := map[string]int{}
	for _, fn := range c.P.AllFuncs {
		res := fn.Signature.Results()
		has := false
		for i := 0; i < res.Len(); i++ {
			if types.Identical(res.At(i).Type(), T) {
				has = true
			}
		}
		if !has {
			continue
		}
		for _, in := range instrsMatching(fn, RetNil{}) {
			n++
			name := c.P.Name(fn)
			where[name]++
			if !globAny(allowed, name) {
				bad = append(bad, name+" at "+c.P.InstrPos(in))
				if badPos == "" {
					badPos = c.P.InstrPos(in)
				}
			}
		}
	}
	construct := "success-returns-of:" + typeName
	switch {
	case len(bad) > 0:
		c.add("confine", rule, construct, Violated, badPos, fmt.Sprintf("a (%s, nil) return exists outside %v: %s", typeName, allowed, strings.Join(bad, "; ")))
	case n == 0:
		c.add("confine", rule, construct, Undecided, "", "no success return found (vacuous)")
	default:
		c.add("confine", rule, construct, Held, "", fmt.Sprintf("%d success return(s), all inside %v: %s", n, allowed, countsString(where)))
	}
}

// c01AfterNeeds: from every instruction matching `from`, every path to an
// instruction matching `target` crosses an edge establishing the guard (each
// guard string is its own obligation). A later re-execution of `from` restarts
// the requirement, so a loop iteration cannot borrow an earlier iteration's proof.
func c01AfterNeeds(c *Ctx, rule string, fn *ssa.Function, from, target Effect, guards ...string) {
	if fn == nil {
		return
	}
	fname := c.P.Name(fn)
	starts := instrsMatching(fn, from)
	for _, gs := range guards {
		construct := fname + "#after " + from.String() + " → " + target.String() + "⇐" + gs
		if len(starts) == 0 || len(instrsMatching(fn, target)) == 0 {
			c.add("order", rule, construct, Undecided, c.P.Pos(fn.Pos()), "no start or no target instruction (vacuous)")
			continue
		}
		removed, descr := guardEdges(fn, parseGuard(gs))
		var bad []string
		for _, st := range starts {
			seen := map[*ssa.BasicBlock]bool{}
			var walk func(b *ssa.BasicBlock, i int) bool
			walk = func(b *ssa.BasicBlock, i int) bool {
				for ; i < len(b.Instrs); i++ {
					if target.Match(b.Instrs[i]) {
						return true
					}
				}
				for si, s := range b.Succs {
					if removed[edge{b, si}] || seen[s] {
						continue
					}
					seen[s] = true
					if walk(s, 0) {
						return true
					}
				}
				return false
			}
			if walk(st.Block(), indexIn(st.Block(), st)+1) {
				bad = append(bad, c.P.InstrPos(st))
			}
		}
		if len(bad) > 0 {
			c.add("order", rule, construct, Violated, bad[0], fmt.Sprintf("in %s a path from %q reaches %q without %q (from %s)", fname, from.String(), target.String(), gs, strings.Join(bad, ", ")))
		} else {
			c.add("order", rule, construct, Held, c.P.InstrPos(starts[0]), fmt.Sprintf("%d start site(s); %d guard edge(s) [%s]; no guard-free path to the target", len(starts), len(removed), strings.Join(dedup(descr), "; ")))
		}
	}
}

// c01ArgFrom: in fn, argument #idx (receiver = 0) of every call to callee is a
// value matching one of shapes, where a plain local that is assigned exactly
// once is looked through (so `result, err := f(); g(result)` is `f()#0`).
func c01ArgFrom(c *Ctx, rule string, fn *ssa.Function, callee string, idx int, shapes ...string) {
	if fn == nil {
		return
	}
	fname := c.P.Name(fn)
	construct := fmt.Sprintf("%s#arg%d-of:%s", fname, idx, callee)
	n := 0
	var bad []string
	for _, in := range instrsMatching(fn, CallTo{callee}) {
		args := callArgs(in.(ssa.CallInstruction).Common())
		if idx >= len(args) {
			bad = append(bad, "too few arguments at "+c.P.InstrPos(in))
			continue
		}
		n++
		v := args[idx]
		if u, ok := v.(*ssa.UnOp); ok && u.Op.String() == "*" {
			if a, ok := u.X.(*ssa.Alloc); ok && spilledParam(a) == nil && a.Referrers() != nil {
				var src ssa.Value
				k := 0
				for _, r := range *a.Referrers() {
					if st, ok := r.(*ssa.Store); ok && st.Addr == ssa.Value(a) {
						k++
						src = st.Val
					}
				}
				if k == 1 {
					v = src
				}
			}
		}
		if p := Path(v); !globAny(shapes, p) {
			bad = append(bad, p+" at "+c.P.InstrPos(in))
		}
	}
	switch {
	case len(bad) > 0:
		c.add("shape", rule, construct, Violated, c.P.Pos(fn.Pos()), fmt.Sprintf("argument is not of origin %v: %s", shapes, strings.Join(bad, "; ")))
	case n == 0:
		c.add("shape", rule, construct, Undecided, c.P.Pos(fn.Pos()), "no call to "+callee+" (vacuous)")
	default:
		c.add("shape", rule, construct, Held, c.P.Pos(fn.Pos()), fmt.Sprintf("%d call(s), argument #%d originates from %v", n, idx, shapes))
	}
}

func c01(c *Ctx) {
	const R = "pkg/channel/replication."
	durable := "*AppendOutcome.Durable(*.outcome) == true"

	// ---- R1: runDurableRound success only behind local + quorum durability
	round := c.Fn(R + "runDurableRound")
	c.Guard("R1-round", round, RetNil{},
		"*.localDurable == true",
		"*.durableVotes >= writeQuorum",
	)
	c.Min("R1-round", 2)

	// ---- R2: the two counters are earned only by a Durable() completion, written nowhere else
	votes := c01FieldStore(c, R+"durableRoundResult.durableVotes", "")
	localDur := c01FieldStore(c, R+"durableRoundResult.localDurable", "")
	c.Guard("R2-votes", round, votes, durable)
	c.Guard("R2-votes", round, localDur, durable, "*.local == true")
	c.StoreShape("R2-votes", round, "*.durableVotes", "(*.durableVotes + 1)")
	c.StoreShape("R2-votes", round, "*.localDurable", "true")
	c.ConfineStores("R2-votes", R+"durableRoundResult.durableVotes", true, R+"runDurableRound")
	c.ConfineStores("R2-votes", R+"durableRoundResult.localDurable", true, R+"runDurableRound")
	// a completion is "the local write" only for voter == local (hedged/deferred completions never are)
	c01StoresResolve(c, "R2-votes", R+"runDurableRound*", "writeResult", "local", 2, "(voter == local)")
	c.Min("R2-votes", 8)

	// ---- R3: finishCommit / barrier re-check the proof; rounds run with the installed authority
	finish := c.Fn(R + "quorumLog.finishCommit")
	publish := OneOf{RetNil{}, StoreTo{Addr: "state.hw"}, StoreTo{Addr: "state.frontier"}, CallTo{R + "quorumLog.remember"}}
	c.Guard("R3-finish", finish, publish,
		"result.localDurable == true",
		"result.durableVotes >= state.authority.WriteQuorum",
		"*AppendOutcome.Durable(result.outcome) == true",
	)
	barrier := c.Fn(R + "writeCurrentTermBarrier")
	c.Guard("R3-finish", barrier, RetNil{},
		"*runDurableRound(*)#1 == nil",
		"*.localDurable == true",
		"*.durableVotes >= authority.WriteQuorum",
		durable,
		"*validAuthority(authority) == true",
		"recovered.Committed == recovered.LEO",
	)
	commit := c.Fn(R + "quorumLog.Commit")
	retry := c.Fn(R + "quorumLog.retryPending")
	c.Guard("R3-finish", commit, CallTo{R + "quorumLog.finishCommit"}, "*runDurableRound(*)#1 == nil")
	c.Guard("R3-finish", retry, CallTo{R + "quorumLog.finishCommit"}, "*runDurableRound(*)#1 == nil")
	roundOwner := R + "runDurableRound(ctx, l.cfg.Local, *.authority.Voters, *.authority.WriteQuorum, *, l.cfg.Durability)"
	c.CallShape("R3-finish", commit, R+"runDurableRound", roundOwner)
	c.CallShape("R3-finish", retry, R+"runDurableRound", roundOwner)
	c.CallShape("R3-finish", barrier, R+"runDurableRound", R+"runDurableRound(ctx, authority.Leader, authority.Voters, authority.WriteQuorum, *, dispatcher)")
	// the proof handed to finishCommit is the result of the round just run (not a stale or synthesised one)
	c01ArgFrom(c, "R3-finish", commit, R+"quorumLog.finishCommit", 3, "*runDurableRound(*)#0")
	c01ArgFrom(c, "R3-finish", retry, R+"quorumLog.finishCommit", 3, "*runDurableRound(*)#0")
	c.ConfineCalls("R3-finish", R+"runDurableRound", 3, R+"quorumLog.Commit", R+"quorumLog.retryPending", R+"writeCurrentTermBarrier")
	c.Min("R3-finish", 17)

	// ---- R4: who produces receipts
	c.ConfineCalls("R4-receipt", R+"quorumLog.finishCommit", 2, R+"quorumLog.Commit", R+"quorumLog.retryPending")
	c.ConfineCalls("R4-receipt", R+"quorumLog.retryPending", 2, R+"quorumLog.Commit")
	c.ConfineCalls("R4-receipt", R+"quorumLog.remember", 2, R+"quorumLog.finishCommit", R+"quorumLog.reconcileCommandConflict")
	c.ConfineCalls("R4-receipt", R+"quorumLog.loadRetainedProposal", 1, R+"quorumLog.reconcileCommandConflict")
	c.ConfineCalls("R4-receipt", R+"quorumLog.reconcileCommandConflict", 1, R+"quorumLog.Commit")
	for _, f := range []string{"Authority", "CommandID", "First", "Last", "HW"} {
		c.ConfineStores("R4-receipt", R+"Receipt."+f, true, R+"quorumLog.finishCommit", R+"quorumLog.loadRetainedProposal")
	}
	c01SuccessReturnsConfined(c, "R4-receipt", R+"Receipt", R+"quorumLog.Commit", R+"quorumLog.finishCommit", R+"quorumLog.reconcileCommandConflict")
	c.ConfineStores("R4-receipt", R+"retainedProposal.durable", true, R+"quorumLog.finishCommit", R+"quorumLog.loadRetainedProposal")
	c.ConfineStores("R4-receipt", R+"retainedProposal.receipt", true, R+"quorumLog.finishCommit", R+"quorumLog.loadRetainedProposal")
	c.Min("R4-receipt", 13)

	// ---- R5: Install becomes ready only after recover → repair → (barrier)
	install := c.Fn(R + "quorumLog.Install")
	ready := c01FieldStore(c, R+"quorumChannel.ready", "true")
	recovered := "*repairQuorumPrefix(*)#0"
	c.Guard("R5-install", install, ready,
		"*validAuthority(authority) == true",
		"*recoverQuorumPrefix(*)#1 == nil",
		"*repairQuorumPrefix(*)#1 == nil",
		"*writeCurrentTermBarrier(*)#1 == nil || *frontierUsesAuthority("+recovered+", authority.ID) == true || "+recovered+" == zero:ReplicaState",
	)
	c.Guard("R5-install", install, CallTo{R + "repairQuorumPrefix"}, "*recoverQuorumPrefix(*)#1 == nil")
	c.Guard("R5-install", install, CallTo{R + "writeCurrentTermBarrier"}, "*repairQuorumPrefix(*)#1 == nil")
	c.Guard("R5-install", install, RetNil{}, "*.ready == true || *repairQuorumPrefix(*)#1 == nil")
	c.StoreShape("R5-install", install, "alloc:recoveryRepairRequest.Selection", "*recoverQuorumPrefix(*)#0")
	c.StoreShape("R5-install", install, "alloc:recoveryRepairRequest.Quorum", "authority.WriteQuorum")
	c.StoreShape("R5-install", install, "alloc:recoveryRepairRequest.Voters", "authority.Voters")
	c.StoreShape("R5-install", install, "alloc:recoveryProbeRequest.Quorum", "authority.WriteQuorum")
	c.StoreShape("R5-install", install, "alloc:recoveryProbeRequest.Voters", "authority.Voters")
	c.CallShape("R5-install", install, R+"writeCurrentTermBarrier", R+"writeCurrentTermBarrier(ctx, authority, "+recovered+", l.cfg.Durability)")
	// the installed frontier is the repaired prefix or the barrier's state, nothing else
	if install != nil {
		var bad []string
		n := 0
		fr := c01FieldStore(c, R+"quorumChannel.frontier", "")
		for _, in := range instrsMatching(install, fr) {
			st := in.(*ssa.Store)
			srcs := []ssa.Value{st.Val}
			if u, ok := st.Val.(*ssa.UnOp); ok {
				if a, ok := u.X.(*ssa.Alloc); ok && a.Referrers() != nil {
					srcs = nil
					for _, r := range *a.Referrers() {
						if s2, ok := r.(*ssa.Store); ok && s2.Addr == ssa.Value(a) {
							srcs = append(srcs, s2.Val)
						}
					}
				}
			}
			for _, s := range srcs {
				n++
				p := Path(s)
				if !glob(recovered, p) && !glob("*.State", p) {
					bad = append(bad, p+" at "+c.P.InstrPos(in))
				}
			}
		}
		construct := R + "quorumLog.Install#frontier-sources"
		switch {
		case len(bad) > 0:
			c.add("shape", "R5-install", construct, Violated, c.P.Pos(install.Pos()), "Install publishes a frontier that is neither the repaired prefix nor the barrier state: "+strings.Join(bad, "; "))
		case n == 0:
			c.add("shape", "R5-install", construct, Undecided, c.P.Pos(install.Pos()), "no store to quorumChannel.frontier in Install (vacuous)")
		default:
			c.add("shape", "R5-install", construct, Held, c.P.Pos(install.Pos()), fmt.Sprintf("%d source value(s) of the installed frontier: repaired prefix / barrier state only", n))
		}
	}
	c.ConfineStores("R5-install", R+"quorumChannel.ready", true, R+"quorumLog.Install", R+"fenceQuorumChannel")
	c.StoreShape("R5-install", c.Fn(R+"fenceQuorumChannel"), "state.ready", "false")
	c.ConfineCalls("R5-install", R+"recoverQuorumPrefix", 1, R+"quorumLog.Install")
	c.ConfineCalls("R5-install", R+"repairQuorumPrefix", 1, R+"quorumLog.Install")
	c.ConfineCalls("R5-install", R+"writeCurrentTermBarrier", 1, R+"quorumLog.Install")
	c.Min("R5-install", 19)

	// ---- R6: repair never cuts below the committed boundary, succeeds only on the exact selection
	repair := c.Fn(R + "repairQuorumPrefix")
	replace := CallTo{R + "ReplicaStore.Replace"}
	c.Guard("R6-repair", repair, replace,
		"*.Committed <= *.Index",
		"*validateRecoveryTopology(request.Voters, request.Quorum)#1 == nil",
		"*validRecoveryRepairSelection(request.Selection, *, request.Quorum) == true",
		"request.Leader == request.Local",
	)
	c.Guard("R6-repair", repair, RetNil{},
		"*.LEO == *.Index",
		"*.Committed == *.Index",
		"*.TailIdentity == *.Identity",
	)
	c.StoreShape("R6-repair", repair, "alloc:RecoveryReplacement.KeepThrough", "phi(*.LEO|*.Committed)", "phi(*.Committed|*.LEO)", "0")
	c.Guard("R6-repair", repair, StoreTo{Addr: "alloc:RecoveryReplacement.KeepThrough", Val: "0"}, "*.Index == 0")
	// once a Replace was issued, success needs its durable, error-free, exact-offset result
	c01AfterNeeds(c, "R6-repair", repair, replace, RetNil{},
		"*AppendOutcome.Durable(*ReplicaStore.Replace(*)[0].Outcome) == true",
		"*ReplicaStore.Replace(*)[0].Err == nil",
		"*ReplicaStore.Replace(*)[0].LastOffset == *",
		"len(*ReplicaStore.Replace(*)) == 1",
	)
	rr := c.Fn("pkg/db/message.ChannelStore.ReplaceRecoverySuffix")
	const M = "pkg/db/message."
	destructive := OneOf{
		CallTo{M + "channelEntry.stageTruncateDurableProposals"}, CallTo{M + "ChannelLog.stageDeleteMessage"},
		CallTo{"pkg/db/internal/engine.Batch.DeleteRange"}, CallTo{M + "channelEntry.stageCommitRows"}, CallTo{"pkg/db/internal/engine.Batch.Commit"},
	}
	c.Guard("R6-repair", rr, destructive,
		"* == req.Expected",
		"req.KeepThrough <= *.LEO",
		"req.KeepThrough >= *.Committed",
		"req.Committed >= *.Committed",
		"req.KeepThrough >= *.LocalRetentionThroughSeq || *loadRetentionState(*)#1 == false",
		"req.Committed <= *prepareRecoveryReplacementLocked(*)#1",
		"*prepareRecoveryReplacementLocked(*)#2 == nil",
	)
	c.Guard("R6-repair", rr, RetNil{}, "pkg/db/internal/engine.Batch.Commit(*) == nil")
	c.CallShape("R6-repair", rr, M+"channelEntry.stageTruncateDurableProposals", "*stageTruncateDurableProposals(*, req.KeepThrough)")
	c.CallShape("R6-repair", rr, M+"ChannelLog.readRows", "*readRows(s.log, ctx, (req.KeepThrough + 1), 0, *)")
	c.Min("R6-repair", 23)

	// ---- R7: strict-majority topology validated at every entry
	topo := c.Fn(R + "validateRecoveryTopology")
	c.Guard("R7-topology", topo, RetNil{},
		"(quorum × 2) > len(voters)",
		"quorum <= len(voters)",
		"quorum > 0",
		"len(voters) != 0",
	)
	c.GuardTrue("R7-topology", c.Fn(R+"validAuthority"), 0, "*validateRecoveryTopology(authority.Voters, authority.WriteQuorum)#1 == nil")
	c.Guard("R7-topology", install, OneOf{CallTo{R + "fenceQuorumChannel"}, CallTo{R + "recoverQuorumPrefix"}}, "*validAuthority(authority) == true")
	recoverFn := c.Fn(R + "recoverQuorumPrefix")
	c.Guard("R7-topology", recoverFn, OneOf{RetNil{}, CallTo{R + "collectRecoveryProbeRound"}}, "*validateRecoveryTopology(request.Voters, request.Quorum)#1 == nil")
	c.Guard("R7-topology", c.Fn(R+"selectRecoveryPrefix"), RetNil{}, "*validateRecoveryTopology(voters, quorum)#1 == nil")
	c.Min("R7-topology", 8)

	// ---- R8: the probe proof: >= Q reports, identities advance only on a quorum-identical answer
	c.Guard("R8-select", recoverFn, RetNil{},
		"*collectRecoveryProbeRound(*)#1 == nil",
		"len(*collectRecoveryProbeRound(*)#0) >= request.Quorum",
		"*quorumFrontier(*) <= *quorumFrontier(*)",
		"len(phi(*)) >= request.Quorum || *quorumFrontier(*) == 0",
	)
	ident := c01FieldStore(c, R+"recoverySelection.Identity", "")
	c.Guard("R8-select", recoverFn, ident,
		"*quorumIdentityAt(*)#1 == true || *quorumCommittedIdentityAt(*)#1 == true || request.Continuation != nil")
	c.CallShape("R8-select", recoverFn, R+"quorumIdentityAt", R+"quorumIdentityAt(*, request.Quorum)")
	c.CallShape("R8-select", recoverFn, R+"quorumCommittedIdentityAt", R+"quorumCommittedIdentityAt(*, request.Quorum)")
	c.CallShape("R8-select", recoverFn, R+"quorumFrontier", R+"quorumFrontier(*, request.Quorum)")
	c.GuardTrue("R8-select", c.Fn(R+"quorumIdentityAt"), 1, "*[*] >= quorum")
	c.GuardTrue("R8-select", c.Fn(R+"quorumCommittedIdentityAt"), 1, "*[*] >= quorum")
	c.Min("R8-select", 10)
}
