package main

import (
	"fmt"
	"go/types"
	"sort"
	"strings"

	"golang.org/x/tools/go/ssa"
)

const (
	c09EngBatch  = "pkg/db/internal/engine.Batch."
	c09EngCommit = "pkg/db/internal/engine.Batch.Commit"
	c09EngNew    = "pkg/db/internal/engine.DB.NewBatch"
	c09Pebble    = "github.com/cockroachdb/pebble/v2."
)

func init() {
	register(&PropSpec{
		ID:        "C09",
		Pkgs:      []string{"./pkg/db/...", "./pkg/raftlog"},
		Technique: "static analysis: call-argument census (every physical commit is synchronous), SSA receiver-identity single-batch discipline, edge-dominance (publish only after commit success, fail-closed frontier load), who-may-call confinement, dropped-error scan",
		Explain:   "Decides the mechanism that makes every storage mutation one synchronous atomic Pebble batch. (R1) every engine.Batch.Commit in pkg/db passes the constant true (enumerated exceptions: the rebuildable latest-index GC and the explicitly non-durable dispatch-cursor hint, whose *Durable callers are checked to pass true), engine.Batch.Commit maps sync=true to pebble.Sync, every direct Pebble commit/write passes pebble.Sync, and the commit coordinator's commit function is only ever the Commit(true) closure. (R2) each mutation function creates exactly one batch, every staged write / helper call / Commit in it uses that same batch object (SSA identity), Commit runs at most once per batch lifetime, helpers that receive a batch never create or commit one, a batch owner never reaches (through static calls) another function that creates or commits a batch on the same path, nothing in pkg/db writes to Pebble outside a batch; multi-batch pagers (restore import/cleanup, snapshot install) are enumerated exceptions with reasons; the append/apply/truncate/trim/replace/checkpoint paths stage rows, every secondary index, the checkpoint, the retention progress record and the catalog row before their Commit. (R3) the cached log end (leo/loaded) is stored only behind Commit == nil or in enumerated load-from-disk sites; after staging, a mutation function returns success only through a successful commit; the coordinator runs Publish and reports OutcomeCommitted only behind commitFunc == nil, reports Unknown (never NotCommitted) after a commit error and completes all requests on every error exit. (R4) no error result of the engine, the coordinator or a staging helper is dropped. (R5) LoadDurableRecovery / loadDurableFrontierLocked succeed only if checkpoint.HW <= LEO and, when LEO > 0, the tail proposal pair and tail entry identity are present and agree field by field. NOT decided: that Pebble applies a batch atomically and that Sync means durable (trusted), behaviour after an actual crash or power loss, convergence of the enumerated multi-batch pagers after a crash between pages, that the coordinator's success loop completes every request (loop over the batch slice), calls through interfaces/function values in the nesting rule, that the staged rows are the right rows.",
		Run:       c09,
		Mutants: []Mutant{
			{Name: "pair-compares-command-id-only", File: "pkg/db/message/proposal_manifest.go", Old: "if !commandPresent || byCommand != byLast {", New: "if !commandPresent || byCommand.manifest.CommandID != byLast.manifest.CommandID {", Expect: "C09/R5-frontier/*loadDurableProposalPairByLast*"},
			{Name: "append-nosync", File: "pkg/db/message/append.go", Old: "if err := batch.Commit(true); err != nil {", New: "if err := batch.Commit(false); err != nil {", Expect: "C09/R1-sync/*ChannelLog.Append*"},
			{Name: "engine-sync-inverted", File: "pkg/db/internal/engine/batch.go", Old: "\tif sync {\n\t\topts = pebble.Sync", New: "\tif !sync {\n\t\topts = pebble.Sync", Expect: "C09/R1-sync/*engine.Batch.Commit*"},
			{Name: "coordinator-nosync", File: "pkg/db/internal/commit/coordinator.go", Old: "return batch.Commit(true) }", New: "return batch.Commit(false) }", Expect: "C09/R1-sync/*"},
			{Name: "cursor-durable-nosync", File: "pkg/db/message/compat.go", Old: "if err := s.storeCommittedDispatchCursor(name, seq, true); err != nil {", New: "if err := s.storeCommittedDispatchCursor(name, seq, false); err != nil {", Expect: "C09/R1-sync/*ConfirmCommittedDispatchCursorDurable*"},
			{Name: "append-publish-before-commit", File: "pkg/db/message/append.go", Old: "\tif err := batch.Commit(true); err != nil {\n\t\treturn AppendResult{}, err\n\t}\n\tl.publishAppendLocked(result)", New: "\tl.publishAppendLocked(result)\n\tif err := batch.Commit(true); err != nil {\n\t\treturn AppendResult{}, err\n\t}", Expect: "C09/R3-publish/*ChannelLog.Append*"},
			{Name: "truncate-publish-on-error", File: "pkg/db/message/truncate.go", Old: "\tif err := batch.Commit(true); err != nil {\n\t\treturn err\n\t}\n\tl.leo.Store(fromSeq - 1)", New: "\terr = batch.Commit(true)\n\tl.leo.Store(fromSeq - 1)", Expect: "C09/R3-publish/*TruncateFrom*"},
			{Name: "append-split-batch", File: "pkg/db/message/append.go", Old: "\tif err := l.stageCatalogForAppend(batch, result.BaseSeq); err != nil {\n\t\treturn AppendResult{}, err\n\t}\n\tif err := batch.Commit(true); err != nil {", New: "\tcatalogBatch := l.db.engine.NewBatch()\n\tdefer catalogBatch.Close()\n\tif err := l.stageCatalogForAppend(catalogBatch, result.BaseSeq); err != nil {\n\t\treturn AppendResult{}, err\n\t}\n\tif err := catalogBatch.Commit(true); err != nil {\n\t\treturn AppendResult{}, err\n\t}\n\tif err := batch.Commit(true); err != nil {", Expect: "C09/R2-batch/*ChannelLog.Append*"},
			{Name: "helper-own-batch", File: "pkg/db/message/compat.go", Old: "\tif checkpoint != nil {\n\t\tif err := batch.Set(encodeCheckpointKey(e.key), encodeCheckpoint(*checkpoint)); err != nil {\n\t\t\treturn toChannelError(err)\n\t\t}\n\t}\n\tif point != nil {", New: "\tif checkpoint != nil {\n\t\tside := e.db.engine.NewBatch()\n\t\tdefer side.Close()\n\t\tif err := side.Set(encodeCheckpointKey(e.key), encodeCheckpoint(*checkpoint)); err != nil {\n\t\t\treturn toChannelError(err)\n\t\t}\n\t\tif err := side.Commit(true); err != nil {\n\t\t\treturn toChannelError(err)\n\t\t}\n\t}\n\tif point != nil {", Expect: "C09/R2-batch/*stageCommitRows*"},
			{Name: "coordinator-publish-on-commit-error", File: "pkg/db/internal/commit/coordinator.go", Old: "\t\treqs.completeAll(SubmitResult{Outcome: OutcomeUnknown, Err: err})\n\t\treturn\n\t}\n\tcommitDuration := time.Since(commitStarted)", New: "\t}\n\tcommitDuration := time.Since(commitStarted)", Expect: "C09/R3-coordinator/*"},
			{Name: "coordinator-commit-error-not-committed", File: "pkg/db/internal/commit/coordinator.go", Old: "reqs.completeAll(SubmitResult{Outcome: OutcomeUnknown, Err: err})", New: "reqs.completeAll(SubmitResult{Outcome: OutcomeDefinitelyNotCommitted, Err: err})", Expect: "C09/R3-coordinator/*"},
			{Name: "coordinator-build-error-forgets-requests", File: "pkg/db/internal/commit/coordinator.go", Old: "\t\t\treqs.completeAll(SubmitResult{Outcome: OutcomeDefinitelyNotCommitted, Err: err})\n\t\t\treturn\n\t\t}\n\t}\n\tbuildDuration := time.Since(buildStarted)", New: "\t\t\treturn\n\t\t}\n\t}\n\tbuildDuration := time.Since(buildStarted)", Expect: "C09/R3-coordinator/*"},
			{Name: "trim-drops-commit-error", File: "pkg/db/message/retention.go", Old: "\tif err := batch.Commit(true); err != nil {\n\t\treturn RetentionTrimResult{}, err\n\t}\n\tl.leo.Store(", New: "\t_ = batch.Commit(true)\n\tl.leo.Store(", Expect: "C09/R*"},
			{Name: "stage-drops-set-error", File: "pkg/db/message/checkpoint.go", Old: "\tif err := batch.Set(encodeCheckpointKey(l.key), encodeCheckpoint(checkpoint)); err != nil {\n\t\treturn err\n\t}\n\tif err := l.stageCatalog(batch); err != nil {", New: "\tbatch.Set(encodeCheckpointKey(l.key), encodeCheckpoint(checkpoint))\n\tif err := l.stageCatalog(batch); err != nil {", Expect: "C09/R4-errors/*"},
			{Name: "frontier-accepts-hw-above-leo", File: "pkg/db/message/compat.go", Old: "\t\tif checkpoint.HW > leo {\n\t\t\treturn DurableRecoveryState{}, channel.ErrCorruptState\n\t\t}\n\t\tresult.Committed = checkpoint.HW", New: "\t\tresult.Committed = checkpoint.HW", Expect: "C09/R5-frontier/*"},
			{Name: "frontier-accepts-missing-tail-proof", File: "pkg/db/message/compat.go", Old: "\t\tif !present {\n\t\t\treturn DurableRecoveryState{}, channel.ErrCorruptState\n\t\t}\n\t\tentry, present, err := loadDurableEntryIdentityFrom(s.log.db.engine, s.log.key, leo)", New: "\t\tentry, present, err := loadDurableEntryIdentityFrom(s.log.db.engine, s.log.key, leo)", Expect: "C09/R5-frontier/*"},
			{Name: "frontier-ignores-digest", File: "pkg/db/message/compat.go", Old: "if !present || manifest.LastOffset != leo || manifest.Digest != entry.Digest ||\n", New: "if !present || manifest.LastOffset != leo ||\n", Expect: "C09/R5-frontier/*Digest*"},
			{Name: "raftlog-nosync", File: "pkg/raftlog/pebble_writer.go", Old: "batch.Commit(pebble.Sync)", New: "batch.Commit(pebble.NoSync)", Expect: "C09/R1-sync/*flushWriteRequests*"},
		},
	})
}

// ---------------------------------------------------------------------------
// helpers (C09-private; also used by C11/C14 where noted)

// c09Const renders the value of a package-level constant the way Path renders it.
func c09Const(c *Ctx, pkg, name string) string {
	pk := c.P.Pkgs[pkg]
	if pk != nil {
		if k, ok := pk.Types.Scope().Lookup(name).(*types.Const); ok {
			return k.Val().ExactString()
		}
	}
	c.add("anchor", "anchor", pkg+"."+name, Undecided, "", "anchored constant not found")
	return "<missing>"
}

func c09IsConstTrue(v ssa.Value) bool {
	k, ok := v.(*ssa.Const)
	return ok && k.Value != nil && constString(k) == "true"
}

// c09CommitSync: every engine.Batch.Commit call passes the constant true
// unless the calling function is an enumerated exception.
func c09CommitSync(c *Ctx, rule string, except map[string]string) int {
	n := 0
	for _, s := range c.callSites(c09EngCommit) {
		n++
		name := c.P.Name(s.fn)
		args := s.in.Common().Args
		construct := name + "#Commit(sync)"
		pos := c.P.InstrPos(s.in)
		switch {
		case len(args) == 2 && c09IsConstTrue(args[1]):
			c.add("shape", rule, construct, Held, pos, "engine.Batch.Commit(true)")
		default:
			if why, ok := except[name]; ok {
				c.add("shape", rule, construct, Exception, pos, "Commit("+Path(args[len(args)-1])+"): "+why)
			} else {
				c.add("shape", rule, construct, Violated, pos, fmt.Sprintf("%s commits a storage batch with sync=%s; every mutation must be Commit(true) (a crash may otherwise lose a mutation that was reported durable)", name, Path(args[len(args)-1])))
			}
		}
	}
	c.CallSites += n
	return n
}

// c09EngineSyncMapping: in engine.Batch.Commit the options passed to
// pebble.Batch.Commit are pebble.Sync unless the path took the `!sync` edge.
func c09EngineSyncMapping(c *Ctx, rule string) {
	fn := c.Fn(c09EngCommit)
	if fn == nil {
		return
	}
	construct := c.P.Name(fn) + "#sync⇒pebble.Sync"
	calls := instrsMatching(fn, CallTo{c09Pebble + "Batch.Commit"})
	if len(calls) == 0 {
		c.add("shape", rule, construct, Undecided, c.P.Pos(fn.Pos()), "engine.Batch.Commit no longer calls pebble.Batch.Commit")
		return
	}
	removed, _ := guardEdges(fn, parseGuard("!sync"))
	limit := reachUnguarded(fn, removed, nil)
	syncName := c09Pebble + "Sync"
	for _, in := range calls {
		args := in.(ssa.CallInstruction).Common().Args
		opt := args[len(args)-1]
		var bad []string
		var visit func(v ssa.Value, seen map[ssa.Value]bool)
		visit = func(v ssa.Value, seen map[ssa.Value]bool) {
			if Path(v) == syncName {
				return
			}
			phi, ok := v.(*ssa.Phi)
			if !ok {
				bad = append(bad, "options "+Path(v)+" are not pebble.Sync")
				return
			}
			if seen[phi] {
				return
			}
			seen[phi] = true
			for i, e := range phi.Edges {
				if Path(e) == syncName {
					continue
				}
				if _, isPhi := e.(*ssa.Phi); isPhi {
					visit(e, seen)
					continue
				}
				p := phi.Block().Preds[i]
				lim, reach := limit[p]
				if !reach || lim < len(p.Instrs) {
					continue
				}
				for si, s := range p.Succs {
					if s == phi.Block() && !removed[edge{p, si}] {
						bad = append(bad, fmt.Sprintf("options %s flow in on an edge that does not establish sync == false", Path(e)))
					}
				}
			}
		}
		visit(opt, map[ssa.Value]bool{})
		if len(bad) > 0 {
			c.add("shape", rule, construct, Violated, c.P.InstrPos(in), "engine.Batch.Commit(sync=true) can commit without pebble.Sync: "+strings.Join(bad, "; "))
		} else {
			c.add("shape", rule, construct, Held, c.P.InstrPos(in), "pebble options are pebble.Sync on every path except behind the `sync == false` edge ("+Path(opt)+")")
		}
	}
}

// c09PebbleWritesSync: every direct Pebble write/commit outside engine.Batch.Commit passes pebble.Sync.
func c09PebbleWritesSync(c *Ctx, rule string, min int) {
	writers := []string{"Batch.Commit", "DB.Set", "DB.Delete", "DB.DeleteRange", "DB.SingleDelete", "DB.Merge", "DB.Apply", "DB.LogData", "DB.DeleteSized"}
	n := 0
	for _, w := range writers {
		for _, s := range c.callSites(c09Pebble + w) {
			name := c.P.Name(s.fn)
			if name == c09EngCommit {
				continue // decided by c09EngineSyncMapping
			}
			n++
			args := s.in.Common().Args
			last := Path(args[len(args)-1])
			construct := name + "#pebble." + w
			if last == c09Pebble+"Sync" {
				c.add("shape", rule, construct, Held, c.P.InstrPos(s.in), "pebble."+w+"(…, pebble.Sync)")
			} else {
				c.add("shape", rule, construct, Violated, c.P.InstrPos(s.in), fmt.Sprintf("%s calls pebble.%s with write options %s instead of pebble.Sync", name, w, last))
			}
		}
	}
	if n < min {
		c.add("vacuity", rule, "pebble-direct-writes", Undecided, "", fmt.Sprintf("%d direct Pebble write site(s) found, hand-confirmed minimum %d", n, min))
	}
}

// c09EdgeTargets: blocks entered through an edge on which guard g holds.
func c09EdgeTargets(fn *ssa.Function, g string) []*ssa.BasicBlock {
	edges, _ := guardEdges(fn, parseGuard(g))
	var out []*ssa.BasicBlock
	for e := range edges {
		out = append(out, e.from.Succs[e.succ])
	}
	sort.Slice(out, func(i, j int) bool { return out[i].Index < out[j].Index })
	return out
}

// c09AfterEdge decides two facts about every path that starts on an edge
// establishing `when`: it never executes an instruction matching `never`
// (if non-nil) and it executes an instruction matching `must` (if non-nil)
// before any return.
func c09AfterEdge(c *Ctx, rule string, fn *ssa.Function, when string, never, must Effect) {
	if fn == nil {
		return
	}
	fname := c.P.Name(fn)
	starts := c09EdgeTargets(fn, when)
	label := fname + "#on[" + when + "]"
	if never != nil {
		label += " never " + never.String()
	}
	if must != nil {
		label += " must " + must.String()
	}
	if len(starts) == 0 {
		c.add("order", rule, label, Undecided, c.P.Pos(fn.Pos()), "no branch establishes "+when+" (the tested call moved or its result is no longer tested)")
		return
	}
	var bad []string
	for _, st := range starts {
		if never != nil {
			seen := map[*ssa.BasicBlock]bool{st: true}
			work := []*ssa.BasicBlock{st}
			for len(work) > 0 {
				b := work[len(work)-1]
				work = work[:len(work)-1]
				for _, in := range b.Instrs {
					if never.Match(in) {
						bad = append(bad, fmt.Sprintf("%s is reachable at %s", never.String(), c.P.InstrPos(in)))
					}
				}
				for _, s := range b.Succs {
					if !seen[s] {
						seen[s] = true
						work = append(work, s)
					}
				}
			}
		}
		if must != nil {
			seen := map[*ssa.BasicBlock]bool{st: true}
			var walk func(b *ssa.BasicBlock) bool
			walk = func(b *ssa.BasicBlock) bool {
				for _, in := range b.Instrs {
					if must.Match(in) {
						return false
					}
					if _, ok := in.(*ssa.Return); ok {
						bad = append(bad, fmt.Sprintf("return at %s without %s", c.P.InstrPos(in), must.String()))
						return true
					}
				}
				for _, s := range b.Succs {
					if !seen[s] {
						seen[s] = true
						if walk(s) {
							return true
						}
					}
				}
				return false
			}
			walk(st)
		}
	}
	if len(bad) > 0 {
		c.add("order", rule, label, Violated, c.P.InstrPos(starts[0].Instrs[0]), fmt.Sprintf("in %s after %s: %s", fname, when, strings.Join(dedup(bad), "; ")))
		return
	}
	c.add("order", rule, label, Held, c.P.InstrPos(starts[0].Instrs[0]), fmt.Sprintf("%d edge(s) establish %s; all continuations comply", len(starts), when))
}

// --- single-batch discipline ------------------------------------------------

func c09IsEngineBatchPtr(t types.Type) bool {
	p, ok := t.(*types.Pointer)
	if !ok {
		return false
	}
	n, ok := p.Elem().(*types.Named)
	return ok && n.Obj().Name() == "Batch" && n.Obj().Pkg() != nil && strings.HasSuffix(n.Obj().Pkg().Path(), "/pkg/db/internal/engine")
}

// c09BatchOrigins resolves a *engine.Batch value to the set of things it can be:
// "new:<ptr>" (a NewBatch call in this function), "param", "outer" (captured
// variable), "field:<path>", or "?:<path>".
func c09BatchOrigins(v ssa.Value, out map[string]ssa.Value, seen map[ssa.Value]bool) {
	if seen[v] {
		return
	}
	seen[v] = true
	switch x := v.(type) {
	case *ssa.Call:
		if calleeName(&x.Call) == c09EngNew {
			out[fmt.Sprintf("new:%p", x)] = x
			return
		}
	case *ssa.Phi:
		for _, e := range x.Edges {
			c09BatchOrigins(e, out, seen)
		}
		return
	case *ssa.Parameter:
		out["param"] = x
		return
	case *ssa.FreeVar:
		out["outer"] = x
		return
	case *ssa.Const:
		if x.Value == nil {
			return // nil batch: not a write target
		}
	case *ssa.UnOp:
		switch a := x.X.(type) {
		case *ssa.Alloc:
			if p := spilledParam(a); p != nil {
				out["param"] = p
				return
			}
			n := 0
			for _, r := range *a.Referrers() {
				if st, ok := r.(*ssa.Store); ok && st.Addr == a {
					n++
					c09BatchOrigins(st.Val, out, seen)
				}
			}
			if n > 0 {
				return
			}
		case *ssa.FreeVar:
			out["outer"] = a
			return
		case *ssa.FieldAddr:
			out["field:"+Path(a)] = a
			return
		}
	}
	out["?:"+Path(v)] = v
}

// c09BatchDiscipline decides R2 for every function that creates a batch.
// multi: functions that legitimately create more than one batch (reason).
// fieldOK: functions whose batch lives in a struct field (paged writers).
func c09BatchDiscipline(c *Ctx, rule string, multi map[string]string, committers []string) (creators []string) {
	for _, fn := range c.P.AllFuncs {
		name := c.P.Name(fn)
		var news []*ssa.Call
		for _, in := range instrsMatching(fn, CallTo{c09EngNew}) {
			if call, ok := in.(*ssa.Call); ok {
				news = append(news, call)
			}
		}
		if len(news) == 0 {
			continue
		}
		creators = append(creators, name)
		pos := c.P.InstrPos(news[0])
		if why, ok := matchReset(multi, name); ok {
			c.add("order", rule, name+"#single-batch", Exception, pos, fmt.Sprintf("multi-batch operation (%d batch creation site(s)): %s", len(news), why))
			continue
		}
		var bad []string
		var commits []ssa.Instruction
		uses := 0
		for _, b := range fn.Blocks {
			for _, in := range b.Instrs {
				ci, ok := in.(ssa.CallInstruction)
				if !ok {
					continue
				}
				cc := ci.Common()
				cn := calleeName(cc)
				if _, isDefer := in.(*ssa.Defer); isDefer && cn == c09EngBatch+"Close" {
					continue
				}
				isCommit := globAny(committers, cn)
				for ai, a := range callArgs(cc) {
					if !c09IsEngineBatchPtr(a.Type()) {
						continue
					}
					if cn == c09EngBatch+"Close" {
						continue
					}
					uses++
					org := map[string]ssa.Value{}
					c09BatchOrigins(a, org, map[ssa.Value]bool{})
					for k := range org {
						if !strings.HasPrefix(k, "new:") {
							bad = append(bad, fmt.Sprintf("%s at %s uses a batch that is not the one created here (%s)", cn, c.P.InstrPos(in), k))
						}
					}
					if len(org) > 1 {
						bad = append(bad, fmt.Sprintf("%s at %s may use either of %d batches", cn, c.P.InstrPos(in), len(org)))
					}
					if isCommit && !isIn(commits, in) {
						commits = append(commits, in)
					}
					_ = ai
				}
			}
		}
		// Commit at most once per batch lifetime: from a Commit no Commit is
		// reachable again without first creating a fresh batch.
		for _, cm := range commits {
			if c09ReachesWithout(fn, cm, func(in ssa.Instruction) bool { return in != cm && isIn(commits, in) || in == cm },
				func(in ssa.Instruction) bool { return CallTo{c09EngNew}.Match(in) }) {
				bad = append(bad, fmt.Sprintf("Commit at %s can be followed by another Commit of the same batch", c.P.InstrPos(cm)))
			}
		}
		construct := name + "#single-batch"
		switch {
		case len(bad) > 0:
			c.add("order", rule, construct, Violated, pos, strings.Join(dedup(bad), "; "))
		case len(news) > 1:
			c.add("order", rule, construct, Violated, pos, fmt.Sprintf("%s creates %d storage batches; one mutation must be one atomic batch (a crash between the commits leaves a partial mutation)", name, len(news)))
		case len(commits) == 0:
			c.add("order", rule, construct, Violated, pos, name+" creates a batch but never commits it in the same function (batch ownership escaped the single-batch discipline)")
		default:
			c.add("order", rule, construct, Held, pos, fmt.Sprintf("1 batch, %d use(s) all on that SSA value, %d Commit site(s), at most one Commit per batch lifetime", uses, len(commits)))
		}
	}
	sort.Strings(creators)
	return creators
}

func isIn(list []ssa.Instruction, in ssa.Instruction) bool {
	for _, x := range list {
		if x == in {
			return true
		}
	}
	return false
}

// c09ReachesWithout: starting just after `start`, can an instruction matching
// target be executed before one matching barrier?
func c09ReachesWithout(fn *ssa.Function, start ssa.Instruction, target, barrier func(ssa.Instruction) bool) bool {
	sb := start.Block()
	seen := map[*ssa.BasicBlock]bool{}
	var walk func(b *ssa.BasicBlock, from int) bool
	walk = func(b *ssa.BasicBlock, from int) bool {
		for i := from; i < len(b.Instrs); i++ {
			in := b.Instrs[i]
			if barrier(in) {
				return false
			}
			if target(in) {
				return true
			}
		}
		for _, s := range b.Succs {
			if seen[s] {
				continue
			}
			seen[s] = true
			if walk(s, 0) {
				return true
			}
		}
		return false
	}
	return walk(sb, indexIn(sb, start)+1)
}

// c09HelpersNeverCommit: a function that receives a *engine.Batch stages into
// it; it must not create a batch nor commit one.
func c09HelpersNeverCommit(c *Ctx, rule string, exempt map[string]string) {
	n := 0
	var bad []string
	var badPos string
	for _, fn := range c.P.AllFuncs {
		name := c.P.Name(fn)
		if strings.HasPrefix(name, "pkg/db/internal/engine.") {
			continue
		}
		has := false
		for _, p := range fn.Params {
			if c09IsEngineBatchPtr(p.Type()) {
				has = true
			}
		}
		if !has {
			continue
		}
		if _, ok := exempt[name]; ok {
			continue
		}
		n++
		for _, in := range instrsMatching(fn, OneOf{CallTo{c09EngNew}, CallTo{c09EngCommit}}) {
			bad = append(bad, fmt.Sprintf("%s at %s", name, c.P.InstrPos(in)))
			if badPos == "" {
				badPos = c.P.InstrPos(in)
			}
		}
	}
	construct := "helpers-with-batch-param"
	switch {
	case len(bad) > 0:
		c.add("confine", rule, construct, Violated, badPos, "a staging helper that receives the caller's batch creates or commits a batch itself (its writes are no longer atomic with the caller's mutation): "+strings.Join(bad, "; "))
	case n == 0:
		c.add("confine", rule, construct, Undecided, "", "no function with a *engine.Batch parameter found (vacuous)")
	default:
		c.add("confine", rule, construct, Held, "", fmt.Sprintf("%d function(s) receive a *engine.Batch; none creates or commits a batch", n))
	}
}

// ---------------------------------------------------------------------------

func c09(c *Ctx) {
	const msg = "pkg/db/message."

	// ---- R1: every physical commit is synchronous ---------------------------
	n := c09CommitSync(c, "R1-sync", map[string]string{
		msg + "MessageDB.deleteLatestMessageIndexes":      "GC of dangling global latest-index rows; the index is rebuilt/cleaned on read, losing the delete after a crash is harmless",
		msg + "ChannelStore.storeCommittedDispatchCursor": "sync is the caller's parameter; the call sites are decided below (R1-sync cursor callers)",
	})
	_ = n
	c.Min("R1-sync", 60)
	c09EngineSyncMapping(c, "R1-sync")
	c09PebbleWritesSync(c, "R1-sync", 3)
	// dispatch cursor: the *Durable entry points pass true; the plain one is a non-durable hint by contract
	c.ConfineCalls("R1-sync", msg+"ChannelStore.storeCommittedDispatchCursor", 3,
		msg+"ChannelStore.StoreCommittedDispatchCursor", msg+"ChannelStore.ConfirmCommittedDispatchCursorDurable", msg+"ChannelStore.AdvanceCommittedDispatchCursorDurable")
	for _, f := range []string{"ConfirmCommittedDispatchCursorDurable", "AdvanceCommittedDispatchCursorDurable"} {
		c.CallShape("R1-sync", c.Fn(msg+"ChannelStore."+f), msg+"ChannelStore.storeCommittedDispatchCursor", "*(s, name, *, true)")
	}
	// coordinator: the physical commit function is the Commit(true) closure and nothing else installs one
	c.ConfineStores("R1-sync", "pkg/db/internal/commit.Coordinator.commitFunc", true,
		"pkg/db/internal/commit.NewCoordinator", "pkg/db/internal/commit.Coordinator.SetCommitFunc")
	c.StoreShape("R1-sync", c.Fn("pkg/db/internal/commit.NewCoordinator"), "*.commitFunc", "pkg/db/internal/commit.NewCoordinator$1")
	c.CallShape("R1-sync", c.Fn("pkg/db/internal/commit.NewCoordinator$1"), c09EngCommit, c09EngCommit+"(batch, true)")
	c.ConfineCalls("R1-sync", "pkg/db/internal/commit.Coordinator.SetCommitFunc", 0, "pkg/db/internal/commit.Coordinator.SetCommitFunc")
	c.CallShape("R1-sync", c.Fn("pkg/db/internal/commit.Coordinator.commit"), "dyn:*commitFunc", "dyn:c.commitFunc(*)")

	// ---- R2: one batch per mutation ------------------------------------------
	const restoreWhy = "restore/import into a not-yet-activated target: rows are written in bounded pages; a partial import is detected by the fail-closed frontier load (R5: checkpoint.HW > LEO) and removed by DiscardForRestore (C11)"
	c09BatchDiscipline(c, "R2-batch", map[string]string{
		msg + "ChannelStore.DiscardForRestore":             "restore-failure cleanup: deletes are idempotent and paged, the last batch removes the partition and the catalog row; re-runnable after a crash",
		msg + "MessageDB.importBackupChannel":              restoreWhy,
		msg + "MessageDB.importMessageBackupChannelStream": restoreWhy,
		"pkg/db/meta.MetaDB.importHashSlotSnapshotReader":  "hash-slot snapshot install under the hash-slot locks: one range-delete batch, then bounded pages; the installer retries the whole snapshot",
		"pkg/db/meta.MetaDB.NewRestoreSnapshotWriter":      "paged restore writer: the batch lives in RestoreSnapshotWriter.batch and is committed by flush",
		"pkg/db/meta.RestoreSnapshotWriter.flush":          "paged restore writer: commits the page and opens the next one",
	}, []string{c09EngCommit, "pkg/db/meta.commitSet", "dyn:*commitFunc"})
	c09HelpersNeverCommit(c, "R2-batch", map[string]string{
		"pkg/db/internal/commit.NewCoordinator$1": "the coordinator's physical commit function",
		"pkg/db/meta.commitSet":                   "terminal helper: stages one key into the caller's only batch and commits it (counted as the caller's Commit)",
	})
	pagers := map[string]string{
		msg + "ChannelStore.DiscardForRestore":             "enumerated multi-batch pager",
		msg + "MessageDB.importBackupChannel":              "enumerated multi-batch pager",
		msg + "MessageDB.importMessageBackupChannelStream": "enumerated multi-batch pager",
		"pkg/db/meta.MetaDB.importHashSlotSnapshotReader":  "enumerated multi-batch pager",
		"pkg/db/meta.MetaDB.NewRestoreSnapshotWriter":      "enumerated paged writer",
		"pkg/db/meta.RestoreSnapshotWriter.flush":          "enumerated paged writer",
	}
	c09NoNestedCreators(c, "R2-batch", pagers, []string{
		"pkg/db/internal/commit.Coordinator.Submit", "pkg/db/internal/commit.Coordinator.SubmitWithOutcome",
		"pkg/db/meta.Batch.Commit", "pkg/db/meta.WriteBatch.Commit",
	})
	// nothing writes to Pebble outside a batch in pkg/db
	for _, m := range []string{"Set", "Delete", "DeleteRange", "SingleDelete", "Merge", "Apply", "Ingest*"} {
		c.ConfineCalls("R2-batch", c09Pebble+"DB."+m, 0, "pkg/raftlog.*")
	}
	c.ConfineCalls("R2-batch", c09Pebble+"DB.NewBatch*", 2, "pkg/db/internal/engine.DB.NewBatch", "pkg/raftlog.DB.flushWriteRequests")
	c.ConfineCalls("R2-batch", c09Pebble+"Batch.Commit", 2, c09EngCommit, "pkg/raftlog.DB.flushWriteRequests")

	// ---- R3: publish only after the commit succeeded ---------------------------
	const commitOK = c09EngCommit + "(*) == nil"
	c09PublishAfterCommit(c, "R3-publish", map[string]string{
		msg + "ChannelLog.loadLEOLocked": "recovers the cached log end from the stored rows (read path, no mutation)",
		msg + "channelRegistry.acquire":  "moves an already published warm-cache value into a fresh entry",
	}, map[string]string{
		msg + "ChannelLog.publishAppendLocked":    "called by Append/ApplyFetch",
		msg + "channelEntry.publishCommittedRows": "called by the commit request's Publish closure",
	})
	c.ConfineCalls("R3-publish", msg+"ChannelLog.publishAppendLocked", 2, msg+"ChannelLog.Append", msg+"ChannelLog.ApplyFetch")
	for _, f := range []string{"Append", "ApplyFetch"} {
		c.Guard("R3-publish", c.Fn(msg+"ChannelLog."+f), CallTo{msg + "ChannelLog.publishAppendLocked"}, commitOK)
	}
	c.ConfineCalls("R3-publish", msg+"channelEntry.publishCommittedRows", 1, msg+"commitPreparedRowsBatchResult")
	rows := c.Fn(msg + "commitPreparedRowsBatchResult")
	c.GuardOpt("R3-publish", rows, CallTo{msg + "channelEntry.publishCommittedRows"}, GuardOpts{AllowZero: true}, commitOK)
	// every invocation of a request's Publish hook is behind a successful physical commit
	c.ConfineCalls("R3-publish", "dyn:*.Publish", 2, msg+"commitPreparedRowsBatchResult", "pkg/db/internal/commit.Coordinator.commit")
	c.Guard("R3-publish", rows, CallTo{"dyn:*.Publish"}, commitOK)
	committed := c09Const(c, "pkg/db/internal/commit", "OutcomeCommitted")
	notCommitted := c09Const(c, "pkg/db/internal/commit", "OutcomeDefinitelyNotCommitted")
	c.Guard("R3-publish", rows, StoreTo{"*SubmitResult.Outcome", committed}, commitOK)
	c09AfterEdge(c, "R3-publish", rows, c09EngCommit+"(*) != nil", OneOf{CallTo{"dyn:*.Publish"}, StoreTo{"*SubmitResult.Outcome", committed}, StoreTo{"*SubmitResult.Outcome", notCommitted}}, nil)

	co := c.Fn("pkg/db/internal/commit.Coordinator.commit")
	const cfOK, cfErr = "dyn:*commitFunc(*) == nil", "dyn:*commitFunc(*) != nil"
	completeAll := CallTo{"pkg/db/internal/commit.requestBatch.completeAll"}
	c.Guard("R3-coordinator", co, CallTo{"dyn:*.Publish"}, cfOK)
	c.Guard("R3-coordinator", co, StoreTo{"*SubmitResult.Outcome", committed}, cfOK)
	c.Guard("R3-coordinator", co, CallTo{"pkg/db/internal/commit.pendingRequest.complete"}, cfOK)
	c09AfterEdge(c, "R3-coordinator", co, cfErr, OneOf{CallTo{"dyn:*.Publish"}, StoreTo{"*SubmitResult.Outcome", committed}, StoreTo{"*SubmitResult.Outcome", notCommitted}}, completeAll)
	c09AfterEdge(c, "R3-coordinator", co, "dyn:*.Build(*) != nil", OneOf{CallTo{"dyn:*commitFunc"}, CallTo{"dyn:*.Publish"}, StoreTo{"*SubmitResult.Outcome", committed}}, completeAll)
	c09AfterEdge(c, "R3-coordinator", co, "reqs.closed", OneOf{CallTo{c09EngNew}, CallTo{"dyn:*commitFunc"}, StoreTo{"*SubmitResult.Outcome", committed}}, completeAll)

	// ---- R4: no storage error is dropped ---------------------------------------
	storage := []string{"pkg/db/internal/engine.*", "pkg/db/internal/commit.Coordinator.Submit*", "pkg/db/meta.Batch.Commit", "pkg/db/meta.WriteBatch.Commit", "dyn:*commitFunc", "dyn:*.Build"}
	c09ErrUsed(c, "R4-errors", "engine+coordinator", c.Fns("pkg/db/*"), storage, []string{"*.Close"})
	var helpers []string // every staging helper (a function that receives the caller's batch)
	for _, fn := range c.P.AllFuncs {
		for _, p := range fn.Params {
			if c09IsEngineBatchPtr(p.Type()) && fn.Parent() == nil && !strings.HasPrefix(c.P.Name(fn), "pkg/db/internal/engine.") {
				helpers = append(helpers, c.P.Name(fn))
			}
		}
	}
	c09ErrUsed(c, "R4-errors", "staging-helpers", c.Fns("pkg/db/*"), helpers, nil)
	// a mutation reports success only behind its commit
	c09SuccessAfterCommit(c, "R3-publish", pagers, []string{c09EngCommit, "pkg/db/meta.commitSet", "dyn:*commitFunc"})

	// ---- R2 (completeness): everything that belongs to one mutation is staged before its commit
	const setOK = c09EngBatch + "Set(batch, "
	const delOK = c09EngBatch + "Delete(batch, "
	stageRow := c.Fn(msg + "channelEntry.stageMessageRow")
	c.Guard("R2-complete", stageRow, RetNil{},
		"*.stageMessageHeaderRow(*) == nil",
		"*.stageGlobalMessageIDIndexRow(*) == nil",
		`row.ClientMsgNo == "" || row.FromUID != "" || *.stageClientMsgNoIndexRow(*) == nil`,
		`row.FromUID == "" || row.ClientMsgNo == "" || *.stageIdempotencyIndexRow(*) == nil`,
		`row.FromUID == "" || (row.FramerFlags & 4) != 0 || *.stageSenderSeqIndexRow(*) == nil`)
	stageRows := c.Fn(msg + "channelEntry.stageCommitRows")
	c.Guard("R2-complete", stageRows, RetNil{},
		"*.stageMessageRows(*) == nil",
		"checkpoint == nil || "+setOK+"*encodeCheckpointKey(*), *encodeCheckpoint(*)) == nil",
		"point == nil || *.writeHistoryPoint(*) == nil",
		"len(entries) <= 0 || len(entries) == len(rows)",
		"*.stageCatalogForAppend(*) == nil || *.stageCatalog(*) == nil")
	delMsg := c.Fn(msg + "ChannelLog.stageDeleteMessage")
	c.Guard("R2-complete", delMsg, RetNil{},
		delOK+"*encodeMessageRowKey(*)) == nil",
		"msg.MessageID == 0 || "+delOK+"*encodeGlobalMessageIDIndexKey(*)) == nil",
		`msg.ClientMsgNo == "" || msg.FromUID != "" || `+delOK+"*encodeMessageClientMsgNoIndexKey(*)) == nil",
		`msg.FromUID == "" || msg.ClientMsgNo == "" || `+delOK+"*encodeMessageIdempotencyIndexKey(*)) == nil",
		`msg.FromUID == "" || `+delOK+"*encodeMessageSenderSeqIndexKey(*)) == nil")
	commitCall := CallTo{c09EngCommit}
	anySet := c09EngBatch + "Set(*, "
	c.Guard("R2-complete", c.Fn(msg+"ChannelLog.Append"), commitCall, "*.prepareAndStageAppendLocked(*)#1 == nil", "*.stageCatalogForAppend(*) == nil")
	c.Guard("R2-complete", c.Fn(msg+"ChannelLog.ApplyFetch"), commitCall,
		"*.stageMessageRows(*) == nil",
		"*.Checkpoint == nil || "+anySet+"*encodeCheckpointKey(*), *encodeCheckpoint(*)) == nil",
		"*.stageCatalogForAppend(*) == nil || *.stageCatalog(*) == nil")
	c.Guard("R2-complete", c.Fn(msg+"ChannelLog.TruncateFrom"), commitCall, "*.stageTruncateDurableProposals(*) == nil", "*.stageCatalog(*) == nil")
	c.Guard("R2-complete", c.Fn(msg+"ChannelStore.truncateLocked"), commitCall,
		"*.stageTruncateDurableProposals(*) == nil", "*.stageCatalog(*) == nil",
		"*.retentionStateAfterTruncate(*)#1 == false || "+anySet+"*encodeRetentionStateKey(*), *) == nil")
	c.Guard("R2-complete", c.Fn(msg+"ChannelLog.trimPrefixThroughLimit"), commitCall,
		anySet+"*encodeRetentionStateKey(*), *encodeRetentionState(*)) == nil",
		"*.validateRetentionState(*) == nil", "*.stageCatalog(*) == nil")
	c.Guard("R2-complete", c.Fn(msg+"ChannelStore.ReplaceRecoverySuffix"), commitCall,
		"*.stageTruncateDurableProposals(*) == nil", c09EngBatch+"DeleteRange(*) == nil", "*.stageCommitRows(*) == nil",
		"*.retentionStateAfterTruncate(*)#1 == false || "+anySet+"*encodeRetentionStateKey(*), *) == nil")
	c.Guard("R2-complete", c.Fn(msg+"ChannelLog.storeCheckpointLocked"), commitCall, anySet+"*encodeCheckpointKey(*), *encodeCheckpoint(*)) == nil", "*.stageCatalog(*) == nil")

	// ---- R5: the durable frontier is loaded fail-closed ------------------------
	const leo = "*.loadLEOLocked(*)#0"
	const leo0 = leo + " <= 0 || "
	for _, f := range []string{"LoadDurableRecovery", "loadDurableFrontierLocked"} {
		fn := c.Fn(msg + "ChannelStore." + f)
		c.Guard("R5-frontier", fn, RetNil{},
			"*.loadLEOLocked(*)#1 == nil",
			"*.loadCheckpoint(*)#2 == nil",
			"*.HW <= "+leo+" || *.loadCheckpoint(*)#1 == false",
			leo0+"*loadDurableProposalPairByLast(*)#2 == nil",
			leo0+"*loadDurableProposalPairByLast(*)#1 == true",
			leo0+"*loadDurableEntryIdentityFrom(*, "+leo+")#2 == nil",
			leo0+"*loadDurableEntryIdentityFrom(*, "+leo+")#1 == true",
			leo0+"*.LastOffset == "+leo,
			leo0+"*.Digest == *.Digest",
			leo0+"*.ChannelEpoch == *.ChannelEpoch",
			leo0+"*.LeaderTerm == *.LeaderTerm",
			leo0+"*.FenceVersion == *.FenceVersion",
			leo0+"*.CommandID == *.CommandID")
		c.Guard("R5-frontier", fn, StoreTo{"*.Committed", ""}, "*.HW <= "+leo)
	}
	c.CallShape("R5-frontier", c.Fn(msg+"ChannelStore.LoadDurableFrontier"), msg+"ChannelStore.LoadDurableRecovery", "*(s, ctx, nil)")
	pair := c.Fn(msg + "loadDurableProposalPairByLast")
	c.Guard("R5-frontier", pair, Ret{1, "true"},
		"*loadDurableProposalFrom(*encodeProposalByLastKey(*))#1 == true",
		"*loadDurableProposalFrom(*encodeProposalByLastKey(*))#2 == nil",
		"*loadDurableProposalFrom(*encodeProposalByCommandKey(*))#1 == true",
		"*loadDurableProposalFrom(*encodeProposalByCommandKey(*))#2 == nil")
	// ‹found› = the record handed back on success, resolved from the return operand (not from the name of
	// the local that holds it): it is the by-last-offset lookup result, and the by-command row was compared
	// equal to exactly that record.
	if pair != nil {
		found, mixed := "", false
		var rets []ssa.Instruction
		for _, in := range instrsMatching(pair, Ret{1, "true"}) {
			rets = append(rets, in)
			p := Path(retOperand(in.(*ssa.Return), 0))
			if found != "" && found != p {
				mixed = true
			}
			found = p
		}
		const byLastRow = "*loadDurableProposalFrom(*encodeProposalByLastKey(*))#0"
		construct := c.P.Name(pair) + "#found-record"
		switch {
		case len(rets) == 0: // reported as vacuous by the Guard above
		case mixed:
			c.add("shape", "R5-frontier", construct, Violated, c.P.InstrPos(rets[0]), "success returns hand back different records")
		default:
			var bad []string
			n := 0
			if !glob(byLastRow, found) {
				for _, in := range instrsMatching(pair, StoreTo{Addr: found}) {
					n++
					if st, ok := in.(*ssa.Store); !ok || !glob(byLastRow, Path(st.Val)) {
						bad = append(bad, c.P.InstrPos(in))
					}
				}
				if n == 0 {
					bad = append(bad, "never assigned")
				}
			}
			if len(bad) > 0 {
				c.add("shape", "R5-frontier", construct, Violated, c.P.InstrPos(rets[0]), fmt.Sprintf("the record returned on success (%s) is not exactly the by-last-offset lookup result %s: %s", found, byLastRow, strings.Join(bad, ", ")))
			} else {
				c.add("shape", "R5-frontier", construct, Held, c.P.InstrPos(rets[0]), fmt.Sprintf("%d success return(s) hand back %s = the by-last-offset lookup result", len(rets), found))
			}
			c09GuardRef(c, "R5-frontier", pair, Ret{1, "true"}, map[string]string{"found": found},
				"*loadDurableProposalFrom(*encodeProposalByCommandKey(*))#0 == ‹found›")
		}
	}
	// recovered log end = last stored row (or the retained maximum): recoverLEO result only grows from what it read
	c.Guard("R5-frontier", c.Fn(msg+"ChannelLog.loadLEOLocked"), CallTo{"sync/atomic.Uint64.Store(*.leo, *"}, "*.recoverLEO(*)#1 == nil")
	c.CallShape("R5-frontier", c.Fn(msg+"ChannelLog.loadLEOLocked"), "sync/atomic.Uint64.Store", "*(*.leo, *.recoverLEO(*)#0)")

	c.Min("R2-batch", 100)
	c.Min("R2-complete", 30)
	c.Min("R3-publish", 55)
	c.Min("R3-coordinator", 6)
	c.Min("R5-frontier", 34)
}

// c09GuardRef is c.Guard for guards that mention values the caller resolved structurally (return
// operands, call arguments, stored values: SSA identity). A guard names such a value ‹name›; for matching
// the placeholder is replaced by refs[name] (the value's rendering in fn) while the obligation key keeps
// the placeholder, so the rule does not depend on the identifier of a local variable. (Also used by C14.)
func c09GuardRef(c *Ctx, rule string, fn *ssa.Function, eff Effect, refs map[string]string, guards ...string) {
	if fn == nil {
		return
	}
	name := c.P.Name(fn)
	c.FuncsAnalysed[name] = true
	effs := instrsMatching(fn, eff)
	if len(effs) == 0 {
		c.add("guard", rule, name+"#"+eff.String(), Undecided, c.P.Pos(fn.Pos()), "no instruction matches the effect (rule would be vacuous; the code moved or the effect shape changed)")
		return
	}
	for _, gs := range guards {
		construct := name + "#" + eff.String() + "⇐" + gs
		real := gs
		for k, v := range refs {
			real = strings.ReplaceAll(real, "‹"+k+"›", v)
		}
		if strings.Contains(real, "‹") {
			c.add("guard", rule, construct, Undecided, c.P.InstrPos(effs[0]), "guard uses a back-reference that was not resolved")
			continue
		}
		g := parseGuard(real)
		removed, descr := guardEdges(fn, g)
		c.EdgesRemoved += len(removed)
		limit := reachUnguarded(fn, removed, g.afters)
		var bad []string
		for _, e := range effs {
			if lim, ok := limit[e.Block()]; ok && indexIn(e.Block(), e) < lim {
				bad = append(bad, c.P.InstrPos(e))
			}
		}
		if len(bad) > 0 {
			why := "an entry→effect path avoids every matching guard edge"
			if len(removed) == 0 && len(g.afters) == 0 {
				why = "no branch in the function establishes the required fact"
			}
			c.add("guard", rule, construct, Violated, bad[0], fmt.Sprintf("effect %q in %s reachable without guard %q at %s: %s", eff.String(), name, real, strings.Join(bad, ", "), why))
			continue
		}
		c.add("guard", rule, construct, Held, c.P.InstrPos(effs[0]), fmt.Sprintf("%d effect site(s); %d guard edge(s) removed [%s]; no unguarded path from entry (back-references %v)", len(effs), len(removed), strings.Join(dedup(descr), "; "), refs))
	}
}

// c09PublishAfterCommit decides R3 for the cached log end: every Store to
// channelEntry.leo / channelEntry.loaded is behind Commit == nil in its own
// function, or the function is an enumerated loader / publish helper.
func c09PublishAfterCommit(c *Ctx, rule string, loaders, helpers map[string]string) {
	const commitOK = c09EngCommit + "(*) == nil"
	byFn := map[*ssa.Function][]atomicSite{}
	var order []*ssa.Function
	for _, f := range []string{"pkg/db/message.channelEntry.leo", "pkg/db/message.channelEntry.loaded"} {
		for _, s := range c.atomicSites(f) {
			if s.method != "Store" {
				continue
			}
			if _, ok := byFn[s.fn]; !ok {
				order = append(order, s.fn)
			}
			byFn[s.fn] = append(byFn[s.fn], s)
		}
	}
	sort.Slice(order, func(i, j int) bool { return c.P.Name(order[i]) < c.P.Name(order[j]) })
	for _, fn := range order {
		name := c.P.Name(fn)
		pos := c.P.InstrPos(byFn[fn][0].call)
		if why, ok := loaders[name]; ok {
			c.add("guard", rule, name+"#leo-store", Exception, pos, "not a publication of a mutation: "+why)
			continue
		}
		if why, ok := helpers[name]; ok {
			c.add("guard", rule, name+"#leo-store", Held, pos, "publish helper ("+why+"); every call site is decided separately")
			continue
		}
		c.Guard(rule, fn, OneOf{CallTo{"sync/atomic.Uint64.Store(*.leo, *"}, CallTo{"sync/atomic.Bool.Store(*.loaded, *"}}, commitOK)
	}
	if len(order) == 0 {
		c.add("guard", rule, "leo-store-sites", Undecided, "", "no store to channelEntry.leo found (vacuous)")
	}
}

// c09NoNestedCreators: a function that creates a batch must not, on a path that
// also touches its own batch, call (transitively through static calls inside the
// loaded packages) another function that creates or commits a batch: that would
// be two physical commits for one mutation. A call that is CFG-disjoint from the
// batch creation (the `if committer != nil { return committer.Submit(...) }`
// alternative) is not nesting.
func c09NoNestedCreators(c *Ctx, rule string, exempt map[string]string, entryPoints []string) {
	creates := map[*ssa.Function]bool{}
	for _, fn := range c.P.AllFuncs {
		if len(instrsMatching(fn, CallTo{c09EngNew})) > 0 || globAny(entryPoints, c.P.Name(fn)) {
			creates[fn] = true
		}
	}
	callees := func(fn *ssa.Function) []*ssa.Function {
		var out []*ssa.Function
		for _, b := range fn.Blocks {
			for _, in := range b.Instrs {
				if ci, ok := in.(ssa.CallInstruction); ok {
					if f := ci.Common().StaticCallee(); f != nil {
						out = append(out, f)
					}
				}
				if mc, ok := in.(*ssa.MakeClosure); ok {
					if f, ok := mc.Fn.(*ssa.Function); ok {
						out = append(out, f)
					}
				}
			}
		}
		return out
	}
	memo := map[*ssa.Function]string{}
	var reaches func(f *ssa.Function, seen map[*ssa.Function]bool) string
	reaches = func(f *ssa.Function, seen map[*ssa.Function]bool) string {
		if f == nil || f.Blocks == nil || seen[f] {
			return ""
		}
		if creates[f] {
			return c.P.Name(f)
		}
		if r, ok := memo[f]; ok {
			return r
		}
		seen[f] = true
		r := ""
		for _, g := range callees(f) {
			if r = reaches(g, seen); r != "" {
				break
			}
		}
		memo[f] = r
		return r
	}
	n := 0
	for _, fn := range c.P.AllFuncs {
		news := instrsMatching(fn, CallTo{c09EngNew})
		if len(news) == 0 {
			continue
		}
		name := c.P.Name(fn)
		if _, ok := matchReset(exempt, name); ok {
			continue
		}
		n++
		var hit []string
		scanned := 0
		for _, b := range fn.Blocks {
			for _, in := range b.Instrs {
				ci, ok := in.(ssa.CallInstruction)
				if !ok {
					continue
				}
				f := ci.Common().StaticCallee()
				if f == nil || f.Blocks == nil {
					continue
				}
				scanned++
				target := reaches(f, map[*ssa.Function]bool{fn: true})
				if target == "" {
					continue
				}
				connected := false
				for _, nb := range news {
					isThis := func(x ssa.Instruction) bool { return x == in }
					isNew := func(x ssa.Instruction) bool { return x == nb }
					never := func(ssa.Instruction) bool { return false }
					if c09ReachesWithout(fn, nb, isThis, never) || c09ReachesWithout(fn, in, isNew, never) {
						connected = true
					}
				}
				if connected {
					hit = append(hit, fmt.Sprintf("%s (via %s at %s)", target, c.P.Name(f), c.P.InstrPos(in)))
				}
			}
		}
		construct := name + "#no-nested-commit"
		if len(hit) > 0 {
			c.add("order", rule, construct, Violated, c.P.Pos(fn.Pos()), fmt.Sprintf("%s owns a batch and on the same path reaches %s, which creates/commits its own batch: the mutation is split over two physical commits", name, strings.Join(dedup(hit), ", ")))
		} else {
			c.add("order", rule, construct, Held, c.P.Pos(fn.Pos()), fmt.Sprintf("%d static call(s) scanned transitively; none on a path with the batch creates or commits another batch", scanned))
		}
	}
	if n == 0 {
		c.add("order", rule, "no-nested-commit", Undecided, "", "no batch-creating function found (vacuous)")
	}
}

// c09SuccessAfterCommit: in every single-batch creator, once something was
// staged into the batch, a success return is reachable only through a
// successful commit (edge-dominance started at each staging call).
func c09SuccessAfterCommit(c *Ctx, rule string, exempt map[string]string, committers []string) {
	var gs []string
	for _, k := range committers {
		gs = append(gs, k+"(*) == nil")
	}
	// an append that walked no rows (Count == 0) staged nothing: reporting success without a commit is correct there
	gs = append(gs, "*.Count == 0")
	guard := strings.Join(gs, " || ")
	for _, fn := range c.P.AllFuncs {
		if len(instrsMatching(fn, CallTo{c09EngNew})) == 0 {
			continue
		}
		name := c.P.Name(fn)
		if _, ok := matchReset(exempt, name); ok {
			continue
		}
		removed, _ := guardEdges(fn, parseGuard(guard))
		c.EdgesRemoved += len(removed)
		var stages []ssa.Instruction
		for _, b := range fn.Blocks {
			for _, in := range b.Instrs {
				ci, ok := in.(ssa.CallInstruction)
				if !ok {
					continue
				}
				if _, isDefer := in.(*ssa.Defer); isDefer {
					continue
				}
				cn := calleeName(ci.Common())
				if cn == c09EngBatch+"Close" || globAny(committers, cn) {
					continue
				}
				for _, a := range callArgs(ci.Common()) {
					if c09IsEngineBatchPtr(a.Type()) {
						stages = append(stages, in)
						break
					}
				}
			}
		}
		var bad []string
		for _, st := range stages {
			seen := map[*ssa.BasicBlock]bool{}
			var walk func(b *ssa.BasicBlock, from int)
			walk = func(b *ssa.BasicBlock, from int) {
				for i := from; i < len(b.Instrs); i++ {
					if (RetNil{}).Match(b.Instrs[i]) {
						bad = append(bad, fmt.Sprintf("return …, nil at %s after staging at %s", c.P.InstrPos(b.Instrs[i]), c.P.InstrPos(st)))
					}
				}
				for si, s := range b.Succs {
					if removed[edge{b, si}] || seen[s] {
						continue
					}
					seen[s] = true
					walk(s, 0)
				}
			}
			walk(st.Block(), indexIn(st.Block(), st)+1)
		}
		construct := name + "#success⇐commit"
		if len(bad) > 0 {
			c.add("guard", rule, construct, Violated, c.P.Pos(fn.Pos()), fmt.Sprintf("%s can report success after staging writes without a successful commit: %s", name, strings.Join(dedup(bad), "; ")))
		} else {
			c.add("guard", rule, construct, Held, c.P.Pos(fn.Pos()), fmt.Sprintf("%d staging call(s); from each, a success return is reachable only through one of %d commit-success edge(s)", len(stages), len(removed)))
		}
	}
}

// c09ErrUsed is Ctx.ErrUsed with a caller-chosen construct label (the engine
// version keys the obligation by the whole callee list, which is unwieldy for
// a computed list).
func c09ErrUsed(c *Ctx, rule, label string, fns []*ssa.Function, callees, except []string) {
	n := 0
	var bad []string
	var badPos string
	for _, fn := range fns {
		for _, b := range fn.Blocks {
			for _, in := range b.Instrs {
				call, ok := in.(*ssa.Call)
				if !ok {
					continue
				}
				name := calleeName(&call.Call)
				if !globAny(callees, name) || globAny(except, name) {
					continue
				}
				res := call.Call.Signature().Results()
				if res.Len() == 0 || !isErrorType(res.At(res.Len()-1).Type()) {
					continue
				}
				n++
				used := false
				if res.Len() == 1 {
					used = hasRealReferrers(call)
				} else {
					for _, r := range *call.Referrers() {
						if ex, ok := r.(*ssa.Extract); ok && ex.Index == res.Len()-1 && hasRealReferrers(ex) {
							used = true
						}
					}
				}
				if !used {
					bad = append(bad, fmt.Sprintf("%s in %s at %s", name, c.P.Name(fn), c.P.InstrPos(in)))
					if badPos == "" {
						badPos = c.P.InstrPos(in)
					}
				}
			}
		}
	}
	c.CallSites += n
	construct := "errused:" + label
	switch {
	case n == 0:
		c.add("errdisc", rule, construct, Undecided, "", "no matching error-returning call found (vacuous)")
	case len(bad) > 0:
		c.add("errdisc", rule, construct, Violated, badPos, "error result of a storage-layer call dropped: "+strings.Join(bad, "; "))
	default:
		c.add("errdisc", rule, construct, Held, "", fmt.Sprintf("%d error-returning call(s) to %d callee pattern(s) in %d function(s); every error result is consumed", n, len(callees), len(fns)))
	}
}
