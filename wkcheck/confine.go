package main

import (
	"fmt"
	"go/types"
	"sort"
	"strings"

	"golang.org/x/tools/go/ssa"
)

// lookupField resolves "pkg/path.T.F" to the field's *types.Var.
func (c *Ctx) lookupField(q string) *types.Var {
	i := strings.LastIndex(q, ".")
	if i < 0 {
		return nil
	}
	field := q[i+1:]
	rest := q[:i]
	j := strings.LastIndex(rest, ".")
	if j < 0 {
		return nil
	}
	pkgPath, typeName := rest[:j], rest[j+1:]
	pk := c.P.Pkgs[pkgPath]
	var scope *types.Scope
	if pk != nil {
		scope = pk.Types.Scope()
	} else {
		// maybe a dependency loaded from export data
		for _, sp := range c.P.SSA.AllPackages() {
			if shortPkg(sp.Pkg.Path()) == pkgPath {
				scope = sp.Pkg.Scope()
				break
			}
		}
	}
	if scope == nil {
		return nil
	}
	obj := scope.Lookup(typeName)
	if obj == nil {
		return nil
	}
	st, ok := obj.Type().Underlying().(*types.Struct)
	if !ok {
		return nil
	}
	for k := 0; k < st.NumFields(); k++ {
		if st.Field(k).Name() == field {
			return st.Field(k)
		}
	}
	return nil
}

// Field resolves a field anchor or records an undecided obligation.
func (c *Ctx) Field(q string) *types.Var {
	v := c.lookupField(q)
	if v == nil {
		c.add("anchor", "anchor", q, Undecided, "", "anchored struct field not found (renamed/moved? update the rule table)")
	}
	return v
}

type storeSite struct {
	fn      *ssa.Function
	in      ssa.Instruction
	addr    ssa.Value
	val     ssa.Value
	literal bool // store into a fresh composite literal / new object in the same function
}

func isFreshAlloc(v ssa.Value) bool {
	for {
		switch x := v.(type) {
		case *ssa.Alloc:
			return spilledParam(x) == nil
		case *ssa.FieldAddr:
			v = x.X
		case *ssa.IndexAddr:
			v = x.X
		default:
			return false
		}
	}
}

// fieldStores lists every store to the field in the loaded root packages.
func (c *Ctx) fieldStores(fv *types.Var) []storeSite {
	var out []storeSite
	for _, fn := range c.P.AllFuncs {
		for _, b := range fn.Blocks {
			for _, in := range b.Instrs {
				st, ok := in.(*ssa.Store)
				if !ok {
					continue
				}
				fa, ok := st.Addr.(*ssa.FieldAddr)
				if !ok {
					continue
				}
				if fieldVar(fa.X.Type(), fa.Field) != fv {
					continue
				}
				out = append(out, storeSite{fn, in, st.Addr, st.Val, isFreshAlloc(fa.X)})
			}
		}
	}
	return out
}

// ConfineStores: the field is stored only inside functions whose short name
// matches one of `allowed` (closures inherit their parent's name prefix).
// Stores that initialise a fresh local object (composite literals, new(T))
// are constructors and are reported only when litToo is set.
func (c *Ctx) ConfineStores(rule, field string, litToo bool, allowed ...string) {
	fv := c.Field(field)
	if fv == nil {
		return
	}
	sites := c.fieldStores(fv)
	n := 0
	var bad []string
	var badPos string
	where := map[string]int{}
	for _, s := range sites {
		if s.literal && !litToo {
			continue
		}
		n++
		name := c.P.Name(s.fn)
		where[name]++
		if !c.allowedOwner(s.fn, allowed) {
			bad = append(bad, fmt.Sprintf("%s at %s", name, c.P.InstrPos(s.in)))
			if badPos == "" {
				badPos = c.P.InstrPos(s.in)
			}
		}
	}
	c.CallSites += n
	construct := "stores:" + field
	if len(bad) > 0 {
		c.add("confine", rule, construct, Violated, badPos, fmt.Sprintf("field %s is written outside its owner functions %v: %s", field, allowed, strings.Join(bad, "; ")))
		return
	}
	if n == 0 {
		c.add("confine", rule, construct, Undecided, "", "no store to the field found at all (vacuous)")
		return
	}
	c.add("confine", rule, construct, Held, "", fmt.Sprintf("%d store site(s), all inside %v: %s", n, allowed, countsString(where)))
}

func rootName(name string) string {
	if i := strings.Index(name, "$"); i >= 0 {
		return name[:i]
	}
	return name
}

func countsString(m map[string]int) string {
	var ks []string
	for k := range m {
		ks = append(ks, k)
	}
	sort.Strings(ks)
	var parts []string
	for _, k := range ks {
		parts = append(parts, fmt.Sprintf("%s×%d", k, m[k]))
	}
	if len(parts) > 12 {
		parts = append(parts[:12], "…")
	}
	return strings.Join(parts, ", ")
}

type callSite struct {
	fn *ssa.Function
	in ssa.CallInstruction
}

// callSites lists calls (call/go/defer) in root packages whose callee name matches the glob.
func (c *Ctx) callSites(calleeGlob string) []callSite {
	var out []callSite
	for _, fn := range c.P.AllFuncs {
		for _, b := range fn.Blocks {
			for _, in := range b.Instrs {
				ci, ok := in.(ssa.CallInstruction)
				if !ok {
					continue
				}
				if glob(calleeGlob, calleeName(ci.Common())) {
					out = append(out, callSite{fn, ci})
				}
			}
		}
	}
	return out
}

// ConfineCalls: callee (glob on callee short name) is called only from allowed functions.
// min is the hand-confirmed minimum number of call sites (anti-vacuity).
func (c *Ctx) ConfineCalls(rule, calleeGlob string, min int, allowed ...string) {
	sites := c.callSites(calleeGlob)
	c.CallSites += len(sites)
	var bad []string
	var badPos string
	where := map[string]int{}
	for _, s := range sites {
		name := c.P.Name(s.fn)
		where[name]++
		if !c.allowedOwner(s.fn, allowed) {
			bad = append(bad, fmt.Sprintf("%s at %s", name, c.P.InstrPos(s.in)))
			if badPos == "" {
				badPos = c.P.InstrPos(s.in)
			}
		}
	}
	construct := "callers:" + calleeGlob
	if len(bad) > 0 {
		c.add("confine", rule, construct, Violated, badPos, fmt.Sprintf("%s is called outside its allowed callers %v: %s", calleeGlob, allowed, strings.Join(bad, "; ")))
		return
	}
	if len(sites) == 0 && min > 0 {
		c.add("confine", rule, construct, Undecided, "", fmt.Sprintf("no call site found, hand-confirmed minimum %d (vacuous or anchor moved)", min))
		return
	}
	if len(sites) < min {
		// fewer callers than when the table was written (a call site was removed or the callee inlined there):
		// the confinement itself still holds and is not vacuous
		c.add("confine", rule, construct, Held, "", fmt.Sprintf("%d call site(s) (the table was written with %d), all inside %v: %s", len(sites), min, allowed, countsString(where)))
		return
	}
	c.add("confine", rule, construct, Held, "", fmt.Sprintf("%d call site(s), all inside %v: %s", len(sites), allowed, countsString(where)))
}

// NoCalls: no call matching calleeGlob anywhere in functions matching inFuncs (expected-zero rule).
func (c *Ctx) NoCalls(rule, calleeGlob string, inFuncs string) {
	fns := c.Fns(inFuncs)
	var bad []string
	var badPos string
	n := 0
	for _, fn := range fns {
		for _, b := range fn.Blocks {
			for _, in := range b.Instrs {
				ci, ok := in.(ssa.CallInstruction)
				if !ok {
					continue
				}
				n++
				if glob(calleeGlob, calleeName(ci.Common())) {
					bad = append(bad, fmt.Sprintf("%s at %s", c.P.Name(fn), c.P.InstrPos(in)))
					if badPos == "" {
						badPos = c.P.InstrPos(in)
					}
				}
			}
		}
	}
	c.CallSites += n
	construct := "nocall:" + calleeGlob + "@" + inFuncs
	if len(bad) > 0 {
		c.add("confine", rule, construct, Violated, badPos, fmt.Sprintf("forbidden call %s in: %s", calleeGlob, strings.Join(bad, "; ")))
		return
	}
	c.add("confine", rule, construct, Held, "", fmt.Sprintf("%d function(s), %d call site(s) scanned, none matches", len(fns), n))
}
