package main

import (
	"fmt"
	"go/constant"
	"go/token"
	"go/types"
	"sort"
	"strings"

	"golang.org/x/tools/go/ssa"
)

func init() {
	register(&PropSpec{
		ID:        "C21",
		Pkgs:      []string{"./pkg/cluster/routing", "./pkg/hashslot", "./pkg/cluster", "./pkg/slot/proxy", "./internal/bench/workload", "./internal/bench/chatlifecycle"},
		Technique: "static analysis: SSA data-dependence shape recognition of CRC-32/IEEE(key) mod count (library call or the table recurrence), delegation check, and a discovery sweep for any other crc-remainder or hash-slot-for-key mapper",
		Explain: "Decides that every key→hash-slot mapper in the module computes uint16(CRC-32/IEEE(key bytes) mod uint32(count)) with 0 for count==0: each confirmed mapper matches, on SSA data dependencies (not text), either shape A (crc32.ChecksumIEEE([]byte(key)) % uint32(count), converted to uint16 after the remainder) or delegates to a function of shape B (the byte-wise table recurrence over hash/crc32.IEEETable, which is crc32's own simpleUpdate), the remainder is guarded by count != 0, the result therefore depends only on key, count and the IEEE table and is < count; wrappers (cluster.Node.HashSlotForKey, slot proxy) return exactly a confirmed mapper's result for their key argument. A discovery sweep reports any other function that takes a remainder of a CRC-derived value, reads crc32.IEEETable, or has a hash-slot-for-key signature, so a new or divergent mapper (other hash, conversion before the remainder, rune iteration) cannot appear unnoticed. Trusted: hash/crc32. NOT decided: numeric values; which count a caller passes (Node.HashSlotForKey's choice among table/snapshot/config counts).",
		Run:       c21,
		Mutants: []Mutant{
			{Name: "router-convert-before-mod", File: "pkg/cluster/routing/router.go", Old: "return uint16(checksumIEEEString(key) % uint32(count))", New: "return uint16(checksumIEEEString(key)) % count", Expect: "C21/R1*"},
			{Name: "router-crc-shift", File: "pkg/cluster/routing/router.go", Old: "^ (crc >> 8)", New: "^ (crc >> 4)", Expect: "C21/R1*"},
			{Name: "router-crc-init", File: "pkg/cluster/routing/router.go", Old: "crc := ^uint32(0)", New: "crc := uint32(0)", Expect: "C21/R1*"},
			{Name: "router-no-final-xor", File: "pkg/cluster/routing/router.go", Old: "\treturn ^crc\n", New: "\treturn crc\n", Expect: "C21/R1*"},
			{Name: "router-rune-iteration", File: "pkg/cluster/routing/router.go", Old: "for i := 0; i < len(value); i++ {\n\t\tcrc = crc32.IEEETable[byte(crc)^value[i]] ^ (crc >> 8)", New: "for _, r := range value {\n\t\tcrc = crc32.IEEETable[byte(crc)^byte(r)] ^ (crc >> 8)", Expect: "C21/R1*"},
			{Name: "hashslot-castagnoli", File: "pkg/hashslot/hashslottable.go", Old: "return uint16(crc32.ChecksumIEEE([]byte(key)) % uint32(hashSlotCount))", New: "return uint16(crc32.Checksum([]byte(key), crc32.MakeTable(crc32.Castagnoli)) % uint32(hashSlotCount))", Expect: "C21/R*"},
			{Name: "bench-no-zero-guard", File: "internal/bench/workload/group.go", Old: "\tif hashSlotCount == 0 {\n\t\treturn 0\n\t}\n\treturn uint16(crc32.ChecksumIEEE([]byte(key)) % uint32(hashSlotCount))", New: "\treturn uint16(crc32.ChecksumIEEE([]byte(key)) % uint32(hashSlotCount))", Expect: "C21/R1*"},
			{Name: "node-wrapper-other-key", File: "pkg/cluster/node_slot_proxy_port.go", Old: "return routing.HashSlotForKey(key, count)", New: "return routing.HashSlotForKey(key+\"#\", count)", Expect: "C21/R1*"},
			{Name: "new-fnv-mapper", File: "pkg/hashslot/hashslottable.go", Old: "func HashSlotForKey(key string, hashSlotCount uint16) uint16 {", New: "func FastHashSlotForKey(key string, hashSlotCount uint16) uint16 {\n\tif hashSlotCount == 0 {\n\t\treturn 0\n\t}\n\th := uint32(2166136261)\n\tfor i := 0; i < len(key); i++ {\n\t\th = (h ^ uint32(key[i])) * 16777619\n\t}\n\treturn uint16(h % uint32(hashSlotCount))\n}\n\nfunc HashSlotForKey(key string, hashSlotCount uint16) uint16 {", Expect: "C21/R2*"},
		},
	})
}

// confirmed tables (frozen after reading the code at the pinned commit)
var c21Mappers = []string{
	"pkg/hashslot.HashSlotForKey",
	"pkg/cluster/routing.HashSlotForKey",
	"internal/bench/workload.physicalHashSlotForKey",
	"internal/bench/chatlifecycle.lifecycleHashSlotForKey",
}
var c21CrcCores = []string{"pkg/cluster/routing.checksumIEEEString"}
var c21Delegators = map[string]string{
	"pkg/cluster.Node.HashSlotForKey": "returns routing.HashSlotForKey(key, count) (count from the installed table/snapshot/config)",
	"pkg/slot/proxy.hashSlotForKey":   "returns the cluster port's HashSlotForKey(key) or 0 when the port is absent",
}

func c21(c *Ctx) {
	cores := map[*ssa.Function]bool{}
	for _, name := range c21CrcCores {
		fn := c.Fn(name)
		if fn == nil {
			continue
		}
		if why := c21MatchCrcCore(fn); why != "" {
			c.add("crcmap", "R1-shape", name+"#crc32-ieee-table-recurrence", Violated, c.P.Pos(fn.Pos()), "function is not the CRC-32/IEEE byte-wise table recurrence any more: "+why)
		} else {
			cores[fn] = true
			c.add("crcmap", "R1-shape", name+"#crc32-ieee-table-recurrence", Held, c.P.Pos(fn.Pos()), "φ crc init ^0; crc = IEEETable[byte(crc)^s[i]] ^ (crc>>8) for i=0..len(s)-1 step 1; result ^crc (= hash/crc32 simpleUpdate)")
		}
	}
	mappers := map[*ssa.Function]bool{}
	for _, name := range c21Mappers {
		fn := c.Fn(name)
		if fn == nil {
			continue
		}
		if why := c21MatchMapper(fn, cores); why != "" {
			c.add("crcmap", "R1-shape", name+"#crc32-mod-count", Violated, c.P.Pos(fn.Pos()), "mapper no longer computes uint16(crc32_ieee(key) % uint32(count)) with the zero-count guard: "+why)
		} else {
			mappers[fn] = true
			c.add("crcmap", "R1-shape", name+"#crc32-mod-count", Held, c.P.Pos(fn.Pos()), "every return is 0 behind count==0 or uint16(uint32 CRC-32/IEEE(key) % uint32(count)) behind count!=0; depends only on key, count, crc32.IEEETable")
		}
	}
	for _, name := range sortedKeys(c21Delegators) {
		fn := c.Fn(name)
		if fn == nil {
			continue
		}
		if why := c21MatchDelegator(fn, mappers); why != "" {
			c.add("crcmap", "R1-delegate", name+"#delegates", Violated, c.P.Pos(fn.Pos()), "wrapper does not return a confirmed mapper's result for its own key argument: "+why)
		} else {
			c.add("crcmap", "R1-delegate", name+"#delegates", Held, c.P.Pos(fn.Pos()), c21Delegators[name])
		}
	}
	c21Sweep(c, cores, mappers)
}

func isParam(v ssa.Value, fn *ssa.Function, idx int) bool {
	v = stripConv(v)
	if u, ok := v.(*ssa.UnOp); ok && u.Op == token.MUL {
		if a, ok := u.X.(*ssa.Alloc); ok {
			if p := spilledParam(a); p != nil {
				v = p
			}
		}
	}
	p, ok := v.(*ssa.Parameter)
	return ok && idx < len(fn.Params) && fn.Params[idx] == p
}

func constUint(v ssa.Value) (uint64, bool) {
	k, ok := v.(*ssa.Const)
	if !ok || k.Value == nil || k.Value.Kind() != constant.Int {
		return 0, false
	}
	if u, ok := constant.Uint64Val(k.Value); ok {
		return u, true
	}
	if i, ok := constant.Int64Val(k.Value); ok {
		return uint64(i), true
	}
	return 0, false
}

func basicKind(t types.Type) types.BasicKind {
	if b, ok := t.Underlying().(*types.Basic); ok {
		return b.Kind()
	}
	return types.Invalid
}

// c21MatchCrcCore returns "" if fn is the CRC-32/IEEE table recurrence over its string parameter.
func c21MatchCrcCore(fn *ssa.Function) string {
	if len(fn.Params) != 1 || basicKind(fn.Params[0].Type()) != types.String || fn.Signature.Results().Len() != 1 || basicKind(fn.Signature.Results().At(0).Type()) != types.Uint32 {
		return "signature is not func(string) uint32"
	}
	var rets []*ssa.Return
	for _, b := range fn.Blocks {
		for _, in := range b.Instrs {
			if r, ok := in.(*ssa.Return); ok {
				rets = append(rets, r)
			}
		}
	}
	if len(rets) != 1 {
		return fmt.Sprintf("%d return statements (want 1)", len(rets))
	}
	fin, ok := rets[0].Results[0].(*ssa.UnOp)
	if !ok || fin.Op != token.XOR {
		return "result is not the complement ^crc"
	}
	crc, ok := fin.X.(*ssa.Phi)
	if !ok || len(crc.Edges) != 2 {
		return "crc is not a two-edge loop-carried value"
	}
	var upd ssa.Value
	initOK := false
	for _, e := range crc.Edges {
		if u, ok := constUint(e); ok {
			if u == 0xFFFFFFFF {
				initOK = true
			}
			continue
		}
		upd = e
	}
	if !initOK || upd == nil {
		return "crc is not initialised to ^uint32(0)"
	}
	x, ok := upd.(*ssa.BinOp)
	if !ok || x.Op != token.XOR {
		return "crc update is not an XOR"
	}
	var tab, shr ssa.Value
	for _, pair := range [][2]ssa.Value{{x.X, x.Y}, {x.Y, x.X}} {
		if s, ok := pair[1].(*ssa.BinOp); ok && s.Op == token.SHR {
			tab, shr = pair[0], s
		}
	}
	if shr == nil {
		return "crc update has no (crc >> 8) term"
	}
	s := shr.(*ssa.BinOp)
	if s.X != ssa.Value(crc) {
		return "shift operand is not the loop-carried crc"
	}
	if k, ok := constUint(s.Y); !ok || k != 8 {
		return "shift distance is not 8"
	}
	ld, ok := tab.(*ssa.UnOp)
	if !ok || ld.Op != token.MUL {
		return "table term is not a load"
	}
	ia, ok := ld.X.(*ssa.IndexAddr)
	if !ok {
		return "table term is not an indexed load"
	}
	tl, ok := ia.X.(*ssa.UnOp)
	if !ok || tl.Op != token.MUL {
		return "table is not hash/crc32.IEEETable"
	}
	g, ok := tl.X.(*ssa.Global)
	if !ok || g.Pkg == nil || g.Pkg.Pkg.Path() != "hash/crc32" || g.Name() != "IEEETable" {
		return "table is not hash/crc32.IEEETable"
	}
	ix, ok := ia.Index.(*ssa.BinOp)
	if !ok || ix.Op != token.XOR || basicKind(ix.Type()) != types.Uint8 {
		return "table index is not byte(crc) ^ s[i]"
	}
	var low, ch ssa.Value
	for _, pair := range [][2]ssa.Value{{ix.X, ix.Y}, {ix.Y, ix.X}} {
		if cv, ok := pair[0].(*ssa.Convert); ok && cv.X == ssa.Value(crc) && basicKind(cv.Type()) == types.Uint8 {
			low, ch = cv, pair[1]
		}
	}
	if low == nil {
		return "table index does not use byte(crc)"
	}
	idx, ok := ch.(*ssa.Index)
	if !ok || !isParam(idx.X, fn, 0) {
		// string indexing renders as Index on the string value
		return "table index does not use the i-th byte of the key string"
	}
	iphi, ok := idx.Index.(*ssa.Phi)
	if !ok || len(iphi.Edges) != 2 {
		return "byte index is not a loop counter"
	}
	zero, step := false, false
	for _, e := range iphi.Edges {
		if u, ok := constUint(e); ok && u == 0 {
			zero = true
			continue
		}
		if a, ok := e.(*ssa.BinOp); ok && a.Op == token.ADD && a.X == ssa.Value(iphi) {
			if u, ok := constUint(a.Y); ok && u == 1 {
				step = true
			}
		}
	}
	if !zero || !step {
		return "byte index does not run from 0 in steps of 1"
	}
	// loop condition i < len(s)
	condOK := false
	if refs := iphi.Referrers(); refs != nil {
		for _, r := range *refs {
			if cmp, ok := r.(*ssa.BinOp); ok && cmp.Op == token.LSS && cmp.X == ssa.Value(iphi) {
				if call, ok := cmp.Y.(*ssa.Call); ok {
					if b, ok := call.Call.Value.(*ssa.Builtin); ok && b.Name() == "len" && isParam(call.Call.Args[0], fn, 0) {
						condOK = true
					}
				}
			}
		}
	}
	if !condOK {
		return "loop bound is not i < len(key)"
	}
	if crc.Block() != iphi.Block() {
		return "crc and index are not carried by the same loop"
	}
	return ""
}

// c21MatchMapper returns "" if fn(key string, count uint16) uint16 is 0 for count==0 and uint16(crc(key) % uint32(count)) otherwise.
func c21MatchMapper(fn *ssa.Function, cores map[*ssa.Function]bool) string {
	if len(fn.Params) != 2 || basicKind(fn.Params[0].Type()) != types.String || basicKind(fn.Params[1].Type()) != types.Uint16 ||
		fn.Signature.Results().Len() != 1 || basicKind(fn.Signature.Results().At(0).Type()) != types.Uint16 {
		return "signature is not func(string, uint16) uint16"
	}
	count := fn.Params[1].Name()
	zeroEdges, _ := guardEdges(fn, parseGuard(count+" == 0"))
	nonZeroEdges, _ := guardEdges(fn, parseGuard(count+" != 0"))
	limZero := reachUnguarded(fn, zeroEdges, nil)
	limNonZero := reachUnguarded(fn, nonZeroEdges, nil)
	nret := 0
	for _, b := range fn.Blocks {
		for _, in := range b.Instrs {
			ret, ok := in.(*ssa.Return)
			if !ok {
				continue
			}
			nret++
			// a result merged from several branches (`switch count { case 0: r = 0; default: r = … }; return r`) is
			// judged per incoming branch, at the end of the block the value comes from
			type cand struct {
				v   ssa.Value
				blk *ssa.BasicBlock
				idx int
			}
			cands := []cand{{ret.Results[0], b, indexIn(b, in)}}
			if phi, isPhi := ret.Results[0].(*ssa.Phi); isPhi {
				cands = nil
				for i, e := range phi.Edges {
					p := phi.Block().Preds[i]
					cands = append(cands, cand{e, p, len(p.Instrs) - 1})
				}
			}
			for _, cd := range cands {
				if why := c21MatchReturn(fn, cores, cd.v, cd.blk, cd.idx, limZero, limNonZero); why != "" {
					return why
				}
			}
		}
	}
	if nret == 0 {
		return "no return found"
	}
	return ""
}

// c21MatchReturn judges one returned value (at instruction index idx of block b).
func c21MatchReturn(fn *ssa.Function, cores map[*ssa.Function]bool, v ssa.Value, b *ssa.BasicBlock, idx int, limZero, limNonZero map[*ssa.BasicBlock]int) string {
	{
		{
			if u, ok := constUint(v); ok {
				if u != 0 {
					return "returns a non-zero constant"
				}
				if lim, ok := limZero[b]; ok && idx < lim {
					return "returns 0 on a path where count may be non-zero"
				}
				return ""
			}
			cv, ok := v.(*ssa.Convert)
			if !ok || basicKind(cv.X.Type()) != types.Uint32 {
				return "result is not a uint16 conversion of a uint32 remainder (conversion must come after the %)"
			}
			rem, ok := cv.X.(*ssa.BinOp)
			if !ok || rem.Op != token.REM {
				return "result is not a remainder"
			}
			dc, ok := rem.Y.(*ssa.Convert)
			if !ok || !isParam(dc.X, fn, 1) || basicKind(dc.Type()) != types.Uint32 {
				return "divisor is not uint32(count)"
			}
			if lim, ok := limNonZero[rem.Block()]; ok && indexIn(rem.Block(), rem) < lim {
				return "the remainder is reachable with count == 0 (division by zero)"
			}
			call, ok := rem.X.(*ssa.Call)
			if !ok {
				return "dividend is not a CRC call result"
			}
			switch callee := call.Call.Value.(type) {
			case *ssa.Function:
				if cores[callee] {
					if len(call.Call.Args) != 1 || !isParam(call.Call.Args[0], fn, 0) {
						return "CRC helper is not applied to the key parameter"
					}
				} else if callee.Pkg != nil && callee.Pkg.Pkg.Path() == "hash/crc32" && callee.Name() == "ChecksumIEEE" {
					arg, ok := call.Call.Args[0].(*ssa.Convert)
					if !ok || !isParam(arg.X, fn, 0) {
						return "crc32.ChecksumIEEE is not applied to []byte(key)"
					}
				} else {
					return "dividend comes from " + funcShortName(callee) + ", not CRC-32/IEEE"
				}
			default:
				return "dividend is not a static CRC call"
			}
		}
	}
	return ""
}

// c21MatchDelegator: every return is the constant 0 or the result of a call to a confirmed mapper /
// a HashSlotForKey interface method, applied to the wrapper's own key parameter.
func c21MatchDelegator(fn *ssa.Function, mappers map[*ssa.Function]bool) string {
	keyIdx := -1
	for i, p := range fn.Params {
		if basicKind(p.Type()) == types.String {
			keyIdx = i
		}
	}
	if keyIdx < 0 {
		return "no string key parameter"
	}
	n := 0
	for _, b := range fn.Blocks {
		for _, in := range b.Instrs {
			ret, ok := in.(*ssa.Return)
			if !ok || len(ret.Results) != 1 {
				continue
			}
			n++
			v := ret.Results[0]
			if u, ok := constUint(v); ok && u == 0 {
				continue
			}
			call, ok := v.(*ssa.Call)
			if !ok {
				return "returns " + Path(v) + " at " + fn.Prog.Fset.Position(ret.Pos()).String()
			}
			args := call.Call.Args
			if call.Call.IsInvoke() {
				if call.Call.Method.Name() != "HashSlotForKey" || len(args) != 1 || !isParam(args[0], fn, keyIdx) {
					return "interface call is not HashSlotForKey(key)"
				}
				continue
			}
			callee, ok := call.Call.Value.(*ssa.Function)
			if !ok || !mappers[callee] {
				return "calls " + calleeName(&call.Call) + ", not a confirmed mapper"
			}
			if len(args) < 1 || !isParam(args[0], fn, keyIdx) {
				return "mapper is applied to " + Path(args[0]) + ", not to the wrapper's key"
			}
		}
	}
	if n == 0 {
		return "no return"
	}
	return ""
}

// c21Sweep: discovery of unconfirmed mappers in the loaded packages.
func c21Sweep(c *Ctx, cores, mappers map[*ssa.Function]bool) {
	confirmed := map[string]bool{}
	for _, n := range c21Mappers {
		confirmed[n] = true
	}
	for _, n := range c21CrcCores {
		confirmed[n] = true
	}
	for n := range c21Delegators {
		confirmed[n] = true
	}
	var bad []string
	scanned := 0
	crcDerived := func(v ssa.Value) bool {
		seen := map[ssa.Value]bool{}
		var walk func(v ssa.Value, d int) bool
		walk = func(v ssa.Value, d int) bool {
			if v == nil || seen[v] || d > 6 {
				return false
			}
			seen[v] = true
			switch x := v.(type) {
			case *ssa.Call:
				n := calleeName(&x.Call)
				if strings.HasPrefix(n, "hash/crc32.") || strings.HasPrefix(n, "hash/fnv.") || strings.HasPrefix(n, "hash/maphash.") || strings.HasPrefix(n, "hash/adler32.") {
					return true
				}
				if f, ok := x.Call.Value.(*ssa.Function); ok && cores[f] {
					return true
				}
				return false
			case *ssa.Convert:
				return walk(x.X, d+1)
			case *ssa.BinOp:
				return walk(x.X, d+1) || walk(x.Y, d+1)
			case *ssa.UnOp:
				if g, ok := x.X.(*ssa.Global); ok && g.Pkg != nil && g.Pkg.Pkg.Path() == "hash/crc32" {
					return true
				}
				return walk(x.X, d+1)
			case *ssa.Phi:
				for _, e := range x.Edges {
					if walk(e, d+1) {
						return true
					}
				}
			case *ssa.IndexAddr:
				return walk(x.X, d+1)
			}
			return false
		}
		return walk(v, 0)
	}
	for _, fn := range c.P.AllFuncs {
		name := c.P.Name(fn)
		scanned++
		if confirmed[name] {
			continue
		}
		// (b) signature + name: a hash-slot-for-key function that is not in the table
		lname := strings.ToLower(fn.Name())
		if strings.Contains(lname, "hashslot") && strings.Contains(lname, "key") && fn.Signature.Results().Len() == 1 && basicKind(fn.Signature.Results().At(0).Type()) == types.Uint16 {
			hasString := false
			for _, p := range fn.Params {
				if basicKind(p.Type()) == types.String {
					hasString = true
				}
			}
			if hasString {
				bad = append(bad, fmt.Sprintf("%s (%s) maps a string key to a uint16 hash slot but is not a confirmed mapper/delegator", name, c.P.Pos(fn.Pos())))
				continue
			}
		}
		for _, b := range fn.Blocks {
			for _, in := range b.Instrs {
				switch x := in.(type) {
				case *ssa.BinOp:
					// (a) remainder of a hash-derived value
					if x.Op == token.REM && crcDerived(x.X) {
						bad = append(bad, fmt.Sprintf("%s takes a remainder of a checksum-derived value at %s but is not a confirmed mapper", name, c.P.InstrPos(in)))
					}
				case *ssa.UnOp:
					// (c) direct use of the IEEE table
					if g, ok := x.X.(*ssa.Global); ok && g.Pkg != nil && g.Pkg.Pkg.Path() == "hash/crc32" && g.Name() == "IEEETable" {
						bad = append(bad, fmt.Sprintf("%s reads crc32.IEEETable at %s but is not a confirmed CRC core", name, c.P.InstrPos(in)))
					}
				}
			}
		}
	}
	sort.Strings(bad)
	construct := "sweep:unconfirmed-hash-slot-mappers"
	if len(bad) > 0 {
		c.add("crcmap", "R2-sweep", construct, Violated, "", strings.Join(dedup(bad), "; "))
		return
	}
	c.add("crcmap", "R2-sweep", construct, Held, "", fmt.Sprintf("%d functions scanned in %d package(s); no unconfirmed checksum-remainder, IEEE-table reader or hash-slot-for-key function", scanned, len(c.P.Pkgs)))
}
