package main

import (
	"fmt"
	"go/constant"
	"go/token"
	"strings"

	"golang.org/x/tools/go/ssa"
)

// LoadOf: a load (pointer dereference) of an address whose path matches Glob.
type LoadOf struct{ Glob string }

func (e LoadOf) String() string { return "load " + e.Glob }
func (e LoadOf) Match(in ssa.Instruction) bool {
	u, ok := in.(*ssa.UnOp)
	return ok && u.Op == token.MUL && glob(e.Glob, Path(u.X))
}

// MonoOpts configures the monotone-update rule for one field.
type MonoOpts struct {
	// Resets: functions (globs) where any store is an enumerated reset site
	// (constructor, decode, load-from-disk, clone, generation boundary) — reason in the table.
	Resets map[string]string
	// MaxFuncs: callee globs that compute a maximum of their arguments (builtin max is always accepted).
	MaxFuncs []string
	// LiteralsToo: also classify stores that initialise fresh objects (composite literals).
	LiteralsToo bool
	// Decreasing: the field may only go down (min / guarded by <).
	Decreasing bool
	// Only analyse stores inside functions matching these globs (default: all loaded functions).
	Scope []string
	// AlsoGuards: additional guard specs (disjunction) accepted as proof for a store, e.g. "*.Status == *".
	AlsoGuards []string
	// ValueOK: value globs that are always acceptable (e.g. a call to a checked resolver).
	ValueOK []string
}

// Mono: every store to field (pkg/path.T.F) in the loaded packages is a
// monotone update: max(F, e); F+positive const; e stored behind e > F / e >= F
// (same object, edge-dominance); or an enumerated reset site.
func (c *Ctx) Mono(rule, field string, opt MonoOpts) {
	fv := c.Field(field)
	if fv == nil {
		return
	}
	sites := c.fieldStores(fv)
	n := 0
	for _, s := range sites {
		name := c.P.Name(s.fn)
		if len(opt.Scope) > 0 && !globAny(opt.Scope, name) && !globAny(opt.Scope, rootName(name)) {
			continue
		}
		if s.literal && !opt.LiteralsToo {
			continue
		}
		n++
		c.FuncsAnalysed[name] = true
		construct := fmt.Sprintf("%s@%s#%s", field, name, Path(s.val))
		pos := c.P.InstrPos(s.in)
		if reason, ok := matchReset(opt.Resets, name); ok {
			c.add("mono", rule, construct, Exception, pos, "enumerated reset site: "+reason)
			continue
		}
		if why, ok := c.monotoneStore(s, opt); ok {
			c.add("mono", rule, construct, Held, pos, why)
		} else {
			dir := "raise"
			if opt.Decreasing {
				dir = "lower"
			}
			c.add("mono", rule, construct, Violated, pos,
				fmt.Sprintf("store %s = %s in %s is not a monotone update (not max/guarded-%s/increment) and %s is not an enumerated reset site", Path(s.addr), Path(s.val), name, dir, name))
		}
	}
	if n == 0 {
		c.add("mono", rule, "stores:"+field, Undecided, "", "no store to the field found (vacuous)")
	}
}

func matchReset(resets map[string]string, name string) (string, bool) {
	for g, r := range resets {
		if glob(g, name) || glob(g, rootName(name)) {
			return r, true
		}
	}
	return "", false
}

func (c *Ctx) monotoneStore(s storeSite, opt MonoOpts) (string, bool) {
	addr := Path(s.addr)
	val := s.val
	vs := Path(val)
	if globAny(opt.ValueOK, vs) {
		return "value of an accepted shape: " + vs, true
	}
	// form 1: max(F, e) / min for decreasing
	if call, ok := val.(*ssa.Call); ok {
		name := calleeName(&call.Call)
		want := "max"
		if opt.Decreasing {
			want = "min"
		}
		if name == want || globAny(opt.MaxFuncs, name) {
			for _, a := range call.Call.Args {
				if Path(a) == addr {
					return fmt.Sprintf("%s(%s, …)", name, addr), true
				}
			}
		}
	}
	// form 3: F + positive const
	if b, ok := val.(*ssa.BinOp); ok && !opt.Decreasing && b.Op == token.ADD {
		if k, ok := b.Y.(*ssa.Const); ok && Path(b.X) == addr && k.Value != nil && constant.Sign(k.Value) > 0 {
			return "increment by a positive constant", true
		}
		if k, ok := b.X.(*ssa.Const); ok && Path(b.Y) == addr && k.Value != nil && constant.Sign(k.Value) > 0 {
			return "increment by a positive constant", true
		}
	}
	// form 2: guarded by val > F (or >=)
	op := ">="
	if opt.Decreasing {
		op = "<="
	}
	specs := []AtomSpec{{L: vs, Op: op, R: addr}}
	for _, g := range opt.AlsoGuards {
		specs = append(specs, parseAtomSpec(g))
	}
	g := guardSpec{atoms: specs}
	removed, descr := guardEdges(s.fn, g)
	if len(removed) > 0 {
		limit := reachUnguarded(s.fn, removed, nil)
		b := s.in.Block()
		if lim, ok := limit[b]; !ok || indexIn(b, s.in) >= lim {
			return "store dominated by " + strings.Join(dedup(descr), " / "), true
		}
	}
	return "", false
}
