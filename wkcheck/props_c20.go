package main

import (
	"fmt"
	"go/constant"
	"go/token"
	"go/types"
	"sort"
	"strconv"
	"strings"

	"golang.org/x/tools/go/ssa"
)

func init() {
	register(&PropSpec{
		ID:        "C20",
		Pkgs:      []string{"./pkg/hashslot"},
		Technique: "static analysis: effect pairing (mutation post-dominated by version++), SSA edge-dominance guards, monotone-store classification, field coverage, structural encode/decode layout agreement with cursor-chain and bounds proofs, SSA value-identity checks on the plan builders",
		Explain: "Decides structural clauses of the hash-slot table: (R1) in every function of pkg/hashslot a write to assignment, migrations or hashSlotCount of an existing table is post-dominated by version++ and the mutating methods change state only behind their precondition tests (bounds, current owner == source, source != target, no duplicate migration, migration exists, phase differs); (R2) version is only ever stored as version+1 or at the constructor/Clone/Decode reset sites and Clone copies all four fields; (R3) Encode reads every table and migration field, emits migrations in sorted order, and the byte layout written by Encode (widths, order, loop strides) is the layout DecodeHashSlotTable reads (offset cursor chain, field-for-field), Decode sets every field; (R4) every read of the input in DecodeHashSlotTable is dominated by a sufficient length test (the migration loop by the exact wantLen equality + loop bound); (R5) every MigrationPlan entry takes its hash slot from popOwnedHashSlot of the owner list of exactly its From slot, built from table.HashSlotsOf, behind pop ok, pop removes what it returns, and the per-slot counters are updated for the same From/To. " +
			"NOT decided: that an assignment always holds exactly one valid physical slot per hash slot as values, plan balance (within one of the ideal share), From != To in the rebalance plan, selectLargestSurplus/SmallestDeficit arithmetic, codec equality as values, integer overflow in offsets.",
		Run: c20,
		Mutants: []Mutant{
			{Name: "reassign-forgets-version", File: "pkg/hashslot/hashslottable.go",
				Old: "t.assignment[hashSlot] = slotID\n\tt.version++", New: "t.assignment[hashSlot] = slotID",
				Expect: "C20/R1-pair/*Reassign*"},
			{Name: "finalize-version-only-when-assigned", File: "pkg/hashslot/hashslottable.go",
				Old:    "\t\tt.assignment[hashSlot] = migration.Target\n\t}\n\tdelete(t.migrations, hashSlot)\n\tt.version++",
				New:    "\t\tt.assignment[hashSlot] = migration.Target\n\t\tt.version++\n\t}\n\tdelete(t.migrations, hashSlot)",
				Expect: "C20/R1-pair/*FinalizeMigration*"},
			{Name: "abort-forgets-version", File: "pkg/hashslot/hashslottable.go",
				Old: "delete(t.migrations, hashSlot)\n\tt.version++\n}\n\nfunc (t *HashSlotTable) GetMigration", New: "delete(t.migrations, hashSlot)\n}\n\nfunc (t *HashSlotTable) GetMigration",
				Expect: "C20/R1-pair/*AbortMigration*"},
			{Name: "start-migration-ignores-owner", File: "pkg/hashslot/hashslottable.go",
				Old: "sourceSlot == targetSlot || current != sourceSlot {", New: "sourceSlot == targetSlot || current == 0 {",
				Expect: "C20/R1-guard/*StartMigration*"},
			{Name: "start-migration-overwrites-active", File: "pkg/hashslot/hashslottable.go",
				Old: "if _, ok := t.migrations[hashSlot]; ok {\n\t\treturn\n\t}\n\tif t.migrations == nil {", New: "if t.migrations == nil {",
				Expect: "C20/R1-guard/*StartMigration*"},
			{Name: "finalize-keeps-migration", File: "pkg/hashslot/hashslottable.go",
				Old: "\t\tt.assignment[hashSlot] = migration.Target\n\t}\n\tdelete(t.migrations, hashSlot)\n", New: "\t\tt.assignment[hashSlot] = migration.Target\n\t}\n",
				Expect: "C20/R1-guard/*FinalizeMigration*"},
			{Name: "version-reset-in-advance", File: "pkg/hashslot/hashslottable.go",
				Old: "t.migrations[hashSlot] = migration\n\tt.version++", New: "t.migrations[hashSlot] = migration\n\tt.version = uint64(phase) + 1", Nth: 2,
				Expect: "C20/R2-mono/*"},
			{Name: "clone-forgets-version", File: "pkg/hashslot/hashslottable.go",
				Old: "\t\tversion:       t.version,\n\t\thashSlotCount: t.hashSlotCount,\n\t\tassignment:    make([]multiraft.SlotID, len(t.assignment)),", New: "\t\thashSlotCount: t.hashSlotCount,\n\t\tassignment:    make([]multiraft.SlotID, len(t.assignment)),",
				Expect: "C20/R2-clone/*"},
			{Name: "encode-unsorted-migrations", File: "pkg/hashslot/hashslottable.go",
				Old: "\tsort.Slice(out, func(i, j int) bool {\n\t\treturn out[i].HashSlot < out[j].HashSlot\n\t})\n\treturn out", New: "\t_ = sort.Slice\n\treturn out",
				Expect: "C20/R3-cover/*ActiveMigrations*"},
			{Name: "encode-swaps-source-target", File: "pkg/hashslot/hashslottable.go",
				Old: "data = binary.BigEndian.AppendUint64(data, uint64(migration.Source))\n\t\tdata = binary.BigEndian.AppendUint64(data, uint64(migration.Target))", New: "data = binary.BigEndian.AppendUint64(data, uint64(migration.Target))\n\t\tdata = binary.BigEndian.AppendUint64(data, uint64(migration.Source))",
				Expect: "C20/R3-wire/*"},
			{Name: "encode-drops-phase", File: "pkg/hashslot/hashslottable.go",
				Old: "data = append(data, byte(migration.Phase), 0)", New: "data = append(data, 0, 0)",
				Expect: "C20/R3-*"},
			{Name: "decode-wrong-target-offset", File: "pkg/hashslot/hashslottable.go",
				Old: "binary.BigEndian.Uint64(data[offset+12 : offset+20])", New: "binary.BigEndian.Uint64(data[offset+4 : offset+12])",
				Expect: "C20/R3-wire/*"},
			{Name: "decode-record-size-drift", File: "pkg/hashslot/hashslottable.go",
				Old: "const migrationRecordSize = 20", New: "const migrationRecordSize = 18",
				Expect: "C20/R3-wire/*"},
			{Name: "decode-drops-length-equality", File: "pkg/hashslot/hashslottable.go",
				Old: "if len(data) != wantLen {", New: "if len(data) > wantLen {",
				Expect: "C20/R4-decodesafe/*"},
			{Name: "decode-short-assignment-check", File: "pkg/hashslot/hashslottable.go",
				Old: "if len(data) < offset+8 {", New: "if len(data) < offset+4 {",
				Expect: "C20/R4-decodesafe/*"},
			{Name: "plan-from-is-receiver", File: "pkg/hashslot/rebalancer.go",
				Old: "\t\t\tFrom:     donor,\n\t\t\tTo:       receiver,", New: "\t\t\tFrom:     receiver,\n\t\t\tTo:       donor,",
				Expect: "C20/R5-plan/*ComputeRebalancePlan*"},
			{Name: "plan-ignores-empty-owner-list", File: "pkg/hashslot/rebalancer.go",
				Old:    "hashSlot, ok := popOwnedHashSlot(owned, donor)\n\t\tif !ok {\n\t\t\tbreak\n\t\t}\n\t\tplan = append(plan, MigrationPlan{\n\t\t\tHashSlot: hashSlot,\n\t\t\tFrom:     donor,\n\t\t\tTo:       newSlotID,",
				New:    "hashSlot, _ := popOwnedHashSlot(owned, donor)\n\t\tplan = append(plan, MigrationPlan{\n\t\t\tHashSlot: hashSlot,\n\t\t\tFrom:     donor,\n\t\t\tTo:       newSlotID,",
				Expect: "C20/R5-plan/*ComputeAddSlotPlan*"},
			{Name: "pop-does-not-remove", File: "pkg/hashslot/rebalancer.go",
				Old: "\towned[slotID] = hashSlots[:len(hashSlots)-1]\n", New: "",
				Expect: "C20/R5-plan/*popOwnedHashSlot*"},
			{Name: "hashslotsof-wrong-owner", File: "pkg/hashslot/hashslottable.go",
				Old: "if assigned == slotID {\n\t\t\tout = append(out, uint16(hashSlot))", New: "if assigned != 0 {\n\t\t\tout = append(out, uint16(hashSlot))",
				Expect: "C20/R5-plan/*HashSlotsOf*"},
		},
	})
}

func c20(c *Ctx) {
	const (
		hs = "pkg/hashslot."
		T  = hs + "HashSlotTable."
	)
	mut := InstrFn{"table mutation", c20IsMutation}
	bump := InstrFn{"version++", c20IsBump}
	change := OneOf{mut, bump}

	// R1 effect pairing: every mutation of an existing table is post-dominated by version++.
	for _, fn := range c.Fns(hs + "*") {
		if len(instrsMatching(fn, mut)) == 0 {
			continue
		}
		c.FollowedBy("R1-pair", fn, mut, bump)
	}
	c.Min("R1-pair", 5)

	// R1 guards: state changes (and the version bump) only behind each method's precondition / effective-change test.
	reassign := c.Fn(T + "Reassign")
	c.Guard("R1-guard", reassign, change, "t != nil", "hashSlot < len(t.assignment)", "t.assignment[hashSlot] != slotID")
	c.StoreShape("R1-guard", reassign, "t.assignment[*]", "slotID")
	c20Keys(c, "R1-guard", reassign, "hashSlot")

	start := c.Fn(T + "StartMigration")
	c.Guard("R1-guard", start, change,
		"t != nil", "hashSlot < len(t.assignment)",
		"t.assignment[hashSlot] == sourceSlot", "sourceSlot != 0", "targetSlot != 0", "sourceSlot != targetSlot",
		"!t.migrations[hashSlot]#1")
	c.StoreShape("R1-guard", start, "t.migrations[*]", "alloc:HashSlotMigration")
	c.StoreShape("R1-guard", start, "alloc:HashSlotMigration.HashSlot", "hashSlot")
	c.StoreShape("R1-guard", start, "alloc:HashSlotMigration.Source", "sourceSlot")
	c.StoreShape("R1-guard", start, "alloc:HashSlotMigration.Target", "targetSlot")
	c.StoreShape("R1-guard", start, "alloc:HashSlotMigration.Phase", "0")
	c20Keys(c, "R1-guard", start, "hashSlot")

	adv := c.Fn(T + "AdvanceMigration")
	c.Guard("R1-guard", adv, change, "t != nil", "t.migrations[hashSlot]#1", "*.Phase != phase")
	c.StoreShape("R1-guard", adv, "*.Phase", "phase")
	c20AdvanceStoresLoaded(c, "R1-guard", adv)
	c20Keys(c, "R1-guard", adv, "hashSlot")

	fin := c.Fn(T + "FinalizeMigration")
	c.Guard("R1-guard", fin, change, "t != nil", "t.migrations[hashSlot]#1")
	c.Guard("R1-guard", fin, StoreTo{Addr: "t.assignment[*]"}, "hashSlot < len(t.assignment)")
	c.StoreShape("R1-guard", fin, "t.assignment[*]", "*.Target")
	c.FollowedBy("R1-guard", fin, StoreTo{Addr: "t.assignment[*]"}, CallTo{"delete(t.migrations, hashSlot)"})
	c.Guard("R1-guard", fin, bump, "after: delete(t.migrations, hashSlot)")
	c20Keys(c, "R1-guard", fin, "hashSlot")

	abort := c.Fn(T + "AbortMigration")
	c.Guard("R1-guard", abort, change, "t != nil", "t.migrations[hashSlot]#1")
	c20Keys(c, "R1-guard", abort, "hashSlot")

	// R2 mono: version only grows; resets are the three construction sites.
	c.Mono("R2-mono", hs+"HashSlotTable.version", MonoOpts{LiteralsToo: true, Resets: map[string]string{
		hs + "NewHashSlotTable":    "constructor: a fresh table starts at version 1",
		T + "Clone":                "clone: copies the source version into a fresh object",
		hs + "DecodeHashSlotTable": "decode: installs the persisted version into a fresh object",
	}})
	c.Min("R2-mono", 8)
	clone := c.Fn(T + "Clone")
	c.LiteralComplete("R2-clone", clone, hs+"HashSlotTable", nil, nil)
	c.StoreShape("R2-clone", clone, "alloc:HashSlotTable.version", "t.version")
	c.StoreShape("R2-clone", clone, "alloc:HashSlotTable.hashSlotCount", "t.hashSlotCount")
	c.StoreShape("R2-clone", clone, "alloc:HashSlotTable.assignment", "make([]SlotID, len(t.assignment))")
	c.CallShape("R2-clone", clone, "copy", "copy(alloc:HashSlotTable.assignment, t.assignment)")
	c.StoreShape("R2-clone", clone, "alloc:HashSlotTable.migrations[*]", "next(range(t.migrations))#2")
	c.StoreShape("R2-clone", clone, "alloc:HashSlotTable.migrations[next(range(t.migrations))#1]", "*")
	newT := c.Fn(hs + "NewHashSlotTable")
	c.LiteralComplete("R2-clone", newT, hs+"HashSlotTable", nil, nil)

	// R3 cover: Encode takes every field, Decode sets every field, migrations are emitted in a canonical order.
	enc := c.Fn(T + "Encode")
	am := c.Fn(T + "ActiveMigrations")
	dec := c.Fn(hs + "DecodeHashSlotTable")
	if enc != nil && am != nil {
		c.Cover("R3-cover", []*ssa.Function{enc, am}, hs+"HashSlotTable", nil)
		c.Cover("R3-cover", []*ssa.Function{enc}, hs+"HashSlotMigration", nil)
	}
	c.CallShape("R3-cover", enc, T+"ActiveMigrations", T+"ActiveMigrations(t)")
	c.Guard("R3-cover", am, RetNot{0, []string{"nil"}}, "after: sort.Slice(*)")
	c.Guard("R3-cover", am, CallTo{"append"}, "next(range(t.migrations))#0")
	c.StoreShape("R3-cover", am, "varargs[0]", "next(range(t.migrations))#2")
	if am != nil && len(am.AnonFuncs) == 1 {
		c20RetShape(c, "R3-cover", am.AnonFuncs[0], 0, "(*[i].HashSlot < *[j].HashSlot)")
	} else if am != nil {
		c.add("shape", "R3-cover", T+"ActiveMigrations#less", Undecided, c.P.Pos(am.Pos()), "expected exactly one sort comparator closure")
	}
	c.LiteralComplete("R3-cover", dec, hs+"HashSlotTable", nil, nil)
	c.LiteralComplete("R3-cover", dec, hs+"HashSlotMigration", nil, nil)

	// R3 wire + R4 decodesafe: layout agreement and bounds.
	c20Wire(c, "R3-wire", "R4-decodesafe", enc, dec)
	c.Min("R4-decodesafe", 9)

	// R5 plan builders.
	add := c.Fn(hs + "ComputeAddSlotPlan")
	rem := c.Fn(hs + "ComputeRemoveSlotPlan")
	reb := c.Fn(hs + "ComputeRebalancePlan")
	planStore := StoreTo{Addr: "alloc:MigrationPlan.*"}
	const popOK = "pkg/hashslot.popOwnedHashSlot(*)#1"
	for _, fn := range []*ssa.Function{add, rem, reb} {
		c20PlanLiterals(c, "R5-plan", fn)
		c.LiteralComplete("R5-plan", fn, hs+"MigrationPlan", nil, nil)
	}
	c.Guard("R5-plan", add, planStore, popOK, "table != nil", "newSlotID != 0",
		"!pkg/hashslot.containsSlotID(pkg/hashslot.tableActiveSlotIDs(table), newSlotID)",
		"pkg/hashslot.selectLargestSurplusSlot(*) != 0")
	c.CallShape("R5-plan", add, hs+"selectLargestSurplusSlot", hs+"selectLargestSurplusSlot(*, pkg/hashslot.tableActiveSlotIDs(table))")
	c.StoreShape("R5-plan", add, "alloc:MigrationPlan.To", "newSlotID")
	c.Guard("R5-plan", rem, planStore, popOK, "table != nil", "removeSlotID != 0", "pkg/hashslot.selectSmallestDeficitSlot(*) != 0")
	c.CallShape("R5-plan", rem, hs+"selectSmallestDeficitSlot", hs+"selectSmallestDeficitSlot(*, pkg/hashslot.tableActiveSlotIDsExcluding(table, removeSlotID))")
	c.StoreShape("R5-plan", rem, "alloc:MigrationPlan.From", "removeSlotID")
	c.Guard("R5-plan", reb, planStore, popOK, "table != nil", "pkg/hashslot.selectLargestSurplusSlot(*) != 0", "pkg/hashslot.selectSmallestDeficitSlot(*) != 0")
	c.StoreShape("R5-plan", reb, "alloc:MigrationPlan.From", hs+"selectLargestSurplusSlot(*)")
	c.StoreShape("R5-plan", reb, "alloc:MigrationPlan.To", hs+"selectSmallestDeficitSlot(*)")

	excl := c.Fn(hs + "tableActiveSlotIDsExcluding")
	c.Guard("R5-plan", excl, StoreTo{Addr: "varargs[*]"}, "* != exclude")
	c.CallShape("R5-plan", excl, hs+"tableActiveSlotIDs", hs+"tableActiveSlotIDs(table)")

	pop := c.Fn(hs + "popOwnedHashSlot")
	c.Guard("R5-plan", pop, Ret{1, "true"}, "len(owned[slotID]) != 0")
	c.StoreShape("R5-plan", pop, "owned[*]", "owned[slotID][:(len(owned[slotID]) - 1)]")
	c20Before(c, "R5-plan", pop, Ret{1, "true"}, StoreTo{Addr: "owned[slotID]"})
	c20RetShape(c, "R5-plan", pop, 0, "0", "owned[slotID][(len(owned[slotID]) - 1)]")
	c.Guard("R5-plan", pop, Ret{0, "owned[slotID][*]"}, "len(owned[slotID]) != 0")

	c20OwnedLists(c, "R5-plan", c.Fn(hs+"slotHashSlots"))
	c20HashSlotsOf(c, "R5-plan", c.Fn(T+"HashSlotsOf"))
}

// ---------------------------------------------------------------------------
// table mutations

func c20Strip(v ssa.Value) ssa.Value {
	for {
		switch x := v.(type) {
		case *ssa.Convert:
			v = x.X
		case *ssa.ChangeType:
			v = x.X
		default:
			return v
		}
	}
}

// c20TableField: the HashSlotTable field an address or loaded value belongs to, and the table object.
func c20TableField(v ssa.Value) (field string, root ssa.Value, indexed bool, ok bool) {
	for depth := 0; depth < 8; depth++ {
		switch x := v.(type) {
		case *ssa.UnOp:
			if x.Op != token.MUL {
				return
			}
			v = x.X
		case *ssa.IndexAddr:
			indexed = true
			v = x.X
		case *ssa.Slice:
			v = x.X
		case *ssa.FieldAddr:
			if ownerTypeName(x.X.Type()) == "HashSlotTable" {
				r := x.X
				for {
					if u, isLoad := r.(*ssa.UnOp); isLoad && u.Op == token.MUL {
						r = u.X
						continue
					}
					break
				}
				return fieldName(x.X.Type(), x.Field), r, indexed, true
			}
			v = x.X
		default:
			return
		}
	}
	return
}

func c20Fresh(root ssa.Value) bool {
	a, ok := root.(*ssa.Alloc)
	return ok && spilledParam(a) == nil
}

// c20MutationKind classifies writes to assignment / migrations / hashSlotCount of a table that already exists.
func c20MutationKind(in ssa.Instruction) (string, bool) {
	var addr ssa.Value
	kind := ""
	switch x := in.(type) {
	case *ssa.Store:
		addr, kind = x.Addr, "store"
	case *ssa.MapUpdate:
		addr, kind = x.Map, "mapset"
	case *ssa.Call:
		if b, ok := x.Call.Value.(*ssa.Builtin); ok && len(x.Call.Args) > 0 && (b.Name() == "delete" || b.Name() == "copy" || b.Name() == "clear") {
			addr, kind = x.Call.Args[0], b.Name()
		}
	}
	if addr == nil {
		return "", false
	}
	f, root, _, ok := c20TableField(addr)
	if !ok || c20Fresh(root) {
		return "", false
	}
	switch f {
	case "assignment", "migrations", "hashSlotCount":
		return kind + " " + f, true
	}
	return "", false
}

func c20IsMutation(in ssa.Instruction) bool {
	_, ok := c20MutationKind(in)
	return ok
}

// c20IsBump: store X.version = X.version + positive constant on an existing table.
func c20IsBump(in ssa.Instruction) bool {
	st, ok := in.(*ssa.Store)
	if !ok {
		return false
	}
	f, root, indexed, ok := c20TableField(st.Addr)
	if !ok || f != "version" || indexed || c20Fresh(root) {
		return false
	}
	b, ok := st.Val.(*ssa.BinOp)
	if !ok || b.Op != token.ADD {
		return false
	}
	k, isConst := b.Y.(*ssa.Const)
	return isConst && k.Value != nil && constant.Sign(k.Value) > 0 && Path(b.X) == Path(st.Addr)
}

// c20Keys: every element write / map update / delete of the table in fn uses the parameter `key` as its key.
func c20Keys(c *Ctx, rule string, fn *ssa.Function, key string) {
	if fn == nil {
		return
	}
	fname := c.P.Name(fn)
	n := 0
	var bad []string
	for _, in := range instrsMatching(fn, InstrFn{"", c20IsMutation}) {
		var k ssa.Value
		switch x := in.(type) {
		case *ssa.Store:
			if ia, ok := x.Addr.(*ssa.IndexAddr); ok {
				k = ia.Index
			}
		case *ssa.MapUpdate:
			k = x.Key
		case *ssa.Call:
			if len(x.Call.Args) == 2 && calleeName(&x.Call) == "delete" {
				k = x.Call.Args[1]
			}
		}
		if k == nil {
			continue
		}
		n++
		p, isParam := c20Strip(k).(*ssa.Parameter)
		if !isParam || p.Name() != key {
			bad = append(bad, Path(k)+" at "+c.P.InstrPos(in))
		}
	}
	construct := fname + "#keys=" + key
	switch {
	case n == 0:
		c.add("shape", rule, construct, Undecided, c.P.Pos(fn.Pos()), "no keyed table write found (vacuous)")
	case len(bad) > 0:
		c.add("shape", rule, construct, Violated, c.P.Pos(fn.Pos()), "table element written under a key other than parameter "+key+": "+strings.Join(bad, "; "))
	default:
		c.add("shape", rule, construct, Held, c.P.Pos(fn.Pos()), fmt.Sprintf("%d keyed table write(s), all keyed by parameter %s", n, key))
	}
}

// c20AdvanceStoresLoaded: the migration written back by AdvanceMigration is the local copy that was
// loaded from t.migrations[hashSlot] (only its Phase is overwritten).
func c20AdvanceStoresLoaded(c *Ctx, rule string, fn *ssa.Function) {
	if fn == nil {
		return
	}
	construct := c.P.Name(fn) + "#writes-back-loaded-entry"
	var problems []string
	n := 0
	for _, in := range instrsMatching(fn, AnyMapUpdate{}) {
		mu := in.(*ssa.MapUpdate)
		if f, _, _, ok := c20TableField(mu.Map); !ok || f != "migrations" {
			continue
		}
		n++
		ld, ok := mu.Value.(*ssa.UnOp)
		var cell *ssa.Alloc
		if ok && ld.Op == token.MUL {
			cell, _ = ld.X.(*ssa.Alloc)
		}
		if cell == nil {
			problems = append(problems, "stored value is not a local copy: "+Path(mu.Value))
			continue
		}
		whole, fields := 0, []string{}
		for _, r := range *cell.Referrers() {
			switch x := r.(type) {
			case *ssa.Store:
				if x.Addr == ssa.Value(cell) {
					whole++
					ex, ok := x.Val.(*ssa.Extract)
					if !ok || ex.Index != 0 {
						problems = append(problems, "local copy initialised from "+Path(x.Val))
						continue
					}
					lk, ok := ex.Tuple.(*ssa.Lookup)
					if !ok || Path(lk.X) != Path(mu.Map) || lk.Index != mu.Key {
						problems = append(problems, "local copy loaded from "+Path(x.Val)+", written to "+Path(mu.Map)+"["+Path(mu.Key)+"]")
					}
				}
			case *ssa.FieldAddr:
				for _, rr := range *x.Referrers() {
					if _, isStore := rr.(*ssa.Store); isStore {
						fields = append(fields, fieldName(x.X.Type(), x.Field))
					}
				}
			}
		}
		if whole != 1 {
			problems = append(problems, fmt.Sprintf("local copy assigned %d times", whole))
		}
		for _, f := range fields {
			if f != "Phase" {
				problems = append(problems, "field "+f+" of the entry is overwritten")
			}
		}
	}
	switch {
	case n == 0:
		c.add("shape", rule, construct, Undecided, c.P.Pos(fn.Pos()), "no migrations update found")
	case len(problems) > 0:
		c.add("shape", rule, construct, Violated, c.P.Pos(fn.Pos()), strings.Join(problems, "; "))
	default:
		c.add("shape", rule, construct, Held, c.P.Pos(fn.Pos()), "the entry written back is the one loaded under the same key; only Phase is overwritten")
	}
}

// AnyMapUpdate matches every map update instruction.
type AnyMapUpdate struct{}

func (AnyMapUpdate) String() string { return "map update" }
func (AnyMapUpdate) Match(in ssa.Instruction) bool {
	_, ok := in.(*ssa.MapUpdate)
	return ok
}

// c20RetShape: result idx of every return of fn renders to one of the globs.
func c20RetShape(c *Ctx, rule string, fn *ssa.Function, idx int, globs ...string) {
	if fn == nil {
		return
	}
	fname := c.P.Name(fn)
	var bad []string
	n := 0
	for _, in := range instrsMatching(fn, AnyRet{}) {
		ret := in.(*ssa.Return)
		if idx >= len(ret.Results) {
			continue
		}
		n++
		if got := Path(retOperand(ret, idx)); !globAny(globs, got) {
			bad = append(bad, got+" at "+c.P.InstrPos(in))
		}
	}
	construct := fmt.Sprintf("%s#result[%d]∈%v", fname, idx, globs)
	switch {
	case n == 0:
		c.add("shape", rule, construct, Undecided, c.P.Pos(fn.Pos()), "no return found")
	case len(bad) > 0:
		c.add("shape", rule, construct, Violated, c.P.Pos(fn.Pos()), "returned value of an unexpected shape: "+strings.Join(bad, "; "))
	default:
		c.add("shape", rule, construct, Held, c.P.Pos(fn.Pos()), fmt.Sprintf("%d return(s), each returns one of %v", n, globs))
	}
}

// c20Before: every instruction matching eff is reached from the entry only after an instruction matching barrier.
func c20Before(c *Ctx, rule string, fn *ssa.Function, eff, barrier Effect) {
	if fn == nil {
		return
	}
	fname := c.P.Name(fn)
	construct := fname + "#" + barrier.String() + " before " + eff.String()
	effs := instrsMatching(fn, eff)
	if len(effs) == 0 || len(instrsMatching(fn, barrier)) == 0 {
		c.add("order", rule, construct, Violated, c.P.Pos(fn.Pos()), fmt.Sprintf("%d effect site(s) %q, %d site(s) of the required preceding step %q", len(effs), eff.String(), len(instrsMatching(fn, barrier)), barrier.String()))
		return
	}
	limit := map[*ssa.BasicBlock]int{}
	work := []*ssa.BasicBlock{fn.Blocks[0]}
	seen := map[*ssa.BasicBlock]bool{fn.Blocks[0]: true}
	for len(work) > 0 {
		b := work[len(work)-1]
		work = work[:len(work)-1]
		stop := -1
		for i, in := range b.Instrs {
			if barrier.Match(in) {
				stop = i
				break
			}
		}
		if stop >= 0 {
			limit[b] = stop
			continue
		}
		limit[b] = len(b.Instrs)
		for _, s := range b.Succs {
			if !seen[s] {
				seen[s] = true
				work = append(work, s)
			}
		}
	}
	var bad []string
	for _, e := range effs {
		if lim, ok := limit[e.Block()]; ok && indexIn(e.Block(), e) < lim {
			bad = append(bad, c.P.InstrPos(e))
		}
	}
	if len(bad) > 0 {
		c.add("order", rule, construct, Violated, bad[0], fmt.Sprintf("in %s %q is reachable without first executing %q (at %s)", fname, eff.String(), barrier.String(), strings.Join(bad, ", ")))
		return
	}
	c.add("order", rule, construct, Held, c.P.InstrPos(effs[0]), fmt.Sprintf("%d site(s) of %q, each reachable only after %q", len(effs), eff.String(), barrier.String()))
}

// ---------------------------------------------------------------------------
// R5: plan builders

func c20IsCallTo(v ssa.Value, callee string) *ssa.Call {
	call, ok := c20Strip(v).(*ssa.Call)
	if ok && calleeName(&call.Call) == callee {
		return call
	}
	return nil
}

// c20PlanLiterals: every MigrationPlan literal built in fn has HashSlot = popOwnedHashSlot(owned, X)#0 and
// From = X (same SSA value), owned = slotHashSlots(table, …), and the per-slot counters of the same
// slotCounts map are decremented for From and incremented for To right after the entry is appended.
func c20PlanLiterals(c *Ctx, rule string, fn *ssa.Function) {
	if fn == nil {
		return
	}
	fname := c.P.Name(fn)
	construct := fname + "#plan-entry-provenance"
	type lit struct {
		fields map[string]ssa.Value
		block  *ssa.BasicBlock
	}
	lits := map[*ssa.Alloc]*lit{}
	for _, b := range fn.Blocks {
		for _, in := range b.Instrs {
			st, ok := in.(*ssa.Store)
			if !ok {
				continue
			}
			fa, ok := st.Addr.(*ssa.FieldAddr)
			if !ok {
				continue
			}
			a, ok := fa.X.(*ssa.Alloc)
			if !ok || ownerTypeName(a.Type()) != "MigrationPlan" {
				continue
			}
			if lits[a] == nil {
				lits[a] = &lit{fields: map[string]ssa.Value{}, block: b}
			}
			lits[a].fields[fieldName(fa.X.Type(), fa.Field)] = st.Val
		}
	}
	if len(lits) == 0 {
		c.add("shape", rule, construct, Undecided, c.P.Pos(fn.Pos()), "no MigrationPlan literal found (vacuous)")
		return
	}
	var problems []string
	for _, l := range lits {
		from, to := l.fields["From"], l.fields["To"]
		ex, ok := c20Strip(l.fields["HashSlot"]).(*ssa.Extract)
		var pop *ssa.Call
		if ok && ex.Index == 0 {
			pop = c20IsCallTo(ex.Tuple, "pkg/hashslot.popOwnedHashSlot")
		}
		if pop == nil {
			problems = append(problems, "HashSlot is not the value popped by popOwnedHashSlot: "+Path(l.fields["HashSlot"]))
			continue
		}
		if from == nil || c20Strip(from) != c20Strip(pop.Call.Args[1]) {
			problems = append(problems, "From ("+Path(from)+") is not the slot whose owner list the hash slot was popped from ("+Path(pop.Call.Args[1])+")")
		}
		owned := c20IsCallTo(pop.Call.Args[0], "pkg/hashslot.slotHashSlots")
		if owned == nil || len(fn.Params) == 0 || owned.Call.Args[0] != ssa.Value(fn.Params[0]) {
			problems = append(problems, "owner lists are not slotHashSlots(table, …): "+Path(pop.Call.Args[0]))
		}
		if to == nil {
			problems = append(problems, "To is not set")
			continue
		}
		// counters
		dec, inc := false, false
		for _, in := range l.block.Instrs {
			mu, ok := in.(*ssa.MapUpdate)
			if !ok || c20IsCallTo(mu.Map, "pkg/hashslot.slotCounts") == nil {
				continue
			}
			b, ok := mu.Value.(*ssa.BinOp)
			if !ok {
				continue
			}
			k, isConst := b.Y.(*ssa.Const)
			lk, isLookup := b.X.(*ssa.Lookup)
			if !isConst || !isLookup || k.Value == nil || constant.Compare(k.Value, token.NEQ, constant.MakeInt64(1)) || lk.X != mu.Map || lk.Index != mu.Key {
				continue
			}
			if b.Op == token.SUB && from != nil && c20Strip(mu.Key) == c20Strip(from) {
				dec = true
			}
			if b.Op == token.ADD && c20Strip(mu.Key) == c20Strip(to) {
				inc = true
			}
		}
		if !dec {
			problems = append(problems, "current[From]-- missing next to the plan entry")
		}
		if !inc {
			problems = append(problems, "current[To]++ missing next to the plan entry")
		}
	}
	if len(problems) > 0 {
		sort.Strings(problems)
		c.add("shape", rule, construct, Violated, c.P.Pos(fn.Pos()), strings.Join(problems, "; "))
		return
	}
	c.add("shape", rule, construct, Held, c.P.Pos(fn.Pos()), fmt.Sprintf("%d plan literal(s): HashSlot popped from the owner list of From, lists from slotHashSlots(table, …), counters moved From→To", len(lits)))
}

// c20OwnedLists: slotHashSlots maps each slot id to a private copy of table.HashSlotsOf(that same id).
func c20OwnedLists(c *Ctx, rule string, fn *ssa.Function) {
	if fn == nil {
		return
	}
	construct := c.P.Name(fn) + "#owned[id]=copy(HashSlotsOf(id))"
	var problems []string
	n := 0
	for _, in := range instrsMatching(fn, AnyMapUpdate{}) {
		mu := in.(*ssa.MapUpdate)
		n++
		app := c20IsCallTo(mu.Value, "append")
		var src *ssa.Call
		if app != nil && len(app.Call.Args) == 2 {
			if k, ok := app.Call.Args[0].(*ssa.Const); ok && k.Value == nil {
				src = c20IsCallTo(app.Call.Args[1], "pkg/hashslot.HashSlotTable.HashSlotsOf")
			}
		}
		if src == nil {
			src = c20IsCallTo(mu.Value, "pkg/hashslot.HashSlotTable.HashSlotsOf")
		}
		if src == nil {
			problems = append(problems, "value is not (a copy of) table.HashSlotsOf(…): "+Path(mu.Value))
			continue
		}
		if len(fn.Params) == 0 || src.Call.Args[0] != ssa.Value(fn.Params[0]) {
			problems = append(problems, "HashSlotsOf is not called on the table parameter")
		}
		if c20Strip(src.Call.Args[1]) != c20Strip(mu.Key) {
			problems = append(problems, "list stored under key "+Path(mu.Key)+" was computed for "+Path(src.Call.Args[1]))
		}
	}
	switch {
	case n == 0:
		c.add("shape", rule, construct, Undecided, c.P.Pos(fn.Pos()), "no map update found")
	case len(problems) > 0:
		c.add("shape", rule, construct, Violated, c.P.Pos(fn.Pos()), strings.Join(problems, "; "))
	default:
		c.add("shape", rule, construct, Held, c.P.Pos(fn.Pos()), "owner lists are copies of table.HashSlotsOf(key) under the same key")
	}
}

// c20HashSlotsOf: HashSlotsOf appends exactly the index i behind t.assignment[i] == slotID.
func c20HashSlotsOf(c *Ctx, rule string, fn *ssa.Function) {
	if fn == nil {
		return
	}
	construct := c.P.Name(fn) + "#appends-index-of-matching-owner"
	var problems []string
	n := 0
	for _, in := range instrsMatching(fn, CallTo{"append"}) {
		call, ok := in.(*ssa.Call)
		if !ok || len(call.Call.Args) != 2 {
			continue
		}
		n++
		sl, ok := call.Call.Args[1].(*ssa.Slice)
		var arr *ssa.Alloc
		if ok {
			arr, _ = sl.X.(*ssa.Alloc)
		}
		if arr == nil {
			problems = append(problems, "appended values are not a literal list")
			continue
		}
		var vals []ssa.Value
		for _, r := range *arr.Referrers() {
			if ia, ok := r.(*ssa.IndexAddr); ok {
				for _, rr := range *ia.Referrers() {
					if st, ok := rr.(*ssa.Store); ok {
						vals = append(vals, c20Strip(st.Val))
					}
				}
			}
		}
		if len(vals) != 1 {
			problems = append(problems, fmt.Sprintf("%d values appended at once", len(vals)))
			continue
		}
		// the dominating test: t.assignment[vals[0]] == slotID on the edge into this block
		proved := false
		for _, b := range fn.Blocks {
			iff, ok := b.Instrs[len(b.Instrs)-1].(*ssa.If)
			if !ok {
				continue
			}
			cmp, ok := iff.Cond.(*ssa.BinOp)
			if !ok || cmp.Op != token.EQL {
				continue
			}
			for _, pair := range [][2]ssa.Value{{cmp.X, cmp.Y}, {cmp.Y, cmp.X}} {
				ld, ok := c20Strip(pair[0]).(*ssa.UnOp)
				if !ok || ld.Op != token.MUL {
					continue
				}
				ia, ok := ld.X.(*ssa.IndexAddr)
				if !ok {
					continue
				}
				f, root, _, ok := c20TableField(ia)
				p, isParam := c20Strip(pair[1]).(*ssa.Parameter)
				if !ok || f != "assignment" || !isParam || p.Name() != "slotID" || len(fn.Params) == 0 || root != ssa.Value(fn.Params[0]) {
					continue
				}
				if c20Strip(ia.Index) != vals[0] {
					continue
				}
				// edge dominance: remove the true edge, the append must become unreachable
				limit := reachUnguarded(fn, map[edge]bool{{b, 0}: true}, nil)
				if lim, reach := limit[in.Block()]; !reach || indexIn(in.Block(), in) >= lim {
					proved = true
				}
			}
		}
		if !proved {
			problems = append(problems, "append of "+Path(vals[0])+" is not behind t.assignment[that index] == slotID")
		}
	}
	switch {
	case n == 0:
		c.add("shape", rule, construct, Undecided, c.P.Pos(fn.Pos()), "no append found")
	case len(problems) > 0:
		c.add("shape", rule, construct, Violated, c.P.Pos(fn.Pos()), strings.Join(problems, "; "))
	default:
		c.add("shape", rule, construct, Held, c.P.Pos(fn.Pos()), "the only appended value is the index i, behind t.assignment[i] == slotID")
	}
}

// ---------------------------------------------------------------------------
// R3-wire / R4-decodesafe

type c20Item struct {
	width int64
	tag   string
	block *ssa.BasicBlock
	in    ssa.Instruction
}

type c20Read struct {
	base   ssa.Value
	off    int64
	width  int64
	tag    string
	checks []int64
	block  *ssa.BasicBlock
	in     ssa.Instruction
	val    ssa.Value
}

func c20ConstInt(v ssa.Value) (int64, bool) {
	k, ok := c20Strip(v).(*ssa.Const)
	if !ok || k.Value == nil || k.Value.Kind() != constant.Int {
		return 0, false
	}
	n, exact := constant.Int64Val(k.Value)
	return n, exact
}

// c20Decomp splits an offset expression into (symbolic base, constant addend).
func c20Decomp(v ssa.Value) (ssa.Value, int64) {
	if v == nil {
		return nil, 0
	}
	v = c20Strip(v)
	if k, ok := c20ConstInt(v); ok {
		return nil, k
	}
	if b, ok := v.(*ssa.BinOp); ok && b.Op == token.ADD {
		if k, ok := c20ConstInt(b.Y); ok {
			base, n := c20Decomp(b.X)
			return base, n + k
		}
		if k, ok := c20ConstInt(b.X); ok {
			base, n := c20Decomp(b.Y)
			return base, n + k
		}
	}
	return v, 0
}

func c20UintWidth(name, prefix string) (int64, bool) {
	if !strings.HasPrefix(name, prefix) {
		return 0, false
	}
	bits, err := strconv.Atoi(strings.TrimPrefix(name, prefix))
	if err != nil || bits%8 != 0 {
		return 0, false
	}
	return int64(bits / 8), true
}

func c20IsByteSlice(t types.Type) bool {
	s, ok := t.Underlying().(*types.Slice)
	if !ok {
		return false
	}
	b, ok := s.Elem().Underlying().(*types.Basic)
	return ok && b.Kind() == types.Uint8
}

// c20ValTag names what an encoded value is: a struct field (with [] when an element of it), a constant, or a length.
func c20ValTag(v ssa.Value) string {
	v = c20Strip(v)
	switch x := v.(type) {
	case *ssa.Const:
		if k, ok := c20ConstInt(x); ok {
			return fmt.Sprintf("const:%d", k)
		}
	case *ssa.Call:
		if calleeName(&x.Call) == "len" {
			return "len()"
		}
	case *ssa.UnOp:
		if x.Op == token.MUL {
			return c20AddrTag(x.X)
		}
	case *ssa.Field:
		return fieldName(x.X.Type(), x.Field)
	}
	return "?" + Path(v)
}

func c20AddrTag(a ssa.Value) string {
	switch x := a.(type) {
	case *ssa.FieldAddr:
		return fieldName(x.X.Type(), x.Field)
	case *ssa.IndexAddr:
		if ld, ok := x.X.(*ssa.UnOp); ok && ld.Op == token.MUL {
			if fa, ok := ld.X.(*ssa.FieldAddr); ok {
				return fieldName(fa.X.Type(), fa.Field) + "[]"
			}
		}
		if fa, ok := x.X.(*ssa.FieldAddr); ok {
			return fieldName(fa.X.Type(), fa.Field) + "[]"
		}
	}
	return ""
}

// c20LoopIDs: -1 for blocks outside any cycle, otherwise the smallest block index of the cycle.
func c20LoopIDs(fn *ssa.Function) map[*ssa.BasicBlock]int {
	reach := map[*ssa.BasicBlock]map[*ssa.BasicBlock]bool{}
	for _, b := range fn.Blocks {
		seen := map[*ssa.BasicBlock]bool{}
		work := append([]*ssa.BasicBlock(nil), b.Succs...)
		for len(work) > 0 {
			x := work[len(work)-1]
			work = work[:len(work)-1]
			if seen[x] {
				continue
			}
			seen[x] = true
			work = append(work, x.Succs...)
		}
		reach[b] = seen
	}
	ids := map[*ssa.BasicBlock]int{}
	for _, b := range fn.Blocks {
		ids[b] = -1
		if !reach[b][b] {
			continue
		}
		id := b.Index
		for _, o := range fn.Blocks {
			if reach[b][o] && reach[o][b] && o.Index < id {
				id = o.Index
			}
		}
		ids[b] = id
	}
	return ids
}

// c20EncodeItems lists what Encode appends to its output, in block order.
func c20EncodeItems(fn *ssa.Function) (items []c20Item, problems []string) {
	for _, b := range fn.Blocks {
		for _, in := range b.Instrs {
			call, ok := in.(*ssa.Call)
			if !ok {
				continue
			}
			name := calleeName(&call.Call)
			if w, ok := c20UintWidth(name, "encoding/binary.bigEndian.AppendUint"); ok {
				args := call.Call.Args
				items = append(items, c20Item{w, c20ValTag(args[len(args)-1]), b, in})
				continue
			}
			if strings.HasPrefix(name, "encoding/binary.") {
				problems = append(problems, "unsupported encoding primitive "+name)
				continue
			}
			if name != "append" || !c20IsByteSlice(call.Type()) || len(call.Call.Args) != 2 {
				continue
			}
			sl, ok := call.Call.Args[1].(*ssa.Slice)
			var arr *ssa.Alloc
			if ok {
				arr, _ = sl.X.(*ssa.Alloc)
			}
			if arr == nil {
				problems = append(problems, "append of a non-literal byte list: "+Path(call.Call.Args[1]))
				continue
			}
			vals := map[int64]ssa.Value{}
			for _, r := range *arr.Referrers() {
				ia, ok := r.(*ssa.IndexAddr)
				if !ok {
					continue
				}
				idx, ok := c20ConstInt(ia.Index)
				if !ok {
					problems = append(problems, "append list with a computed index")
					continue
				}
				for _, rr := range *ia.Referrers() {
					if st, ok := rr.(*ssa.Store); ok {
						vals[idx] = st.Val
					}
				}
			}
			for i := int64(0); i < int64(len(vals)); i++ {
				v, ok := vals[i]
				if !ok {
					problems = append(problems, "append list has a hole")
					break
				}
				items = append(items, c20Item{1, c20ValTag(v), b, in})
			}
		}
	}
	return
}

// c20DecTag follows a decoded value to where it ends up.
func c20DecTag(v ssa.Value) (string, []int64) {
	field, count, check := "", false, false
	var consts []int64
	seen := map[ssa.Value]bool{}
	var visit func(x ssa.Value)
	visit = func(x ssa.Value) {
		if seen[x] || x.Referrers() == nil {
			return
		}
		seen[x] = true
		for _, r := range *x.Referrers() {
			switch y := r.(type) {
			case *ssa.Convert:
				visit(y)
			case *ssa.ChangeType:
				visit(y)
			case *ssa.Store:
				if y.Val == x {
					if t := c20AddrTag(y.Addr); t != "" && (field == "" || t < field) {
						field = t
					}
				}
			case *ssa.MakeSlice:
				count = true
			case *ssa.BinOp:
				switch y.Op {
				case token.EQL, token.NEQ, token.LSS, token.LEQ, token.GTR, token.GEQ:
					other := y.X
					if other == x {
						other = y.Y
					}
					if k, ok := c20ConstInt(other); ok {
						check = true
						consts = append(consts, k)
					} else {
						count = true
					}
				default:
					count = true
				}
			}
		}
	}
	visit(v)
	switch {
	case field != "":
		return field, nil
	case count:
		return "count", nil
	case check:
		return "check", consts
	}
	return "unused", nil
}

// c20DecodeReads lists every read of the input slice in Decode.
func c20DecodeReads(fn *ssa.Function) (reads []c20Read, data *ssa.Parameter, problems []string) {
	for _, p := range fn.Params {
		if c20IsByteSlice(p.Type()) {
			data = p
			break
		}
	}
	if data == nil {
		return nil, nil, []string{"no []byte parameter"}
	}
	for _, r := range *data.Referrers() {
		switch x := r.(type) {
		case *ssa.DebugRef:
		case *ssa.Call:
			if calleeName(&x.Call) != "len" {
				problems = append(problems, "input passed to "+calleeName(&x.Call))
			}
		case *ssa.Slice:
			lb, lk := c20Decomp(x.Low)
			hb, hk := c20Decomp(x.High)
			if x.High == nil {
				problems = append(problems, "open-ended slice of the input: "+Path(x))
				continue
			}
			for _, rr := range *x.Referrers() {
				call, ok := rr.(*ssa.Call)
				if !ok {
					if _, dbg := rr.(*ssa.DebugRef); !dbg {
						problems = append(problems, "slice of the input escapes: "+Path(x))
					}
					continue
				}
				w, ok := c20UintWidth(calleeName(&call.Call), "encoding/binary.bigEndian.Uint")
				if !ok {
					problems = append(problems, "slice of the input passed to "+calleeName(&call.Call))
					continue
				}
				if hb != lb || hk-lk != w {
					problems = append(problems, fmt.Sprintf("%d-byte read from a slice of different extent: %s", w, Path(x)))
					continue
				}
				tag, checks := c20DecTag(call)
				reads = append(reads, c20Read{lb, lk, w, tag, checks, call.Block(), call, call})
			}
		case *ssa.IndexAddr:
			b, k := c20Decomp(x.Index)
			for _, rr := range *x.Referrers() {
				ld, ok := rr.(*ssa.UnOp)
				if !ok || ld.Op != token.MUL {
					if _, dbg := rr.(*ssa.DebugRef); !dbg {
						problems = append(problems, "element address of the input escapes")
					}
					continue
				}
				tag, checks := c20DecTag(ld)
				reads = append(reads, c20Read{b, k, 1, tag, checks, ld.Block(), ld, ld})
			}
		default:
			problems = append(problems, fmt.Sprintf("input used by %T", r))
		}
	}
	sort.SliceStable(reads, func(i, j int) bool {
		if reads[i].block.Index != reads[j].block.Index {
			return reads[i].block.Index < reads[j].block.Index
		}
		return reads[i].off < reads[j].off
	})
	return
}

type c20Seg struct {
	loop  int
	items []int
}

func c20Segments(n int, blockOf func(i int) *ssa.BasicBlock, loops map[*ssa.BasicBlock]int) []c20Seg {
	var segs []c20Seg
	for i := 0; i < n; i++ {
		l := loops[blockOf(i)]
		if len(segs) == 0 || segs[len(segs)-1].loop != l {
			segs = append(segs, c20Seg{loop: l})
		}
		segs[len(segs)-1].items = append(segs[len(segs)-1].items, i)
	}
	return segs
}

func c20TagsAgree(enc string, rd c20Read) bool {
	if enc == rd.tag {
		return true
	}
	if strings.HasPrefix(enc, "const:") && rd.tag == "check" {
		want, _ := strconv.ParseInt(strings.TrimPrefix(enc, "const:"), 10, 64)
		for _, k := range rd.checks {
			if k == want {
				return true
			}
		}
		return false
	}
	return enc == "len()" && rd.tag == "count"
}

// c20LenFacts returns, per If instruction comparing len(data) with an offset expression, the edge on
// which len(data) >= rhs holds together with the decomposed rhs; eq is set for the == edge.
type c20LenFact struct {
	e    edge
	rhs  ssa.Value
	base ssa.Value
	k    int64
	eq   bool
}

func c20LenFacts(fn *ssa.Function, data *ssa.Parameter) []c20LenFact {
	isLen := func(v ssa.Value) bool {
		call, ok := c20Strip(v).(*ssa.Call)
		return ok && calleeName(&call.Call) == "len" && len(call.Call.Args) == 1 && call.Call.Args[0] == ssa.Value(data)
	}
	var out []c20LenFact
	for _, b := range fn.Blocks {
		if len(b.Instrs) == 0 {
			continue
		}
		iff, ok := b.Instrs[len(b.Instrs)-1].(*ssa.If)
		if !ok {
			continue
		}
		cmp, ok := iff.Cond.(*ssa.BinOp)
		if !ok {
			continue
		}
		op := cmp.Op
		var rhs ssa.Value
		switch {
		case isLen(cmp.X):
			rhs = cmp.Y
		case isLen(cmp.Y):
			rhs = cmp.X
			switch op { // mirror so that len(data) is on the left
			case token.LSS:
				op = token.GTR
			case token.GTR:
				op = token.LSS
			case token.LEQ:
				op = token.GEQ
			case token.GEQ:
				op = token.LEQ
			}
		default:
			continue
		}
		succ, eq := -1, false
		switch op {
		case token.LSS: // len < rhs : false edge gives len >= rhs
			succ = 1
		case token.GEQ, token.GTR:
			succ = 0
		case token.EQL:
			succ, eq = 0, true
		case token.NEQ:
			succ, eq = 1, true
		}
		if succ < 0 {
			continue
		}
		base, k := c20Decomp(rhs)
		out = append(out, c20LenFact{edge{b, succ}, rhs, base, k, eq})
	}
	return out
}

func c20Unreachable(fn *ssa.Function, removed map[edge]bool, in ssa.Instruction) bool {
	if len(removed) == 0 {
		return false
	}
	limit := reachUnguarded(fn, removed, nil)
	lim, reach := limit[in.Block()]
	return !reach || indexIn(in.Block(), in) >= lim
}

// c20LoopPhi: P = phi(init, P + stride) with a constant positive stride.
func c20LoopPhi(v ssa.Value) (init ssa.Value, stride int64, ok bool) {
	p, isPhi := v.(*ssa.Phi)
	if !isPhi || len(p.Edges) != 2 {
		return nil, 0, false
	}
	for i := 0; i < 2; i++ {
		b, k := c20Decomp(p.Edges[i])
		if b == ssa.Value(p) && k > 0 {
			return p.Edges[1-i], k, true
		}
	}
	return nil, 0, false
}

// c20Wire checks that the layout Encode writes is the layout Decode reads, and that each read is in bounds.
func c20Wire(c *Ctx, ruleWire, ruleSafe string, enc, dec *ssa.Function) {
	if enc == nil || dec == nil {
		return
	}
	construct := c.P.Name(enc) + "↔" + c.P.Name(dec) + "#layout"
	items, p1 := c20EncodeItems(enc)
	reads, data, p2 := c20DecodeReads(dec)
	if problems := append(p1, p2...); len(problems) > 0 || len(items) == 0 || len(reads) == 0 {
		c.add("wire", ruleWire, construct, Undecided, c.P.Pos(dec.Pos()), fmt.Sprintf("cannot read the codec structurally any more (%d writes, %d reads): %s", len(items), len(reads), strings.Join(dedup(problems), "; ")))
		return
	}
	eSegs := c20Segments(len(items), func(i int) *ssa.BasicBlock { return items[i].block }, c20LoopIDs(enc))
	dSegs := c20Segments(len(reads), func(i int) *ssa.BasicBlock { return reads[i].block }, c20LoopIDs(dec))
	var problems, descr []string
	segOf := map[int]int{}
	if len(eSegs) != len(dSegs) {
		problems = append(problems, fmt.Sprintf("Encode writes %d straight/loop segments, Decode reads %d", len(eSegs), len(dSegs)))
	}
	var curBase ssa.Value
	var curK int64
	for si := 0; si < len(eSegs) && si < len(dSegs) && len(problems) == 0; si++ {
		es, ds := eSegs[si], dSegs[si]
		if (es.loop >= 0) != (ds.loop >= 0) {
			problems = append(problems, fmt.Sprintf("segment %d is a loop on one side only", si))
			break
		}
		var total int64
		for _, i := range es.items {
			total += items[i].width
		}
		base, k0 := curBase, curK
		if es.loop >= 0 {
			// all reads share one loop cursor that starts at the running offset and advances by the record size
			p := reads[ds.items[0]].base
			init, stride, ok := c20LoopPhi(p)
			if !ok {
				problems = append(problems, fmt.Sprintf("segment %d: reads are not addressed from a loop cursor phi(init, cursor+const): %s", si, Path(p)))
				break
			}
			ib, ik := c20Decomp(init)
			if ib != curBase || ik != curK {
				problems = append(problems, fmt.Sprintf("segment %d: loop cursor starts at %s, the preceding fields end at %s+%d", si, Path(init), Path(curBase), curK))
			}
			if stride != total {
				problems = append(problems, fmt.Sprintf("segment %d: Encode writes %d bytes per record, Decode advances by %d", si, total, stride))
			}
			base, k0 = p, 0
		}
		used := map[int]bool{}
		var off int64
		var seg []string
		for _, i := range es.items {
			it := items[i]
			found := -1
			for _, j := range ds.items {
				r := reads[j]
				if !used[j] && r.base == base && r.off == k0+off {
					found = j
					break
				}
			}
			switch {
			case found < 0 && it.tag == "const:0":
				seg = append(seg, fmt.Sprintf("+%d:%d pad", off, it.width))
			case found < 0:
				problems = append(problems, fmt.Sprintf("segment %d: %d byte(s) of %s written at +%d are never read", si, it.width, it.tag, off))
			default:
				r := reads[found]
				used[found] = true
				segOf[found] = si
				if r.width != it.width || !c20TagsAgree(it.tag, r) {
					problems = append(problems, fmt.Sprintf("segment %d offset +%d: Encode writes %d byte(s) of %s, Decode reads %d byte(s) into %s", si, off, it.width, it.tag, r.width, r.tag))
				}
				seg = append(seg, fmt.Sprintf("+%d:%d %s", off, it.width, it.tag))
			}
			off += it.width
		}
		for _, j := range ds.items {
			if !used[j] {
				r := reads[j]
				problems = append(problems, fmt.Sprintf("segment %d: Decode reads %d byte(s) into %s at %s+%d where Encode writes no field", si, r.width, r.tag, Path(r.base), r.off))
			}
		}
		kind := "fixed"
		if es.loop >= 0 {
			kind = fmt.Sprintf("loop×%d", total)
			curBase, curK = base, 0
		} else {
			curK += total
		}
		descr = append(descr, fmt.Sprintf("[%s %s]", kind, strings.Join(seg, ", ")))
	}
	if len(problems) > 0 {
		c.add("wire", ruleWire, construct, Violated, c.P.Pos(dec.Pos()), strings.Join(problems, "; "))
	} else {
		c.add("wire", ruleWire, construct, Held, c.P.Pos(dec.Pos()), fmt.Sprintf("%d writes / %d reads agree in offset, width and field: %s", len(items), len(reads), strings.Join(descr, " ")))
	}

	// bounds
	facts := c20LenFacts(dec, data)
	for j, r := range reads {
		need := r.off + r.width
		key := fmt.Sprintf("%s#bounds:seg%d+%d:%d→%s", c.P.Name(dec), segOf[j], r.off, r.width, r.tag)
		removed := map[edge]bool{}
		for _, f := range facts {
			if f.base == r.base && f.k >= need {
				removed[f.e] = true
			}
		}
		if c20Unreachable(dec, removed, r.in) {
			c.add("decodesafe", ruleSafe, key, Held, c.P.InstrPos(r.in), fmt.Sprintf("read of [%s+%d, +%d) dominated by len(data) >= %s+%d (%d guard edge(s))", Path(r.base), r.off, need, Path(r.base), need, len(removed)))
			continue
		}
		// counted loop: len(data) == init + N×S, loop runs while i < N, cursor = phi(init, cursor+S), need <= S
		why := c20CountedLoopProof(dec, facts, r)
		if why == "" {
			c.add("decodesafe", ruleSafe, key, Held, c.P.InstrPos(r.in), "read inside the counted record loop: exact length equality init+N×S, loop bound i<N, cursor stride S, access within one record")
			continue
		}
		c.add("decodesafe", ruleSafe, key, Violated, c.P.InstrPos(r.in), fmt.Sprintf("read of input bytes [%s+%d, +%d) is not dominated by a sufficient length test (%s)", Path(r.base), r.off, need, why))
	}
}

// c20CountedLoopProof returns "" when the read is proven in bounds by the counted-loop pattern, else the reason.
func c20CountedLoopProof(fn *ssa.Function, facts []c20LenFact, r c20Read) string {
	init, stride, ok := c20LoopPhi(r.base)
	if !ok {
		return "offset is neither covered by a direct length test nor a loop cursor"
	}
	if r.off < 0 || r.off+r.width > stride {
		return fmt.Sprintf("access [+%d,+%d) exceeds the record size %d", r.off, r.off+r.width, stride)
	}
	ib, ik := c20Decomp(init)
	cursor := r.base.(*ssa.Phi)
	for _, f := range facts {
		if !f.eq {
			continue
		}
		// rhs = x + N×S  (either operand order)
		sum, ok := c20Strip(f.rhs).(*ssa.BinOp)
		if !ok || sum.Op != token.ADD {
			continue
		}
		for _, pair := range [][2]ssa.Value{{sum.X, sum.Y}, {sum.Y, sum.X}} {
			mul, ok := c20Strip(pair[1]).(*ssa.BinOp)
			if !ok || mul.Op != token.MUL {
				continue
			}
			var count ssa.Value
			if k, ok := c20ConstInt(mul.Y); ok && k == stride {
				count = c20Strip(mul.X)
			} else if k, ok := c20ConstInt(mul.X); ok && k == stride {
				count = c20Strip(mul.Y)
			}
			if count == nil {
				continue
			}
			xb, xk := c20Decomp(pair[0])
			if xb != ib || xk != ik {
				continue
			}
			// the read is behind the equality edge
			if !c20Unreachable(fn, map[edge]bool{f.e: true}, r.in) {
				continue
			}
			// and behind i < N with i = phi(0, i+1) living in the cursor's block
			for _, b := range fn.Blocks {
				iff, ok := b.Instrs[len(b.Instrs)-1].(*ssa.If)
				if !ok {
					continue
				}
				cmp, ok := iff.Cond.(*ssa.BinOp)
				if !ok || cmp.Op != token.LSS || c20Strip(cmp.Y) != count {
					continue
				}
				i0, step, ok := c20LoopPhi(c20Strip(cmp.X))
				if !ok || step != 1 {
					continue
				}
				if k, ok := c20ConstInt(i0); !ok || k != 0 {
					continue
				}
				if c20Strip(cmp.X).(*ssa.Phi).Block() != cursor.Block() {
					continue
				}
				if c20Unreachable(fn, map[edge]bool{{b, 0}: true}, r.in) {
					return ""
				}
			}
		}
	}
	return "no exact-length equality init+N×stride with a matching loop bound i<N dominates the loop"
}
