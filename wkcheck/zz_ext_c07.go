package main

import (
	"fmt"
	"go/token"
	"go/types"
	"sort"
	"strings"

	"golang.org/x/tools/go/ssa"
)

// Extension rules for C07 found by seeded change C07-b (byte-bounded prefix trim reports
// "complete" while rows are left behind).
//
// X1-trim-complete decides, in ChannelLog.trimPrefixThroughLimit, the clause
//
//	"the durable physical boundary is moved to the requested bound B (= the upper bound handed to the
//	 bounded read) and More stays false only when NO bound given to that read can have cut it short"
//
// as the conjunction of
//
//	(a) the store `PhysicalRetentionThroughSeq = B` (the "complete" claim) is behind `!result.More`,
//	    the test happens after every `result.More = true`, and More is only ever raised;
//	(b) every other store to PhysicalRetentionThroughSeq is result.DeletedThroughSeq (a row really deleted);
//	(c) for EVERY field set in the ReadOptions handed to readRows there is a cut-short detector, i.e. each
//	    entry→claim path that does not raise More crosses an edge proving the read was not cut by that bound:
//	      Limit    : Limit is N+1 (one look-ahead row) and the path proves  N <= 0  or  len(rows) <= N
//	      MaxBytes : the path proves  M <= 0,  len(deleted) == 0,  or  deleted[len(deleted)-1].MessageSeq >= B
//	                 (positional evidence: the last DELETED row reached the bound; byte arithmetic is not
//	                 evidence, because readRows stops BEFORE the row that would overflow the budget).
//
// Everything is matched on SSA structure (value identity / field names / callee), never on local names.
func init() {
	extend("C07", nil, func(c *Ctx) {
		xc07TrimComplete(c, c.Fn("pkg/db/message.ChannelLog.trimPrefixThroughLimit"))
	},
		Mutant{Name: "x-trim-more-from-byte-budget", File: "pkg/db/message/retention.go",
			Old:    "if opts.MaxBytes > 0 && len(deleteRows) > 0 && deleteRows[len(deleteRows)-1].MessageSeq < throughSeq {",
			New:    "if opts.MaxBytes > 0 && messageRowsBytes(deleteRows) >= opts.MaxBytes {",
			Expect: "C07/X1-trim-complete/*cut-short-by-MaxBytes*"},
		Mutant{Name: "x-trim-no-byte-cut-detector", File: "pkg/db/message/retention.go",
			Old:    "\tif opts.MaxBytes > 0 && len(deleteRows) > 0 && deleteRows[len(deleteRows)-1].MessageSeq < throughSeq {\n\t\tresult.More = true\n\t}\n",
			New:    "",
			Expect: "C07/X1-trim-complete/*cut-short-by-MaxBytes*"},
		Mutant{Name: "x-trim-byte-evidence-first-row", File: "pkg/db/message/retention.go",
			Old:    "deleteRows[len(deleteRows)-1].MessageSeq < throughSeq {",
			New:    "deleteRows[0].MessageSeq < throughSeq {",
			Expect: "C07/X1-trim-complete/*cut-short-by-MaxBytes*"},
		Mutant{Name: "x-trim-byte-evidence-off-by-one", File: "pkg/db/message/retention.go",
			Old:    "deleteRows[len(deleteRows)-1].MessageSeq < throughSeq {",
			New:    "deleteRows[len(deleteRows)-1].MessageSeq+1 < throughSeq {",
			Expect: "C07/X1-trim-complete/*cut-short-by-MaxBytes*"},
		Mutant{Name: "x-trim-limit-without-lookahead", File: "pkg/db/message/retention.go",
			Old:    "readOpts.Limit = opts.MaxMessages + 1",
			New:    "readOpts.Limit = opts.MaxMessages",
			Expect: "C07/X1-trim-complete/*cut-short-by-Limit*"},
		Mutant{Name: "x-trim-claim-ignores-more", File: "pkg/db/message/retention.go",
			Old:    "if !result.More && throughSeq > next.PhysicalRetentionThroughSeq {",
			New:    "if throughSeq > next.PhysicalRetentionThroughSeq && result.Deleted < 2 {",
			Expect: "C07/X1-trim-complete/*claim-behind-not-more*"},
		Mutant{Name: "x-trim-boundary-past-deleted", File: "pkg/db/message/retention.go",
			Old:    "next.PhysicalRetentionThroughSeq = result.DeletedThroughSeq",
			New:    "next.PhysicalRetentionThroughSeq = result.DeletedThroughSeq + 1",
			Expect: "C07/X1-trim-complete/*boundary-values*"},
	)
}

// ---------------------------------------------------------------------------------------------
// small structural helpers

// xc07Load: v is a load (*p); returns p.
func xc07Load(v ssa.Value) (ssa.Value, bool) {
	if u, ok := stripConv(v).(*ssa.UnOp); ok && u.Op == token.MUL {
		return u.X, true
	}
	return nil, false
}

// xc07FieldOf: v is (a load of) field `name` of the struct at/valued base; returns the base.
func xc07FieldOf(v ssa.Value, name string) (ssa.Value, bool) {
	v = stripConv(v)
	if p, ok := xc07Load(v); ok {
		if fa, ok := p.(*ssa.FieldAddr); ok && fieldName(fa.X.Type(), fa.Field) == name {
			return fa.X, true
		}
		return nil, false
	}
	if f, ok := v.(*ssa.Field); ok && fieldName(f.X.Type(), f.Field) == name {
		return f.X, true
	}
	return nil, false
}

func xc07IsConstInt(v ssa.Value, n int64) bool {
	c, ok := stripConv(v).(*ssa.Const)
	if !ok || c.Value == nil {
		return false
	}
	if b, ok := c.Type().Underlying().(*types.Basic); !ok || b.Info()&types.IsInteger == 0 {
		return false
	}
	return c.Int64() == n
}

// xc07LenArg: v is len(s); returns s.
func xc07LenArg(v ssa.Value) (ssa.Value, bool) {
	call, ok := stripConv(v).(*ssa.Call)
	if !ok {
		return nil, false
	}
	if b, ok := call.Call.Value.(*ssa.Builtin); ok && b.Name() == "len" && len(call.Call.Args) == 1 {
		return call.Call.Args[0], true
	}
	return nil, false
}

// xc07Same: the same SSA value, or two pure reads that render identically (two loads of one field).
func xc07Same(a, b ssa.Value) bool {
	a, b = stripConv(a), stripConv(b)
	if a == b {
		return true
	}
	pa, pb := Path(a), Path(b)
	return pa == pb && !strings.Contains(pa, "(") && !strings.Contains(pa, "…")
}

// xc07Rel: the comparison established when cond evaluates to truth.
func xc07Rel(cond ssa.Value, truth bool) (x, y ssa.Value, op string, ok bool) {
	for {
		u, isNot := cond.(*ssa.UnOp)
		if !isNot || u.Op != token.NOT {
			break
		}
		cond, truth = u.X, !truth
	}
	b, isBin := cond.(*ssa.BinOp)
	if !isBin {
		return nil, nil, "", false
	}
	op = b.Op.String()
	if _, cmp := negOp[op]; !cmp {
		return nil, nil, "", false
	}
	if !truth {
		op = negOp[op]
	}
	return b.X, b.Y, op, true
}

// xc07Edges: the CFG edges on which pred(x, y, op) holds for the established comparison, tried in both orientations.
func xc07Edges(fn *ssa.Function, pred func(x, y ssa.Value, op string) bool) map[edge]bool {
	out := map[edge]bool{}
	for _, b := range fn.Blocks {
		if len(b.Instrs) == 0 {
			continue
		}
		iff, ok := b.Instrs[len(b.Instrs)-1].(*ssa.If)
		if !ok {
			continue
		}
		for si, truth := range []bool{true, false} {
			x, y, op, ok := xc07Rel(iff.Cond, truth)
			if !ok {
				continue
			}
			if pred(x, y, op) || pred(y, x, mirrorOp[op]) {
				out[edge{b, si}] = true
			}
		}
	}
	return out
}

// xc07BoolEdges: edges on which the bool value selected by is() is known to be `want`.
func xc07BoolEdges(fn *ssa.Function, is func(v ssa.Value) bool, want bool) map[edge]bool {
	out := map[edge]bool{}
	for _, b := range fn.Blocks {
		if len(b.Instrs) == 0 {
			continue
		}
		iff, ok := b.Instrs[len(b.Instrs)-1].(*ssa.If)
		if !ok {
			continue
		}
		cond, neg := iff.Cond, false
		for {
			u, isNot := cond.(*ssa.UnOp)
			if !isNot || u.Op != token.NOT {
				break
			}
			cond, neg = u.X, !neg
		}
		if !is(cond) {
			continue
		}
		// succ 0 is taken when iff.Cond is true, i.e. when the selected value is !neg
		for si, condTruth := range []bool{true, false} {
			val := condTruth != neg
			if val == want {
				out[edge{b, si}] = true
			}
		}
	}
	return out
}

// xc07Reach: for each block reachable from the given start points without crossing a removed edge or a
// barrier instruction, the number of leading instructions that are reachable. A start is (block, first index).
type xc07Start struct {
	b    *ssa.BasicBlock
	from int
}

func xc07Reach(starts []xc07Start, removed map[edge]bool, barrier map[ssa.Instruction]bool) map[*ssa.BasicBlock][2]int {
	// value: [from, to) instruction index range reachable in that block (from is 0 unless only a start enters it mid-block)
	out := map[*ssa.BasicBlock][2]int{}
	var work []xc07Start
	work = append(work, starts...)
	for len(work) > 0 {
		s := work[len(work)-1]
		work = work[:len(work)-1]
		if cur, ok := out[s.b]; ok && cur[0] <= s.from {
			continue
		}
		to := len(s.b.Instrs)
		stopped := false
		for i := s.from; i < len(s.b.Instrs); i++ {
			if barrier[s.b.Instrs[i]] {
				to, stopped = i, true
				break
			}
		}
		if cur, ok := out[s.b]; ok && cur[1] > to {
			to = cur[1]
		}
		out[s.b] = [2]int{s.from, to}
		if stopped {
			continue
		}
		for si, succ := range s.b.Succs {
			if !removed[edge{s.b, si}] {
				work = append(work, xc07Start{succ, 0})
			}
		}
	}
	return out
}

func xc07Reached(r map[*ssa.BasicBlock][2]int, in ssa.Instruction) bool {
	rng, ok := r[in.Block()]
	if !ok {
		return false
	}
	i := indexIn(in.Block(), in)
	return i >= rng[0] && i < rng[1]
}

// xc07DerivedFrom: v is root itself, a re-slice of it, or a phi of such values.
func xc07DerivedFrom(v, root ssa.Value, seen map[ssa.Value]bool) bool {
	v = stripConv(v)
	if v == root {
		return true
	}
	if seen[v] {
		return true // a cycle adds nothing new
	}
	seen[v] = true
	switch x := v.(type) {
	case *ssa.Slice:
		return xc07DerivedFrom(x.X, root, seen)
	case *ssa.Phi:
		for _, e := range x.Edges {
			if !xc07DerivedFrom(e, root, seen) {
				return false
			}
		}
		return len(x.Edges) > 0
	}
	return false
}

// xc07LastIndex: idx is len(s) - 1 for the very slice value s.
func xc07LastIndex(idx, s ssa.Value) bool {
	b, ok := stripConv(idx).(*ssa.BinOp)
	if !ok || b.Op != token.SUB || !xc07IsConstInt(b.Y, 1) {
		return false
	}
	arg, ok := xc07LenArg(b.X)
	return ok && stripConv(arg) == stripConv(s)
}

// xc07StructFieldStores: the values stored into each field of the struct held by alloc a, either directly
// (a.F = v) or through a composite literal copied into it (tmp.F = v; *a = *tmp). whole reports a whole-value
// store that is not such a literal copy.
func xc07StructFieldStores(a *ssa.Alloc) (fields map[string][]ssa.Value, opaque bool) {
	fields = map[string][]ssa.Value{}
	var visit func(a *ssa.Alloc, d int)
	visit = func(a *ssa.Alloc, d int) {
		if a.Referrers() == nil || d > 3 {
			return
		}
		for _, r := range *a.Referrers() {
			switch x := r.(type) {
			case *ssa.FieldAddr:
				if x.Referrers() == nil {
					continue
				}
				for _, rr := range *x.Referrers() {
					if st, ok := rr.(*ssa.Store); ok && st.Addr == ssa.Value(x) {
						fields[fieldName(x.X.Type(), x.Field)] = append(fields[fieldName(x.X.Type(), x.Field)], st.Val)
					}
				}
			case *ssa.Store:
				if x.Addr != ssa.Value(a) {
					continue
				}
				if c, ok := x.Val.(*ssa.Const); ok && c.Value == nil {
					continue // zero value
				}
				if p, ok := xc07Load(x.Val); ok {
					if src, ok := p.(*ssa.Alloc); ok && src != a {
						visit(src, d+1)
						continue
					}
				}
				opaque = true
			}
		}
	}
	visit(a, 0)
	return
}

// ---------------------------------------------------------------------------------------------

func xc07TrimComplete(c *Ctx, fn *ssa.Function) {
	const rule = "X1-trim-complete"
	if fn == nil {
		return
	}
	fname := c.P.Name(fn)
	c.FuncsAnalysed[fname] = true
	undecided := func(what, why string) {
		c.add("guard", rule, fname+"#"+what, Undecided, c.P.Pos(fn.Pos()), why)
	}

	// ---- the bounded read: exactly one readRows call; its ReadOptions argument and the bound just before it
	var rd *ssa.Call
	nrd := 0
	for _, b := range fn.Blocks {
		for _, in := range b.Instrs {
			if call, ok := in.(*ssa.Call); ok && strings.HasSuffix(calleeName(&call.Call), ".ChannelLog.readRows") {
				rd = call
				nrd++
			}
		}
	}
	if nrd != 1 {
		undecided("bounded-read", fmt.Sprintf("%d readRows calls, expected exactly one bounded read of the trimmed range", nrd))
		return
	}
	args := callArgs(&rd.Call)
	optIdx := -1
	for i, a := range args {
		if typeBaseName(a.Type()) == "ReadOptions" {
			optIdx = i
		}
	}
	if optIdx < 1 {
		undecided("bounded-read", "readRows is not called with (…, upper bound, ReadOptions)")
		return
	}
	bound := args[optIdx-1]
	var rows0 ssa.Value
	if rd.Referrers() != nil {
		for _, r := range *rd.Referrers() {
			if ex, ok := r.(*ssa.Extract); ok && ex.Index == 0 {
				rows0 = ex
			}
		}
	}
	if rows0 == nil {
		undecided("bounded-read", "the rows result of readRows is not used")
		return
	}

	// ---- the result record R returned on success, its More field
	var R *ssa.Alloc
	for _, in := range instrsMatching(fn, RetNil{}) {
		ret := in.(*ssa.Return)
		if len(ret.Results) < 2 {
			continue
		}
		v := retOperand(ret, 0)
		if k, ok := v.(*ssa.Const); ok && k.Value == nil {
			continue
		}
		p, ok := xc07Load(v)
		a, isAlloc := p.(*ssa.Alloc)
		if !ok || !isAlloc || (R != nil && R != a) {
			undecided("result-record", "a success return does not return the single local RetentionTrimResult")
			return
		}
		R = a
	}
	if R == nil {
		undecided("result-record", "no success return of a local RetentionTrimResult")
		return
	}
	isMore := func(v ssa.Value) bool {
		base, ok := xc07FieldOf(v, "More")
		return ok && base == ssa.Value(R)
	}
	var raises []ssa.Instruction // R.More = true
	var moreBad []string
	for _, r := range *R.Referrers() {
		switch x := r.(type) {
		case *ssa.FieldAddr:
			if fieldName(x.X.Type(), x.Field) != "More" || x.Referrers() == nil {
				continue
			}
			for _, rr := range *x.Referrers() {
				st, ok := rr.(*ssa.Store)
				if !ok || st.Addr != ssa.Value(x) {
					continue
				}
				if k, ok := st.Val.(*ssa.Const); ok && constString(k) == "true" {
					raises = append(raises, st)
				} else {
					moreBad = append(moreBad, Path(st.Val)+" at "+c.P.InstrPos(st))
				}
			}
		}
	}

	// ---- the claim: PhysicalRetentionThroughSeq = bound; other boundary stores
	var claims, others []*ssa.Store
	for _, b := range fn.Blocks {
		for _, in := range b.Instrs {
			st, ok := in.(*ssa.Store)
			if !ok {
				continue
			}
			fa, ok := st.Addr.(*ssa.FieldAddr)
			if !ok || fieldName(fa.X.Type(), fa.Field) != "PhysicalRetentionThroughSeq" {
				continue
			}
			if xc07Same(st.Val, bound) {
				claims = append(claims, st)
			} else {
				others = append(others, st)
			}
		}
	}
	if len(claims) == 0 {
		undecided("complete-claim", "no store PhysicalRetentionThroughSeq = <upper bound of the read>: the completeness mechanism moved, update the rule")
		return
	}

	// (a) claim behind !R.More, tested after every raise; More only raised; R not reset after a raise
	notMore := xc07BoolEdges(fn, isMore, false)
	entry := []xc07Start{{fn.Blocks[0], 0}}
	var bad []string
	r0 := xc07Reach(entry, notMore, nil)
	for _, cl := range claims {
		if xc07Reached(r0, cl) {
			bad = append(bad, "claim at "+c.P.InstrPos(cl)+" reachable without a `More == false` test")
		}
	}
	var afterRaise []xc07Start
	for _, rs := range raises {
		afterRaise = append(afterRaise, xc07Start{rs.Block(), indexIn(rs.Block(), rs) + 1})
	}
	r1 := xc07Reach(afterRaise, notMore, nil)
	for _, cl := range claims {
		if xc07Reached(r1, cl) {
			bad = append(bad, "claim at "+c.P.InstrPos(cl)+" reachable after `More = true` without re-testing More")
		}
	}
	rAll := xc07Reach(afterRaise, nil, nil)
	for _, r := range *R.Referrers() {
		if st, ok := r.(*ssa.Store); ok && st.Addr == ssa.Value(R) && xc07Reached(rAll, st) {
			bad = append(bad, "the result record is overwritten at "+c.P.InstrPos(st)+" after More was raised")
		}
	}
	bad = append(bad, xc07PrefixAll("More is stored a value other than true: ", moreBad)...)
	if len(bad) == 0 {
		c.add("guard", rule, fname+"#claim-behind-not-more", Held, c.P.InstrPos(claims[0]),
			fmt.Sprintf("%d claim site(s) `PhysicalRetentionThroughSeq = <read bound>` only behind More == false (%d edges), tested after each of the %d raise(s); More is only ever set to true", len(claims), len(notMore), len(raises)))
	} else {
		c.add("guard", rule, fname+"#claim-behind-not-more", Violated, c.P.InstrPos(claims[0]), strings.Join(bad, "; "))
	}

	// (b) the other boundary stores are R.DeletedThroughSeq
	bad = nil
	for _, st := range others {
		base, ok := xc07FieldOf(st.Val, "DeletedThroughSeq")
		if !ok || base != ssa.Value(R) {
			bad = append(bad, Path(st.Val)+" at "+c.P.InstrPos(st))
		}
	}
	if len(bad) == 0 {
		c.add("shape", rule, fname+"#boundary-values", Held, c.P.Pos(fn.Pos()),
			fmt.Sprintf("PhysicalRetentionThroughSeq is stored only the read bound (%d) or the result's DeletedThroughSeq (%d)", len(claims), len(others)))
	} else {
		c.add("shape", rule, fname+"#boundary-values", Violated, c.P.Pos(fn.Pos()),
			"PhysicalRetentionThroughSeq is stored a value that is neither the read bound nor the last deleted sequence: "+strings.Join(bad, "; "))
	}

	// (c) one cut-short detector per bound set in the ReadOptions
	optAlloc, _ := func() (*ssa.Alloc, bool) {
		p, ok := xc07Load(args[optIdx])
		if !ok {
			return nil, false
		}
		a, ok := p.(*ssa.Alloc)
		return a, ok
	}()
	if optAlloc == nil {
		undecided("read-bounds", "the ReadOptions argument is not a local record: cannot enumerate the bounds given to the read")
		return
	}
	fields, opaque := xc07StructFieldStores(optAlloc)
	if opaque {
		undecided("read-bounds", "the ReadOptions local is assigned from an opaque value: cannot enumerate the bounds given to the read")
		return
	}
	// the slices whose elements are consumed one by one (the deleted rows)
	deleted := map[ssa.Value]bool{}
	for _, b := range fn.Blocks {
		for _, in := range b.Instrs {
			ia, ok := in.(*ssa.IndexAddr)
			if !ok || !xc07DerivedFrom(ia.X, rows0, map[ssa.Value]bool{}) || xc07LastIndex(ia.Index, ia.X) {
				continue
			}
			deleted[stripConv(ia.X)] = true
		}
	}
	raiseSet := map[ssa.Instruction]bool{}
	for _, rs := range raises {
		raiseSet[rs] = true
	}
	var names []string
	for f := range fields {
		names = append(names, f)
	}
	sort.Strings(names)
	for _, f := range names {
		construct := fname + "#cut-short-by-" + f + "-blocks-complete"
		var ev map[edge]bool
		var how string
		switch f {
		case "Limit":
			// Limit = N + 1 ; evidence N <= 0 or len(rows0) <= N
			var N ssa.Value
			okShape := true
			for _, v := range fields[f] {
				b, ok := stripConv(v).(*ssa.BinOp)
				if !ok || b.Op != token.ADD || !xc07IsConstInt(b.Y, 1) || (N != nil && !xc07Same(N, b.X)) {
					okShape = false
					break
				}
				N = b.X
			}
			if !okShape || N == nil {
				c.add("guard", rule, construct, Violated, c.P.InstrPos(rd),
					"the read Limit is not <message cap> + 1: without the look-ahead row a full page is indistinguishable from an exhausted range, so `len(rows) > cap` can never raise More")
				continue
			}
			ev = xc07Edges(fn, func(x, y ssa.Value, op string) bool {
				if xc07Same(x, N) && xc07IsConstInt(y, 0) && opSatisfies("<=", op) {
					return true
				}
				if s, ok := xc07LenArg(x); ok && stripConv(s) == rows0 && xc07Same(y, N) && opSatisfies("<=", op) {
					return true
				}
				return false
			})
			how = "cap <= 0 or len(rows read) <= cap, with Limit = cap+1"
		case "MaxBytes":
			if len(deleted) == 0 {
				c.add("guard", rule, construct, Undecided, c.P.InstrPos(rd), "cannot identify the slice of rows that is deleted element by element")
				continue
			}
			var M ssa.Value
			same := true
			for _, v := range fields[f] {
				if M != nil && !xc07Same(M, v) {
					same = false
				}
				M = v
			}
			if !same {
				c.add("guard", rule, construct, Undecided, c.P.InstrPos(rd), "the read byte budget is assigned from several different values")
				continue
			}
			ev = xc07Edges(fn, func(x, y ssa.Value, op string) bool {
				// budget disabled
				if xc07Same(x, M) && xc07IsConstInt(y, 0) && opSatisfies("<=", op) {
					return true
				}
				// nothing deleted
				if s, ok := xc07LenArg(x); ok && deleted[stripConv(s)] && xc07IsConstInt(y, 0) && opSatisfies("<=", op) {
					return true
				}
				// last deleted row reached the bound
				if base, ok := xc07FieldOf(x, "MessageSeq"); ok && xc07Same(y, bound) && opSatisfies(">=", op) {
					var s, idx ssa.Value
					switch e := base.(type) {
					case *ssa.IndexAddr:
						s, idx = e.X, e.Index
					case *ssa.Alloc:
						// `last := rows[len(rows)-1]`: a local holding exactly one copy of the element
						var src ssa.Value
						n := 0
						for _, r := range *e.Referrers() {
							if st, ok := r.(*ssa.Store); ok && st.Addr == ssa.Value(e) {
								n++
								src = st.Val
							}
						}
						if n == 1 {
							if p, ok := xc07Load(src); ok {
								if ia, ok := p.(*ssa.IndexAddr); ok {
									s, idx = ia.X, ia.Index
								}
							}
						}
					default:
						if p, ok := xc07Load(base); ok {
							if ia, ok := p.(*ssa.IndexAddr); ok {
								s, idx = ia.X, ia.Index
							}
						}
					}
					if s != nil && deleted[stripConv(s)] && xc07LastIndex(idx, s) {
						return true
					}
				}
				return false
			})
			how = "budget <= 0, no deleted row, or last deleted row's MessageSeq >= read bound"
		default:
			c.add("guard", rule, construct, Undecided, c.P.InstrPos(rd),
				"the read is given a bound ("+f+") for which no cut-short detector is known to this rule; extend the rule together with the code")
			continue
		}
		reach := xc07Reach(entry, ev, raiseSet)
		var open []string
		for _, cl := range claims {
			if xc07Reached(reach, cl) {
				open = append(open, c.P.InstrPos(cl))
			}
		}
		if len(open) == 0 {
			c.add("guard", rule, construct, Held, c.P.InstrPos(rd),
				fmt.Sprintf("every path to the claim either raises More or proves the read was not cut by %s (%d evidence edge(s): %s)", f, len(ev), how))
		} else {
			c.add("guard", rule, construct, Violated, open[0],
				fmt.Sprintf("the trim can move PhysicalRetentionThroughSeq to the requested bound (and report More=false) on a path that neither raises More nor proves the read was not cut short by ReadOptions.%s (accepted evidence: %s): rows left behind by the cut are never trimmed again and stay readable", f, how))
		}
	}
	if len(names) == 0 {
		c.add("guard", rule, fname+"#cut-short-unbounded-read", Held, c.P.InstrPos(rd), "the read is given no bound")
	}
}

func xc07PrefixAll(p string, in []string) []string {
	var out []string
	for _, s := range in {
		out = append(out, p+s)
	}
	return out
}
