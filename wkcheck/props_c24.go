package main

import (
	"fmt"
	"go/constant"
	"go/token"
	"go/types"
	"sort"
	"strings"

	"golang.org/x/tools/go/ssa"
)

func init() {
	const codec = "pkg/protocol/jsonrpc/codec.go"
	const typesGo = "pkg/protocol/jsonrpc/types.go"
	const gw = "pkg/gateway/protocol/jsonrpc/adapter.go"
	register(&PropSpec{
		ID: "C24",
		Pkgs: []string{
			"./pkg/protocol/jsonrpc", "./pkg/protocol/frame", "./pkg/gateway/protocol/jsonrpc", "./pkg/gateway/protocol/wsmux",
		},
		Technique: "static analysis: per-arm edge-dominance on the Decode/ToFrame/FromFrame dispatch switches + sibling case-set agreement + frozen field-pair tables on the converters' composite literals + panic-site scan of the inbound path",
		Explain:   "Decides the structural clauses of the bridge: (R1) Decode returns a message of type T only on the arm of its message kind and method name, behind a successful json decode of the probe, of the id and of the params (ping: params optional); every type ToFrame converts is one Decode can return (same value-ness), every type Decode returns is converted or explicitly listed as not bridged, each ToFrame arm returns the frame built from that arm's own packet together with that packet's request id (empty only for the id-less recvack notification); FromFrame has an arm for every server-to-client frame type, each arm asserts the packet type whose GetFrameType is that constant, and every BaseResponse it builds carries reqId; (R2) each converter's composite literal sets every field of the target struct (a new field is reported) from the frozen source field, and reads every field of the source struct, modulo a reasoned exemption table; Setting bits map flag-for-flag in both directions; (R3) the inbound path (Decode, determineMessageType, ToFrame and the converters it calls, the gateway adapter) contains no panic, single-value type assertion, slice/string index, integer division or dereference of an optional pointer field, and no json error is dropped; (R4) the gateway adapter feeds Decode's message to ToFrame only on success, queues exactly ToFrame's reply token, encodes through FromFrame(meta.ReplyToken, f), the reply-token queue is FIFO and mutex-guarded, and wsmux routes to the JSON-RPC adapter only for '{'/'[' input or the stored protocol name. NOT decided: round-trip equality of values (numeric narrowing int→uint8, ParseInt of messageId whose error is dropped, base64 of payload), that every outbound Frame whose GetFrameType is K has the pointer packet type asserted in FromFrame (frame.Framer and value-typed packets also implement Frame), encoding/json's own behaviour on hostile input, the classification logic inside determineMessageType, and how the gateway core pairs queued reply tokens with responses.",
		Run:       c24,
		Mutants: []Mutant{
			{Name: "toframe-drops-ping-arm", File: codec,
				Old: "\tcase PingRequest:\n\t\treturn &frame.PingPacket{}, p.ID, nil\n", New: "",
				Expect: "C24/R1-siblings/*"},
			{Name: "toframe-pointer-case", File: codec,
				Old: "\tcase DisconnectRequest:\n\t\treturn p.Params.ToProto(), p.ID, nil", New: "\tcase *DisconnectRequest:\n\t\treturn p.Params.ToProto(), p.ID, nil",
				Expect: "C24/R1-*"},
			{Name: "toframe-loses-request-id", File: codec,
				Old: "\t\treturn frame, p.ID, nil", New: "\t\treturn frame, \"\", nil",
				Expect: "C24/R1-toframe/*"},
			{Name: "fromframe-sendack-without-id", File: codec,
				Old:    "\t\treturn SendResponse{\n\t\t\tBaseResponse: BaseResponse{\n\t\t\t\tJsonrpc: jsonRPCVersion,\n\t\t\t\tID:      reqId,\n\t\t\t},",
				New:    "\t\treturn SendResponse{\n\t\t\tBaseResponse: BaseResponse{\n\t\t\t\tJsonrpc: jsonRPCVersion,\n\t\t\t},",
				Expect: "C24/R1-fromframe/*"},
			{Name: "fromframe-drops-event-arm", File: codec,
				Old: "\tcase frame.EVENT:\n\t\tevent := f.(*frame.EventPacket)\n\t\tresult := FromProtoEventNotification(event)\n\t\treturn result, nil\n", New: "",
				Expect: "C24/R1-fromframe/*"},
			{Name: "fromframe-assertion-under-second-type", File: codec,
				Old: "\tcase frame.DISCONNECT:\n", New: "\tcase frame.DISCONNECT, frame.SUBACK:\n",
				Expect: "C24/R1-fromframe/*DisconnectPacket*"},
			{Name: "decode-ignores-send-params-error", File: codec,
				Old:    "\t\t\tif err := json.Unmarshal(probe.Params, &req.Params); err != nil {\n\t\t\t\treturn nil, probe, fmt.Errorf(\"%w: %s params: %w\", ErrUnmarshalFieldFailed, MethodSend, err)\n\t\t\t}",
				New:    "\t\t\t_ = json.Unmarshal(probe.Params, &req.Params)",
				Expect: "C24/R*"},
			{Name: "decode-accepts-null-request-id", File: codec,
				Old: "\t\tif probe.ID == nil || string(probe.ID) == \"null\" { // ID is mandatory and non-null for requests", New: "\t\tif probe.ID == nil {",
				Expect: "C24/R1-decode/*"},
			{Name: "decode-send-under-wrong-method", File: codec,
				Old: "\t\tcase MethodSend:\n\t\t\tvar req SendRequest", New: "\t\tcase MethodSend, MethodPong:\n\t\t\tvar req SendRequest",
				Expect: "C24/R1-decode/*"},
			{Name: "send-converter-forgets-topic", File: typesGo,
				Old: "\t\tStreamNo:    r.Params.StreamNo,\n\t\tTopic:       r.Params.Topic,\n\t}\n\treturn pkt, nil", New: "\t\tStreamNo:    r.Params.StreamNo,\n\t}\n\treturn pkt, nil",
				Expect: "C24/R2-fields/*SendRequest.ToProto*"},
			{Name: "recv-converter-swaps-fields", File: typesGo,
				Old:    "\t\tChannelID:   pkt.ChannelID,\n\t\tChannelType: int(pkt.ChannelType),\n\t\tTopic:       pkt.Topic,\n\t\tFromUID:     pkt.FromUID,",
				New:    "\t\tChannelID:   pkt.FromUID,\n\t\tChannelType: int(pkt.ChannelType),\n\t\tTopic:       pkt.Topic,\n\t\tFromUID:     pkt.ChannelID,",
				Expect: "C24/R2-fields/*FromProtoRecvPacket*"},
			{Name: "header-dup-mapped-from-end", File: typesGo,
				Old: "\t\tDUP:       header.Dup,", New: "\t\tDUP:       header.End,",
				Expect: "C24/R2-fields/*headerToFramer*"},
			{Name: "setting-stream-bit-wrong", File: typesGo,
				Old: "\tflags.Stream = (setting & frame.SettingStream) != 0", New: "\tflags.Stream = (setting & frame.SettingSignal) != 0",
				Expect: "C24/R2-fields/*fromProtoSetting*"},
			{Name: "setting-toproto-bit-wrong", File: typesGo,
				Old: "\tif sf.Topic {\n\t\tsetting |= frame.SettingTopic", New: "\tif sf.Topic {\n\t\tsetting |= frame.SettingStream",
				Expect: "C24/R2-fields/*SettingFlags.ToProto*"},
			{Name: "toframe-derefs-optional-ping-params", File: codec,
				Old: "\t\treturn &frame.PingPacket{}, p.ID, nil", New: "\t\treturn (*p.Params).ToProto(), p.ID, nil",
				Expect: "C24/R3-nopanic/pkg/protocol/jsonrpc.ToFrame#no-panic-sites"},
			{Name: "toframe-single-value-assert", File: codec,
				Old: "\treturn nil, \"\", fmt.Errorf(\"unknown packet type: %T\", packet)", New: "\treturn packet.(SubscribeRequest).Params.ToProto(), \"\", nil",
				Expect: "C24/R3-nopanic/pkg/protocol/jsonrpc.ToFrame#no-panic-sites"},
			{Name: "adapter-pushes-wrong-token", File: gw,
				Old: "\t\ta.pushReplyToken(sess, replyToken)", New: "\t\ta.pushReplyToken(sess, Name)",
				Expect: "C24/R4-adapter/*"},
			{Name: "adapter-encode-ignores-reply-token", File: gw,
				Old: "pkgjsonrpc.FromFrame(meta.ReplyToken, f)", New: "pkgjsonrpc.FromFrame(\"\", f)",
				Expect: "C24/R4-adapter/*"},
			{Name: "queue-push-front", File: gw,
				Old: "\tq.tokens = append(q.tokens, token)", New: "\tq.tokens = append([]string{token}, q.tokens...)",
				Expect: "C24/R4-adapter/*"},
			{Name: "queue-unlocked-clear", File: gw,
				Old: "\tq.mu.Lock()\n\tq.tokens = nil\n\tq.mu.Unlock()", New: "\tq.tokens = nil",
				Expect: "C24/R4-adapter/*"},
		},
	})
}

// c24Arm is one row of the Decode table: the message type, its kind constant, method constant,
// and what must have been decoded successfully before it may be returned.
type c24Arm struct {
	typ      string // jsonrpc type name (value type)
	kind     string // msgType* constant name
	method   string // Method* constant name ("" = not dispatched on the method)
	params   string // "required" | "optional" | ""
	hasID    bool
	toFrame  string // glob of the frame result of ToFrame's arm; "" = not bridged (reason must be given)
	notFrame string // reason it is not bridged
}

var c24Arms = []c24Arm{
	{typ: "ConnectRequest", kind: "msgTypeRequest", method: "MethodConnect", params: "required", hasID: true, toFrame: "pkg/protocol/jsonrpc.ConnectParams.ToProto(*.Params)"},
	{typ: "SendRequest", kind: "msgTypeRequest", method: "MethodSend", params: "required", hasID: true, toFrame: "pkg/protocol/jsonrpc.SendRequest.ToProto(*)#0"},
	{typ: "PingRequest", kind: "msgTypeRequest", method: "MethodPing", params: "optional", hasID: true, toFrame: "alloc:PingPacket"},
	{typ: "DisconnectRequest", kind: "msgTypeRequest", method: "MethodDisconnect", params: "required", hasID: true, toFrame: "pkg/protocol/jsonrpc.DisconnectParams.ToProto(*.Params)"},
	{typ: "RecvAckNotification", kind: "msgTypeNotification", method: "MethodRecvAck", params: "required", toFrame: "pkg/protocol/jsonrpc.RecvAckParams.ToProto(*.Params)"},
	{typ: "SubscribeRequest", kind: "msgTypeRequest", method: "MethodSubscribe", params: "required", hasID: true, notFrame: "SUB is not served by the gateway; ToFrame answers 'unknown packet type'"},
	{typ: "UnsubscribeRequest", kind: "msgTypeRequest", method: "MethodUnsubscribe", params: "required", hasID: true, notFrame: "SUB is not served by the gateway; ToFrame answers 'unknown packet type'"},
	{typ: "GenericResponse", kind: "msgTypeResponse", hasID: true, notFrame: "client→server responses have no frame"},
	{typ: "RecvNotification", kind: "msgTypeNotification", method: "MethodRecv", params: "required", notFrame: "server→client message (decoded for client-side use)"},
	{typ: "DisconnectNotification", kind: "msgTypeNotification", method: "MethodDisconnect", params: "required", notFrame: "server→client message (decoded for client-side use)"},
	{typ: "EventNotification", kind: "msgTypeNotification", method: "MethodEvent", params: "required", notFrame: "server→client message (decoded for client-side use)"},
}

func c24(c *Ctx) {
	const J = "pkg/protocol/jsonrpc."
	const F = "pkg/protocol/frame."
	const GA = "pkg/gateway/protocol/jsonrpc."

	decode := c.Fn(J + "Decode")
	toFrame := c.Fn(J + "ToFrame")
	fromFrame := c.Fn(J + "FromFrame")

	// ---- R1: Decode arms ----------------------------------------------------------------------
	if decode != nil {
		known := map[string]bool{}
		for _, a := range c24Arms {
			known[a.typ] = true
			eff := c24RetOfType(a.typ)
			guards := []string{
				"encoding/json.Decoder.Decode(decoder, *) == nil",
				J + "determineMessageType(*)#2 == nil",
				J + "determineMessageType(*)#0 == " + c24Const(c, "pkg/protocol/jsonrpc", a.kind),
			}
			if a.method != "" {
				guards = append(guards, "*.Method == "+c24Const(c, "pkg/protocol/jsonrpc", a.method))
			}
			switch a.params {
			case "required":
				guards = append(guards, "encoding/json.Unmarshal(*.Params, *.Params) == nil")
			case "optional":
				guards = append(guards, `encoding/json.Unmarshal(*.Params, *) == nil || *.Params == nil || *.Params == "null" || *.Params == "{}"`)
			}
			if a.hasID {
				guards = append(guards, "encoding/json.Unmarshal(*.ID, *.ID) == nil", "*.ID != nil", `*.ID != "null"`)
			}
			c.Guard("R1-decode", decode, eff, guards...)
		}
		// nothing outside the table is ever returned as a success
		var stray []string
		for _, in := range instrsMatching(decode, RetNil{}) {
			t := c24ResultType(in.(*ssa.Return), 0)
			if !known[t] {
				stray = append(stray, t+" at "+c.P.InstrPos(in))
			}
		}
		if len(stray) > 0 {
			c.add("exhaust", "R1-decode", J+"Decode#result-types", Violated, c.P.Pos(decode.Pos()), "Decode returns message types that are not in the bridge table (add a row and decide whether ToFrame must convert them): "+strings.Join(stray, "; "))
		} else {
			c.add("exhaust", "R1-decode", J+"Decode#result-types", Held, c.P.Pos(decode.Pos()), fmt.Sprintf("every success return yields one of the %d tabled message types", len(known)))
		}
		// every method constant is dispatched by Decode (pong is a response, not a method anyone sends)
		c24StringCases(c, "R1-decode", decode, "*.Method", "pkg/protocol/jsonrpc", "Method", map[string]string{"MethodPong": "pong travels as a response (result of ping), never as a request or notification method"})
		c.Min("R1-decode", 13)
	}

	// ---- R1: ToFrame arms and sibling agreement ---------------------------------------------------
	if toFrame != nil {
		c24ToFrameArms(c, toFrame)
		c.Guard("R1-toframe", toFrame, RetNil{}, "packet.(*)#1 == true")
		c.Guard("R1-toframe", toFrame, c24RetFrameFrom(J+"SendRequest.ToProto"), J+"SendRequest.ToProto(*)#1 == nil")
	}

	// ---- R1: FromFrame -----------------------------------------------------------------------------
	if fromFrame != nil {
		ft := func(name string) string { return c24Const(c, "pkg/protocol/frame", name) }
		type row struct{ konst, ret, assert, conv string }
		rows := []row{
			{"CONNACK", "ConnectResponse", "ConnackPacket", J + "FromProtoConnectAck"},
			{"SENDACK", "SendResponse", "SendackPacket", J + "FromProtoSendAck"},
			{"RECV", "RecvNotification", "RecvPacket", J + "FromProtoRecvNotification"},
			{"EVENT", "EventNotification", "EventPacket", J + "FromProtoEventNotification"},
			{"DISCONNECT", "DisconnectNotification", "DisconnectPacket", J + "FromProtoDisconnectPacket"},
			{"PONG", "PongResponse", "", ""},
		}
		knownRet := map[string]bool{}
		knownAssert := map[string]bool{}
		for _, r := range rows {
			arm := F + "Frame.GetFrameType(f) == " + ft(r.konst)
			knownRet[r.ret] = true
			c.Guard("R1-fromframe", fromFrame, c24RetOfType(r.ret), arm)
			if r.assert != "" {
				knownAssert["*"+r.assert] = true
				c.Guard("R1-fromframe", fromFrame, c24AssertOf("f", "*"+r.assert), arm)
				c.Guard("R1-fromframe", fromFrame, CallTo{r.conv}, arm)
				c.CallShape("R1-fromframe", fromFrame, r.conv, r.conv+"(f.("+r.assert+"))")
				// the packet type asserted on this arm reports exactly this frame type
				if g := c.Fn(F + r.assert + ".GetFrameType"); g != nil {
					c24RetShape(c, "R1-fromframe", g, 0, ft(r.konst))
				}
			}
		}
		var stray []string
		for _, in := range instrsMatching(fromFrame, RetNil{}) {
			if t := c24ResultType(in.(*ssa.Return), 0); !knownRet[t] {
				stray = append(stray, "returns "+t+" at "+c.P.InstrPos(in))
			}
		}
		for _, b := range fromFrame.Blocks {
			for _, in := range b.Instrs {
				if ta, ok := in.(*ssa.TypeAssert); ok && !knownAssert[c24TypeName(ta.AssertedType)] {
					stray = append(stray, "asserts "+c24TypeName(ta.AssertedType)+" at "+c.P.InstrPos(in))
				}
			}
		}
		if len(stray) > 0 {
			c.add("exhaust", "R1-fromframe", J+"FromFrame#arms", Violated, c.P.Pos(fromFrame.Pos()), "FromFrame has arms outside the bridge table: "+strings.Join(stray, "; "))
		} else {
			c.add("exhaust", "R1-fromframe", J+"FromFrame#arms", Held, c.P.Pos(fromFrame.Pos()), "all success returns and type assertions belong to tabled arms")
		}
		c.Exhaustive("R1-fromframe", []*ssa.Function{fromFrame}, "pkg/protocol/frame", "FrameType", "", map[string]string{
			"UNKNOWN": "reserved", "CONNECT": "client→server", "SEND": "client→server", "RECVACK": "client→server", "PING": "client→server",
			"SUB": "not served by the gateway", "SUBACK": "not served by the gateway (no SUB is ever accepted)",
		})
		// responses carry the request id they answer
		c.StoreShape("R1-fromframe", fromFrame, "*BaseResponse.ID", "reqId")
		c.LiteralComplete("R1-fromframe", fromFrame, J+"BaseResponse", []string{"Jsonrpc", "ID"}, nil)
		c.LiteralComplete("R1-fromframe", fromFrame, J+"ConnectResponse", []string{"BaseResponse", "Result"}, nil)
		c.LiteralComplete("R1-fromframe", fromFrame, J+"SendResponse", []string{"BaseResponse", "Result"}, nil)
		c.LiteralComplete("R1-fromframe", fromFrame, J+"PongResponse", []string{"BaseResponse"}, nil)
		c.LiteralComplete("R1-fromframe", fromFrame, J+"DisconnectNotification", []string{"BaseNotification", "Params"}, nil)
		c.StoreShape("R1-fromframe", fromFrame, "*ConnectResponse.Result", J+"FromProtoConnectAck(f.(ConnackPacket))")
		c.StoreShape("R1-fromframe", fromFrame, "*SendResponse.Result", J+"FromProtoSendAck(f.(SendackPacket))")
		c.StoreShape("R1-fromframe", fromFrame, "*DisconnectNotification.Params", J+"FromProtoDisconnectPacket(f.(DisconnectPacket))")
		c.StoreShape("R1-fromframe", fromFrame, "*.Method", c24Const(c, "pkg/protocol/jsonrpc", "MethodDisconnect"))
		c.StoreShape("R1-fromframe", fromFrame, "*.Jsonrpc", c24Const(c, "pkg/protocol/jsonrpc", "jsonRPCVersion"))
	}

	// ---- R2: converters -------------------------------------------------------------------------------
	hdrIn := J + "headerToFramer(%s.Header)"
	c24Fields(c, J+"SendRequest.ToProto", F+"SendPacket", "r.Params", J+"SendParams", map[string]string{
		"Framer": fmt.Sprintf(hdrIn, "r.Params"), "Setting": J + "SettingFlags.ToProto(r.Params.Setting)", "MsgKey": "r.Params.MsgKey", "Expire": "r.Params.Expire",
		"ClientMsgNo": "r.Params.ClientMsgNo", "StreamNo": "r.Params.StreamNo", "ChannelID": "r.Params.ChannelID", "ChannelType": "r.Params.ChannelType",
		"Topic": "r.Params.Topic", "Payload": "r.Params.Payload",
	}, map[string]string{"ClientSeq": "JSON-RPC send has no client sequence; correlation is by request id"}, nil)
	c24Fields(c, J+"SendParams.ToProto", F+"SendPacket", "p", J+"SendParams", map[string]string{
		"Framer": fmt.Sprintf(hdrIn, "p"), "Setting": J + "SettingFlags.ToProto(p.Setting)", "MsgKey": "p.MsgKey", "Expire": "p.Expire",
		"ClientMsgNo": "p.ClientMsgNo", "StreamNo": "p.StreamNo", "ChannelID": "p.ChannelID", "ChannelType": "p.ChannelType",
		"Topic": "p.Topic", "Payload": "p.Payload",
	}, map[string]string{"ClientSeq": "JSON-RPC send has no client sequence; correlation is by request id"}, nil)
	c24Fields(c, J+"ConnectParams.ToProto", F+"ConnectPacket", "p", J+"ConnectParams", map[string]string{
		"Framer": fmt.Sprintf(hdrIn, "p"), "Version": "phi(p.Version|" + c24Const(c, "pkg/protocol/frame", "LatestVersion") + ")", "ClientKey": "p.ClientKey", "DeviceID": "p.DeviceID",
		"DeviceFlag": "p.DeviceFlag", "ClientTimestamp": "p.ClientTimestamp", "UID": "p.UID", "Token": "p.Token",
	}, nil, nil)
	c24Fields(c, J+"RecvAckParams.ToProto", F+"RecvackPacket", "p", J+"RecvAckParams", map[string]string{
		"Framer": fmt.Sprintf(hdrIn, "p"), "MessageID": "strconv.ParseInt(p.MessageID, 10, 64)#0", "MessageSeq": "p.MessageSeq",
	}, nil, nil)
	c24Fields(c, J+"DisconnectParams.ToProto", F+"DisconnectPacket", "p", J+"DisconnectParams", map[string]string{
		"ReasonCode": "p.ReasonCode", "Reason": "p.Reason",
	}, map[string]string{"Framer": "disconnect params carry no header"}, nil)
	c24Fields(c, J+"SubscribeParams.ToProto", F+"SubPacket", "p", J+"SubscribeParams", map[string]string{
		"SubNo": "p.SubNo", "ChannelID": "p.ChannelID", "ChannelType": "p.ChannelType", "Param": "p.Param",
	}, map[string]string{"Framer": "no header in subscribe params", "Setting": "no setting in subscribe params", "Action": "zero = subscribe"}, nil)
	hdrOut := J + "fromProtoHeader(%s.Framer)"
	c24Fields(c, J+"FromProtoConnectAck", J+"ConnectResult", "ack", F+"ConnackPacket", map[string]string{
		"Header": fmt.Sprintf(hdrOut, "ack"), "ServerVersion": "ack.ServerVersion", "ServerKey": "ack.ServerKey", "Salt": "ack.Salt",
		"TimeDiff": "ack.TimeDiff", "ReasonCode": "ack.ReasonCode", "NodeID": "ack.NodeId",
	}, nil, nil)
	c24Fields(c, J+"FromProtoSendAck", J+"SendResult", "ack", F+"SendackPacket", map[string]string{
		"Header": fmt.Sprintf(hdrOut, "ack"), "MessageID": "strconv.FormatInt(ack.MessageID, 10)", "MessageSeq": "ack.MessageSeq", "ReasonCode": "ack.ReasonCode",
	}, nil, map[string]string{"ClientSeq": "JSON-RPC correlates by request id, SendResult has no clientSeq", "ClientMsgNo": "SendResult has no clientMsgNo (only meaningful for the mos protocol)"})
	c24Fields(c, J+"FromProtoRecvPacket", J+"RecvNotificationParams", "pkt", F+"RecvPacket", map[string]string{
		"Header": fmt.Sprintf(hdrOut, "pkt"), "Setting": J + "fromProtoSetting(pkt.Setting)", "MsgKey": "pkt.MsgKey", "Expire": "pkt.Expire",
		"MessageID": "strconv.FormatInt(pkt.MessageID, 10)", "MessageSeq": "pkt.MessageSeq", "ClientMsgNo": "pkt.ClientMsgNo", "StreamNo": "pkt.StreamNo",
		"StreamID": "strconv.FormatUint(pkt.StreamId, 10)", "StreamFlag": "pkt.StreamFlag", "Timestamp": "pkt.Timestamp", "ChannelID": "pkt.ChannelID",
		"ChannelType": "pkt.ChannelType", "Topic": "pkt.Topic", "FromUID": "pkt.FromUID", "Payload": "pkt.Payload",
	}, nil, map[string]string{"ClientSeq": "not part of the wire encoding of RECV either"})
	c24Fields(c, J+"FromProtoEventNotification", J+"EventNotificationParams", "eventPacket", F+"EventPacket", map[string]string{
		"Header": fmt.Sprintf(hdrOut, "eventPacket"), "ID": "eventPacket.Id", "Type": "eventPacket.Type", "Timestamp": "eventPacket.Timestamp", "Data": "eventPacket.Data",
	}, nil, nil)
	c24Fields(c, J+"FromProtoDisconnectPacket", J+"DisconnectNotificationParams", "pkt", F+"DisconnectPacket", map[string]string{
		"ReasonCode": "pkt.ReasonCode", "Reason": "pkt.Reason",
	}, nil, map[string]string{"Framer": "disconnect notification has no header"})
	flagPairs := map[string]string{"NoPersist": "NoPersist", "RedDot": "RedDot", "SyncOnce": "SyncOnce", "DUP": "Dup", "End": "End"}
	toFr, fromFr := map[string]string{}, map[string]string{}
	for fr, js := range flagPairs {
		toFr[fr] = "header." + js
		fromFr[js] = "protoHeader." + fr
	}
	notFlags := map[string]string{"FrameType": "set by the codec", "RemainingLength": "set by the codec", "HasServerVersion": "connack wire detail", "FrameSize": "not encoded"}
	c24Fields(c, J+"headerToFramer", F+"Framer", "header", J+"Header", toFr, notFlags, nil)
	c24Fields(c, J+"Header.toProtoInternal", F+"Framer", "h", J+"Header", map[string]string{
		"NoPersist": "h.NoPersist", "RedDot": "h.RedDot", "SyncOnce": "h.SyncOnce", "DUP": "h.Dup", "End": "h.End"}, notFlags, nil)
	c24Fields(c, J+"fromProtoHeader", J+"Header", "protoHeader", F+"Framer", fromFr, nil, notFlags)
	if fn := c.Fn(J + "fromProtoHeader"); fn != nil {
		// the header is omitted only when every flag is clear
		c.Guard("R2-fields", fn, Ret{0, "nil"}, "!protoHeader.NoPersist", "!protoHeader.RedDot", "!protoHeader.SyncOnce", "!protoHeader.DUP", "!protoHeader.End")
	}
	bits := map[string]string{"Receipt": "SettingReceiptEnabled", "Signal": "SettingSignal", "Stream": "SettingStream", "Topic": "SettingTopic"}
	if fn := c.Fn(J + "fromProtoSetting"); fn != nil {
		want := map[string]string{}
		for f, k := range bits {
			want[f] = "((setting & " + c24Const(c, "pkg/protocol/frame", k) + ") != 0)"
		}
		c24Literal(c, "R2-fields", fn, J+"SettingFlags", want, nil)
		c.Guard("R2-fields", fn, Ret{0, "nil"}, "setting == 0")
	}
	if fn := c.Fn(J + "SettingFlags.ToProto"); fn != nil {
		c24FlagBits(c, "R2-fields", fn, "sf", bits)
		c.Cover("R2-fields", []*ssa.Function{fn}, J+"SettingFlags", nil)
	}
	c.Min("R2-fields", 30)

	// ---- R3: the inbound path cannot panic ---------------------------------------------------------------
	inbound := []string{
		J + "Decode", J + "determineMessageType", J + "DecodeID", J + "ToFrame", J + "decodingError",
		J + "ConnectParams.ToProto", J + "SendRequest.ToProto", J + "DisconnectParams.ToProto", J + "RecvAckParams.ToProto",
		J + "headerToFramer", J + "SettingFlags.ToProto", J + "IsJSONObjectPrefix",
		GA + "Adapter.Decode", GA + "Adapter.pushReplyToken", GA + "replyTokenQueue.push",
	}
	var inboundFns []*ssa.Function
	for _, n := range inbound {
		if fn := c.Fn(n); fn != nil {
			inboundFns = append(inboundFns, fn)
			c24NoPanic(c, "R3-nopanic", fn)
		}
	}
	c24CalleesWithin(c, "R3-nopanic", inboundFns, []string{J + "*", GA + "*"},
		[]string{GA + "replyTokenQueueForSession"}) // session lookup: comma-ok assertions only, scanned below
	if fn := c.Fn(GA + "replyTokenQueueForSession"); fn != nil {
		c24NoPanic(c, "R3-nopanic", fn)
	}
	c.Min("R3-nopanic", 15)
	if decode != nil {
		fns := []*ssa.Function{decode}
		if d := c.Fn(J + "determineMessageType"); d != nil {
			fns = append(fns, d)
		}
		c.ErrUsed("R3-errors", fns, []string{"encoding/json.*"}, nil)
		c.Guard("R3-errors", decode, RetNil{}, "encoding/json.Decoder.Decode(decoder, *) == nil", J+"determineMessageType(*)#2 == nil")
		c.CallShape("R3-errors", decode, "encoding/json.Decoder.Decode", "encoding/json.Decoder.Decode(decoder, *)")
		// an error return never smuggles out a half-built message
		c.Guard("R3-errors", decode, RetNot{0, []string{"nil"}}, "encoding/json.Decoder.Decode(decoder, *) == nil", J+"determineMessageType(*)#2 == nil")
		c24RetPairs(c, "R3-errors", decode)
	}

	// ---- R4: gateway adapter and mux ------------------------------------------------------------------------
	if fn := c.Fn(GA + "Adapter.Decode"); fn != nil {
		dec := J + "Decode(*)"
		c.Guard("R4-adapter", fn, CallTo{J + "ToFrame"}, dec+"#2 == nil")
		c.CallShape("R4-adapter", fn, J+"ToFrame", J+"ToFrame("+J+"Decode(*)#0)")
		c24CallCount(c, "R4-adapter", fn, J+"Decode", 1)
		c24CallCount(c, "R4-adapter", fn, J+"ToFrame", 1)
		withFrames := InstrFn{"return frames, n, nil", func(in ssa.Instruction) bool {
			ret, ok := in.(*ssa.Return)
			return ok && (RetNil{}).Match(in) && Path(retOperand(ret, 0)) != "nil"
		}}
		c.Guard("R4-adapter", fn, withFrames, J+"ToFrame(*)#2 == nil", dec+"#2 == nil",
			J+"ToFrame(*)#1 == \"\" || after: "+GA+"Adapter.pushReplyToken")
		c.CallShape("R4-adapter", fn, GA+"Adapter.pushReplyToken", GA+"Adapter.pushReplyToken(a, sess, "+J+"ToFrame(*)#1)")
		c.StoreShape("R4-adapter", fn, "*[0]", J+"ToFrame(*)#0")
		c.ErrUsed("R4-adapter", []*ssa.Function{fn}, []string{J + "*"}, nil)
	}
	if fn := c.Fn(GA + "Adapter.Encode"); fn != nil {
		c.CallShape("R4-adapter", fn, J+"FromFrame", J+"FromFrame(meta.ReplyToken, f)")
		c.Guard("R4-adapter", fn, CallTo{J + "Encode"}, J+"FromFrame(meta.ReplyToken, f)#1 == nil")
		c.CallShape("R4-adapter", fn, J+"Encode", J+"Encode("+J+"FromFrame(meta.ReplyToken, f)#0)")
		c24RetShape(c, "R4-adapter", fn, 0, "nil", J+"Encode("+J+"FromFrame(meta.ReplyToken, f)#0)#0")
	}
	if fn := c.Fn(GA + "Adapter.pushReplyToken"); fn != nil {
		c.CallShape("R4-adapter", fn, GA+"replyTokenQueue.push", GA+"replyTokenQueue.push("+GA+"replyTokenQueueForSession(sess, true), token)")
	}
	if fn := c.Fn(GA + "Adapter.TakeReplyTokens"); fn != nil {
		c24RetShape(c, "R4-adapter", fn, 0, "nil", GA+"replyTokenQueue.take("+GA+"replyTokenQueueForSession(sess, false), count)")
	}
	if fn := c.Fn(GA + "replyTokenQueue.push"); fn != nil {
		c.StoreShape("R4-adapter", fn, "q.tokens", "append(q.tokens, *)")
		c24AppendsOnly(c, "R4-adapter", fn, "token")
	}
	if fn := c.Fn(GA + "replyTokenQueue.take"); fn != nil {
		c.StoreShape("R4-adapter", fn, "q.tokens", "nil", "q.tokens[phi(count|len(*)):]")
		c24RetShape(c, "R4-adapter", fn, 0, "nil", "q.tokens[:phi(count|len(*))]")
	}
	c.Lockset("R4-adapter", LockSpec{Struct: "pkg/gateway/protocol/jsonrpc.replyTokenQueue", Mutex: "mu", Fields: []string{"tokens"}, ReadsToo: true})
	c.ConfineStores("R4-adapter", GA+"replyTokenQueue.tokens", true, GA+"replyTokenQueue.push", GA+"replyTokenQueue.take", GA+"replyTokenQueue.clear")

	const W = "pkg/gateway/protocol/wsmux."
	jname := c24Const(c, "pkg/gateway/protocol/jsonrpc", "Name")
	if fn := c.Fn(W + "Adapter.adapterForProtocol"); fn != nil {
		c.Guard("R4-mux", fn, Ret{0, "a.jsonrpc"}, "protocolName == "+jname)
	}
	if fn := c.Fn(W + "Adapter.resolveAdapter"); fn != nil {
		c.Guard("R4-mux", fn, Ret{0, "a.jsonrpc"}, "*[0] == 123 || *[0] == 91", "len(*) != 0")
		c24RetPairShape(c, "R4-mux", fn, 0, "a.jsonrpc", 1, jname)
		c.Guard("R4-mux", fn, InstrFn{"index trimmed[0]", func(in ssa.Instruction) bool {
			ia, ok := in.(*ssa.IndexAddr)
			return ok && c24IsSlice(ia.X.Type())
		}}, "len(*) != 0")
	}
	if fn := c.Fn(W + "Adapter.TakeReplyTokens"); fn != nil {
		c.Guard("R4-mux", fn, CallTo{"pkg/gateway/protocol.ReplyTokenTracker.TakeReplyTokens"}, W+"Adapter.resolveAdapter(a, sess, nil)#1 == "+jname)
	}
}

// ---------------------------------------------------------------------------
// helpers private to C24

func c24Const(c *Ctx, pkg, name string) string {
	pk := c.P.Pkgs[pkg]
	if pk != nil {
		if k, ok := pk.Types.Scope().Lookup(name).(*types.Const); ok {
			if k.Val().Kind() == constant.String {
				return fmt.Sprintf("%q", constant.StringVal(k.Val()))
			}
			return k.Val().ExactString()
		}
	}
	c.add("anchor", "anchor", pkg+"."+name, Undecided, "", "anchored constant not found (renamed/moved? update the rule table)")
	return "<missing:" + name + ">"
}

// c24TypeName renders a type as T or *T (package dropped), so value-ness is visible.
func c24TypeName(t types.Type) string {
	if p, ok := t.(*types.Pointer); ok {
		return "*" + c24TypeName(p.Elem())
	}
	if n, ok := t.(*types.Named); ok {
		return n.Obj().Name()
	}
	return t.String()
}

// c24ResultType: dynamic type of the interface-typed result idx of a return ("nil" for the nil constant).
func c24ResultType(ret *ssa.Return, idx int) string {
	if idx >= len(ret.Results) {
		return "?"
	}
	v := retOperand(ret, idx)
	for {
		switch x := v.(type) {
		case *ssa.MakeInterface:
			return c24TypeName(x.X.Type())
		case *ssa.ChangeInterface:
			v = x.X
			continue
		case *ssa.Const:
			if x.Value == nil {
				return "nil"
			}
		}
		return "?" + Path(v)
	}
}

// c24StringCases: every string constant of pkg whose name starts with prefix is compared (==) with an
// operand matching operandGlob somewhere in fn. (Ctx.Exhaustive cannot be used: it keys on the
// constant's type name, which is "untyped string" in go/types but "string" on the SSA operand.)
func c24StringCases(c *Ctx, rule string, fn *ssa.Function, operandGlob, pkg, prefix string, exempt map[string]string) {
	construct := fmt.Sprintf("exhaust:%s.%s*@%s", pkg, prefix, c.P.Name(fn))
	consts := c.constsOfType(pkg, "", prefix)
	if len(consts) == 0 {
		c.add("exhaust", rule, construct, Undecided, "", "no constants resolved (vacuous)")
		return
	}
	seen := map[string]bool{}
	for _, b := range fn.Blocks {
		for _, in := range b.Instrs {
			bo, ok := in.(*ssa.BinOp)
			if !ok || bo.Op != token.EQL {
				continue
			}
			for _, pair := range [][2]ssa.Value{{bo.X, bo.Y}, {bo.Y, bo.X}} {
				k, ok := pair[1].(*ssa.Const)
				if ok && k.Value != nil && k.Value.Kind() == constant.String && glob(operandGlob, Path(pair[0])) {
					seen[constant.StringVal(k.Value)] = true
				}
			}
		}
	}
	var missing []string
	for n, v := range consts {
		if _, ex := exempt[n]; ex || v.Kind() != constant.String {
			continue
		}
		if !seen[constant.StringVal(v)] {
			missing = append(missing, n)
		}
	}
	sort.Strings(missing)
	if len(missing) > 0 {
		c.add("exhaust", rule, construct, Violated, c.P.Pos(fn.Pos()), fmt.Sprintf("constant(s) %v have no case in %s", missing, c.P.Name(fn)))
		return
	}
	c.add("exhaust", rule, construct, Held, c.P.Pos(fn.Pos()), fmt.Sprintf("%d constants, all dispatched (exempt: %d)", len(consts), len(exempt)))
}

// c24RetOfType: a success return whose first result has dynamic type exactly typ.
func c24RetOfType(typ string) Effect {
	return InstrFn{"return " + typ + "{…}, …, nil", func(in ssa.Instruction) bool {
		ret, ok := in.(*ssa.Return)
		return ok && (RetNil{}).Match(in) && c24ResultType(ret, 0) == typ
	}}
}

// c24RetFrameFrom: a success return whose first result comes from a call to callee.
func c24RetFrameFrom(callee string) Effect {
	return InstrFn{"return " + callee + "(…)#0, …, nil", func(in ssa.Instruction) bool {
		ret, ok := in.(*ssa.Return)
		return ok && (RetNil{}).Match(in) && strings.HasPrefix(Path(retOperand(ret, 0)), callee+"(")
	}}
}

// c24AssertOf: a type assertion on value `on` to exactly typ (e.g. "*ConnackPacket").
func c24AssertOf(on, typ string) Effect {
	return InstrFn{on + ".(" + typ + ")", func(in ssa.Instruction) bool {
		ta, ok := in.(*ssa.TypeAssert)
		return ok && Path(ta.X) == on && c24TypeName(ta.AssertedType) == typ
	}}
}

func c24IsSlice(t types.Type) bool {
	switch u := t.Underlying().(type) {
	case *types.Slice:
		return true
	case *types.Basic:
		return u.Info()&types.IsString != 0
	}
	return false
}

func c24RetShape(c *Ctx, rule string, fn *ssa.Function, idx int, globs ...string) {
	fname := c.P.Name(fn)
	n := 0
	var bad []string
	for _, in := range instrsMatching(fn, AnyRet{}) {
		ret := in.(*ssa.Return)
		if idx >= len(ret.Results) {
			continue
		}
		n++
		if s := Path(retOperand(ret, idx)); !globAny(globs, s) {
			bad = append(bad, s+" at "+c.P.InstrPos(in))
		}
	}
	construct := fmt.Sprintf("%s#retshape[%d]", fname, idx)
	switch {
	case n == 0:
		c.add("shape", rule, construct, Undecided, c.P.Pos(fn.Pos()), "no return with that result (vacuous)")
	case len(bad) > 0:
		c.add("shape", rule, construct, Violated, c.P.Pos(fn.Pos()), fmt.Sprintf("result %d of %s must be one of %v, found %s", idx, fname, globs, strings.Join(bad, "; ")))
	default:
		c.add("shape", rule, construct, Held, c.P.Pos(fn.Pos()), fmt.Sprintf("%d return(s), result %d always one of %v", n, idx, globs))
	}
}

// c24RetPairShape: whenever result i renders to gi, result j renders to gj.
func c24RetPairShape(c *Ctx, rule string, fn *ssa.Function, i int, gi string, j int, gj string) {
	construct := fmt.Sprintf("%s#ret[%d]=%s⇒ret[%d]=%s", c.P.Name(fn), i, gi, j, gj)
	n := 0
	for _, in := range instrsMatching(fn, Ret{i, gi}) {
		ret := in.(*ssa.Return)
		n++
		if s := Path(retOperand(ret, j)); !glob(gj, s) {
			c.add("shape", rule, construct, Violated, c.P.InstrPos(in), fmt.Sprintf("result %d is %s, must be %s", j, s, gj))
			return
		}
	}
	if n == 0 {
		c.add("shape", rule, construct, Undecided, c.P.Pos(fn.Pos()), "no such return (vacuous)")
		return
	}
	c.add("shape", rule, construct, Held, c.P.Pos(fn.Pos()), fmt.Sprintf("%d return(s)", n))
}

// c24RetPairs: in Decode every return is either (message, probe, nil) or (nil, probe, non-nil error).
func c24RetPairs(c *Ctx, rule string, fn *ssa.Function) {
	construct := c.P.Name(fn) + "#message-xor-error"
	n := 0
	for _, in := range instrsMatching(fn, AnyRet{}) {
		ret := in.(*ssa.Return)
		if len(ret.Results) != 3 {
			continue
		}
		n++
		msgNil := Path(retOperand(ret, 0)) == "nil"
		errNil := (RetNil{}).Match(in)
		if msgNil == errNil {
			c.add("shape", rule, construct, Violated, c.P.InstrPos(in), "a return yields both a message and an error, or neither")
			return
		}
	}
	if n == 0 {
		c.add("shape", rule, construct, Undecided, c.P.Pos(fn.Pos()), "no 3-result return (vacuous)")
		return
	}
	c.add("shape", rule, construct, Held, c.P.Pos(fn.Pos()), fmt.Sprintf("%d return(s), each is message-xor-error (an error operand that is a tested-non-nil value or a fresh error)", n))
}

func c24Calls(fn *ssa.Function, calleeGlob string) []ssa.CallInstruction {
	var out []ssa.CallInstruction
	for _, b := range fn.Blocks {
		for _, in := range b.Instrs {
			if ci, ok := in.(ssa.CallInstruction); ok && glob(calleeGlob, calleeName(ci.Common())) {
				out = append(out, ci)
			}
		}
	}
	return out
}

func c24CallCount(c *Ctx, rule string, fn *ssa.Function, callee string, n int) {
	got := len(c24Calls(fn, callee))
	construct := c.P.Name(fn) + "#callcount:" + callee
	if got != n {
		c.add("shape", rule, construct, Violated, c.P.Pos(fn.Pos()), fmt.Sprintf("%s must call %s exactly %d time(s), found %d", c.P.Name(fn), callee, n, got))
		return
	}
	c.add("shape", rule, construct, Held, c.P.Pos(fn.Pos()), fmt.Sprintf("exactly %d call site(s)", n))
}

// c24AppendsOnly: every append in fn appends exactly the value rendering to `what` (one element, at the end).
func c24AppendsOnly(c *Ctx, rule string, fn *ssa.Function, what string) {
	construct := c.P.Name(fn) + "#append-tail:" + what
	calls := c24Calls(fn, "append")
	if len(calls) != 1 {
		c.add("shape", rule, construct, Violated, c.P.Pos(fn.Pos()), fmt.Sprintf("expected one append, found %d", len(calls)))
		return
	}
	args := calls[0].Common().Args
	ok := len(args) == 2
	if ok {
		// second argument is varargs[:] over a 1-element array whose only element store is `what`
		sl, isSl := args[1].(*ssa.Slice)
		ok = isSl
		if isSl {
			arr, isAlloc := sl.X.(*ssa.Alloc)
			ok = isAlloc
			if isAlloc {
				at, isArr := arr.Type().Underlying().(*types.Pointer).Elem().Underlying().(*types.Array)
				ok = isArr && at.Len() == 1
				for _, r := range *arr.Referrers() {
					if ia, isIA := r.(*ssa.IndexAddr); isIA {
						for _, rr := range *ia.Referrers() {
							if st, isSt := rr.(*ssa.Store); isSt && Path(st.Val) != what {
								ok = false
							}
						}
					}
				}
			}
		}
	}
	if !ok {
		c.add("shape", rule, construct, Violated, c.P.InstrPos(calls[0]), "the queue is not extended by exactly one trailing "+what)
		return
	}
	c.add("shape", rule, construct, Held, c.P.InstrPos(calls[0]), "one append of exactly "+what+" at the tail")
}

// c24ToFrameArms decides, per type-switch arm of ToFrame, what is returned, and the sibling
// agreement with the Decode table.
func c24ToFrameArms(c *Ctx, fn *ssa.Function) {
	fname := c.P.Name(fn)
	table := map[string]c24Arm{}
	for _, a := range c24Arms {
		table[a.typ] = a
	}
	type arm struct {
		ta   *ssa.TypeAssert
		edge edge
	}
	var arms []arm
	for _, b := range fn.Blocks {
		for _, in := range b.Instrs {
			ta, ok := in.(*ssa.TypeAssert)
			if !ok || !ta.CommaOk || Path(ta.X) != "packet" {
				continue
			}
			// the If that tests the ok component
			for _, r := range *ta.Referrers() {
				ex, ok := r.(*ssa.Extract)
				if !ok || ex.Index != 1 {
					continue
				}
				for _, rr := range *ex.Referrers() {
					if iff, ok := rr.(*ssa.If); ok {
						arms = append(arms, arm{ta, edge{iff.Block(), 0}})
					}
				}
			}
		}
	}
	handled := map[string]bool{}
	rets := instrsMatching(fn, RetNil{})
	claimed := map[ssa.Instruction]bool{}
	for _, a := range arms {
		tn := c24TypeName(a.ta.AssertedType)
		handled[tn] = true
		construct := fname + "#arm:" + tn
		row, ok := table[tn]
		if !ok || row.toFrame == "" {
			why := "it is not a type Decode returns (value vs pointer?)"
			if ok {
				why = "the bridge table says it is not bridged: " + row.notFrame
			}
			c.add("exhaust", "R1-siblings", construct, Violated, c.P.InstrPos(a.ta), "ToFrame converts "+tn+" but "+why)
			continue
		}
		limit := reachUnguarded(fn, map[edge]bool{a.edge: true}, nil)
		n := 0
		bad := ""
		for _, r := range rets {
			lim, reach := limit[r.Block()]
			if reach && indexIn(r.Block(), r) < lim {
				continue // reachable without taking this arm: not this arm's return
			}
			n++
			claimed[r] = true
			ret := r.(*ssa.Return)
			fr, id := Path(retOperand(ret, 0)), retOperand(ret, 1)
			if !glob(row.toFrame, fr) {
				bad = fmt.Sprintf("returns frame %s, table says %s", fr, row.toFrame)
			}
			if row.hasID {
				if !glob("*.BaseRequest.ID", Path(id)) || !c24RootedAt(id, a.ta) {
					bad = "does not return the request id of the packet it converted (found " + Path(id) + ")"
				}
			} else if Path(id) != `""` {
				bad = "an id-less notification returns reply token " + Path(id)
			}
			// the frame is built from this arm's packet
			if v := retOperand(ret, 0); !c24BuiltFrom(v, a.ta) {
				bad = "the returned frame is not built from the packet asserted on this arm"
			}
		}
		switch {
		case n == 0:
			c.add("guard", "R1-toframe", construct, Violated, c.P.InstrPos(a.ta), "arm has no success return")
		case bad != "":
			c.add("guard", "R1-toframe", construct, Violated, c.P.InstrPos(a.ta), "arm "+tn+" "+bad)
		default:
			c.add("guard", "R1-toframe", construct, Held, c.P.InstrPos(a.ta), fmt.Sprintf("%d success return(s): frame %s, reply token %s", n, row.toFrame, map[bool]string{true: "the packet's own id", false: `""`}[row.hasID]))
		}
	}
	for _, r := range rets {
		if !claimed[r] {
			c.add("guard", "R1-toframe", fname+"#unowned-return", Violated, c.P.InstrPos(r), "a success return of ToFrame is not inside any type-switch arm")
		}
	}
	var names []string
	for _, a := range c24Arms {
		names = append(names, a.typ)
	}
	sort.Strings(names)
	for _, tn := range names {
		row := table[tn]
		construct := fname + "#decoded:" + tn
		switch {
		case row.toFrame != "" && !handled[tn]:
			c.add("exhaust", "R1-siblings", construct, Violated, c.P.Pos(fn.Pos()), "Decode returns "+tn+" and the bridge table expects a frame for it, but ToFrame has no arm")
		case row.toFrame != "":
			c.add("exhaust", "R1-siblings", construct, Held, c.P.Pos(fn.Pos()), "decoded and converted")
		case handled[tn]:
			// already reported above
		default:
			c.add("exhaust", "R1-siblings", construct, Exception, c.P.Pos(fn.Pos()), "decoded, deliberately not bridged: "+row.notFrame)
		}
	}
	c.Min("R1-siblings", len(c24Arms))
	c.Min("R1-toframe", 5)
}

// c24RootedAt: v is a field path read from the local that holds component 0 of the type assertion ta.
func c24RootedAt(v ssa.Value, ta *ssa.TypeAssert) bool {
	for {
		switch x := v.(type) {
		case *ssa.UnOp:
			if x.Op != token.MUL {
				return false
			}
			v = x.X
		case *ssa.FieldAddr:
			v = x.X
		case *ssa.Field:
			v = x.X
		case *ssa.Convert:
			v = x.X
		case *ssa.ChangeType:
			v = x.X
		case *ssa.MakeInterface:
			v = x.X
		case *ssa.Extract:
			return x.Tuple == ssa.Value(ta) && x.Index == 0
		case *ssa.Alloc:
			n, okStore := 0, false
			for _, r := range *x.Referrers() {
				if st, ok := r.(*ssa.Store); ok && st.Addr == ssa.Value(x) {
					n++
					if ex, ok := st.Val.(*ssa.Extract); ok && ex.Tuple == ssa.Value(ta) && ex.Index == 0 {
						okStore = true
					}
				}
			}
			return n == 1 && okStore
		default:
			return false
		}
	}
}

// c24BuiltFrom: the frame value is a fresh constant packet (no inputs) or the result of a call whose
// arguments are all rooted at this arm's asserted packet.
func c24BuiltFrom(v ssa.Value, ta *ssa.TypeAssert) bool {
	for {
		switch x := v.(type) {
		case *ssa.MakeInterface:
			v = x.X
			continue
		case *ssa.ChangeInterface:
			v = x.X
			continue
		case *ssa.Extract:
			v = x.Tuple
			continue
		case *ssa.Call:
			for _, a := range callArgs(&x.Call) {
				if !c24RootedAt(a, ta) {
					return false
				}
			}
			return true
		case *ssa.Alloc:
			// &T{} with no field stores
			for _, r := range *x.Referrers() {
				switch r.(type) {
				case *ssa.MakeInterface, *ssa.DebugRef:
				default:
					return false
				}
			}
			return true
		}
		return false
	}
}

// c24Literal: fn builds ≥1 composite literal of struct T; each sets every field of T except `exempt`
// (so a new field is reported), and each value renders to the tabled glob.
func c24Literal(c *Ctx, rule string, fn *ssa.Function, structName string, want map[string]string, exempt map[string]string) {
	fname := c.P.Name(fn)
	construct := fname + "#fields→" + structName
	T := c.lookupType(structName)
	if T == nil {
		c.add("anchor", "anchor", structName, Undecided, "", "struct not found in loaded packages")
		return
	}
	all := structFields(T)
	have := map[string]bool{}
	for _, f := range all {
		have[f] = true
	}
	for f := range want {
		if !have[f] {
			c.add("anchor", "anchor", structName+"."+f, Undecided, "", "tabled field no longer exists")
			return
		}
	}
	lits := map[*ssa.Alloc]map[string]string{}
	for _, b := range fn.Blocks {
		for _, in := range b.Instrs {
			st, ok := in.(*ssa.Store)
			if !ok {
				continue
			}
			fa, ok := st.Addr.(*ssa.FieldAddr)
			if !ok {
				continue
			}
			a, ok := fa.X.(*ssa.Alloc)
			if !ok || !sameNamed(a.Type(), T) || spilledParam(a) != nil {
				continue
			}
			if lits[a] == nil {
				lits[a] = map[string]string{}
			}
			f := fieldName(fa.X.Type(), fa.Field)
			if prev, dup := lits[a][f]; dup && prev != Path(st.Val) {
				lits[a][f] = prev + " / " + Path(st.Val)
			} else {
				lits[a][f] = Path(st.Val)
			}
		}
	}
	if len(lits) == 0 {
		c.add("cover", rule, construct, Undecided, c.P.Pos(fn.Pos()), "no composite literal of "+structName+" in "+fname+" (vacuous)")
		return
	}
	var bad []string
	for _, set := range lits {
		for _, f := range all {
			if _, ex := exempt[f]; ex {
				if v, isSet := set[f]; isSet {
					bad = append(bad, fmt.Sprintf("%s is exempt (%s) but is now set to %s: drop the exemption and table the pair", f, exempt[f], v))
				}
				continue
			}
			g, tabled := want[f]
			v, isSet := set[f]
			switch {
			case !tabled && !isSet:
				bad = append(bad, fmt.Sprintf("new field %s of %s has no counterpart in the converter (table a pair or an exemption)", f, structName))
			case !tabled:
				bad = append(bad, fmt.Sprintf("field %s is set to %s but has no tabled pair", f, v))
			case !isSet:
				bad = append(bad, fmt.Sprintf("field %s is not set (expected %s)", f, g))
			case !glob(g, v):
				bad = append(bad, fmt.Sprintf("field %s is set from %s, expected %s", f, v, g))
			}
		}
	}
	if len(bad) > 0 {
		sort.Strings(bad)
		c.add("cover", rule, construct, Violated, c.P.Pos(fn.Pos()), strings.Join(dedup(bad), "; "))
		return
	}
	c.add("cover", rule, construct, Held, c.P.Pos(fn.Pos()), fmt.Sprintf("%d literal(s); %d field(s) each set from its tabled source; %d exempt", len(lits), len(want), len(exempt)))
}

// c24Fields: converter fnName builds dst from src: literal completeness + pair table on dst, and
// every field of the src struct (minus srcExempt) is read.
func c24Fields(c *Ctx, fnName, dst, srcRoot, src string, pairs map[string]string, dstExempt, srcExempt map[string]string) {
	fn := c.Fn(fnName)
	if fn == nil {
		return
	}
	c24Literal(c, "R2-fields", fn, dst, pairs, dstExempt)
	if srcExempt == nil {
		srcExempt = map[string]string{}
	}
	c.Cover("R2-fields", []*ssa.Function{fn}, src, srcExempt)
	_ = srcRoot
}

// c24FlagBits: in fn every `if recv.F` arm ORs exactly the tabled frame constant into the result,
// and the result is the accumulation of all arms.
func c24FlagBits(c *Ctx, rule string, fn *ssa.Function, recv string, bits map[string]string) {
	construct := c.P.Name(fn) + "#flag-bits"
	got := map[string]string{}
	for _, b := range fn.Blocks {
		if len(b.Instrs) == 0 {
			continue
		}
		iff, ok := b.Instrs[len(b.Instrs)-1].(*ssa.If)
		if !ok {
			continue
		}
		cond := Path(iff.Cond)
		if !strings.HasPrefix(cond, recv+".") {
			continue
		}
		f := strings.TrimPrefix(cond, recv+".")
		var ors []string
		for _, in := range b.Succs[0].Instrs {
			if bo, ok := in.(*ssa.BinOp); ok && bo.Op == token.OR {
				if k, ok := bo.Y.(*ssa.Const); ok && k.Value != nil {
					ors = append(ors, k.Value.ExactString())
				} else {
					ors = append(ors, "?"+Path(bo.Y))
				}
			}
		}
		got[f] = strings.Join(ors, "+")
	}
	var bad []string
	for f, kname := range bits {
		want := c24Const(c, "pkg/protocol/frame", kname)
		if got[f] != want {
			bad = append(bad, fmt.Sprintf("flag %s sets bit(s) [%s], must set %s (%s)", f, got[f], kname, want))
		}
	}
	for f := range got {
		if _, ok := bits[f]; !ok {
			bad = append(bad, "untabled flag "+f)
		}
	}
	// the returned value must depend on every OR (phi chain): each OR has a referrer
	for _, b := range fn.Blocks {
		for _, in := range b.Instrs {
			if bo, ok := in.(*ssa.BinOp); ok && bo.Op == token.OR && !hasRealReferrers(bo) {
				bad = append(bad, "an OR-ed bit is discarded")
			}
		}
	}
	if len(bad) > 0 {
		sort.Strings(bad)
		c.add("cover", rule, construct, Violated, c.P.Pos(fn.Pos()), strings.Join(bad, "; "))
		return
	}
	c.add("cover", rule, construct, Held, c.P.Pos(fn.Pos()), fmt.Sprintf("%d flags, each ORs its own frame.Setting bit", len(bits)))
}

// c24NoPanic scans fn (and its closures) for instructions that can panic on hostile input.
func c24NoPanic(c *Ctx, rule string, fn *ssa.Function) {
	fname := c.P.Name(fn)
	var bad []string
	constIdx := func(v ssa.Value, n int64) bool {
		k, ok := v.(*ssa.Const)
		if !ok || k.Value == nil {
			return false
		}
		i, ok := constant.Int64Val(k.Value)
		return ok && i >= 0 && i < n
	}
	for _, f := range WithClosures(fn) {
		for _, b := range f.Blocks {
			for _, in := range b.Instrs {
				why := ""
				switch x := in.(type) {
				case *ssa.Panic:
					why = "explicit panic"
				case *ssa.TypeAssert:
					if !x.CommaOk {
						why = "single-value type assertion " + Path(x)
					}
				case *ssa.IndexAddr:
					ok := false
					if p, isP := x.X.Type().Underlying().(*types.Pointer); isP {
						if at, isA := p.Elem().Underlying().(*types.Array); isA && constIdx(x.Index, at.Len()) {
							ok = true
						}
					}
					if !ok && !c24LenGuarded(f, in, x.X) {
						why = "index " + Path(x) + " without a dominating length check"
					}
				case *ssa.Index:
					if at, isA := x.X.Type().Underlying().(*types.Array); !isA || !constIdx(x.Index, at.Len()) {
						why = "index " + Path(x)
					}
				case *ssa.Lookup:
					if c24IsSlice(x.X.Type()) && !c24LenGuarded(f, in, x.X) {
						why = "string index " + Path(x) + " without a dominating length check"
					}
				case *ssa.Slice:
					if _, isP := x.X.Type().Underlying().(*types.Pointer); isP && x.Low == nil && x.High == nil {
						break // arr[:]
					}
					if c24IsSlice(x.X.Type()) && x.Low == nil && x.High == nil && x.Max == nil {
						break
					}
					why = "slice expression " + Path(x)
				case *ssa.BinOp:
					if x.Op == token.QUO || x.Op == token.REM {
						if b, isB := x.X.Type().Underlying().(*types.Basic); isB && b.Info()&types.IsInteger != 0 {
							if k, isK := x.Y.(*ssa.Const); !isK || k.Value == nil || constant.Sign(k.Value) == 0 {
								why = "integer division by a non-constant " + Path(x)
							}
						}
					}
				case *ssa.UnOp:
					if x.Op == token.MUL && c24OptionalPtr(x.X) && !c24NilGuarded(f, in, x.X) {
						why = "dereference of optional pointer " + Path(x.X) + " without a dominating nil check"
					}
				case *ssa.FieldAddr:
					if c24OptionalPtr(x.X) && !c24NilGuarded(f, in, x.X) {
						why = "field access through optional pointer " + Path(x.X) + " without a dominating nil check"
					}
				case *ssa.MapUpdate:
					if c24OptionalPtr(x.Map) {
						why = "write to a map loaded from a field (may be nil)"
					}
				}
				if why != "" {
					bad = append(bad, why+" at "+c.P.InstrPos(in))
				}
			}
		}
	}
	construct := fname + "#no-panic-sites"
	if len(bad) > 0 {
		c.add("decodesafe", rule, construct, Violated, c.P.Pos(fn.Pos()), strings.Join(bad, "; "))
		return
	}
	c.add("decodesafe", rule, construct, Held, c.P.Pos(fn.Pos()), "no panic, single-value assertion, unchecked index/slice, integer division or optional-pointer dereference")
}

// c24OptionalPtr: v is a pointer (or map) that was loaded from a struct field, extracted from a
// type assertion / call result, i.e. one that input can leave nil.
func c24OptionalPtr(v ssa.Value) bool {
	switch v.Type().Underlying().(type) {
	case *types.Pointer, *types.Map:
	default:
		return false
	}
	switch x := v.(type) {
	case *ssa.UnOp:
		if x.Op == token.MUL {
			switch y := x.X.(type) {
			case *ssa.FieldAddr:
				return true
			case *ssa.Alloc:
				// a local pointer variable: optional if some store into it is itself optional
				for _, r := range *y.Referrers() {
					if st, ok := r.(*ssa.Store); ok && st.Addr == ssa.Value(y) && c24OptionalPtr(st.Val) {
						return true
					}
				}
			}
		}
	case *ssa.Field:
		return true
	case *ssa.Extract:
		_, isTA := x.Tuple.(*ssa.TypeAssert)
		return isTA
	case *ssa.TypeAssert:
		return true
	case *ssa.Phi:
		for _, e := range x.Edges {
			if k, ok := e.(*ssa.Const); ok && k.Value == nil {
				return true
			}
			if c24OptionalPtr(e) {
				return true
			}
		}
	}
	return false
}

func c24Dominated(fn *ssa.Function, in ssa.Instruction, spec string) bool {
	g := parseGuard(spec)
	removed, _ := guardEdges(fn, g)
	limit := reachUnguarded(fn, removed, nil)
	lim, reach := limit[in.Block()]
	return !reach || indexIn(in.Block(), in) >= lim
}

func c24NilGuarded(fn *ssa.Function, in ssa.Instruction, ptr ssa.Value) bool {
	return c24Dominated(fn, in, Path(ptr)+" != nil")
}

func c24LenGuarded(fn *ssa.Function, in ssa.Instruction, x ssa.Value) bool {
	p := Path(x)
	return c24Dominated(fn, in, "len("+p+") != 0 || len("+p+") > *")
}

// c24CalleesWithin: every function of the bridge packages (`scope` globs) called statically from the
// inbound set is itself in the set, or in `also` (with the reason in the rule table), so the scan
// has no hole inside the bridge.
func c24CalleesWithin(c *Ctx, rule string, fns []*ssa.Function, scope []string, also []string) {
	in := map[string]bool{}
	for _, f := range fns {
		in[c.P.Name(f)] = true
	}
	var bad []string
	for _, f := range fns {
		for _, g := range WithClosures(f) {
			for _, b := range g.Blocks {
				for _, ins := range b.Instrs {
					ci, ok := ins.(ssa.CallInstruction)
					if !ok {
						continue
					}
					callee := ci.Common().StaticCallee()
					if callee == nil || callee.Pkg == nil {
						continue
					}
					n := funcShortName(callee)
					if !globAny(scope, n) {
						continue // other packages (logging, std, frame accessors) are outside this scan
					}
					if !in[n] && !in[rootName(n)] && !globAny(also, n) {
						bad = append(bad, fmt.Sprintf("%s calls %s", c.P.Name(f), n))
					}
				}
			}
		}
	}
	construct := "inbound-closure"
	if len(bad) > 0 {
		sort.Strings(bad)
		c.add("decodesafe", rule, construct, Violated, "", "inbound functions call bridge functions that are not scanned for panic sites: "+strings.Join(dedup(bad), "; "))
		return
	}
	c.add("decodesafe", rule, construct, Held, "", fmt.Sprintf("%d inbound functions; every statically called function of the bridge packages is scanned too", len(fns)))
}
