package main

import (
	"fmt"
	"go/token"
	"go/types"

	"golang.org/x/tools/go/ssa"
)

// Extra C29 rules added after the seeded changes C29-a and C29-c.
//
// Both seeds break the same mechanism - in-batch coalescing keeps TWO index spaces: the input
// (one slot per accepted caller) and the unique slice batch.items (one slot per storage record).
// They coincide only while batch.items still aliases the input (ownerByItem == nil).
//
//	R6-ownerspace  every position written to the owner table (`seen`) - the table whose hits index
//	               batch.items and become ownerByItem entries - is a position of the UNIQUE slice:
//	               the input index only on a path that established `ownerByItem == nil` in this very
//	               iteration, `len(batch.items)` only on a path that established `ownerByItem != nil`,
//	               and every `len(batch.items)` recorded as a position (table or ownerByItem) is read
//	               before the current item is appended in this iteration.
//	R7-expand      every completion list computed over batch.items (unique space) is handed to the
//	               caller only through batch.expandCompletions of that same batch, and after the batch
//	               was built every return of appendEffect.run has emitted completions for it.
func init() {
	const ap = "internal/runtime/channelappend/append.go"
	extend("C29", nil, func(c *Ctx) {
		xc29OwnerSpace(c, "R6-ownerspace", c.Fn(c29A+"newIdempotentAppendBatch"))
		run := c.Fn(c29A + "appendEffect.run")
		xc29UniqueCompletionsExpanded(c, "R7-expand", run)
		c.FollowedBy("R7-expand", run, CallTo{c29A + "newIdempotentAppendBatch"},
			InstrFn{"appendCompletedEvent.items = …", func(in ssa.Instruction) bool {
				st, ok := in.(*ssa.Store)
				if !ok {
					return false
				}
				fa, ok := st.Addr.(*ssa.FieldAddr)
				return ok && ownerTypeName(fa.X.Type()) == "appendCompletedEvent" && fieldName(fa.X.Type(), fa.Field) == "items"
			}})
	},
		// --- R6 ---
		Mutant{Name: "x-owner-recorded-as-input-index", File: ap,
			Old:    "\t\t\tif batch.ownerByItem == nil {\n\t\t\t\tseen[key] = index\n\t\t\t} else {\n\t\t\t\tseen[key] = len(batch.items)\n\t\t\t}\n",
			New:    "\t\t\tseen[key] = index\n",
			Expect: "C29/R6-ownerspace/*owner-table*"},
		Mutant{Name: "x-owner-recorded-as-len-always", File: ap,
			Old:    "\t\t\tif batch.ownerByItem == nil {\n\t\t\t\tseen[key] = index\n\t\t\t} else {\n\t\t\t\tseen[key] = len(batch.items)\n\t\t\t}\n",
			New:    "\t\t\tseen[key] = len(batch.items)\n",
			Expect: "C29/R6-ownerspace/*owner-table*"},
		Mutant{Name: "x-owner-space-test-inverted", File: ap,
			Old:    "\t\t\tif batch.ownerByItem == nil {\n\t\t\t\tseen[key] = index\n\t\t\t} else {",
			New:    "\t\t\tif batch.ownerByItem != nil {\n\t\t\t\tseen[key] = index\n\t\t\t} else {",
			Expect: "C29/R6-ownerspace/*owner-table*"},
		Mutant{Name: "x-owner-recorded-after-append", File: ap,
			Old: "\t\tif !exists {\n\t\t\tif batch.ownerByItem == nil {\n\t\t\t\tseen[key] = index\n\t\t\t} else {\n\t\t\t\tseen[key] = len(batch.items)\n\t\t\t}\n\t\t}\n" +
				"\t\tif batch.ownerByItem != nil {\n\t\t\tbatch.ownerByItem[index] = len(batch.items)\n\t\t\tbatch.items = append(batch.items, item)\n\t\t}\n",
			New: "\t\tif batch.ownerByItem != nil {\n\t\t\tbatch.ownerByItem[index] = len(batch.items)\n\t\t\tbatch.items = append(batch.items, item)\n\t\t}\n" +
				"\t\tif !exists {\n\t\t\tif batch.ownerByItem == nil {\n\t\t\t\tseen[key] = index\n\t\t\t} else {\n\t\t\t\tseen[key] = len(batch.items)\n\t\t\t}\n\t\t}\n",
			Expect: "C29/R6-ownerspace/*position-read-before-append"},
		Mutant{Name: "x-self-owner-read-after-append", File: ap,
			Old:    "\t\tif batch.ownerByItem != nil {\n\t\t\tbatch.ownerByItem[index] = len(batch.items)\n\t\t\tbatch.items = append(batch.items, item)\n\t\t}\n\t}\n\treturn batch",
			New:    "\t\tif batch.ownerByItem != nil {\n\t\t\tbatch.items = append(batch.items, item)\n\t\t\tbatch.ownerByItem[index] = len(batch.items)\n\t\t}\n\t}\n\treturn batch",
			Expect: "C29/R6-ownerspace/*position-read-before-append"},
		// --- R7 ---
		Mutant{Name: "x-error-path-not-expanded", File: ap,
			Old:    "completion.items = append(completion.items, batch.expandCompletions(unique)...)",
			New:    "completion.items = append(completion.items, unique...)",
			Expect: "C29/R7-expand/*unique-completions*"},
		Mutant{Name: "x-success-path-not-expanded", File: ap,
			Old:    "completion.items = append(completion.items, batch.expandCompletions(appendResultCompletions(batch.items, res))...)",
			New:    "completion.items = append(completion.items, appendResultCompletions(batch.items, res)...)",
			Expect: "C29/R7-expand/*unique-completions*"},
		Mutant{Name: "x-error-path-returns-without-completions", File: ap,
			Old:    "\t\tunique, retryDur, recovery := appendBatchErrorCompletionsOrRecoveriesAndRetry(runtimeCtx, e.target, batch.items, err, ports)\n",
			New:    "\t\tif errors.Is(err, context.Canceled) {\n\t\t\treturn completion\n\t\t}\n\t\tunique, retryDur, recovery := appendBatchErrorCompletionsOrRecoveriesAndRetry(runtimeCtx, e.target, batch.items, err, ports)\n",
			Expect: "C29/R7-expand/*newIdempotentAppendBatch→*"},
	)
}

// xc29BatchField: v is a read of field `field` of an idempotentAppendBatch; returns the batch it is read from.
func xc29BatchField(v ssa.Value, field string) (ssa.Value, bool) {
	switch x := stripConv(v).(type) {
	case *ssa.UnOp:
		if x.Op != token.MUL {
			return nil, false
		}
		if fa, ok := x.X.(*ssa.FieldAddr); ok && ownerTypeName(fa.X.Type()) == "idempotentAppendBatch" && fieldName(fa.X.Type(), fa.Field) == field {
			return fa.X, true
		}
	case *ssa.Field:
		if ownerTypeName(x.X.Type()) == "idempotentAppendBatch" && fieldName(x.X.Type(), x.Field) == field {
			return x.X, true
		}
	}
	return nil, false
}

// xc29BatchFieldStore: in stores to field `field` of an idempotentAppendBatch, or replaces a whole batch.
func xc29BatchFieldStore(in ssa.Instruction, field string) bool {
	st, ok := in.(*ssa.Store)
	if !ok {
		return false
	}
	if fa, ok := st.Addr.(*ssa.FieldAddr); ok {
		return ownerTypeName(fa.X.Type()) == "idempotentAppendBatch" && fieldName(fa.X.Type(), fa.Field) == field
	}
	if a, ok := st.Addr.(*ssa.Alloc); ok {
		return typeBaseName(a.Type()) == "idempotentAppendBatch"
	}
	return false
}

// xc29NextUniquePos: v is len(<batch>.items), the position the next appended item will get.
func xc29NextUniquePos(v ssa.Value) (*ssa.Call, bool) {
	call, ok := c29Origin(v).(*ssa.Call)
	if !ok {
		return nil, false
	}
	if b, ok := call.Call.Value.(*ssa.Builtin); !ok || b.Name() != "len" || len(call.Call.Args) != 1 {
		return nil, false
	}
	if _, ok := xc29BatchField(call.Call.Args[0], "items"); !ok {
		return nil, false
	}
	return call, true
}

// xc29InputIndex: v indexes a []preparedSend parameter of fn (a position of the input slice).
func xc29InputIndex(fn *ssa.Function, v ssa.Value) bool {
	v = c29Origin(v)
	refs := v.Referrers()
	if refs == nil {
		return false
	}
	isInput := func(x ssa.Value) bool {
		p, ok := x.(*ssa.Parameter)
		if !ok {
			if a, isAlloc := x.(*ssa.Alloc); isAlloc {
				if sp := spilledParam(a); sp != nil {
					p, ok = sp.(*ssa.Parameter)
				}
			} else if u, isLoad := x.(*ssa.UnOp); isLoad {
				if a, isAlloc := u.X.(*ssa.Alloc); isAlloc {
					if sp := spilledParam(a); sp != nil {
						p, ok = sp.(*ssa.Parameter)
					}
				}
			}
		}
		if !ok || p == nil {
			return false
		}
		sl, isSlice := p.Type().Underlying().(*types.Slice)
		return isSlice && typeBaseName(sl.Elem()) == "preparedSend"
	}
	for _, r := range *refs {
		switch x := r.(type) {
		case *ssa.IndexAddr:
			if stripConv(x.Index) == v && isInput(x.X) {
				return true
			}
		case *ssa.Index:
			if stripConv(x.Index) == v && isInput(x.X) {
				return true
			}
		}
	}
	return false
}

// xc29LoopHeadersAround: headers of the loops that contain b (blocks that dominate b and have a back edge).
func xc29LoopHeadersAround(fn *ssa.Function, b *ssa.BasicBlock) map[*ssa.BasicBlock]bool {
	out := map[*ssa.BasicBlock]bool{}
	for _, h := range fn.Blocks {
		if h == fn.Recover || !h.Dominates(b) {
			continue
		}
		for _, p := range h.Preds {
			if h.Dominates(p) {
				out[h] = true
			}
		}
	}
	return out
}

// xc29Backward walks every CFG path backwards from just before `start` to the start of the current
// loop iteration (or the function entry). Crossing an edge in `guards` ends a path successfully. An
// instruction matching kill ends it with a failure. Reaching the iteration start ends it with a
// failure iff startIsBad. Returns "" when every path is fine.
func xc29Backward(c *Ctx, fn *ssa.Function, start ssa.Instruction, guards map[edge]bool, kill func(ssa.Instruction) bool, startIsBad bool) string {
	stops := xc29LoopHeadersAround(fn, start.Block())
	seen := map[*ssa.BasicBlock]bool{}
	var walk func(b *ssa.BasicBlock, from int) string
	walk = func(b *ssa.BasicBlock, from int) string {
		for i := from - 1; i >= 0; i-- {
			if kill(b.Instrs[i]) {
				return "preceded on a path of the same iteration by the write at " + c.P.InstrPos(b.Instrs[i])
			}
		}
		if len(b.Preds) == 0 || stops[b] {
			if startIsBad {
				return "reachable from the start of the iteration without establishing the fact"
			}
			return ""
		}
		for _, p := range b.Preds {
			open := false
			for si, s := range p.Succs {
				if s == b && !guards[edge{p, si}] {
					open = true
				}
			}
			if !open || seen[p] {
				continue
			}
			seen[p] = true
			if why := walk(p, len(p.Instrs)); why != "" {
				return why
			}
		}
		return ""
	}
	return walk(start.Block(), indexIn(start.Block(), start))
}

// xc29OwnerSpace: see R6-ownerspace above.
func xc29OwnerSpace(c *Ctx, rule string, fn *ssa.Function) {
	if fn == nil {
		return
	}
	fromTable := func(v ssa.Value) (ssa.Value, bool) { // v is the value component of a comma-ok map lookup
		ex, ok := c29Origin(v).(*ssa.Extract)
		if !ok || ex.Index != 0 {
			return nil, false
		}
		lk, ok := ex.Tuple.(*ssa.Lookup)
		if !ok || !lk.CommaOk {
			return nil, false
		}
		return c29Origin(lk.X), true
	}
	// 1. the owner table(s): maps whose hits index <batch>.items or become ownerByItem entries
	tables := map[ssa.Value]bool{}
	for _, b := range fn.Blocks {
		for _, in := range b.Instrs {
			switch x := in.(type) {
			case *ssa.IndexAddr:
				if _, ok := xc29BatchField(x.X, "items"); ok {
					if m, ok := fromTable(x.Index); ok {
						tables[m] = true
					}
				}
			case *ssa.Store:
				if ia, ok := x.Addr.(*ssa.IndexAddr); ok {
					if _, ok := xc29BatchField(ia.X, "ownerByItem"); ok {
						if m, ok := fromTable(x.Val); ok {
							tables[m] = true
						}
					}
				}
			}
		}
	}
	aliased, _ := guardEdges(fn, parseGuard("*.ownerByItem == nil"))
	split, _ := guardEdges(fn, parseGuard("*.ownerByItem != nil"))
	killMode := func(in ssa.Instruction) bool { return xc29BatchFieldStore(in, "ownerByItem") }
	killItems := func(in ssa.Instruction) bool { return xc29BatchFieldStore(in, "items") }

	var bad, badPos []string
	n, nPos := 0, 0
	checkPos := func(call *ssa.Call, what string) {
		nPos++
		if why := xc29Backward(c, fn, call, nil, killItems, false); why != "" {
			badPos = append(badPos, fmt.Sprintf("the len(items) recorded as %s at %s is %s", what, c.P.InstrPos(call), why))
		}
	}
	var classify func(at ssa.Instruction, v ssa.Value, via *edge, depth int)
	classify = func(at ssa.Instruction, v ssa.Value, via *edge, depth int) {
		behind := func(guards map[edge]bool) string {
			if via != nil && guards[*via] {
				return ""
			}
			return xc29Backward(c, fn, at, guards, killMode, true)
		}
		if call, ok := xc29NextUniquePos(v); ok {
			if why := behind(split); why != "" {
				bad = append(bad, fmt.Sprintf("table write at %s records len(items), which is the item's unique position only once coalescing is active (ownerByItem != nil): %s", c.P.InstrPos(at), why))
			}
			checkPos(call, "an owner-table entry")
			return
		}
		if xc29InputIndex(fn, v) {
			if why := behind(aliased); why != "" {
				bad = append(bad, fmt.Sprintf("table write at %s records the INPUT index, which is a position of the unique slice only while it still aliases the input (ownerByItem == nil): %s", c.P.InstrPos(at), why))
			}
			return
		}
		if phi, ok := c29Origin(v).(*ssa.Phi); ok && depth < 3 {
			// a merged value: each incoming value must be right at the end of its own predecessor
			for k, e := range phi.Edges {
				pred := phi.Block().Preds[k]
				var via *edge
				for si, s := range pred.Succs {
					if s == phi.Block() {
						via = &edge{pred, si}
					}
				}
				classify(pred.Instrs[len(pred.Instrs)-1], e, via, depth+1)
			}
			return
		}
		bad = append(bad, fmt.Sprintf("table write at %s records %s, which is neither the input index nor len(items)", c.P.InstrPos(at), Path(v)))
	}
	for _, b := range fn.Blocks {
		for _, in := range b.Instrs {
			switch x := in.(type) {
			case *ssa.MapUpdate:
				if tables[c29Origin(x.Map)] {
					n++
					classify(in, x.Value, nil, 0)
				}
			case *ssa.Store:
				if ia, ok := x.Addr.(*ssa.IndexAddr); ok {
					if _, ok := xc29BatchField(ia.X, "ownerByItem"); ok {
						if call, ok := xc29NextUniquePos(x.Val); ok {
							checkPos(call, "the item's own ownerByItem entry")
						}
					}
				}
			}
		}
	}
	if len(tables) == 0 {
		c.add("flow", rule, c.P.Name(fn)+"#owner-table-records-unique-positions", Undecided, c.P.Pos(fn.Pos()), "no map whose hits index batch.items / feed ownerByItem was found (the coalescing bookkeeping changed shape)")
	} else {
		c29Result(c, "flow", rule, c.P.Name(fn)+"#owner-table-records-unique-positions", fn, n, dedup(bad),
			fmt.Sprintf("%d write(s) to the owner table: input index only behind ownerByItem == nil, len(items) only behind ownerByItem != nil (fact established in the same iteration, mode not changed in between)", n))
	}
	c29Result(c, "order", rule, c.P.Name(fn)+"#position-read-before-append", fn, nPos, dedup(badPos),
		fmt.Sprintf("%d recorded len(items) position(s), each read before any write of items in the same iteration", nPos))
}

// xc29UniqueCompletionsExpanded: in fn, a []appendItemCompletion computed by a call over <batch>.items has
// one entry per UNIQUE record; it may only be passed to <same batch>.expandCompletions (or measured with
// len/cap, or read element-wise). Appending, storing, returning or passing it elsewhere loses the
// completions of the coalesced callers. Element-wise re-packing is not tracked.
func xc29UniqueCompletionsExpanded(c *Ctx, rule string, fn *ssa.Function) {
	if fn == nil {
		return
	}
	isCompletions := func(t types.Type) bool {
		sl, ok := t.Underlying().(*types.Slice)
		return ok && typeBaseName(sl.Elem()) == "appendItemCompletion"
	}
	sameBatch := func(recv, base ssa.Value) bool {
		recv = stripConv(recv)
		if recv == base {
			return true
		}
		if u, ok := recv.(*ssa.UnOp); ok && u.Op == token.MUL && u.X == base {
			return true
		}
		return false
	}
	var bad []string
	n := 0
	for _, b := range fn.Blocks {
		for _, in := range b.Instrs {
			call, ok := in.(*ssa.Call)
			if !ok {
				continue
			}
			var base ssa.Value
			for _, a := range call.Call.Args {
				if bs, ok := xc29BatchField(a, "items"); ok {
					base = bs
				}
			}
			if base == nil {
				continue
			}
			var roots []ssa.Value
			if isCompletions(call.Type()) {
				roots = append(roots, call)
			} else if tup, ok := call.Type().(*types.Tuple); ok && call.Referrers() != nil {
				for _, r := range *call.Referrers() {
					if ex, ok := r.(*ssa.Extract); ok && isCompletions(tup.At(ex.Index).Type()) {
						roots = append(roots, ex)
					}
				}
			}
			if len(roots) == 0 {
				continue
			}
			n++
			name := calleeName(&call.Call)
			seen := map[ssa.Value]bool{}
			work := roots
			for len(work) > 0 {
				v := work[len(work)-1]
				work = work[:len(work)-1]
				if seen[v] || v.Referrers() == nil {
					continue
				}
				seen[v] = true
				for _, r := range *v.Referrers() {
					switch x := r.(type) {
					case *ssa.DebugRef, *ssa.IndexAddr, *ssa.Index, *ssa.Range:
					case *ssa.Phi:
						work = append(work, x)
					case *ssa.ChangeType:
						work = append(work, x)
					case *ssa.Slice:
						work = append(work, x)
					case *ssa.Store:
						a, isLocal := x.Addr.(*ssa.Alloc)
						if x.Val != v || !isLocal || a.Heap {
							bad = append(bad, fmt.Sprintf("the per-unique-record completions of %s are stored to %s at %s without expandCompletions", name, Path(x.Addr), c.P.InstrPos(x)))
							continue
						}
						for _, ar := range *a.Referrers() {
							if ld, ok := ar.(*ssa.UnOp); ok && ld.Op == token.MUL {
								work = append(work, ld)
							}
						}
					case ssa.CallInstruction:
						cc := x.Common()
						if bi, ok := cc.Value.(*ssa.Builtin); ok && (bi.Name() == "len" || bi.Name() == "cap") {
							continue
						}
						args := callArgs(cc)
						if calleeName(cc) == c29A+"idempotentAppendBatch.expandCompletions" && len(args) == 2 && stripConv(args[1]) == v && sameBatch(args[0], base) {
							continue
						}
						bad = append(bad, fmt.Sprintf("the per-unique-record completions of %s are passed to %s at %s instead of being expanded back to one completion per caller by the same batch", name, calleeName(cc), c.P.InstrPos(x)))
					case *ssa.Return:
						bad = append(bad, fmt.Sprintf("the per-unique-record completions of %s are returned unexpanded at %s", name, c.P.InstrPos(x)))
					default:
						bad = append(bad, fmt.Sprintf("the per-unique-record completions of %s are used by %T at %s without expandCompletions", name, r, c.P.InstrPos(r)))
					}
				}
			}
		}
	}
	c29Result(c, "flow", rule, c.P.Name(fn)+"#unique-completions-only-via-expandCompletions", fn, n, dedup(bad),
		fmt.Sprintf("%d completion list(s) computed over batch.items, each consumed only by expandCompletions of the same batch", n))
}
